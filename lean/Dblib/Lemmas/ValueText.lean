/-
Text lemmas for UNITEXT (C04 / C05): what `Bytes` / `GoValue` do on strings whose code points are all
≤ U+00FF (the region where the byte-wise layout of the current code happens to round-trip).
-/
import Dblib.Lemmas.ValueArms

namespace Dblib.Lemmas.ValueText
open Dblib Dblib.Value Dblib.Gen Dblib.Lemmas.ValueBytes Dblib.Lemmas.ValueArms

theorem u8_of_lt (c : Nat) (h : c < 256) : (UInt8.ofNat c).toNat = c := by
  simp only [UInt8.toNat_ofNat', Nat.reducePow]; omega

theorem utf8DecAux_cons (b0 : UInt8) (rest : Bytes) :
    utf8DecAux 0 (b0 :: rest) = (decodeRune b0.toNat rest).1 :: utf8DecAux (decodeRune b0.toNat rest).2 rest := rfl

theorem decodeRune_ascii (b0 : Nat) (rest : Bytes) (h : b0 < 0x80) : decodeRune b0 rest = (b0, 0) := by
  unfold decodeRune; rw [if_pos h]

theorem decodeRune_two (b0 : Nat) (b1 : UInt8) (rest : Bytes) (h0 : 0xC2 ≤ b0 ∧ b0 ≤ 0xDF)
    (h1 : 0x80 ≤ b1.toNat ∧ b1.toNat ≤ 0xBF) :
    decodeRune b0 (b1 :: rest) = ((b0 - 0xC0) * 64 + (b1.toNat - 0x80), 1) := by
  unfold decodeRune
  have hc : isCont b1.toNat = true := by simp [isCont]; omega
  rw [if_neg (by omega), if_pos (by simp; omega)]
  simp only [hc, if_true]

/-- decoding the UTF-8 encoding of a code point ≤ U+00FF -/
theorem utf8Dec_enc_latin1 (c : Nat) (h : c < 256) (rest : Bytes) :
    utf8DecAux 0 (utf8Enc c ++ rest) = c :: utf8DecAux 0 rest := by
  have hs : isSurrogate c = false := by simp [isSurrogate]; omega
  have hgt : ¬ c > 0x10FFFF := by omega
  by_cases h7 : c < 0x80
  · have e : utf8Enc c = [UInt8.ofNat c] := by simp [utf8Enc, hs, hgt, h7]
    rw [e, List.singleton_append, utf8DecAux_cons, u8_of_lt c h, decodeRune_ascii c rest h7]
  · have e : utf8Enc c = [UInt8.ofNat (0xC0 + c / 64), UInt8.ofNat (0x80 + c % 64)] := by
      have : c < 0x800 := by omega
      simp [utf8Enc, hs, hgt, h7, this]
    have e0 : (UInt8.ofNat (0xC0 + c / 64)).toNat = 0xC0 + c / 64 := u8_of_lt _ (by omega)
    have e1 : (UInt8.ofNat (0x80 + c % 64)).toNat = 0x80 + c % 64 := u8_of_lt _ (by omega)
    rw [e]
    show utf8DecAux 0 (UInt8.ofNat (0xC0 + c / 64) :: UInt8.ofNat (0x80 + c % 64) :: rest) = _
    rw [utf8DecAux_cons, e0, decodeRune_two _ _ _ (by omega) (by rw [e1]; omega), e1]
    show ((0xC0 + c / 64 - 0xC0) * 64 + (0x80 + c % 64 - 0x80)) ::
      utf8DecAux 1 (UInt8.ofNat (0x80 + c % 64) :: rest) = _
    rw [show utf8DecAux 1 (UInt8.ofNat (0x80 + c % 64) :: rest) = utf8DecAux 0 rest from rfl]
    have : (0xC0 + c / 64 - 0xC0) * 64 + (0x80 + c % 64 - 0x80) = c := by omega
    rw [this]

theorem utf8Dec_encAll_latin1 (cps : List Nat) (h : ∀ c ∈ cps, c < 256) : utf8Dec (utf8EncAll cps) = cps := by
  induction cps with
  | nil => rfl
  | cons c cs ih =>
    have hc := h c (by simp)
    have hcs : ∀ c ∈ cs, c < 256 := fun x hx => h x (by simp [hx])
    simp only [utf8Dec, utf8EncAll, List.map_cons, List.flatten_cons] at ih ⊢
    rw [utf8Dec_enc_latin1 c hc, ih hcs]

theorem utf16EncAll_latin1 (cps : List Nat) (h : ∀ c ∈ cps, c < 256) : utf16EncAll cps = cps := by
  induction cps with
  | nil => rfl
  | cons c cs ih =>
    have hc := h c (by simp)
    have hcs : ∀ c ∈ cs, c < 256 := fun x hx => h x (by simp [hx])
    have e : utf16Enc c = [c] := by
      have hs : isSurrogate c = false := by simp [isSurrogate]; omega
      have : c < 0x10000 := by omega
      have hgt : ¬ c > 0x10FFFF := by omega
      simp [utf16Enc, hs, hgt, this]
    simp only [utf16EncAll, List.map_cons, List.flatten_cons, e] at ih ⊢
    rw [ih hcs]; rfl

theorem zeros_succ (n : Nat) : zeros (n + 1) = 0 :: zeros n := by simp [zeros, List.replicate_succ]

/-- the overlapping 16-bit writes lay code units ≤ 0xFF out one per byte -/
theorem unitextWrite_latin1 (us : List Nat) (h : ∀ u ∈ us, u < 256) :
    ∀ (pre : Bytes) (m : Nat), us.length + 1 ≤ m →
      unitextWrite pre.length us (pre ++ zeros m) = pre ++ us.map UInt8.ofNat ++ zeros (m - us.length) := by
  induction us with
  | nil => intro pre m _; simp [unitextWrite]
  | cons u us ih =>
    intro pre m hm
    have hu := h u (by simp)
    have hus : ∀ x ∈ us, x < 256 := fun x hx => h x (by simp [hx])
    obtain ⟨m', rfl⟩ : ∃ m', m = m' + 2 := ⟨m - 2, by simp at hm; omega⟩
    have e1 : leEncode 2 u = [UInt8.ofNat u, 0] := by
      have : u / 256 = 0 := by omega
      have h2 : u % 256 = u := by omega
      simp [leEncode, this, h2]
    have e2 : (pre ++ zeros (m' + 2)).take pre.length = pre := by simp
    have e3 : (pre ++ zeros (m' + 2)).drop (pre.length + 2) = zeros m' := by
      have : pre.length + 2 - pre.length = 2 := by omega
      rw [List.drop_append, this, List.drop_of_length_le (by omega), zeros_succ, zeros_succ]; rfl
    simp only [unitextWrite, e1, e2, e3]
    have key := ih hus (pre ++ [UInt8.ofNat u]) (m' + 1) (by simp at hm ⊢; omega)
    have e4 : pre ++ [UInt8.ofNat u, 0] ++ zeros m' = (pre ++ [UInt8.ofNat u]) ++ zeros (m' + 1) := by
      simp [zeros_succ]
    have e5 : (pre ++ [UInt8.ofNat u]).length = pre.length + 1 := by simp
    rw [e4, ← e5, key]
    simp only [List.map_cons, List.length_cons, List.append_assoc, List.singleton_append]
    congr 3
    omega

theorem unitextRunes_eq (bs : Bytes) : unitextRunes bs = some (bs.map (·.toNat)) := by
  induction bs with
  | nil => rfl
  | cons b bs ih =>
    have hs : isSurrogate b.toNat = false := by
      have := u8_lt b; simp [isSurrogate]; omega
    have e : unitextRunes (b :: bs) = if isSurrogate b.toNat then
        (match bs with
          | [] => none
          | _ :: r => (unitextRunes r).map (0xFFFD :: ·))
        else (unitextRunes bs).map (b.toNat :: ·) := by cases bs <;> rfl
    rw [e, hs, ih]; rfl

theorem utf8EncAll_append (a b : List Nat) : utf8EncAll (a ++ b) = utf8EncAll a ++ utf8EncAll b := by
  simp [utf8EncAll]

theorem utf8EncAll_zeros (n : Nat) : utf8EncAll (List.replicate n 0) = zeros n := by
  induction n with
  | zero => rfl
  | succ n ih =>
    have e : utf8Enc 0 = [0] := by decide
    simp only [utf8EncAll, List.replicate_succ, List.map_cons, List.flatten_cons, e] at ih ⊢
    rw [ih]; simp [zeros, List.replicate_succ]

theorem trimRightNul_zeros (s : Bytes) (n : Nat) : trimRightNul (s ++ zeros n) = trimRightNul s := by
  induction n with
  | zero => simp [zeros]
  | succ n ih =>
    have e : s ++ zeros (n + 1) = (s ++ zeros n) ++ [0] := by
      simp [zeros, List.replicate_succ']
    rw [e, trimRightNul, List.reverse_append]
    simp only [List.reverse_cons, List.reverse_nil, List.nil_append, List.singleton_append, List.dropWhile_cons]
    have : ((0 : UInt8) == 0) = true := by decide
    simp only [this, if_true]
    exact ih

theorem trimRightNul_id (s : Bytes) (h : ∀ b, s.getLast? = some b → b ≠ 0) : trimRightNul s = s := by
  rcases List.eq_nil_or_concat s with rfl | ⟨s', b, rfl⟩
  · rfl
  · have hb : b ≠ 0 := h b (by simp)
    have : (b == 0) = false := by simp [hb]
    simp [trimRightNul, List.dropWhile_cons, this]

end Dblib.Lemmas.ValueText
