/-
C16: specification-side definitions (numerals and their scaled value, the integer/fraction text that
`String` must print, canonical shapes) and the helper lemmas that connect them with the model
functions `format`, `setParts`, `setString`.  Core Lean only.
-/
import Dblib.Model.Decimal
import Dblib.Lemmas.C16

namespace Dblib.Lemmas.C16
open Dblib.Decimal

/-- fraction text produced by `String`: the `s`-digit expansion of `n mod 10^s` without trailing zeros, `"0"` if nothing is left -/
def fracText (s n : Nat) : Text := orZero (trimRight0 (fixed s n))

def negText (i : Int) : Text := if i < 0 then ['-'] else []

theorem format_eq (p s : Nat) (i : Int) (hs : s ≤ p) (hi : i.natAbs < 10 ^ p) :
    format p s i = some (negText i ++ natDigits (i.natAbs / 10 ^ s) ++ '.' :: fracText s i.natAbs) := by
  have hq : i.natAbs / 10 ^ s < 10 ^ (p - s) := by
    rw [Nat.div_lt_iff_lt_mul (Nat.pow_pos (by omega)), ← Nat.pow_add]
    rwa [Nat.sub_add_cancel hs]
  by_cases hp : p = 0
  · subst hp
    have hs0 : s = 0 := by omega
    subst hs0
    have h0 : i.natAbs = 0 := by simpa using hi
    simp [format, h0, natDigits_zero, zeroPad, trimRight0, trimLeft0, orZero, fracText, fixed, negText]
  · have hpad : zeroPad p (natDigits i.natAbs) = fixed (p - s) (i.natAbs / 10 ^ s) ++ fixed s i.natAbs := by
      rw [zeroPad_natDigits p _ (by omega) hi, ← fixed_split, Nat.sub_add_cancel hs]
    simp only [format, hpad, if_neg (Nat.not_lt.2 hs)]
    rw [List.take_left' (fixed_length _ _), List.drop_left' (fixed_length _ _),
      orZero_trimLeft0_fixed _ _ hq]
    rfl

/-- text of a numeral: sign, integer digits, optionally a point followed by fraction digits -/
def numeralText (sg I : Text) (frac : Option Text) : Text :=
  sg ++ I ++ (match frac with | none => [] | some F => '.' :: F)

def fracOf : Option Text → Text
  | none => []
  | some F => F

/-- scaled value read from a fraction `R` that already fits the scale (`R.length ≤ s`):
`± ofDigits (I ++ R) × 10^(s - |R|)` — what `SetString` computes from the trimmed fraction -/
def trimmedValue (s : Nat) (sg I R : Text) : Int :=
  signVal sg * ((ofDigits (I ++ R) * 10 ^ (s - R.length) : Nat) : Int)

/-- `value × 10^s` of the numeral `sg I . F`, read from the first `s` fraction digits.  It is the exact
value `± ofDigits (I ++ F) / 10^|F| × 10^s` when the digits beyond the `s`-th are zeros
(`scaledValue_exact`); for `|F| ≤ s` it is `± ofDigits (I ++ F) × 10^(s - |F|)`. -/
def scaledValue (s : Nat) (sg I F : Text) : Int :=
  signVal sg * ((ofDigits (I ++ F.take s) * 10 ^ (s - (F.take s).length) : Nat) : Int)

/-- every fraction digit beyond the `s`-th is a zero: the numeral is representable at scale `s` -/
def ExcessZero (s : Nat) (F : Text) : Prop := AllZero (F.drop s)

instance (s : Nat) (F : Text) : Decidable (ExcessZero s F) := inferInstanceAs (Decidable (AllZero (F.drop s)))

/-- what `SetString` needs to find a digit: an integer digit, or a non-zero fraction digit
(`"0.0"` and `".5"` have one, `".0"` and `"."` do not) -/
def HasDigit (I F : Text) : Prop := I ≠ [] ∨ ¬ AllZero F

instance (I F : Text) : Decidable (HasDigit I F) := inferInstanceAs (Decidable (I ≠ [] ∨ ¬ AllZero F))

theorem hasDigit_iff (I F : Text) : I ++ trimRight0 F ≠ [] ↔ HasDigit I F := by
  unfold HasDigit
  rw [← trimRight0_eq_nil_iff]
  simp only [ne_eq, List.append_eq_nil_iff, not_and]
  constructor
  · intro h; by_cases hI : I = []
    · exact Or.inr (h hI)
    · exact Or.inl hI
  · rintro (h | h) hI
    · exact absurd hI h
    · exact h

theorem signVal_natAbs {sg : Text} (n : Nat) : (signVal sg * (n : Int)).natAbs = n := by
  unfold signVal; split <;> simp

theorem scaledValue_natAbs (s : Nat) (sg I F : Text) :
    (scaledValue s sg I F).natAbs = ofDigits (I ++ F.take s) * 10 ^ (s - (F.take s).length) :=
  signVal_natAbs _

/-- the scaled value is exact: `|scaledValue| / 10^s = ofDigits (I ++ F) / 10^|F|` (cross-multiplied) -/
theorem scaledValue_exact (s : Nat) (sg I F : Text) (hz : ExcessZero s F) :
    (scaledValue s sg I F).natAbs * 10 ^ F.length = ofDigits (I ++ F) * 10 ^ s := by
  rw [scaledValue_natAbs]; exact take_value_exact s I F hz

theorem scaledValue_short (s : Nat) (sg I F : Text) (h : F.length ≤ s) :
    scaledValue s sg I F = signVal sg * ((ofDigits (I ++ F) * 10 ^ (s - F.length) : Nat) : Int) := by
  rw [scaledValue, List.take_of_length_le h]

theorem excessZero_short (s : Nat) (F : Text) (h : F.length ≤ s) : ExcessZero s F := by
  intro c hc; rw [List.drop_of_length_le h] at hc; simp at hc

theorem trimmedValue_eq (s : Nat) (sg I F : Text) (hl : (trimRight0 F).length ≤ s) :
    trimmedValue s sg I (trimRight0 F) = scaledValue s sg I F := by
  rw [trimmedValue, scaledValue, trimRight0_value s I F hl]

/-- `setParts` in terms of the trimmed fraction -/
theorem setParts_completeT (p s : Nat) {sg I F : Text} (hsg : IsSign sg) (hI : AllDig I) (hF : AllDig F)
    (hne : I ++ trimRight0 F ≠ []) (hlen : (trimRight0 F).length ≤ s) :
    setParts p s (sg ++ I) F =
      if (trimmedValue s sg I (trimRight0 F)).natAbs < 10 ^ p
      then .ok (trimmedValue s sg I (trimRight0 F)) else .err := by
  have hbig := bigIntSetString_sign hsg (hI.append (trimRight0_allDig hF)) hne
  have hv : signVal sg * (ofDigits (I ++ trimRight0 F) : Int) * (10 : Int) ^ (s - (trimRight0 F).length) =
      trimmedValue s sg I (trimRight0 F) := by
    simp only [trimmedValue, Int.natCast_mul, Int.natCast_pow, Int.mul_assoc]; rfl
  simp only [setParts, if_neg (not_any_of_allDig hF), if_neg (Nat.not_lt.2 hlen), List.append_assoc, hbig, hv]
  by_cases h : (trimmedValue s sg I (trimRight0 F)).natAbs < 10 ^ p
  · simp [h, Nat.not_le.2 h]
  · simp [h, Nat.not_lt.1 h]

/-- **`SetString` after the split, complete**: sign, integer digits `I`, fraction digits `F` with a digit
to read and only zeros beyond the scale give exactly the scaled value, or the error when it has more
than `p` digits. -/
theorem setParts_complete (p s : Nat) {sg I F : Text} (hsg : IsSign sg) (hI : AllDig I) (hF : AllDig F)
    (hne : HasDigit I F) (hz : ExcessZero s F) :
    setParts p s (sg ++ I) F =
      if (scaledValue s sg I F).natAbs < 10 ^ p then .ok (scaledValue s sg I F) else .err := by
  have hlen := (trimRight0_len_iff s F).2 hz
  rw [setParts_completeT p s hsg hI hF ((hasDigit_iff I F).2 hne) hlen, trimmedValue_eq s sg I F hlen]

theorem setParts_sound {p s : Nat} {left right : Text} {v : Int} (h : setParts p s left right = .ok v) :
    AllDig right ∧ ExcessZero s right ∧ ∃ sg I, IsSign sg ∧ left = sg ++ I ∧ AllDig I ∧ HasDigit I right ∧
      v = scaledValue s sg I right ∧ v.natAbs < 10 ^ p := by
  unfold setParts at h
  split at h
  · simp at h
  rename_i hany
  have hR0 := allDig_of_not_any hany
  have hR := trimRight0_allDig hR0
  simp only [] at h
  split at h
  · simp at h
  rename_i hlen
  have hlen' := Nat.not_lt.1 hlen
  split at h
  · simp at h
  rename_i i hbig
  obtain ⟨sg, d, hsg, hl, hd, hdne, hi⟩ := bigIntSetString_sound hbig
  have hv : i * (10 : Int) ^ (s - (trimRight0 right).length) =
      signVal sg * ((ofDigits d * 10 ^ (s - (trimRight0 right).length) : Nat) : Int) := by
    rw [hi]; simp only [Int.natCast_mul, Int.natCast_pow, Int.mul_assoc]; rfl
  simp only [hv] at h
  split at h
  · simp at h
  rename_i hfit
  simp only [Res.ok.injEq] at h
  refine ⟨hR0, (trimRight0_len_iff s right).1 hlen', ?_⟩
  -- split `d` into the integer digits (rest of `left`) and the trimmed fraction
  have key : ∃ I, left = sg ++ I ∧ d = I ++ trimRight0 right := by
    rcases hsg with rfl | rfl | rfl
    · exact ⟨left, rfl, by simpa using hl.symm⟩
    · cases left with
      | nil =>
        simp only [List.nil_append] at hl
        have := hR '+' (by rw [hl]; simp)
        exact absurd this (by decide)
      | cons c l' =>
        simp only [List.cons_append, List.nil_append, List.cons.injEq] at hl
        exact ⟨l', by rw [hl.1]; rfl, hl.2.symm⟩
    · cases left with
      | nil =>
        simp only [List.nil_append] at hl
        have := hR '-' (by rw [hl]; simp)
        exact absurd this (by decide)
      | cons c l' =>
        simp only [List.cons_append, List.nil_append, List.cons.injEq] at hl
        exact ⟨l', by rw [hl.1]; rfl, hl.2.symm⟩
  obtain ⟨I, hleft, hdI⟩ := key
  subst hdI
  have hval : v = scaledValue s sg I right := by
    rw [← h, ← trimmedValue_eq s sg I right hlen']; rfl
  refine ⟨sg, I, hsg, hleft, hd.left, (hasDigit_iff I right).1 hdne, hval, ?_⟩
  rw [← h]; exact Nat.not_le.1 hfit

theorem sign_mem {sg : Text} (h : IsSign sg) {c : Char} (hc : c ∈ sg) : c = '+' ∨ c = '-' := by
  rcases h with rfl | rfl | rfl <;> simp at hc <;> simp [hc]

theorem numeral_chars {sg I : Text} {frac : Option Text} (hsg : IsSign sg) (hI : AllDig I)
    (hF : AllDig (fracOf frac)) {c : Char} (hc : c ∈ numeralText sg I frac) :
    isDig c = true ∨ c = '+' ∨ c = '-' ∨ c = '.' := by
  unfold numeralText at hc
  simp only [List.mem_append] at hc
  rcases hc with (hc | hc) | hc
  · rcases sign_mem hsg hc with h | h <;> simp [h]
  · exact Or.inl (hI c hc)
  · cases frac with
    | none => simp at hc
    | some F =>
      simp only [List.mem_cons] at hc
      rcases hc with hc | hc
      · simp [hc]
      · exact Or.inl (hF c hc)

theorem numeral_nonspace {c : Char} (h : isDig c = true ∨ c = '+' ∨ c = '-' ∨ c = '.') : isSpace c = false := by
  rcases h with h | rfl | rfl | rfl
  · exact isDig_not_space h
  all_goals decide

theorem noDot_signInt {sg I : Text} (hsg : IsSign sg) (hI : AllDig I) : NoDot (sg ++ I) := by
  intro c hc
  rcases List.mem_append.1 hc with h | h
  · rcases sign_mem hsg h with rfl | rfl <;> decide
  · exact isDig_ne_dot (hI c h)

theorem noDot_digits {F : Text} (hF : AllDig F) : NoDot F := fun c hc => isDig_ne_dot (hF c hc)

theorem setString_numeral (p s : Nat) {sg I : Text} {frac : Option Text} (hsg : IsSign sg) (hI : AllDig I)
    (hF : AllDig (fracOf frac)) {t : Text} (ht : trimSpace t = numeralText sg I frac) :
    setString p s t = setParts p s (sg ++ I) (fracOf frac) := by
  unfold setString
  rw [ht]
  cases frac with
  | none =>
    simp only [numeralText, List.append_nil, splitOn_noDot (noDot_signInt hsg hI), fracOf]
  | some F =>
    have hF' : AllDig F := hF
    simp only [numeralText, splitOn_append _ (noDot_signInt hsg hI), splitOn_noDot (noDot_digits hF'), fracOf]

theorem fracText_cases (s n : Nat) :
    (fracText s n = ['0'] ∧ n % 10 ^ s = 0) ∨
    (fracText s n ≠ [] ∧ AllDig (fracText s n) ∧ (∀ c, (fracText s n).getLast? = some c → c ≠ '0') ∧
      ∃ k, (fracText s n).length + k = s ∧ ofDigits (fracText s n) * 10 ^ k = n % 10 ^ s) := by
  obtain ⟨k, hk, hlast⟩ := trimRight0_spec (fixed s n)
  have hval := ofDigits_fixed s n
  have hlen := fixed_length s n
  have hdig := fixed_allDig s n
  by_cases hR : trimRight0 (fixed s n) = []
  · left
    rw [hR, List.nil_append] at hk
    rw [hk, ofDigits_replicate_zero] at hval
    exact ⟨by simp [fracText, orZero, hR], hval.symm⟩
  · right
    have hF : fracText s n = trimRight0 (fixed s n) := by simp [fracText, orZero, hR]
    rw [hF]
    refine ⟨hR, ?_, hlast, k, ?_, ?_⟩
    · rw [hk] at hdig; exact hdig.left
    · rw [hk, List.length_append, List.length_replicate] at hlen; exact hlen
    · rw [hk, ofDigits_append, ofDigits_replicate_zero, List.length_replicate] at hval; simpa using hval

theorem fracText_allDig (s n : Nat) : AllDig (fracText s n) := by
  rcases fracText_cases s n with ⟨h, _⟩ | ⟨_, h, _⟩
  · rw [h]; decide
  · exact h

theorem fracText_ne_nil (s n : Nat) : fracText s n ≠ [] := by
  rcases fracText_cases s n with ⟨h, _⟩ | ⟨h, _⟩
  · rw [h]; simp
  · exact h

theorem fracText_len (s n : Nat) (hs : 1 ≤ s) : (fracText s n).length ≤ s := by
  rcases fracText_cases s n with ⟨h, _⟩ | ⟨_, _, _, k, hk, _⟩
  · rw [h]; simpa using hs
  · omega

theorem fracText_val (s n : Nat) :
    ofDigits (fracText s n) * 10 ^ (s - (fracText s n).length) = n % 10 ^ s := by
  rcases fracText_cases s n with ⟨h, h0⟩ | ⟨_, _, _, k, hk, hv⟩
  · rw [h, h0]; simp [ofDigits_cons, ofDigits_nil, digVal]
  · have : s - (fracText s n).length = k := by omega
    rw [this, hv]

/-- integer digits and fraction digits of the formatted text, read as one number and scaled back, give `n` -/
theorem reassemble1 (s n : Nat) (hs : 1 ≤ s) :
    ofDigits (natDigits (n / 10 ^ s) ++ fracText s n) * 10 ^ (s - (fracText s n).length) = n := by
  have hl := fracText_len s n hs
  have hv := fracText_val s n
  rw [ofDigits_append, ofDigits_natDigits, Nat.add_mul, Nat.mul_assoc, ← Nat.pow_add, hv,
    Nat.add_sub_cancel' hl]
  exact Nat.div_add_mod' n (10 ^ s)

/-- integer digits and the first `s` fraction digits of the formatted text, read as one number and
scaled back, give `n` — at every scale, also 0 where the printed fraction `"0"` is ignored -/
theorem reassemble (s n : Nat) :
    ofDigits (natDigits (n / 10 ^ s) ++ (fracText s n).take s) *
      10 ^ (s - ((fracText s n).take s).length) = n := by
  by_cases hs : 1 ≤ s
  · rw [List.take_of_length_le (fracText_len s n hs)]; exact reassemble1 s n hs
  · have h0 : s = 0 := by omega
    subst h0
    simp [ofDigits_natDigits]

/-- the printed fraction never has a non-zero digit beyond the scale -/
theorem fracText_excessZero (s n : Nat) : ExcessZero s (fracText s n) := by
  by_cases hs : 1 ≤ s
  · exact excessZero_short s _ (fracText_len s n hs)
  · have h0 : s = 0 := by omega
    subst h0
    have : fracText 0 n = ['0'] := rfl
    rw [this]; decide

theorem negText_sign (i : Int) : IsSign (negText i) := by
  unfold negText; split
  · exact Or.inr (Or.inr rfl)
  · exact Or.inl rfl

theorem negText_val (i : Int) : signVal (negText i) * (i.natAbs : Int) = i := by
  unfold negText signVal
  split
  · simp; omega
  · simp; omega

/-- integer part: digits, at least one, no leading zero unless it is exactly `0` -/
def CanonInt (I : Text) : Prop := AllDig I ∧ I ≠ [] ∧ (I = ['0'] ∨ ∀ c, I.head? = some c → c ≠ '0')

/-- fraction part: digits, at least one, no trailing zero unless it is exactly `0` -/
def CanonFrac (F : Text) : Prop := AllDig F ∧ F ≠ [] ∧ (F = ['0'] ∨ ∀ c, F.getLast? = some c → c ≠ '0')

theorem canonInt_natDigits (q : Nat) : CanonInt (natDigits q) := by
  refine ⟨natDigits_allDig q, natDigits_ne_nil q, ?_⟩
  by_cases hq : q = 0
  · left; rw [hq, natDigits_zero]
  · right
    obtain ⟨c, t, e, hc⟩ := natDigits_head q hq
    intro c' h'; rw [e] at h'; simp at h'; rw [← h']; exact hc

theorem canonFrac_fracText (s n : Nat) : CanonFrac (fracText s n) := by
  refine ⟨fracText_allDig s n, fracText_ne_nil s n, ?_⟩
  rcases fracText_cases s n with ⟨h, _⟩ | ⟨_, _, h, _⟩
  · exact Or.inl h
  · exact Or.inr h

theorem fracText_cross (s n : Nat) :
    ofDigits (fracText s n) * 10 ^ s = n % 10 ^ s * 10 ^ (fracText s n).length := by
  rcases fracText_cases s n with ⟨h, h0⟩ | ⟨_, _, _, k, hk, hv⟩
  · rw [h, h0]; simp [ofDigits_cons, ofDigits_nil, digVal]
  · have hs : 10 ^ s = 10 ^ (fracText s n).length * 10 ^ k := by rw [← Nat.pow_add, hk]
    rw [← hv, hs, Nat.mul_assoc, Nat.mul_comm (10 ^ k)]

/-- the inputs `SetString` accepts: numerals `[+-] I [. F]` (digits only) with a digit to read
(`HasDigit`), no non-zero digit beyond the `s`-th fraction digit, and a scaled value of at most `p` digits -/
def FitsNumeral (p s : Nat) (u : Text) : Prop :=
  ∃ sg I frac, IsSign sg ∧ AllDig I ∧ AllDig (fracOf frac) ∧ HasDigit I (fracOf frac) ∧
    u = numeralText sg I frac ∧ ExcessZero s (fracOf frac) ∧
    (scaledValue s sg I (fracOf frac)).natAbs < 10 ^ p

theorem splitOn_length (l : Text) : (splitOn '.' l).length = l.count '.' + 1 := by
  induction l with
  | nil => rfl
  | cons c t ih =>
    by_cases hc : c = '.'
    · simp [splitOn, hc, ih]
    · have hne := splitOn_ne_nil t
      have : (c == '.') = false := by simpa using hc
      simp only [splitOn, hc, if_false, List.length_cons, List.length_tail, List.count_cons, this]
      have : 0 < (splitOn '.' t).length := List.length_pos_iff.2 hne
      simp; omega

end Dblib.Lemmas.C16
