/-
C16: specification-side definitions (numerals and their scaled value, the integer/fraction text that
`String` must print, canonical shapes) and the helper lemmas that connect them with the model
functions `format`, `setParts`, `setString`.  Core Lean only.
-/
import Dblib.Model.Decimal
import Dblib.Lemmas.C16

namespace Dblib.Lemmas.C16
open Dblib.Decimal

/-- fraction text produced by `String`: the `s`-digit expansion of `n mod 10^s` without trailing zeros, `"0"` if nothing is left -/
def fracText (s n : Nat) : Text := orZero (trimRight0 (fixed s n))

def negText (i : Int) : Text := if i < 0 then ['-'] else []

theorem format_eq (p s : Nat) (i : Int) (hs : s ≤ p) (hi : i.natAbs < 10 ^ p) :
    format p s i = some (negText i ++ natDigits (i.natAbs / 10 ^ s) ++ '.' :: fracText s i.natAbs) := by
  have hq : i.natAbs / 10 ^ s < 10 ^ (p - s) := by
    rw [Nat.div_lt_iff_lt_mul (Nat.pow_pos (by omega)), ← Nat.pow_add]
    rwa [Nat.sub_add_cancel hs]
  by_cases hp : p = 0
  · subst hp
    have hs0 : s = 0 := by omega
    subst hs0
    have h0 : i.natAbs = 0 := by simpa using hi
    simp [format, h0, natDigits_zero, zeroPad, trimRight0, trimLeft0, orZero, fracText, fixed, negText]
  · have hpad : zeroPad p (natDigits i.natAbs) = fixed (p - s) (i.natAbs / 10 ^ s) ++ fixed s i.natAbs := by
      rw [zeroPad_natDigits p _ (by omega) hi, ← fixed_split, Nat.sub_add_cancel hs]
    simp only [format, hpad, if_neg (Nat.not_lt.2 hs)]
    rw [List.take_left' (fixed_length _ _), List.drop_left' (fixed_length _ _),
      orZero_trimLeft0_fixed _ _ hq]
    rfl

/-- text of a numeral: sign, integer digits, optionally a point followed by fraction digits -/
def numeralText (sg I : Text) (frac : Option Text) : Text :=
  sg ++ I ++ (match frac with | none => [] | some F => '.' :: F)

def fracOf : Option Text → Text
  | none => []
  | some F => F

/-- `value × 10^s` of the numeral `sg I . F` when `F.length ≤ s`:
`± ofDigits (I ++ F) / 10^|F| × 10^s = ± ofDigits (I ++ F) × 10^(s - |F|)` -/
def scaledValue (s : Nat) (sg I F : Text) : Int :=
  signVal sg * ((ofDigits (I ++ F) * 10 ^ (s - F.length) : Nat) : Int)

theorem signVal_natAbs {sg : Text} (n : Nat) : (signVal sg * (n : Int)).natAbs = n := by
  unfold signVal; split <;> simp

theorem scaledValue_natAbs (s : Nat) (sg I F : Text) :
    (scaledValue s sg I F).natAbs = ofDigits (I ++ F) * 10 ^ (s - F.length) := signVal_natAbs _

theorem setParts_complete (p s : Nat) {sg I F : Text} (hsg : IsSign sg) (hI : AllDig I) (hF : AllDig F)
    (hne : I ++ F ≠ []) (hlen : F.length ≤ s) :
    setParts p s (sg ++ I) F =
      if (scaledValue s sg I F).natAbs < 10 ^ p then .ok (scaledValue s sg I F) else .err := by
  have hbig := bigIntSetString_sign hsg (hI.append hF) hne
  have hv : signVal sg * (ofDigits (I ++ F) : Int) * (10 : Int) ^ (s - F.length) = scaledValue s sg I F := by
    simp only [scaledValue, Int.natCast_mul, Int.natCast_pow, Int.mul_assoc]; rfl
  simp only [setParts, if_neg (not_any_of_allDig hF), if_neg (Nat.not_lt.2 hlen), List.append_assoc, hbig, hv]
  by_cases h : (scaledValue s sg I F).natAbs < 10 ^ p
  · simp [h, Nat.not_le.2 h]
  · simp [h, Nat.not_lt.1 h]

theorem setParts_sound {p s : Nat} {left right : Text} {v : Int} (h : setParts p s left right = .ok v) :
    AllDig right ∧ right.length ≤ s ∧ ∃ sg I, IsSign sg ∧ left = sg ++ I ∧ AllDig I ∧ I ++ right ≠ [] ∧
      v = scaledValue s sg I right ∧ v.natAbs < 10 ^ p := by
  unfold setParts at h
  split at h
  · simp at h
  rename_i hany
  have hR := allDig_of_not_any hany
  split at h
  · simp at h
  rename_i hlen
  split at h
  · simp at h
  rename_i i hbig
  obtain ⟨sg, d, hsg, hl, hd, hdne, hi⟩ := bigIntSetString_sound hbig
  have hv : i * (10 : Int) ^ (s - right.length) =
      signVal sg * ((ofDigits d * 10 ^ (s - right.length) : Nat) : Int) := by
    rw [hi]; simp only [Int.natCast_mul, Int.natCast_pow, Int.mul_assoc]; rfl
  simp only [hv] at h
  split at h
  · simp at h
  rename_i hfit
  simp only [Res.ok.injEq] at h
  refine ⟨hR, Nat.not_lt.1 hlen, ?_⟩
  -- split `d` into the integer digits (rest of `left`) and `right`
  have key : ∃ I, left = sg ++ I ∧ d = I ++ right := by
    rcases hsg with rfl | rfl | rfl
    · exact ⟨left, rfl, by simpa using hl.symm⟩
    · cases left with
      | nil =>
        simp only [List.nil_append] at hl
        have := hR '+' (by rw [hl]; simp)
        exact absurd this (by decide)
      | cons c l' =>
        simp only [List.cons_append, List.nil_append, List.cons.injEq] at hl
        exact ⟨l', by rw [hl.1]; rfl, hl.2.symm⟩
    · cases left with
      | nil =>
        simp only [List.nil_append] at hl
        have := hR '-' (by rw [hl]; simp)
        exact absurd this (by decide)
      | cons c l' =>
        simp only [List.cons_append, List.nil_append, List.cons.injEq] at hl
        exact ⟨l', by rw [hl.1]; rfl, hl.2.symm⟩
  obtain ⟨I, hleft, hdI⟩ := key
  subst hdI
  refine ⟨sg, I, hsg, hleft, hd.left, hdne, ?_, ?_⟩
  · rw [← h]; rfl
  · rw [← h]; exact Nat.not_le.1 hfit

theorem sign_mem {sg : Text} (h : IsSign sg) {c : Char} (hc : c ∈ sg) : c = '+' ∨ c = '-' := by
  rcases h with rfl | rfl | rfl <;> simp at hc <;> simp [hc]

theorem numeral_chars {sg I : Text} {frac : Option Text} (hsg : IsSign sg) (hI : AllDig I)
    (hF : AllDig (fracOf frac)) {c : Char} (hc : c ∈ numeralText sg I frac) :
    isDig c = true ∨ c = '+' ∨ c = '-' ∨ c = '.' := by
  unfold numeralText at hc
  simp only [List.mem_append] at hc
  rcases hc with (hc | hc) | hc
  · rcases sign_mem hsg hc with h | h <;> simp [h]
  · exact Or.inl (hI c hc)
  · cases frac with
    | none => simp at hc
    | some F =>
      simp only [List.mem_cons] at hc
      rcases hc with hc | hc
      · simp [hc]
      · exact Or.inl (hF c hc)

theorem numeral_nonspace {c : Char} (h : isDig c = true ∨ c = '+' ∨ c = '-' ∨ c = '.') : isSpace c = false := by
  rcases h with h | rfl | rfl | rfl
  · exact isDig_not_space h
  all_goals decide

theorem noDot_signInt {sg I : Text} (hsg : IsSign sg) (hI : AllDig I) : NoDot (sg ++ I) := by
  intro c hc
  rcases List.mem_append.1 hc with h | h
  · rcases sign_mem hsg h with rfl | rfl <;> decide
  · exact isDig_ne_dot (hI c h)

theorem noDot_digits {F : Text} (hF : AllDig F) : NoDot F := fun c hc => isDig_ne_dot (hF c hc)

theorem setString_numeral (p s : Nat) {sg I : Text} {frac : Option Text} (hsg : IsSign sg) (hI : AllDig I)
    (hF : AllDig (fracOf frac)) {t : Text} (ht : trimSpace t = numeralText sg I frac) :
    setString p s t = setParts p s (sg ++ I) (fracOf frac) := by
  unfold setString
  rw [ht]
  cases frac with
  | none =>
    simp only [numeralText, List.append_nil, splitOn_noDot (noDot_signInt hsg hI), fracOf]
  | some F =>
    have hF' : AllDig F := hF
    simp only [numeralText, splitOn_append _ (noDot_signInt hsg hI), splitOn_noDot (noDot_digits hF'), fracOf]

theorem fracText_cases (s n : Nat) :
    (fracText s n = ['0'] ∧ n % 10 ^ s = 0) ∨
    (fracText s n ≠ [] ∧ AllDig (fracText s n) ∧ (∀ c, (fracText s n).getLast? = some c → c ≠ '0') ∧
      ∃ k, (fracText s n).length + k = s ∧ ofDigits (fracText s n) * 10 ^ k = n % 10 ^ s) := by
  obtain ⟨k, hk, hlast⟩ := trimRight0_spec (fixed s n)
  have hval := ofDigits_fixed s n
  have hlen := fixed_length s n
  have hdig := fixed_allDig s n
  by_cases hR : trimRight0 (fixed s n) = []
  · left
    rw [hR, List.nil_append] at hk
    rw [hk, ofDigits_replicate_zero] at hval
    exact ⟨by simp [fracText, orZero, hR], hval.symm⟩
  · right
    have hF : fracText s n = trimRight0 (fixed s n) := by simp [fracText, orZero, hR]
    rw [hF]
    refine ⟨hR, ?_, hlast, k, ?_, ?_⟩
    · rw [hk] at hdig; exact hdig.left
    · rw [hk, List.length_append, List.length_replicate] at hlen; exact hlen
    · rw [hk, ofDigits_append, ofDigits_replicate_zero, List.length_replicate] at hval; simpa using hval

theorem fracText_allDig (s n : Nat) : AllDig (fracText s n) := by
  rcases fracText_cases s n with ⟨h, _⟩ | ⟨_, h, _⟩
  · rw [h]; decide
  · exact h

theorem fracText_ne_nil (s n : Nat) : fracText s n ≠ [] := by
  rcases fracText_cases s n with ⟨h, _⟩ | ⟨h, _⟩
  · rw [h]; simp
  · exact h

theorem fracText_len (s n : Nat) (hs : 1 ≤ s) : (fracText s n).length ≤ s := by
  rcases fracText_cases s n with ⟨h, _⟩ | ⟨_, _, _, k, hk, _⟩
  · rw [h]; simpa using hs
  · omega

theorem fracText_val (s n : Nat) :
    ofDigits (fracText s n) * 10 ^ (s - (fracText s n).length) = n % 10 ^ s := by
  rcases fracText_cases s n with ⟨h, h0⟩ | ⟨_, _, _, k, hk, hv⟩
  · rw [h, h0]; simp [ofDigits_cons, ofDigits_nil, digVal]
  · have : s - (fracText s n).length = k := by omega
    rw [this, hv]

/-- integer digits and fraction digits of the formatted text, read as one number and scaled back, give `n` -/
theorem reassemble (s n : Nat) (hs : 1 ≤ s) :
    ofDigits (natDigits (n / 10 ^ s) ++ fracText s n) * 10 ^ (s - (fracText s n).length) = n := by
  have hl := fracText_len s n hs
  have hv := fracText_val s n
  rw [ofDigits_append, ofDigits_natDigits, Nat.add_mul, Nat.mul_assoc, ← Nat.pow_add, hv,
    Nat.add_sub_cancel' hl]
  exact Nat.div_add_mod' n (10 ^ s)

theorem negText_sign (i : Int) : IsSign (negText i) := by
  unfold negText; split
  · exact Or.inr (Or.inr rfl)
  · exact Or.inl rfl

theorem negText_val (i : Int) : signVal (negText i) * (i.natAbs : Int) = i := by
  unfold negText signVal
  split
  · simp; omega
  · simp; omega

/-- integer part: digits, at least one, no leading zero unless it is exactly `0` -/
def CanonInt (I : Text) : Prop := AllDig I ∧ I ≠ [] ∧ (I = ['0'] ∨ ∀ c, I.head? = some c → c ≠ '0')

/-- fraction part: digits, at least one, no trailing zero unless it is exactly `0` -/
def CanonFrac (F : Text) : Prop := AllDig F ∧ F ≠ [] ∧ (F = ['0'] ∨ ∀ c, F.getLast? = some c → c ≠ '0')

theorem canonInt_natDigits (q : Nat) : CanonInt (natDigits q) := by
  refine ⟨natDigits_allDig q, natDigits_ne_nil q, ?_⟩
  by_cases hq : q = 0
  · left; rw [hq, natDigits_zero]
  · right
    obtain ⟨c, t, e, hc⟩ := natDigits_head q hq
    intro c' h'; rw [e] at h'; simp at h'; rw [← h']; exact hc

theorem canonFrac_fracText (s n : Nat) : CanonFrac (fracText s n) := by
  refine ⟨fracText_allDig s n, fracText_ne_nil s n, ?_⟩
  rcases fracText_cases s n with ⟨h, _⟩ | ⟨_, _, h, _⟩
  · exact Or.inl h
  · exact Or.inr h

theorem fracText_cross (s n : Nat) :
    ofDigits (fracText s n) * 10 ^ s = n % 10 ^ s * 10 ^ (fracText s n).length := by
  rcases fracText_cases s n with ⟨h, h0⟩ | ⟨_, _, _, k, hk, hv⟩
  · rw [h, h0]; simp [ofDigits_cons, ofDigits_nil, digVal]
  · have hs : 10 ^ s = 10 ^ (fracText s n).length * 10 ^ k := by rw [← Nat.pow_add, hk]
    rw [← hv, hs, Nat.mul_assoc, Nat.mul_comm (10 ^ k)]

/-- the inputs `SetString` accepts: numerals with at most `s` fraction digits whose scaled value has at
most `p` digits -/
def FitsNumeral (p s : Nat) (u : Text) : Prop :=
  ∃ sg I frac, IsSign sg ∧ AllDig I ∧ AllDig (fracOf frac) ∧ I ++ fracOf frac ≠ [] ∧
    u = numeralText sg I frac ∧ (fracOf frac).length ≤ s ∧
    (scaledValue s sg I (fracOf frac)).natAbs < 10 ^ p

theorem splitOn_length (l : Text) : (splitOn '.' l).length = l.count '.' + 1 := by
  induction l with
  | nil => rfl
  | cons c t ih =>
    by_cases hc : c = '.'
    · simp [splitOn, hc, ih]
    · have hne := splitOn_ne_nil t
      have : (c == '.') = false := by simpa using hc
      simp only [splitOn, hc, if_false, List.length_cons, List.length_tail, List.count_cons, this]
      have : 0 < (splitOn '.' t).length := List.length_pos_iff.2 hne
      simp; omega

end Dblib.Lemmas.C16
