/-
Helper lemmas about the PacketQueue model (`Model/PacketQueue.lean`): the read loop refines
"take n of the unread bytes", short reads, discard, addPacket.
-/
import Dblib.Model.PacketQueue

namespace Dblib.PQ

/-- the bytes from position `(ip, id)` on -/
def unreadAt (queue : List Packet) (ip id : Nat) : Bytes := (flat (queue.drop ip)).drop id

theorem unread_eq (q : PQ) : q.unread = unreadAt q.queue q.ip q.id := rfl

@[simp] theorem flat_nil : flat [] = [] := rfl
@[simp] theorem flat_cons (p : Packet) (ps : List Packet) : flat (p :: ps) = p.data ++ flat ps := by
  simp [flat]
@[simp] theorem flat_append (a b : List Packet) : flat (a ++ b) = flat a ++ flat b := by
  simp [flat]

/-- position well-formedness relative to a packet list starting at the cursor packet -/
def WFrest : List Packet → Nat → Prop
  | [], id => id = 0
  | p :: _, id => id ≤ p.data.length

/-- well-formed position: the packet index is inside the queue or just behind it (then the data
index is 0), and the data index is inside the cursor packet. -/
def WFpos (queue : List Packet) (ip id : Nat) : Prop :=
  ip ≤ queue.length ∧ WFrest (queue.drop ip) id

def WF (q : PQ) : Prop := WFpos q.queue q.ip q.id

/-! ### list helpers -/

theorem drop_take_app (a b : Bytes) (id need : Nat) (h : id ≤ a.length) :
    ((a ++ b).drop id).take need = (a.drop id).take need ++ b.take (need - (a.length - id)) := by
  rw [List.drop_append_of_le_length h, List.take_append]
  simp

theorem drop_drop_app (a b : Bytes) (id need : Nat) (h : id ≤ a.length) :
    ((a ++ b).drop id).drop need = (a.drop id).drop need ++ b.drop (need - (a.length - id)) := by
  rw [List.drop_append_of_le_length h, List.drop_append]
  simp

/-! ### the read loop -/

theorem readLoop_ok (ps : List Packet) :
    ∀ (id need : Nat) (acc : Bytes) (adv : Nat),
      WFrest ps id → 0 < need → id + need ≤ (flat ps).length →
      ∃ k id', readLoop ps id need acc adv = (.ok (acc ++ ((flat ps).drop id).take need), adv + k, id')
        ∧ k ≤ ps.length ∧ WFrest (ps.drop k) id'
        ∧ (flat (ps.drop k)).drop id' = ((flat ps).drop id).drop need := by
  induction ps with
  | nil => intro id need acc adv _ hn hle; simp at hle; omega
  | cons p rest ih =>
    intro id need acc adv hwf hn hle
    simp only [WFrest] at hwf
    simp only [flat_cons, List.length_append] at hle
    unfold readLoop
    have h1' : (rest.isEmpty && id == p.data.length) = false := by
      cases hr : rest.isEmpty
      · simp
      · have : rest = [] := List.isEmpty_iff.1 hr
        subst this; simp at hle; simp; omega
    have h2 : ¬ id > p.data.length := by omega
    simp only [h1', Bool.false_eq_true, if_false, h2]
    by_cases hend : id + need ≥ p.data.length
    · -- the packet is consumed entirely
      have hmin : min (id + need) p.data.length = p.data.length := by omega
      simp only [hmin, beq_self_eq_true, if_true]
      have hchunk : (p.data.drop id).take (p.data.length - id) = p.data.drop id := by
        apply List.take_of_length_le; simp
      have hchunk2 : (p.data.drop id).take need = p.data.drop id := by
        apply List.take_of_length_le; simp; omega
      have hdd : (p.data.drop id).drop need = [] := by
        apply List.drop_of_length_le; simp; omega
      by_cases hz : need - (p.data.length - id) = 0
      · simp only [hz, beq_self_eq_true, if_true]
        refine ⟨1, 0, ?_, by simp, ?_, ?_⟩
        · rw [hchunk, flat_cons, drop_take_app _ _ _ _ hwf, hz, hchunk2]; simp
        · cases rest <;> simp [WFrest]
        · rw [flat_cons, drop_drop_app _ _ _ _ hwf, hz, hdd]; simp
      · have hz' : (need - (p.data.length - id) == 0) = false := by simpa using hz
        simp only [hz', Bool.false_eq_true, if_false]
        have hwf' : WFrest rest 0 := by cases rest <;> simp [WFrest]
        obtain ⟨k, id', hrl, hk, hwfk, hrem⟩ :=
          ih 0 (need - (p.data.length - id)) (acc ++ (p.data.drop id).take (p.data.length - id)) (adv + 1)
            hwf' (by omega) (by omega)
        refine ⟨k + 1, id', ?_, by simp; omega, ?_, ?_⟩
        · rw [hrl, hchunk, flat_cons, drop_take_app _ _ _ _ hwf, hchunk2]
          simp [Nat.add_assoc, Nat.add_comm 1 k]
        · simpa using hwfk
        · rw [List.drop_succ_cons, hrem, flat_cons, drop_drop_app _ _ _ _ hwf, hdd]; simp
    · -- the read ends inside the packet
      have hmin : min (id + need) p.data.length = id + need := by omega
      have hne : (id + need == p.data.length) = false := by simp; omega
      simp only [hmin, hne, Bool.false_eq_true, if_false]
      refine ⟨0, id + need, ?_, by simp, ?_, ?_⟩
      · rw [flat_cons, drop_take_app _ _ _ _ hwf]
        have : need - (p.data.length - id) = 0 := by omega
        simp [this]
      · simp [WFrest]; omega
      · simp [List.drop_drop]

/-- a read beyond the available bytes: not-enough-bytes, never a value, never a panic; the loop
has consumed everything. -/
theorem readLoop_short (ps : List Packet) :
    ∀ (id need : Nat) (acc : Bytes) (adv : Nat),
      WFrest ps id → (flat ps).length < id + need →
      ∃ bs k id', readLoop ps id need acc adv = (.short bs, adv + k, id')
        ∧ k ≤ ps.length ∧ WFrest (ps.drop k) id' ∧ (flat (ps.drop k)).drop id' = [] := by
  induction ps with
  | nil =>
    intro id need acc adv hwf _
    exact ⟨acc, 0, id, by simp [readLoop], by simp, by simpa using hwf, by simp⟩
  | cons p rest ih =>
    intro id need acc adv hwf hlt
    simp only [WFrest] at hwf
    simp only [flat_cons, List.length_append] at hlt
    unfold readLoop
    by_cases h1 : (rest.isEmpty && id == p.data.length) = true
    · simp only [h1, if_true]
      have h1a : rest.isEmpty = true ∧ id = p.data.length := by simpa using h1
      have hr : rest = [] := List.isEmpty_iff.1 h1a.1
      have hid : id = p.data.length := h1a.2
      subst hr
      refine ⟨acc, 0, id, by simp, by simp, by simpa [WFrest] using hwf, ?_⟩
      simp [hid]
    · have h1' : (rest.isEmpty && id == p.data.length) = false := by simpa using h1
      have h2 : ¬ id > p.data.length := by omega
      simp only [h1', Bool.false_eq_true, if_false, h2]
      have hmin : min (id + need) p.data.length = p.data.length := by omega
      simp only [hmin, beq_self_eq_true, if_true]
      have hz' : (need - (p.data.length - id) == 0) = false := by simp; omega
      simp only [hz', Bool.false_eq_true, if_false]
      have hwf' : WFrest rest 0 := by cases rest <;> simp [WFrest]
      obtain ⟨bs, k, id', hrl, hk, hwfk, hrem⟩ :=
        ih 0 (need - (p.data.length - id)) (acc ++ (p.data.drop id).take (p.data.length - id)) (adv + 1)
          hwf' (by omega)
      refine ⟨bs, k + 1, id', ?_, by simp; omega, by simpa using hwfk, by simpa using hrem⟩
      rw [hrl]; simp [Nat.add_assoc, Nat.add_comm 1 k]

/-! ### queue level -/

theorem WFrest_drop_length_le {queue : List Packet} {ip id : Nat} (h : WFpos queue ip id) :
    id ≤ (flat (queue.drop ip)).length := by
  obtain ⟨_, h2⟩ := h
  cases hq : queue.drop ip with
  | nil => rw [hq] at h2; simp [WFrest] at h2; omega
  | cons p r => rw [hq] at h2; simp [WFrest] at h2; simp; omega

theorem WFpos_advance {queue : List Packet} {ip k id' : Nat} (hip : ip ≤ queue.length)
    (hk : k ≤ (queue.drop ip).length) (h : WFrest ((queue.drop ip).drop k) id') :
    WFpos queue (ip + k) id' := by
  constructor
  · simp at hk; omega
  · simpa [List.drop_drop] using h

theorem flat_length (ps : List Packet) : (flat ps).length = (ps.map (·.data.length)).sum := by
  induction ps with
  | nil => rfl
  | cons p ps ih => simp [ih]

/-- on a well-formed queue the count `Bytes` compares with is the number of unread bytes -/
theorem unreadCount_eq (q : PQ) (hwf : q.WF) : q.unreadCount = (q.unread.length : Int) := by
  have hle := WFrest_drop_length_le hwf
  simp only [unreadCount, unread, List.length_drop, ← flat_length]
  omega

/-- `Bytes(n)` with enough bytes available: exactly the next `n` unread bytes, the unread bytes
shrink by `n`, the queue contents are untouched, the position stays well-formed. -/
theorem bytes_refines (q : PQ) (n : Nat) (hwf : q.WF) (hn : n ≤ q.unread.length) :
    ∃ q', q.bytes n = (.ok (q.unread.take n), q') ∧ q'.unread = q.unread.drop n
      ∧ q'.queue = q.queue ∧ q'.eom = q.eom ∧ q'.WF := by
  unfold bytes
  by_cases h0 : n = 0
  · subst h0; exact ⟨q, by simp, by simp, rfl, rfl, hwf⟩
  · have h0' : (n == 0) = false := by simpa using h0
    simp only [h0', Bool.false_eq_true, if_false]
    have hguard : ¬ ((n : Int) > q.unreadCount) := by rw [unreadCount_eq q hwf]; omega
    rw [if_neg hguard]
    have hlen : q.id + n ≤ (flat (q.queue.drop q.ip)).length := by
      have : q.unread.length = (flat (q.queue.drop q.ip)).length - q.id := by simp [unread]
      have := WFrest_drop_length_le hwf
      omega
    obtain ⟨k, id', hrl, hk, hwfk, hrem⟩ :=
      readLoop_ok (q.queue.drop q.ip) q.id n [] 0 hwf.2 (by omega) hlen
    rw [hrl]
    refine ⟨{ q with ip := q.ip + (0 + k), id := id' }, by simp [unread], ?_, rfl, rfl, ?_⟩
    · simp only [unread, Nat.zero_add]
      rw [← List.drop_drop]; exact hrem
    · simp only [Nat.zero_add]; exact WFpos_advance hwf.1 hk hwfk

/-- `Bytes(n)` beyond the available bytes: not-enough-bytes (never a value, never a panic),
nothing is allocated; the queue contents are untouched, so restoring a saved position restores
every unread byte. -/
theorem bytes_short (q : PQ) (n : Nat) (hwf : q.WF) (hn : q.unread.length < n) :
    ∃ bs q', q.bytes n = (.short bs, q') ∧ q'.queue = q.queue ∧ q'.eom = q.eom
      ∧ q'.unread = [] ∧ q'.WF := by
  unfold bytes
  have h0' : (n == 0) = false := by simp; omega
  simp only [h0', Bool.false_eq_true, if_false]
  have hguard : (n : Int) > q.unreadCount := by rw [unreadCount_eq q hwf]; omega
  rw [if_pos hguard]
  refine ⟨[], _, rfl, rfl, rfl, ?_, ?_⟩
  · simp [unread, flat]
  · simp [WF, WFpos, WFrest]

/-- no read of any size panics on a well-formed queue -/
theorem bytes_no_panic (q : PQ) (n : Nat) (hwf : q.WF) : (q.bytes n).1 ≠ .panic := by
  by_cases hn : n ≤ q.unread.length
  · obtain ⟨q', h, _⟩ := bytes_refines q n hwf hn; rw [h]; simp
  · obtain ⟨bs, q', h, _⟩ := bytes_short q n hwf (by omega); rw [h]; simp

/-! ### addPacket, setPosition, discard, reset -/

theorem unreadAt_append (queue : List Packet) (p : Packet) (ip id : Nat) (h : WFpos queue ip id) :
    unreadAt (queue ++ [p]) ip id = unreadAt queue ip id ++ p.data := by
  unfold unreadAt
  have hle := WFrest_drop_length_le h
  rw [List.drop_append_of_le_length h.1, flat_append, List.drop_append_of_le_length hle]
  simp [flat]

theorem WFpos_append (queue : List Packet) (p : Packet) (ip id : Nat) (h : WFpos queue ip id) :
    WFpos (queue ++ [p]) ip id := by
  obtain ⟨h1, h2⟩ := h
  constructor
  · simp; omega
  · rw [List.drop_append_of_le_length h1]
    cases hq : queue.drop ip with
    | nil => rw [hq] at h2; simp [WFrest] at h2; simp [WFrest, h2]
    | cons a r => rw [hq] at h2; simpa [WFrest] using h2

theorem reset_WF (q : PQ) : q.reset.WF := by
  simp [reset, WF, WFpos, WFrest]

theorem reset_unread (q : PQ) : q.reset.unread = [] := by simp [reset, unread, flat]

/-- discarding never drops an unread byte -/
theorem discard_keeps_unread (q : PQ) (hwf : q.WF) :
    ∃ q', q.discard = some q' ∧ q'.unread = q.unread ∧ q'.WF ∧ q'.eom = q.eom := by
  obtain ⟨h1, h2⟩ := hwf
  unfold discard
  have : ¬ q.ip > q.queue.length := by omega
  simp only [this, if_false]
  cases hq : q.queue.drop q.ip with
  | nil =>
    rw [hq] at h2; simp only [WFrest] at h2
    exact ⟨_, rfl, by simp [unread, hq, flat], by simp [WF, WFpos, WFrest], rfl⟩
  | cons p rest =>
    rw [hq] at h2; simp only [WFrest] at h2
    by_cases hge : q.id ≥ p.data.length
    · simp only [hge, if_true]
      have hid : q.id = p.data.length := by omega
      refine ⟨_, rfl, ?_, ?_, rfl⟩
      · simp [unread, hq, hid]
      · constructor
        · simp
        · cases rest <;> simp [WFrest]
    · simp only [hge, if_false]
      refine ⟨_, rfl, ?_, ?_, rfl⟩
      · simp [unread, hq]
      · constructor
        · simp
        · simp [WFrest]; omega

end Dblib.PQ
