/-
Bridges between the model's byte helpers / calendar and the reference codec `Model/ValueSpec.lean` (C05).
-/
import Dblib.Model.ValueSpec
import Dblib.Lemmas.ValueBytes
import Dblib.Lemmas.ValueCal
import Dblib.Lemmas.ValueText

namespace Dblib.Lemmas.ValueSpec
open Dblib Dblib.Value Dblib.AseTime Dblib.Lemmas.ValueBytes Dblib.Lemmas.ValueCal Dblib.Lemmas.ValueText

/-! ### little endian -/

theorem byteAt_succ (n k : Nat) : Spec.byteAt n (k + 1) = Spec.byteAt (n / 256) k := by
  simp only [Spec.byteAt, Nat.pow_succ, Nat.mul_comm (256 ^ k) 256, Nat.div_div_eq_div_mul]

theorem leEncode_eq_uintLE (w n : Nat) : leEncode w n = Spec.uintLE w n := by
  induction w generalizing n with
  | zero => rfl
  | succ w ih =>
    simp only [leEncode, Spec.uintLE, List.range_succ_eq_map, List.map_cons, List.map_map]
    congr 1
    · simp [Spec.byteAt]
    · rw [ih (n / 256), Spec.uintLE]
      apply List.map_congr_left
      intro k _
      simp only [Function.comp, byteAt_succ]

theorem leEncode2_eq_intLE (x : Int) : leEncode 2 (toU 16 x) = Spec.intLE 2 x := by
  rw [leEncode_eq_uintLE]; rfl
theorem leEncode4_eq_intLE (x : Int) : leEncode 4 (toU 32 x) = Spec.intLE 4 x := by
  rw [leEncode_eq_uintLE]; rfl
theorem leEncode8_eq_intLE (x : Int) : leEncode 8 (toU 64 x) = Spec.intLE 8 x := by
  rw [leEncode_eq_uintLE]; rfl

/-- every byte string is the little-endian layout of its value (the layouts are onto) -/
theorem bytes_eq_uintLE (bs : Bytes) : bs = Spec.uintLE bs.length (leDecode bs) := by
  rw [← leEncode_eq_uintLE, leEncode_leDecode]

/-! ### numeric -/

theorem beValue_eq_beNat (bs : Bytes) : Spec.beValue bs = beNat bs := by
  simp only [Spec.beValue, beNat]
  congr 1
  funext a b
  omega

theorem natBytesBE_head (n : Nat) : (natBytesBE n).head? ≠ some 0 := by
  induction n using Nat.strongRecOn with
  | ind n ih =>
    rw [natBytesBE]
    split
    · simp
    · rename_i h
      by_cases h256 : n / 256 = 0
      · rw [h256, natBytesBE]
        have hlt : n < 256 := by omega
        simp only [if_true, List.nil_append, List.head?_cons]
        intro hc
        have := congrArg UInt8.toNat (Option.some.inj hc)
        rw [u8_mod] at this
        have h0 : (0 : UInt8).toNat = 0 := rfl
        omega
      · have hne : natBytesBE (n / 256) ≠ [] := by
          rw [natBytesBE, if_neg h256]; simp
        have := ih (n / 256) (by omega)
        cases hq : natBytesBE (n / 256) with
        | nil => exact absurd hq hne
        | cons a l => rw [hq] at this; simpa using this

theorem natBytesBE_isNumeric (i : Int) : Spec.IsNumeric i ((if i < 0 then 1 else 0) :: natBytesBE i.natAbs) :=
  ⟨natBytesBE i.natAbs, rfl, by rw [beValue_eq_beNat, beNat_natBytesBE], natBytesBE_head _⟩

/-! ### calendar -/

theorem leap_eq (y : Nat) : Spec.leap y = isLeap (y : Int) := by
  have h := isLeap_iff (y : Int)
  cases hl : isLeap (y : Int)
  · have : ¬ ((y : Int) % 4 = 0 ∧ ((y : Int) % 100 ≠ 0 ∨ (y : Int) % 400 = 0)) := by
      intro hh; rw [h.2 hh] at hl; exact Bool.noConfusion hl
    simp only [Spec.leap, Bool.or_eq_false_iff, Bool.and_eq_false_iff, beq_eq_false_iff_ne, bne_eq_false_iff_eq,
      ne_eq]
    omega
  · have := h.1 hl
    simp only [Spec.leap, Bool.or_eq_true, Bool.and_eq_true, beq_iff_eq, bne_iff_ne, ne_eq]
    omega

theorem monthSum_eq (y m : Nat) (hm : 1 ≤ m ∧ m ≤ 12) :
    ((Spec.monthLengths y).take (m - 1)).sum = daysBeforeMonth m (isLeap (y : Int)) := by
  have hm' : m = 1 ∨ m = 2 ∨ m = 3 ∨ m = 4 ∨ m = 5 ∨ m = 6 ∨ m = 7 ∨ m = 8 ∨ m = 9 ∨ m = 10 ∨ m = 11 ∨ m = 12 := by
    omega
  rw [Spec.monthLengths, leap_eq]
  rcases hm' with h | h | h | h | h | h | h | h | h | h | h | h <;> subst h <;>
    cases isLeap (y : Int) <;> rfl

theorem monthLen_eq (y m : Nat) (hm : 1 ≤ m ∧ m ≤ 12) :
    (Spec.monthLengths y).getD (m - 1) 0 = daysInMonth m (isLeap (y : Int)) := by
  have hm' : m = 1 ∨ m = 2 ∨ m = 3 ∨ m = 4 ∨ m = 5 ∨ m = 6 ∨ m = 7 ∨ m = 8 ∨ m = 9 ∨ m = 10 ∨ m = 11 ∨ m = 12 := by
    omega
  rw [Spec.monthLengths, leap_eq]
  rcases hm' with h | h | h | h | h | h | h | h | h | h | h | h <;> subst h <;>
    cases isLeap (y : Int) <;> rfl

/-- the textbook day number is the model's day number + 1 -/
theorem rataDie_eq (y m d : Nat) (hy : 1 ≤ y) (hm : 1 ≤ m ∧ m ≤ 12) :
    Spec.rataDie y m d = daysFromCivil (y : Int) m d + 1 := by
  simp only [Spec.rataDie, monthSum_eq y m hm, daysFromCivil, yearStart]
  omega

theorem validDate_iff (y m d : Nat) : Spec.validDate y m d ↔ (1 ≤ y ∧ ValidDate (y : Int) m d) := by
  simp only [Spec.validDate, ValidDate]
  constructor
  · rintro ⟨h1, h2, h3, h4, h5⟩
    rw [monthLen_eq y m ⟨h2, h3⟩] at h5
    exact ⟨h1, h2, h3, h4, h5⟩
  · rintro ⟨h1, h2, h3, h4, h5⟩
    rw [← monthLen_eq y m ⟨h2, h3⟩] at h5
    exact ⟨h1, h2, h3, h4, h5⟩

theorem rataDie_1900 : Spec.rataDie 1900 1 1 = 693596 := by decide +kernel

theorem tickOf_eq (us : Nat) : Spec.tickOf us = (3 * us + 5000) / 10000 := by
  simp only [Spec.tickOf]; omega

/-! ### unitext -/

theorem utf16_eq (c : Nat) (h : IsScalar c) : Spec.utf16 c = utf16Enc c := by
  obtain ⟨hs, hgt⟩ := scalar_flags c h
  simp only [Spec.utf16, utf16Enc, hs, Bool.false_or, decide_eq_true_eq, if_neg hgt]

/-- the reference UTF-16LE layout is the byte layout of the model's code units -/
theorem unitext_eq (cps : List Nat) (h : ∀ c ∈ cps, IsScalar c) : Spec.unitext cps = unitsLE (utf16EncAll cps) := by
  have e1 : cps.map Spec.utf16 = cps.map utf16Enc := List.map_congr_left (fun c hc => utf16_eq c (h c hc))
  have e2 : (fun n => Spec.uintLE 2 n) = leEncode 2 := by funext n; rw [leEncode_eq_uintLE]
  simp only [Spec.unitext, unitsLE, utf16EncAll, e1, e2]

end Dblib.Lemmas.ValueSpec
