/-
Round-trip lemmas for ROW / PARAMS (Model/Codec/FieldsRow.lean) on the TDS data layout
(`datumLayout`, `rowLayout` of Model/Codec/FieldsSpec.lean).
-/
import Dblib.Lemmas.CodecFieldsRt

set_option linter.unusedSimpArgs false

namespace Dblib.Codec.Fields
open Dblib Dblib.Value

/-- the status a reader reports: the transmitted byte, or 0 when the column has no status byte -/
def seenStatus (f : Fmt) (status : Nat) : Nat := if hasColumnStatus f then status else 0

/-- what the Go reader makes of a raw datum laid out by the book: `GoValue` of exactly the raw bytes
(for DECN / NUMN with precision and scale of the format); `none` where `GoValue` does not answer with
a value, for BLOB and for data types outside the specification -/
def datumResult (f : Fmt) (d : RawDatum) : Option Data :=
  match shape f.dataType with
  | some .text => some (.txt (seenStatus f d.status) d.txtPtr d.timeStamp d.raw)
  | some .blob | none => none
  | some .prec =>
    match Value.goValue f.dataType d.raw with
    | .ok (.dec i _ _) => some (.base (seenStatus f d.status) (.dec i f.precision f.scale))
    | .ok .decnull => some (.base (seenStatus f d.status) .decnull)
    | _ => none
  | some _ =>
    match Value.goValue f.dataType d.raw with
    | .ok v => some (.base (seenStatus f d.status) v)
    | _ => none

/-- width constraints of a raw datum for the shape of its column -/
def RawDatum.WF (f : Fmt) (d : RawDatum) : Prop :=
  d.status < 256 ∧
  match shape f.dataType with
  | some (.fixed size) => d.raw.length = size
  | some .len1 | some .prec | some .scale => d.raw.length < 256
  | some .len4 => d.raw.length < 4294967296
  | some .text => d.txtPtr.length < 256 ∧ d.timeStamp.length = 8 ∧ d.raw.length < 4294967296
  | some .blob | none => False

/-- the bytes the Go writer hands to the layout: `DataType.Bytes(value, MaxLength())` for a value,
the members as they are for a text pointer datum; `none` where `Bytes` fails and for BLOB -/
def datumRaw (f : Fmt) : Data → Option RawDatum
  | .base status v =>
    match shape f.dataType with
    | some .text | some .blob | none => none
    | some _ =>
      match Value.bytes f.dataType v f.maxLength with
      | .ok b => some { status := status, raw := b }
      | _ => none
  | .txt status txtPtr timeStamp data =>
    match shape f.dataType with
    | some .text => some { status := status, raw := data, txtPtr := txtPtr, timeStamp := timeStamp }
    | _ => none
  | .blob .. => none

/-- a relation holding position by position along three lists of the same length -/
def All3 {α β γ : Type} (R : α → β → γ → Prop) : List α → List β → List γ → Prop
  | [], [], [] => True
  | a :: as, b :: bs, c :: cs => R a b c ∧ All3 R as bs cs
  | _, _, _ => False

/-- a raw datum as an independent reader sees it: the status byte only if the column has one, text
pointer and timestamp only in a text column -/
def RawDatum.norm (f : Fmt) (d : RawDatum) : RawDatum :=
  { status := seenStatus f d.status, raw := d.raw,
    txtPtr := if shape f.dataType = some .text then d.txtPtr else [],
    timeStamp := if shape f.dataType = some .text then d.timeStamp else [] }

def normRaws : List Fmt → List RawDatum → List RawDatum
  | f :: fs, d :: ds => RawDatum.norm f d :: normRaws fs ds
  | _, _ => []

/-- a relation holding position by position along two lists of the same length -/
def All2 {α β : Type} (R : α → β → Prop) : List α → List β → Prop
  | [], [] => True
  | a :: as, b :: bs => R a b ∧ All2 R as bs
  | _, _ => False

end Dblib.Codec.Fields

namespace Dblib.CodecFields
open Dblib Dblib.P Dblib.Codec Dblib.Codec.Fields Dblib.CodecCursor
open Dblib.Codec.Cursor (lstr frame plstr framed isInt32)

theorem readStatus_bind (f : Fmt) (status : Nat) (rest : Bytes) (g : Nat → P β) (h : status < 256) :
    (readStatus f >>= g) ((if f.status &&& 8 = 8 then leEncode 1 status else []) ++ rest) =
      shift (if f.status &&& 8 = 8 then 1 else 0) (g (seenStatus f status) rest) := by
  unfold readStatus seenStatus hasColumnStatus
  by_cases hc : f.status &&& 8 = 8
  · simp only [hc, beq_self_eq_true, if_true]
    rt_simp [h]
  · have : (f.status &&& 8 == 8) = false := by simpa using hc
    simp only [hc, this, if_false]
    rt_simp []

/-- shapes whose data are read by `fieldDataBase.readFrom` -/
def valueShape : Shape → Bool
  | .text | .blob => false
  | _ => true

/-- the raw bytes fit the shape: exactly the size of a fixed-length type, else below the range of the length member -/
def rawFits (sh : Shape) (raw : Bytes) : Prop :=
  match sh with
  | .fixed size => raw.length = size
  | .len4 => raw.length < 4294967296
  | _ => raw.length < 256

/-- the value bytes as laid out: bare for a fixed-length type, under a 1- or 4-byte length else -/
def valLayout (sh : Shape) (raw : Bytes) : Bytes :=
  match sh with
  | .fixed _ => raw
  | .len4 => lstr 4 raw
  | _ => lstr 1 raw

theorem rawBytes_layout (t : Nat) (sh : Shape) (cls : FmtClass) (p : Int) (raw rest : Bytes) (g : Bytes → P β)
    (hag : agrees t cls p = true) (hsh : shape t = some sh) (hv : valueShape sh = true)
    (hw : rawFits sh raw) :
    (rawBytes t >>= g) (valLayout sh raw ++ rest) = shift (valLayout sh raw).length (g raw rest) := by
  unfold agrees at hag
  rw [hsh] at hag
  unfold rawFits at hw
  unfold rawBytes valLayout readLengthBytes
  cases sh with
  | blob => simp [valueShape] at hv
  | text => simp [valueShape] at hv
  | fixed size =>
    simp only [Bool.and_eq_true, beq_iff_eq, bne_iff_ne, ne_eq, Bool.not_eq_true'] at hag
    obtain ⟨⟨⟨_, hf⟩, hbs⟩, _⟩ := hag
    simp only at hw
    have hfl : fmtLengthBytes t = (size : Int) := by simp [fmtLengthBytes, hf, hbs]
    simp only [hf, if_true, hfl, takeInt]
    have : ¬ ((size : Int) < 0) := by omega
    simp only [this, if_false, Int.toNat_natCast]
    rt_simp [take_bind _ _ _ _ hw.symm]
    rw [hw]
  | len4 =>
    simp only [Bool.and_eq_true, beq_iff_eq, bne_iff_ne, ne_eq, Bool.not_eq_true'] at hag
    obtain ⟨⟨_, hf⟩, hlb⟩ := hag
    simp only at hw
    have hw' : raw.length < 256 ^ 4 := by simpa using hw
    have hwid : lbWidth 4 = 4 := rfl
    unfold lstr
    rt_simp [hf, hlb, hwid, hw']
  | len1 | prec | scale =>
    simp only [Bool.and_eq_true, beq_iff_eq, bne_iff_ne, ne_eq, Bool.not_eq_true'] at hag
    obtain ⟨⟨_, hf⟩, hlb⟩ := hag
    simp only at hw
    have hw' : raw.length < 256 ^ 1 := by simpa using hw
    have hwid : lbWidth 1 = 1 := rfl
    unfold lstr
    rt_simp [hf, hlb, hwid, hw']

theorem liftVal_ok_bind (v : Value.Val) (g : Value.Val → P β) (s : Bytes) :
    (liftVal (.ok v) >>= g) s = g v s := pure_bind_apply v g s

/-- `fieldDataBase.readFrom` on a laid-out value datum whose bytes `GoValue` accepts -/
theorem baseData_layout (f : Fmt) (sh : Shape) (cls : FmtClass) (p : Int) (d : RawDatum) (v : Value.Val)
    (rest : Bytes) (g : Nat × Value.Val → P β)
    (hag : agrees f.dataType cls p = true) (hsh : shape f.dataType = some sh) (hv : valueShape sh = true)
    (hst : d.status < 256) (hw : rawFits sh d.raw) (hgo : Value.goValue f.dataType d.raw = .ok v) :
    (baseData f >>= g) ((if f.status &&& 8 = 8 then leEncode 1 d.status else []) ++ (valLayout sh d.raw ++ rest)) =
      shift ((if f.status &&& 8 = 8 then 1 else 0) + (valLayout sh d.raw).length)
        (g (seenStatus f d.status, v) rest) := by
  unfold baseData
  rt_simp [readStatus_bind f d.status _ _ hst, rawBytes_layout f.dataType sh cls p d.raw _ _ hag hsh hv hw, hgo,
    liftVal_ok_bind]

theorem statusLen (f : Fmt) (d : RawDatum) :
    ((if f.status &&& 8 = 8 then leEncode 1 d.status else []) : Bytes).length =
      (if f.status &&& 8 = 8 then 1 else 0) := by split <;> simp [leEncode_length]

/-- `FieldData.ReadFrom` on one datum laid out by the book -/
theorem dataField_layout (f : Fmt) (d : RawDatum) (r : Data) (rest : Bytes) (g : Data → P β)
    (hwf : RawDatum.WF f d) (hres : datumResult f d = some r) :
    (dataField f >>= g) (datumLayout f d ++ rest) = shift (datumLayout f d).length (g r rest) := by
  obtain ⟨hst, hw⟩ := hwf
  cases hsh : shape f.dataType with
  | none => rw [hsh] at hw; exact absurd hw id
  | some sh =>
    rw [hsh] at hw
    obtain ⟨cls, p, hl, hag⟩ := shape_lookup hsh
    have hcls : f.cls = some cls := by simp [Fmt.cls, fmtClass, hl]
    have hag' := hag
    unfold agrees at hag'
    rw [hsh] at hag'
    unfold datumResult at hres
    rw [hsh] at hres
    unfold dataField datumLayout
    rw [hcls, hsh]
    have hlen := statusLen f d
    have hbase := fun (v : Value.Val) (g' : Nat × Value.Val → P β) (hv : valueShape sh = true) (hw' : rawFits sh d.raw)
      (hgo : Value.goValue f.dataType d.raw = .ok v) => baseData_layout f sh cls p d v rest g' hag hsh hv hst hw' hgo
    cases sh with
    | blob => exact absurd hw id
    | text =>
      simp only [Bool.and_eq_true, beq_iff_eq, bne_iff_ne, ne_eq, Bool.not_eq_true'] at hag'
      obtain ⟨⟨hc, _⟩, _⟩ := hag'
      subst hc
      simp only at hw hres
      obtain ⟨h1, h2, h3⟩ := hw
      have h3' : d.raw.length < 256 ^ 4 := by simpa using h3
      simp only [Option.some.injEq] at hres
      subst hres
      unfold txtData lstr
      rt_simp [readStatus_bind f d.status _ _ hst, h1, take_bind 8 d.timeStamp _ _ h2.symm, h3', hlen]
      congr 1
      omega
    | fixed size =>
      simp only [Bool.and_eq_true, beq_iff_eq, bne_iff_ne, ne_eq, Bool.not_eq_true'] at hag'
      obtain ⟨⟨⟨hc, _⟩, _⟩, _⟩ := hag'
      subst hc
      simp only at hw hres
      cases hgo : Value.goValue f.dataType d.raw with
      | ok v =>
        simp only [hgo, Option.some.injEq] at hres
        subst hres
        rw [show d.raw = valLayout (.fixed size) d.raw from rfl]
        rt_simp [hbase v _ rfl hw hgo, hlen]
      | err => simp [hgo] at hres
      | panic => simp [hgo] at hres
    | len1 =>
      simp only [Bool.and_eq_true, beq_iff_eq, bne_iff_ne, ne_eq, Bool.not_eq_true'] at hag'
      obtain ⟨⟨hc, _⟩, _⟩ := hag'
      subst hc
      simp only at hw hres
      cases hgo : Value.goValue f.dataType d.raw with
      | ok v =>
        simp only [hgo, Option.some.injEq] at hres
        subst hres
        rw [show lstr 1 d.raw = valLayout .len1 d.raw from rfl]
        rt_simp [hbase v _ rfl hw hgo, hlen]
      | err => simp [hgo] at hres
      | panic => simp [hgo] at hres
    | len4 =>
      simp only [Bool.and_eq_true, beq_iff_eq, bne_iff_ne, ne_eq, Bool.not_eq_true'] at hag'
      obtain ⟨⟨hc, _⟩, _⟩ := hag'
      subst hc
      simp only at hw hres
      cases hgo : Value.goValue f.dataType d.raw with
      | ok v =>
        simp only [hgo, Option.some.injEq] at hres
        subst hres
        rw [show lstr 4 d.raw = valLayout .len4 d.raw from rfl]
        rt_simp [hbase v _ rfl hw hgo, hlen]
      | err => simp [hgo] at hres
      | panic => simp [hgo] at hres
    | scale =>
      simp only [Bool.and_eq_true, beq_iff_eq, bne_iff_ne, ne_eq, Bool.not_eq_true'] at hag'
      obtain ⟨⟨hc, _⟩, _⟩ := hag'
      subst hc
      simp only at hw hres
      cases hgo : Value.goValue f.dataType d.raw with
      | ok v =>
        simp only [hgo, Option.some.injEq] at hres
        subst hres
        rw [show lstr 1 d.raw = valLayout .scale d.raw from rfl]
        rt_simp [hbase v _ rfl hw hgo, hlen]
      | err => simp [hgo] at hres
      | panic => simp [hgo] at hres
    | prec =>
      simp only [Bool.and_eq_true, beq_iff_eq, bne_iff_ne, ne_eq, Bool.not_eq_true'] at hag'
      obtain ⟨⟨hc, _⟩, _⟩ := hag'
      subst hc
      simp only at hw hres
      cases hgo : Value.goValue f.dataType d.raw with
      | ok v =>
        simp only [hgo] at hres
        rw [show lstr 1 d.raw = valLayout .prec d.raw from rfl]
        cases v with
        | dec i pr sc =>
          simp only [Option.some.injEq] at hres
          subst hres
          rt_simp [hbase _ _ rfl hw hgo, hlen, withPrecisionScale]
        | decnull =>
          simp only [Option.some.injEq] at hres
          subst hres
          rt_simp [hbase _ _ rfl hw hgo, hlen, withPrecisionScale]
        | _ => simp at hres
      | err => simp [hgo] at hres
      | panic => simp [hgo] at hres

/-! ## rows -/

/-- a raw datum fits its column and the reader makes `r` of it -/
def DatumReads (f : Fmt) (d : RawDatum) (r : Data) : Prop := RawDatum.WF f d ∧ datumResult f d = some r

theorem rowLayout_cons (f : Fmt) (fs : List Fmt) (d : RawDatum) (ds : List RawDatum) :
    rowLayout (f :: fs) (d :: ds) = datumLayout f d ++ rowLayout fs ds := rfl

/-- `ParamsPackage.ReadFrom` on a row laid out by the book, in continuation form -/
theorem rowDec_layout (fmts : List Fmt) (raws : List RawDatum) (rs : List Data)
    (h : All3 DatumReads fmts raws rs) (rest : Bytes) (g : List Data → P β) :
    (Row.dec fmts >>= g) (rowLayout fmts raws ++ rest) = shift (rowLayout fmts raws).length (g rs rest) := by
  induction fmts generalizing raws rs g with
  | nil =>
    cases raws <;> cases rs <;> simp only [All3] at h
    simp [Row.dec, sequence, rowLayout, pure_bind_apply]
  | cons f fs ih =>
    cases raws with
    | nil => cases rs <;> simp only [All3] at h
    | cons d ds =>
      cases rs with
      | nil => simp only [All3] at h
      | cons r rs =>
        simp only [All3] at h
        obtain ⟨⟨hwf, hres⟩, hrest⟩ := h
        have ih' := ih ds rs hrest
        unfold Row.dec at ih' ⊢
        simp only [List.map_cons, sequence, rowLayout_cons]
        rt_simp [dataField_layout f d r _ _ hwf hres]
        rw [ih' (fun as => (Pure.pure (r :: as) : P (List Data)) >>= g)]
        rt_simp []

/-- the Go writer hands `r` to the layout for datum `d` of column `f` -/
def DatumWrites (f : Fmt) (d : Data) (r : RawDatum) : Prop := datumRaw f d = some r

/-- `FieldData.WriteTo` writes the layout of the bytes `DataType.Bytes` produced -/
theorem encData_layout (f : Fmt) (d : Data) (r : RawDatum) (h : datumRaw f d = some r) :
    encData f d = .ok (datumLayout f r) := by
  cases hsh : shape f.dataType with
  | none => cases d <;> simp [datumRaw, hsh] at h
  | some sh =>
    obtain ⟨cls, p, hl, hag⟩ := shape_lookup hsh
    have hcls : f.cls = some cls := by simp [Fmt.cls, fmtClass, hl]
    unfold agrees at hag
    rw [hsh] at hag
    cases d with
    | blob st ser sub loc data => simp [datumRaw] at h
    | txt st tp ts data =>
      cases sh <;> simp [datumRaw, hsh] at h
      subst h
      simp only [Bool.and_eq_true, beq_iff_eq, bne_iff_ne, ne_eq, Bool.not_eq_true'] at hag
      obtain ⟨⟨hc, _⟩, _⟩ := hag
      subst hc
      simp [encData, hcls, datumLayout, hsh, encStatus, hasColumnStatus, lstr]
    | base st v =>
      unfold datumRaw at h
      rw [hsh] at h
      cases sh with
      | blob => simp at h
      | text => simp at h
      | fixed size =>
        simp only [Bool.and_eq_true, beq_iff_eq, bne_iff_ne, ne_eq, Bool.not_eq_true'] at hag
        obtain ⟨⟨⟨hc, hf⟩, _⟩, _⟩ := hag
        subst hc
        cases hb : Value.bytes f.dataType v f.maxLength <;> simp [hb] at h
        subst h
        simp [encData, hcls, encBase, hb, datumLayout, hsh, encStatus, hasColumnStatus, hf]
      | len1 | len4 | prec | scale =>
        simp only [Bool.and_eq_true, beq_iff_eq, bne_iff_ne, ne_eq, Bool.not_eq_true'] at hag
        obtain ⟨⟨hc, hf⟩, hlb⟩ := hag
        subst hc
        cases hb : Value.bytes f.dataType v f.maxLength <;> simp [hb] at h
        subst h
        simp [encData, hcls, encBase, hb, datumLayout, hsh, encStatus, hasColumnStatus, hf, hlb, lbWidth, lstr]

/-- `ParamsPackage.WriteTo` after the token: the row layout of the bytes `Bytes` produced -/
theorem rowEnc_layout (fmts : List Fmt) (ds : List Data) (raws : List RawDatum)
    (h : All3 (fun f d r => datumRaw f d = some r) fmts ds raws) :
    Row.encFields fmts ds = .ok (rowLayout fmts raws) := by
  induction fmts generalizing ds raws with
  | nil =>
    cases ds <;> cases raws <;> simp only [All3] at h
    rfl
  | cons f fs ih =>
    cases ds with
    | nil => cases raws <;> simp only [All3] at h
    | cons d ds =>
      cases raws with
      | nil => simp only [All3] at h
      | cons r rs =>
        simp only [All3] at h
        obtain ⟨h1, h2⟩ := h
        simp only [Row.encFields, encData_layout f d r h1, ih ds rs h2, rowLayout_cons]

/-! ## the independent decoder on the row layout -/

theorem specStatus_bind (f : Fmt) (status : Nat) (rest : Bytes) (g : Nat → P β) (h : status < 256) :
    (specStatus f >>= g) ((if f.status &&& 8 = 8 then leEncode 1 status else []) ++ rest) =
      shift (if f.status &&& 8 = 8 then 1 else 0) (g (seenStatus f status) rest) := by
  have h' : status < 256 ^ 1 := by simpa using h
  unfold specStatus seenStatus hasColumnStatus
  by_cases hc : f.status &&& 8 = 8
  · simp only [hc, beq_self_eq_true, if_true]
    rt_simp [h']
  · have : (f.status &&& 8 == 8) = false := by simpa using hc
    simp only [hc, this, if_false]
    rt_simp []

theorem specDatum_layout (f : Fmt) (d : RawDatum) (rest : Bytes) (g : RawDatum → P β) (hwf : RawDatum.WF f d) :
    (specDatum f >>= g) (datumLayout f d ++ rest) = shift (datumLayout f d).length (g (RawDatum.norm f d) rest) := by
  obtain ⟨hst, hw⟩ := hwf
  have hlen := statusLen f d
  cases hsh : shape f.dataType with
  | none => rw [hsh] at hw; exact absurd hw id
  | some sh =>
    rw [hsh] at hw
    unfold specDatum datumLayout RawDatum.norm
    rw [hsh]
    cases sh with
    | blob => exact absurd hw id
    | fixed size =>
      simp only at hw
      rt_simp [specStatus_bind f d.status _ _ hst, take_bind size d.raw _ _ hw.symm, hlen]
      simp [hw]
    | len1 | prec | scale =>
      simp only at hw
      have hw' : d.raw.length < 256 ^ 1 := by simpa using hw
      unfold lstr
      rt_simp [specStatus_bind f d.status _ _ hst, plstr_bind _ _ _ _ hw', hlen]
      simp
    | len4 =>
      simp only at hw
      have hw' : d.raw.length < 256 ^ 4 := by simpa using hw
      unfold lstr
      rt_simp [specStatus_bind f d.status _ _ hst, plstr_bind _ _ _ _ hw', hlen]
      simp
    | text =>
      simp only at hw
      obtain ⟨h1, h2, h3⟩ := hw
      have h1' : d.txtPtr.length < 256 ^ 1 := by simpa using h1
      have h3' : d.raw.length < 256 ^ 4 := by simpa using h3
      unfold lstr
      rt_simp [specStatus_bind f d.status _ _ hst, plstr_bind _ _ _ _ h1', take_bind 8 d.timeStamp _ _ h2.symm,
        plstr_bind _ _ _ _ h3', hlen]
      congr 1
      omega

theorem rowDecSpec_layout (fmts : List Fmt) (raws : List RawDatum) (h : All2 RawDatum.WF fmts raws)
    (rest : Bytes) (g : List RawDatum → P β) :
    (Row.decSpec fmts >>= g) (rowLayout fmts raws ++ rest) =
      shift (rowLayout fmts raws).length (g (normRaws fmts raws) rest) := by
  induction fmts generalizing raws g with
  | nil =>
    cases raws <;> simp only [All2] at h
    simp [Row.decSpec, sequence, rowLayout, normRaws, pure_bind_apply]
  | cons f fs ih =>
    cases raws with
    | nil => simp only [All2] at h
    | cons d ds =>
      simp only [All2] at h
      obtain ⟨hwf, hrest⟩ := h
      have ih' := ih ds hrest
      unfold Row.decSpec at ih' ⊢
      simp only [List.map_cons, sequence, rowLayout_cons, normRaws]
      rt_simp [specDatum_layout f d _ _ hwf]
      rw [ih' (fun as => (Pure.pure (RawDatum.norm f d :: as) : P (List RawDatum)) >>= g)]
      rt_simp []

end Dblib.CodecFields
