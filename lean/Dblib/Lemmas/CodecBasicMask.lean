/-
Lemmas about `valueMask` (`parseMask`, `maskBytes`, `specMaskBytes` of `Model/Codec/Basic.lean`):
the bit-position rule (capability `n` is bit `n % 8` of byte `len - 1 - n / 8`) for the reader and
the writer, for every mask length and every subset, and `parseMask (maskBytes caps)`.
-/
import Dblib.Model.Codec.Basic

namespace Dblib.Codec.Basic
open Dblib

/-- bit `c` of a value mask `bs` according to the TDS rule -/
def maskBit (bs : Bytes) (c : Nat) : Bool :=
  (bs.getD (bs.length - 1 - c / 8) 0).toNat.testBit (c % 8)

theorem bits8_length (b : UInt8) : (bits8 b).length = 8 := by simp [bits8]

theorem bits8_get (b : UInt8) (j : Nat) (h : j < 8) : (bits8 b)[j]? = some (b.toNat.testBit j) := by
  simp [bits8, h]

theorem flatMap_bits8_length (l : Bytes) : (l.flatMap bits8).length = 8 * l.length := by
  induction l with
  | nil => rfl
  | cons b l ih =>
    rw [List.flatMap_cons, List.length_append, bits8_length, ih, List.length_cons]; omega

theorem flatMap_bits8_get (l : Bytes) (c : Nat) :
    (l.flatMap bits8)[c]? = (l[c / 8]?).map (fun b => b.toNat.testBit (c % 8)) := by
  induction l generalizing c with
  | nil => simp
  | cons b l ih =>
    rw [List.flatMap_cons]
    by_cases hc : c < 8
    · rw [List.getElem?_append_left (by simp [bits8_length, hc])]
      have h0 : c / 8 = 0 := by omega
      have h1 : c % 8 = c := by omega
      simp [h0, h1, bits8_get b c hc]
    · rw [List.getElem?_append_right (by simp [bits8_length]; omega), bits8_length, ih]
      have h0 : c / 8 = (c - 8) / 8 + 1 := by omega
      have h1 : (c - 8) % 8 = c % 8 := by omega
      rw [h0, h1, List.getElem?_cons_succ]

theorem parseMask_length (bs : Bytes) : (parseMask bs).length = 8 * bs.length + 1 := by
  unfold parseMask
  rw [List.length_append, flatMap_bits8_length, List.length_reverse]; rfl

/-- reader: entry `c` of `parseValueMask(bs)` is bit `c % 8` of byte `len - 1 - c / 8` -/
theorem parseMask_get (bs : Bytes) (c : Nat) (h : c < 8 * bs.length) :
    (parseMask bs)[c]? = some (maskBit bs c) := by
  unfold parseMask maskBit
  rw [List.getElem?_append_left (by rw [flatMap_bits8_length, List.length_reverse]; exact h)]
  rw [flatMap_bits8_get]
  have hi : c / 8 < bs.length := by omega
  rw [List.getElem?_reverse hi]
  have : bs.length - 1 - c / 8 < bs.length := by omega
  simp [List.getD_eq_getElem?_getD, List.getElem?_eq_getElem this]

/-- the extra last entry of a parsed mask is never set -/
theorem parseMask_last (bs : Bytes) : (parseMask bs)[8 * bs.length]? = some false := by
  unfold parseMask
  rw [List.getElem?_append_right (by rw [flatMap_bits8_length, List.length_reverse]; exact Nat.le_refl _)]
  rw [flatMap_bits8_length, List.length_reverse, Nat.sub_self]; rfl

theorem bitsToNat_lt (l : List Bool) : bitsToNat l < 2 ^ l.length := by
  induction l with
  | nil => simp [bitsToNat]
  | cons b l ih =>
    simp only [bitsToNat, List.length_cons, Nat.pow_succ]
    split <;> omega

theorem testBit_bitsToNat (l : List Bool) (j : Nat) : (bitsToNat l).testBit j = l.getD j false := by
  induction l generalizing j with
  | nil => simp [bitsToNat]
  | cons b l ih =>
    cases j with
    | zero =>
      simp only [bitsToNat, Nat.testBit_zero, List.getD_cons_zero]
      cases b <;> simp <;> omega
    | succ j =>
      rw [Nat.testBit_succ, List.getD_cons_succ, ← ih j]
      congr 1
      simp only [bitsToNat]
      split <;> omega

theorem toNat_packByte (chunk : List Bool) (h : chunk.length ≤ 8) :
    (packByte chunk).toNat = bitsToNat chunk := by
  unfold packByte
  have h1 := bitsToNat_lt chunk
  have h2 : 2 ^ chunk.length ≤ 2 ^ 8 := Nat.pow_le_pow_right (by decide) h
  simp [UInt8.toNat_ofNat']
  omega

theorem bits8_packByte (chunk : List Bool) (h : chunk.length ≤ 8) :
    bits8 (packByte chunk) = chunk ++ List.replicate (8 - chunk.length) false := by
  apply List.ext_getElem?
  intro j
  by_cases hj : j < 8
  · rw [bits8_get _ j hj, toNat_packByte chunk h, testBit_bitsToNat]
    by_cases hc : j < chunk.length
    · rw [List.getElem?_append_left hc]
      simp [List.getD_eq_getElem?_getD, List.getElem?_eq_getElem hc]
    · rw [List.getElem?_append_right (by omega)]
      have : j - chunk.length < 8 - chunk.length := by omega
      simp [List.getD_eq_getElem?_getD, List.getElem?_eq_none (Nat.le_of_not_lt hc), this]
  · have h1 : (bits8 (packByte chunk))[j]? = none :=
      List.getElem?_eq_none (by rw [bits8_length]; omega)
    have h2 : (chunk ++ List.replicate (8 - chunk.length) false)[j]? = none :=
      List.getElem?_eq_none (by simp; omega)
    rw [h1, h2]

theorem maskChunks_length (k : Nat) (l : List Bool) : (maskChunks k l).length = k := by
  induction k generalizing l with
  | zero => rfl
  | succ k ih => simp [maskChunks, ih]

/-- the rounds of `valueMask.Bytes`, read back in iteration order, are the entries padded with
`false` to a multiple of eight -/
theorem flatMap_maskChunks (k : Nat) (l : List Bool) (h : l.length ≤ 8 * k) :
    (maskChunks k l).flatMap bits8 = l ++ List.replicate (8 * k - l.length) false := by
  induction k generalizing l with
  | zero =>
    have : l = [] := List.eq_nil_of_length_eq_zero (by omega)
    subst this; rfl
  | succ k ih =>
    rw [maskChunks, List.flatMap_cons, bits8_packByte _ (by simp [List.length_take]; omega)]
    by_cases h8 : 8 ≤ l.length
    · rw [ih (l.drop 8) (by simp [List.length_drop]; omega)]
      have ht : (l.take 8).length = 8 := by simp [List.length_take]; omega
      rw [ht]
      simp only [Nat.sub_self, List.replicate_zero, List.append_nil, List.length_drop]
      rw [← List.append_assoc, List.take_append_drop]
      congr 2; omega
    · have ht : l.take 8 = l := List.take_of_length_le (by omega)
      have hd : l.drop 8 = [] := List.drop_of_length_le (by omega)
      rw [ht, hd, ih [] (by simp)]
      simp only [List.nil_append, List.length_nil, Nat.sub_zero, List.append_assoc,
        List.replicate_append_replicate]
      congr 2; omega

theorem maskBytes_length (caps : List Bool) : (maskBytes caps).length = (caps.length + 7) / 8 := by
  simp [maskBytes, maskChunks_length]

/-- reading back what `valueMask.Bytes` wrote: the entries, padded with `false` to a multiple of
eight, plus the extra last entry of `newValueMask(8·len)` -/
theorem parseMask_maskBytes (caps : List Bool) :
    parseMask (maskBytes caps) =
      caps ++ List.replicate (8 * ((caps.length + 7) / 8) - caps.length) false ++ [false] := by
  unfold parseMask maskBytes
  rw [List.reverse_reverse, flatMap_maskChunks _ _ (by omega)]

/-- writer: bit `c % 8` of byte `len - 1 - c / 8` of `valueMask.Bytes()` is entry `c` (not set
beyond the last entry) -/
theorem maskBytes_bit (caps : List Bool) (c : Nat) (h : c < 8 * ((caps.length + 7) / 8)) :
    maskBit (maskBytes caps) c = caps.getD c false := by
  have h1 := parseMask_get (maskBytes caps) c (by rw [maskBytes_length]; exact h)
  rw [parseMask_maskBytes] at h1
  have h2 : (caps ++ List.replicate (8 * ((caps.length + 7) / 8) - caps.length) false ++ [false])[c]?
      = some (caps.getD c false) := by
    rw [List.getElem?_append_left (by simp; omega)]
    by_cases hc : c < caps.length
    · rw [List.getElem?_append_left hc]
      simp [List.getD_eq_getElem?_getD, List.getElem?_eq_getElem hc]
    · rw [List.getElem?_append_right (by omega)]
      have : c - caps.length < 8 * ((caps.length + 7) / 8) - caps.length := by omega
      simp [List.getD_eq_getElem?_getD, List.getElem?_eq_none (Nat.le_of_not_lt hc), this]
  rw [h2] at h1
  injection h1 with h1
  exact h1.symm

theorem specMaskBytes_length (caps : List Bool) :
    (specMaskBytes caps).length = (caps.length + 7) / 8 := by
  simp [specMaskBytes]

theorem specMaskBytes_get (caps : List Bool) (i : Nat) (hi : i < (caps.length + 7) / 8) :
    (specMaskBytes caps)[i]? = some (packByte ((List.range 8).map (fun j =>
        caps.getD (8 * ((caps.length + 7) / 8 - 1 - i) + j) false))) := by
  simp [specMaskBytes, hi, packByte]

theorem specMaskBytes_bit (caps : List Bool) (c : Nat) (h : c < 8 * ((caps.length + 7) / 8)) :
    maskBit (specMaskBytes caps) c = caps.getD c false := by
  unfold maskBit
  rw [specMaskBytes_length]
  have hi : (caps.length + 7) / 8 - 1 - c / 8 < (caps.length + 7) / 8 := by omega
  rw [List.getD_eq_getElem?_getD, specMaskBytes_get caps _ hi, Option.getD_some]
  rw [toNat_packByte _ (by simp), testBit_bitsToNat]
  have hc8 : c % 8 < 8 := Nat.mod_lt _ (by decide)
  have hidx : 8 * ((caps.length + 7) / 8 - 1 - ((caps.length + 7) / 8 - 1 - c / 8)) + c % 8 = c := by omega
  rw [List.getD_eq_getElem?_getD, List.getElem?_map, List.getElem?_range hc8]
  simp only [Option.map_some, Option.getD_some, hidx]

/-- two masks of the same length with the same bits are the same bytes -/
theorem bytes_ext_maskBit (a b : Bytes) (hl : a.length = b.length)
    (h : ∀ c, c < 8 * a.length → maskBit a c = maskBit b c) : a = b := by
  apply List.ext_getElem hl
  intro i h1 h2
  apply UInt8.toNat_inj.mp
  apply Nat.eq_of_testBit_eq
  intro j
  by_cases hj : j < 8
  · have := h (8 * (a.length - 1 - i) + j) (by
      have : a.length - 1 - i < a.length := by omega
      omega)
    unfold maskBit at this
    have e1 : (8 * (a.length - 1 - i) + j) / 8 = a.length - 1 - i := by omega
    have e2 : (8 * (a.length - 1 - i) + j) % 8 = j := by omega
    have e3 : a.length - 1 - (a.length - 1 - i) = i := by omega
    have e4 : b.length - 1 - (a.length - 1 - i) = i := by omega
    rw [e1, e2, e3, e4] at this
    simpa [List.getD_eq_getElem?_getD, List.getElem?_eq_getElem h1, List.getElem?_eq_getElem h2] using this
  · have ha : a[i].toNat < 2 ^ 8 := a[i].toNat_lt
    have hb : b[i].toNat < 2 ^ 8 := b[i].toNat_lt
    have h8 : 2 ^ 8 ≤ 2 ^ j := Nat.pow_le_pow_right (by decide) (by omega)
    rw [Nat.testBit_lt_two_pow (by omega), Nat.testBit_lt_two_pow (by omega)]

/-- the bytes `valueMask.Bytes` writes are the bytes of the TDS layout rule -/
theorem maskBytes_eq_spec (caps : List Bool) : maskBytes caps = specMaskBytes caps := by
  apply bytes_ext_maskBit
  · rw [maskBytes_length, specMaskBytes_length]
  · intro c hc
    rw [maskBytes_length] at hc
    rw [maskBytes_bit caps c hc, specMaskBytes_bit caps c hc]

end Dblib.Codec.Basic
