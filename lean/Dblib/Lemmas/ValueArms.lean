/-
Arm equations of `Value.bytes` / `Value.goValue` per data type (the `if t = …` chains evaluate for a
concrete generated constant, so each equation is `rfl`), and small lemmas about the helpers.  C04 / C05.
-/
import Dblib.Lemmas.ValueBytes

namespace Dblib.Lemmas.ValueArms
open Dblib Dblib.Value Dblib.AseTime Dblib.Gen Dblib.Lemmas.ValueBytes

/-! ### helpers -/

theorem tdiv_pos (a b : Int) : Int.tdiv a b = if 0 ≤ a then a / b else -((-a) / b) := by
  split
  · exact Int.tdiv_eq_ediv_of_nonneg ‹_›
  · have := Int.neg_tdiv (-a) b
    rw [Int.neg_neg] at this
    rw [this, Int.tdiv_eq_ediv_of_nonneg (by omega)]

theorem wrap64_id (x : Int) (h : -9223372036854775808 ≤ x ∧ x < 9223372036854775808) : wrap64 x = x := by
  simp only [wrap64]; omega

theorem readLE_leEncode (w v : Nat) : readLE w (leEncode w v) = some (v % 256 ^ w) := by
  simp [readLE, leEncode_length, take_self, leDecode_leEncode]

theorem getLE_leEncode (w v : Nat) (rest : Bytes) : getLE w (leEncode w v ++ rest) = some (v % 256 ^ w) := by
  simp [getLE, leEncode_length, take_leEncode, leDecode_leEncode]

theorem zeros_length (n : Nat) : (zeros n).length = n := by simp [zeros]

theorem putLE_zeros (w v : Nat) : putLE w (zeros w) v = some (leEncode w v) := by
  simp [putLE, zeros_length, zeros]

theorem mkBytes_nat (n : Nat) : mkBytes (n : Int) = some (zeros n) := by
  simp [mkBytes]

theorem genericBytes_ok (t : Nat) (v : Val) (bs : Bytes) (hw : binWrite v = some bs)
    (hs : byteSize t = -1 ∨ byteSize t = (bs.length : Int)) : genericBytes t v = .ok bs := by
  simp only [genericBytes, hw]
  rcases hs with h | h <;> simp [h]

/-! ### `Bytes`: the types of the generic arm -/

theorem bytes_INT1 (v : Val) (l : Int) : bytes Types.INT1 v l = if v = .null then .ok [] else genericBytes Types.INT1 v := id rfl
theorem bytes_INT2 (v : Val) (l : Int) : bytes Types.INT2 v l = if v = .null then .ok [] else genericBytes Types.INT2 v := id rfl
theorem bytes_INT4 (v : Val) (l : Int) : bytes Types.INT4 v l = if v = .null then .ok [] else genericBytes Types.INT4 v := id rfl
theorem bytes_INT8 (v : Val) (l : Int) : bytes Types.INT8 v l = if v = .null then .ok [] else genericBytes Types.INT8 v := id rfl
theorem bytes_INTN (v : Val) (l : Int) : bytes Types.INTN v l = if v = .null then .ok [] else genericBytes Types.INTN v := id rfl
theorem bytes_UINT2 (v : Val) (l : Int) : bytes Types.UINT2 v l = if v = .null then .ok [] else genericBytes Types.UINT2 v := id rfl
theorem bytes_UINT4 (v : Val) (l : Int) : bytes Types.UINT4 v l = if v = .null then .ok [] else genericBytes Types.UINT4 v := id rfl
theorem bytes_UINT8 (v : Val) (l : Int) : bytes Types.UINT8 v l = if v = .null then .ok [] else genericBytes Types.UINT8 v := id rfl
theorem bytes_UINTN (v : Val) (l : Int) : bytes Types.UINTN v l = if v = .null then .ok [] else genericBytes Types.UINTN v := id rfl
theorem bytes_FLT4 (v : Val) (l : Int) : bytes Types.FLT4 v l = if v = .null then .ok [] else genericBytes Types.FLT4 v := id rfl
theorem bytes_FLT8 (v : Val) (l : Int) : bytes Types.FLT8 v l = if v = .null then .ok [] else genericBytes Types.FLT8 v := id rfl
theorem bytes_FLTN (v : Val) (l : Int) : bytes Types.FLTN v l = if v = .null then .ok [] else genericBytes Types.FLTN v := id rfl
theorem bytes_BIT (v : Val) (l : Int) : bytes Types.BIT v l = if v = .null then .ok [] else genericBytes Types.BIT v := id rfl
theorem bytes_BINARY (v : Val) (l : Int) : bytes Types.BINARY v l = if v = .null then .ok [] else genericBytes Types.BINARY v := id rfl
theorem bytes_VARBINARY (v : Val) (l : Int) : bytes Types.VARBINARY v l = if v = .null then .ok [] else genericBytes Types.VARBINARY v := id rfl
theorem bytes_LONGBINARY (v : Val) (l : Int) : bytes Types.LONGBINARY v l = if v = .null then .ok [] else genericBytes Types.LONGBINARY v := id rfl
theorem bytes_IMAGE (v : Val) (l : Int) : bytes Types.IMAGE v l = if v = .null then .ok [] else genericBytes Types.IMAGE v := id rfl
theorem bytes_XML (v : Val) (l : Int) : bytes Types.XML v l = if v = .null then .ok [] else genericBytes Types.XML v := id rfl
theorem bytes_CHAR (v : Val) (l : Int) : bytes Types.CHAR v l = if v = .null then .ok [] else genericBytes Types.CHAR v := id rfl
theorem bytes_VARCHAR (v : Val) (l : Int) : bytes Types.VARCHAR v l = if v = .null then .ok [] else genericBytes Types.VARCHAR v := id rfl
theorem bytes_LONGCHAR (v : Val) (l : Int) : bytes Types.LONGCHAR v l = if v = .null then .ok [] else genericBytes Types.LONGCHAR v := id rfl
theorem bytes_TEXT (v : Val) (l : Int) : bytes Types.TEXT v l = if v = .null then .ok [] else genericBytes Types.TEXT v := id rfl
theorem bytes_BLOB (v : Val) (l : Int) : bytes Types.BLOB v l = if v = .null then .ok [] else genericBytes Types.BLOB v := id rfl

/-! ### `ByteSize` of the generated table -/

theorem byteSize_INT1 : byteSize Types.INT1 = 1 := id rfl
theorem byteSize_INT2 : byteSize Types.INT2 = 2 := id rfl
theorem byteSize_INT4 : byteSize Types.INT4 = 4 := id rfl
theorem byteSize_INT8 : byteSize Types.INT8 = 8 := id rfl
theorem byteSize_UINT2 : byteSize Types.UINT2 = 2 := id rfl
theorem byteSize_UINT4 : byteSize Types.UINT4 = 4 := id rfl
theorem byteSize_UINT8 : byteSize Types.UINT8 = 8 := id rfl
theorem byteSize_FLT4 : byteSize Types.FLT4 = 4 := id rfl
theorem byteSize_FLT8 : byteSize Types.FLT8 = 8 := id rfl
theorem byteSize_BIT : byteSize Types.BIT = 1 := id rfl
theorem byteSize_DATE : byteSize Types.DATE = 4 := id rfl
theorem byteSize_TIME : byteSize Types.TIME = 4 := id rfl
theorem byteSize_DATETIME : byteSize Types.DATETIME = 8 := id rfl
theorem byteSize_SHORTDATE : byteSize Types.SHORTDATE = 4 := id rfl
theorem byteSize_MONEY : byteSize Types.MONEY = 8 := id rfl
theorem byteSize_SHORTMONEY : byteSize Types.SHORTMONEY = 4 := id rfl
theorem byteSize_INTN : byteSize Types.INTN = -1 := id rfl
theorem byteSize_UINTN : byteSize Types.UINTN = -1 := id rfl
theorem byteSize_FLTN : byteSize Types.FLTN = -1 := id rfl
theorem byteSize_BINARY : byteSize Types.BINARY = -1 := id rfl
theorem byteSize_VARBINARY : byteSize Types.VARBINARY = -1 := id rfl
theorem byteSize_LONGBINARY : byteSize Types.LONGBINARY = -1 := id rfl
theorem byteSize_IMAGE : byteSize Types.IMAGE = -1 := id rfl
theorem byteSize_XML : byteSize Types.XML = -1 := id rfl
theorem byteSize_CHAR : byteSize Types.CHAR = -1 := id rfl
theorem byteSize_VARCHAR : byteSize Types.VARCHAR = -1 := id rfl
theorem byteSize_LONGCHAR : byteSize Types.LONGCHAR = -1 := id rfl
theorem byteSize_TEXT : byteSize Types.TEXT = -1 := id rfl
theorem byteSize_UNITEXT : byteSize Types.UNITEXT = -1 := id rfl
theorem byteSize_MONEYN : byteSize Types.MONEYN = -1 := id rfl
theorem byteSize_DECN : byteSize Types.DECN = -1 := id rfl
theorem byteSize_NUMN : byteSize Types.NUMN = -1 := id rfl
theorem byteSize_DATEN : byteSize Types.DATEN = -1 := id rfl
theorem byteSize_TIMEN : byteSize Types.TIMEN = -1 := id rfl
theorem byteSize_DATETIMEN : byteSize Types.DATETIMEN = -1 := id rfl
theorem byteSize_BIGDATETIMEN : byteSize Types.BIGDATETIMEN = -1 := id rfl
theorem byteSize_BIGTIMEN : byteSize Types.BIGTIMEN = -1 := id rfl

/-! ### `GoValue` arms -/

theorem goValue_INT1 (bs : Bytes) : goValue Types.INT1 bs = if (bs.length : Int) != 1 then .err else readAs 1 bs Val.u8 := id rfl
theorem goValueBase_INT1 (bs : Bytes) : goValueBase Types.INT1 bs = if (bs.length : Int) != 1 then .err else readAs 1 bs Val.u8 := id rfl
theorem goValue_INT2 (bs : Bytes) : goValue Types.INT2 bs = if (bs.length : Int) != 2 then .err else readAs 2 bs (fun n => Val.i16 (toSigned 2 n)) := id rfl
theorem goValueBase_INT2 (bs : Bytes) : goValueBase Types.INT2 bs = if (bs.length : Int) != 2 then .err else readAs 2 bs (fun n => Val.i16 (toSigned 2 n)) := id rfl
theorem goValue_INT4 (bs : Bytes) : goValue Types.INT4 bs = if (bs.length : Int) != 4 then .err else readAs 4 bs (fun n => Val.i32 (toSigned 4 n)) := id rfl
theorem goValueBase_INT4 (bs : Bytes) : goValueBase Types.INT4 bs = if (bs.length : Int) != 4 then .err else readAs 4 bs (fun n => Val.i32 (toSigned 4 n)) := id rfl
theorem goValue_INT8 (bs : Bytes) : goValue Types.INT8 bs = if (bs.length : Int) != 8 then .err else readAs 8 bs (fun n => Val.i64 (toSigned 8 n)) := id rfl
theorem goValueBase_INT8 (bs : Bytes) : goValueBase Types.INT8 bs = if (bs.length : Int) != 8 then .err else readAs 8 bs (fun n => Val.i64 (toSigned 8 n)) := id rfl
theorem goValue_UINT2 (bs : Bytes) : goValue Types.UINT2 bs = if (bs.length : Int) != 2 then .err else readAs 2 bs Val.u16 := id rfl
theorem goValueBase_UINT2 (bs : Bytes) : goValueBase Types.UINT2 bs = if (bs.length : Int) != 2 then .err else readAs 2 bs Val.u16 := id rfl
theorem goValue_UINT4 (bs : Bytes) : goValue Types.UINT4 bs = if (bs.length : Int) != 4 then .err else readAs 4 bs Val.u32 := id rfl
theorem goValueBase_UINT4 (bs : Bytes) : goValueBase Types.UINT4 bs = if (bs.length : Int) != 4 then .err else readAs 4 bs Val.u32 := id rfl
theorem goValue_UINT8 (bs : Bytes) : goValue Types.UINT8 bs = if (bs.length : Int) != 8 then .err else readAs 8 bs Val.u64 := id rfl
theorem goValueBase_UINT8 (bs : Bytes) : goValueBase Types.UINT8 bs = if (bs.length : Int) != 8 then .err else readAs 8 bs Val.u64 := id rfl
theorem goValue_FLT4 (bs : Bytes) : goValue Types.FLT4 bs = if (bs.length : Int) != 4 then .err else readAs 4 bs Val.f32 := id rfl
theorem goValueBase_FLT4 (bs : Bytes) : goValueBase Types.FLT4 bs = if (bs.length : Int) != 4 then .err else readAs 4 bs Val.f32 := id rfl
theorem goValue_FLT8 (bs : Bytes) : goValue Types.FLT8 bs = if (bs.length : Int) != 8 then .err else readAs 8 bs Val.f64 := id rfl
theorem goValueBase_FLT8 (bs : Bytes) : goValueBase Types.FLT8 bs = if (bs.length : Int) != 8 then .err else readAs 8 bs Val.f64 := id rfl

theorem goValue_INTN (bs : Bytes) : goValue Types.INTN bs =
    if bs.length = 0 then .ok .null
    else if bs.length = 1 then goValueBase Types.INT1 bs
    else if bs.length = 2 then goValueBase Types.INT2 bs
    else if bs.length = 4 then goValueBase Types.INT4 bs
    else if bs.length = 8 then goValueBase Types.INT8 bs
    else .err := id rfl

theorem goValue_UINTN (bs : Bytes) : goValue Types.UINTN bs =
    if bs.length = 0 then .ok .null
    else if bs.length = 1 then goValueBase Types.INT1 bs
    else if bs.length = 2 then goValueBase Types.UINT2 bs
    else if bs.length = 4 then goValueBase Types.UINT4 bs
    else if bs.length = 8 then goValueBase Types.UINT8 bs
    else .err := id rfl

theorem goValue_FLTN (bs : Bytes) : goValue Types.FLTN bs =
    if bs.length = 0 then .ok .null
    else if bs.length = 4 then goValueBase Types.FLT4 bs
    else if bs.length = 8 then goValueBase Types.FLT8 bs
    else .err := id rfl

theorem goValue_BIT (bs : Bytes) : goValue Types.BIT bs =
    if (bs.length : Int) != 1 then .err else
    match bs with
    | [] => .panic
    | b :: _ => .ok (.bool (b == 1)) := id rfl

theorem goValue_LONGBINARY (bs : Bytes) : goValue Types.LONGBINARY bs = if bs.length = 0 then .ok .null else .ok (.bytes bs) := id rfl
theorem goValue_BINARY (bs : Bytes) : goValue Types.BINARY bs = if bs.length = 0 then .ok .null else .ok (.bytes bs) := id rfl
theorem goValue_VARBINARY (bs : Bytes) : goValue Types.VARBINARY bs = if bs.length = 0 then .ok .null else .ok (.bytes bs) := id rfl
theorem goValue_IMAGE (bs : Bytes) : goValue Types.IMAGE bs = if bs.length = 0 then .ok .null else .ok (.bytes bs) := id rfl
theorem goValue_CHAR (bs : Bytes) : goValue Types.CHAR bs = if bs.length = 0 then .ok .null else .ok (.str bs) := id rfl
theorem goValue_VARCHAR (bs : Bytes) : goValue Types.VARCHAR bs = if bs.length = 0 then .ok .null else .ok (.str bs) := id rfl
theorem goValue_TEXT (bs : Bytes) : goValue Types.TEXT bs = if bs.length = 0 then .ok .null else .ok (.str bs) := id rfl
theorem goValue_LONGCHAR (bs : Bytes) : goValue Types.LONGCHAR bs = if bs.length = 0 then .ok .null else .ok (.str bs) := id rfl
theorem goValue_XML (bs : Bytes) : goValue Types.XML bs = if bs.length = 0 then .ok .null else .ok (.bytes bs) := id rfl
theorem goValue_BLOB (bs : Bytes) : goValue Types.BLOB bs = .err := id rfl

theorem goValue_UNITEXT (bs : Bytes) : goValue Types.UNITEXT bs =
    if bs.length = 0 then .ok .null
    else if bs.length % 2 ≠ 0 then .err
    else .ok (.str (trimRightNul (utf8EncAll (utf16Dec (unitsOfLE bs))))) := id rfl

/-- the money arm -/
def moneyArm (bs : Bytes) : VOut :=
  if bs.length = 0 then .ok .decnull
  else if bs.length = 4 then
    .ok (.dec (toI32 (leDecode (bs.take 4))) Types.aseShortMoneyPrecision Types.aseShortMoneyScale)
  else if bs.length = 8 then
    .ok (.dec (wrap64 (((leDecode (bs.take 4) : Nat) : Int) * 4294967296 + ((leDecode ((bs.drop 4).take 4) : Nat) : Int)))
      Types.aseMoneyPrecision Types.aseMoneyScale)
  else .ok (.dec 0 0 0)

theorem goValue_MONEY (bs : Bytes) : goValue Types.MONEY bs = if (bs.length : Int) != 8 then .err else moneyArm bs := id rfl
theorem goValue_SHORTMONEY (bs : Bytes) : goValue Types.SHORTMONEY bs = if (bs.length : Int) != 4 then .err else moneyArm bs := id rfl
theorem goValue_MONEYN (bs : Bytes) : goValue Types.MONEYN bs = moneyArm bs := id rfl

/-- the decimal / numeric arm -/
def decArm (bs : Bytes) : VOut :=
  match bs with
  | [] => .ok .decnull
  | sign :: mag =>
    .ok (.dec (if sign == 1 then -((beNat mag : Nat) : Int) else ((beNat mag : Nat) : Int))
      Types.aseDecimalDefaultPrecision Types.aseDecimalDefaultScale)

theorem goValue_DECN (bs : Bytes) : goValue Types.DECN bs = decArm bs := id rfl
theorem goValue_NUMN (bs : Bytes) : goValue Types.NUMN bs = decArm bs := id rfl

/-- the money arm of `Bytes` -/
def moneyBytes (v : Val) (maxLen : Int) : BOut :=
  if v = .null then .ok [] else
  match v with
  | .dec i _ _ =>
    match mkBytes maxLen with
    | none => .panic
    | some bs =>
      if maxLen = 4 then .ok (leEncode 4 (toU 32 (wrap64 i)))
      else if maxLen = 8 then
        .ok (leEncode 4 (toU 32 (wrap64 i / 4294967296)) ++ leEncode 4 (toU 32 (wrap64 i)))
      else .ok bs
  | .decnull => .panic
  | _ => .err

theorem bytes_MONEY (v : Val) (l : Int) : bytes Types.MONEY v l = moneyBytes v l := id rfl
theorem bytes_SHORTMONEY (v : Val) (l : Int) : bytes Types.SHORTMONEY v l = moneyBytes v l := id rfl
theorem bytes_MONEYN (v : Val) (l : Int) : bytes Types.MONEYN v l = moneyBytes v l := id rfl

theorem bytes_DECN (i : Int) (p s : Nat) (l : Int) :
    bytes Types.DECN (.dec i p s) l = .ok ((if i < 0 then 1 else 0) :: natBytesBE i.natAbs) := id rfl
theorem bytes_NUMN (i : Int) (p s : Nat) (l : Int) :
    bytes Types.NUMN (.dec i p s) l = .ok ((if i < 0 then 1 else 0) :: natBytesBE i.natAbs) := id rfl

/-! ### temporal arms -/

/-- the DATE / DATEN arm of `goValue` -/
def dateArm (bs : Bytes) : VOut :=
  if bs.length = 0 then .ok .null
  else if bs.length ≠ 4 then .err
  else match getLE 4 bs with
    | none => .panic
    | some u => .ok (.time (epoch1900.addDays (AseTime.days (wrap64 (toI32 u * Types.day)))))

theorem goValue_DATE (bs : Bytes) : goValue Types.DATE bs = if (bs.length : Int) != 4 then .err else dateArm bs := id rfl
theorem goValue_DATEN (bs : Bytes) : goValue Types.DATEN bs = dateArm bs := id rfl

/-- the TIME / TIMEN / BIGTIMEN arm -/
def timeArm (bs : Bytes) : VOut :=
  if bs.length = 0 then .ok .null
  else if bs.length = 4 then
    .ok (.time ((mkDate 1 1 1 0 0 0 0).add
      (milliseconds (fractionalSecondToMillisecond (toI32 (leDecode (bs.take 4)))) * 1000000)))
  else if bs.length = 8 then
    .ok (.time (epochRataDie.add (wrap64 (wrap64 (leDecode (bs.take 8)) * 1000))))
  else .err

theorem goValue_TIME (bs : Bytes) : goValue Types.TIME bs = if (bs.length : Int) != 4 then .err else timeArm bs := id rfl
theorem goValue_TIMEN (bs : Bytes) : goValue Types.TIMEN bs = timeArm bs := id rfl
theorem goValue_BIGTIMEN (bs : Bytes) : goValue Types.BIGTIMEN bs = timeArm bs := id rfl

/-- the SHORTDATE / DATETIME / DATETIMEN arm -/
def dateTimeArm (bs : Bytes) : VOut :=
  if bs.length = 0 then .ok .null
  else if bs.length = 4 then
    .ok (.time ((epoch1900.addDays (leDecode (bs.take 2))).add
      (((leDecode ((bs.drop 2).take 2) : Nat) : Int) * 60000000000)))
  else if bs.length = 8 then
    .ok (.time ((epoch1900.addDays (AseTime.days (wrap64 (toI32 (leDecode (bs.take 4)) * Types.day)))).add
      (microseconds (fractionalSecondToMillisecond (leDecode ((bs.drop 4).take 4))) * 1000)))
  else .err

theorem goValue_DATETIME (bs : Bytes) : goValue Types.DATETIME bs = if (bs.length : Int) != 8 then .err else dateTimeArm bs := id rfl
theorem goValue_SHORTDATE (bs : Bytes) : goValue Types.SHORTDATE bs = if (bs.length : Int) != 4 then .err else dateTimeArm bs := id rfl
theorem goValue_DATETIMEN (bs : Bytes) : goValue Types.DATETIMEN bs = dateTimeArm bs := id rfl

theorem goValue_BIGDATETIMEN (bs : Bytes) : goValue Types.BIGDATETIMEN bs =
    if bs.length = 0 then .ok .null
    else if bs.length ≠ 8 then .err
    else match getLE 8 bs with
      | none => .panic
      | some u =>
        .ok (.time ((dateYear0.addDays (AseTime.days (wrap64 u))).add
          ((microseconds (wrap64 u) - AseTime.days (wrap64 u) * Types.day) * 1000))) := id rfl

/-- `Bytes` of a time for DATE / DATEN -/
def dateBytes (tm : Time) (l : Int) : BOut :=
  match mkBytes l with
  | none => .panic
  | some bs => ofOpt (putLE 4 bs (toU 32 (floorDays (durationFromDateTime tm - durationFromDateTime epoch1900))))

theorem bytes_DATE (tm : Time) (l : Int) : bytes Types.DATE (.time tm) l = dateBytes tm l := id rfl
theorem bytes_DATEN (tm : Time) (l : Int) : bytes Types.DATEN (.time tm) l = dateBytes tm l := id rfl

def timeBytes (tm : Time) (l : Int) : BOut :=
  match mkBytes l with
  | none => .panic
  | some bs => ofOpt (putLE 4 bs (toU 32 (millisecondToFractionalSecond (microseconds (durationFromTime tm)))))

theorem bytes_TIME (tm : Time) (l : Int) : bytes Types.TIME (.time tm) l = timeBytes tm l := id rfl
theorem bytes_TIMEN (tm : Time) (l : Int) : bytes Types.TIMEN (.time tm) l = timeBytes tm l := id rfl

def dtBytes (tm : Time) (l : Int) : BOut :=
  match mkBytes l with
  | none => .panic
  | some bs => .ok (dateTimeBytes (durationFromDateTime tm - durationFromDateTime epoch1900) l bs)

theorem bytes_DATETIME (tm : Time) (l : Int) : bytes Types.DATETIME (.time tm) l = dtBytes tm l := id rfl
theorem bytes_SHORTDATE (tm : Time) (l : Int) : bytes Types.SHORTDATE (.time tm) l = dtBytes tm l := id rfl
theorem bytes_DATETIMEN (tm : Time) (l : Int) : bytes Types.DATETIMEN (.time tm) l = dtBytes tm l := id rfl

theorem bytes_BIGDATETIMEN (tm : Time) (l : Int) : bytes Types.BIGDATETIMEN (.time tm) l =
    match mkBytes l with
    | none => .panic
    | some bs => ofOpt (putLE 8 bs (toU 64 (durationFromDateTime tm))) := id rfl

theorem bytes_BIGTIMEN (tm : Time) (l : Int) : bytes Types.BIGTIMEN (.time tm) l =
    match mkBytes l with
    | none => .panic
    | some bs => ofOpt (putLE 8 bs (toU 64 (durationFromTime tm))) := id rfl

theorem bytes_UNITEXT (s : Bytes) (l : Int) : bytes Types.UNITEXT (.str s) l =
    .ok (unitextWrite 0 (utf16EncAll (utf8Dec s)) (zeros ((utf16EncAll (utf8Dec s)).length * 2))) := id rfl

end Dblib.Lemmas.ValueArms
