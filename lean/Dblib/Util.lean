/-
Small helpers shared by the executable models and the line-protocol driver.
Core Lean only (no Mathlib): everything here is linked into the `driver` executable.
-/
namespace Dblib

abbrev Bytes := List UInt8

def hexDigit (n : Nat) : Char :=
  if n < 10 then Char.ofNat (48 + n) else Char.ofNat (87 + n)

def hexByte (b : UInt8) : String :=
  String.ofList [hexDigit (b.toNat / 16), hexDigit (b.toNat % 16)]

/-- lowercase hex, `-` for the empty string (so that every field is a non-empty token) -/
def toHex (bs : Bytes) : String :=
  if bs.isEmpty then "-" else String.join (bs.map hexByte)

def hexVal (c : Char) : Option Nat :=
  if '0' ≤ c ∧ c ≤ '9' then some (c.toNat - 48)
  else if 'a' ≤ c ∧ c ≤ 'f' then some (c.toNat - 87)
  else if 'A' ≤ c ∧ c ≤ 'F' then some (c.toNat - 55)
  else none

def fromHexChars : List Char → Option Bytes
  | [] => some []
  | [_] => none
  | a :: b :: rest => do
      let x ← hexVal a
      let y ← hexVal b
      let r ← fromHexChars rest
      pure (UInt8.ofNat (x * 16 + y) :: r)

def fromHex (s : String) : Option Bytes :=
  if s == "-" then some [] else fromHexChars s.toList

def words (s : String) : List String :=
  (s.splitOn " ").filter (· ≠ "")

def parseInt? (s : String) : Option Int := s.toInt?

/-- little-endian encoding of `n` on `w` bytes (truncating, as Go's `PutUintNN`) -/
def leEncode : Nat → Nat → Bytes
  | 0, _ => []
  | w + 1, n => UInt8.ofNat (n % 256) :: leEncode w (n / 256)

/-- little-endian decoding -/
def leDecode : Bytes → Nat
  | [] => 0
  | b :: bs => b.toNat + 256 * leDecode bs

/-- big-endian encoding on `w` bytes -/
def beEncode (w n : Nat) : Bytes := (leEncode w n).reverse

def beDecode (bs : Bytes) : Nat := leDecode bs.reverse

def joinSep (sep : String) : List String → String
  | [] => ""
  | [x] => x
  | x :: xs => x ++ sep ++ joinSep sep xs

end Dblib
