/- placeholder: executable model to be written (see tools/BUILDER_BRIEF.md) -/
import Dblib.Util

namespace Dblib.Decimal

def run (_args : List String) : String := "todo"

end Dblib.Decimal
