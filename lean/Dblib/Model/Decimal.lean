/-
Model of `asetypes/decimal.go` (C16): `NewDecimal`/`sanity`, `String`, `SetString`, `Cmp`,
as the code is after the commits "fix: Decimal.SetString rejects input it cannot represent, sanity
rejects negative scale" and "fix: Decimal.SetString ignores trailing zeros of the fraction".  Text is `List Char` (= Go runes of a *valid* UTF-8 string; the line
protocol answers `bad-op` on invalid UTF-8 and the harness never sends it).

Go standard-library behaviour that is *re-stated here by hand* (trusted base, tied to the real
functions only by the correspondence harness `go/cmd/harness/c16.go`):

* `strings.TrimSpace`   — `trimSpace`: removes leading and trailing runes with `unicode.IsSpace`,
                          i.e. U+0009–U+000D, U+0020, U+0085, U+00A0, U+1680, U+2000–U+200A,
                          U+2028, U+2029, U+202F, U+205F, U+3000 (`isSpace`).
* `strings.Split(s,".")`— `splitOn '.'`: n separators give n+1 pieces, never the empty list.
* `strings.Trim(right,"0123456789") != ""` — `right.any (!isDig ·)` (some rune is not an ASCII digit).
* `len(right)`          — Go counts bytes; the model counts runes.  The two agree because the
                          comparison is only reached when `right` consists of ASCII digits.
* `strings.TrimRight(right,"0")` in `SetString` — `trimRight0` (after the digits-only check).
* `big.Int.SetString(t,10)` — `bigIntSetString`: optional single leading `+` or `-`, then at least
                          one ASCII digit, nothing else (no `_`, no spaces, no prefix); `-0` is 0.
* `fmt.Sprintf("%0Ns", *big.Int)` — `zeroPad N (natDigits |i|)`: `big.Int.Format` pads the decimal
                          digits on the left with `0` up to width N (N = 0: "%00s", no width).
* `big.nat.utoa(10)`    — `natDigits`: decimal digits, most significant first, `"0"` for 0.
* `strings.TrimLeft/TrimRight(x,"0")` — `trimLeft0`/`trimRight0`.
* string slicing `s[a:]`, `s[:a]` with `0 ≤ a ≤ len s` — `List.drop`/`List.take`; a negative bound
                          (only when Scale > Precision, impossible after `sanity`) is Go's
                          run-time panic — `format` answers `none`.

Line protocol (`run`):
  dec new p s            -> ok | err
  dec fmt p s i          -> err-new | ok <hex of String()> | panic
  dec fmtraw p s i       -> (p,s ≥ 0, fields set directly, no sanity)  ok <hex> | panic
  dec parse p s <hex>    -> err-new | ok <unscaled int> | err
  dec rt p s i           -> err-new | ok <int>  (parse(String()) succeeded, Cmp = true)
                                   | ne <int>  (parsed, Cmp = false) | err
-/
import Dblib.Util

namespace Dblib.Decimal

abbrev Text := List Char

/-! ### characters -/

/-- ASCII digit `0`..`9` -/
def isDig (c : Char) : Bool := 48 ≤ c.toNat && c.toNat ≤ 57

def digVal (c : Char) : Nat := c.toNat - 48

def digChar (d : Nat) : Char := Char.ofNat (48 + d)

/-- `unicode.IsSpace` -/
def isSpace (c : Char) : Bool :=
  (9 ≤ c.toNat && c.toNat ≤ 13) || c.toNat == 0x20 || c.toNat == 0x85 || c.toNat == 0xA0 ||
  c.toNat == 0x1680 || (0x2000 ≤ c.toNat && c.toNat ≤ 0x200A) || c.toNat == 0x2028 ||
  c.toNat == 0x2029 || c.toNat == 0x202F || c.toNat == 0x205F || c.toNat == 0x3000

/-! ### strings / big.Int helpers -/

/-- `strings.TrimSpace` (= `TrimRightFunc(TrimLeftFunc(s, IsSpace), IsSpace)`) -/
def trimSpace (l : Text) : Text :=
  ((l.dropWhile isSpace).reverse.dropWhile isSpace).reverse

/-- `strings.Split(l, string(sep))` -/
def splitOn (sep : Char) : Text → List Text
  | [] => [[]]
  | c :: cs =>
    if c = sep then [] :: splitOn sep cs
    else (c :: (splitOn sep cs).headD []) :: (splitOn sep cs).tail

/-- value of a digit string, most significant digit first -/
def ofDigits (l : Text) : Nat := l.foldl (fun a c => 10 * a + digVal c) 0

/-- `big.nat.utoa(10)` -/
def natDigits (n : Nat) : Text :=
  if n < 10 then [digChar n] else natDigits (n / 10) ++ [digChar (n % 10)]
termination_by n
decreasing_by omega

/-- `new(big.Int).SetString(l, 10)`; `none` = `ok == false` -/
def bigIntSetString (l : Text) : Option Int :=
  match l with
  | [] => none
  | c :: r =>
    if c = '-' then
      (if r ≠ [] ∧ r.all isDig then some (-(ofDigits r : Int)) else none)
    else if c = '+' then
      (if r ≠ [] ∧ r.all isDig then some (ofDigits r : Int) else none)
    else
      (if (c :: r).all isDig then some (ofDigits (c :: r) : Int) else none)

def zeroPad (w : Nat) (l : Text) : Text := List.replicate (w - l.length) '0' ++ l

def trimLeft0 (l : Text) : Text := l.dropWhile (· == '0')

def trimRight0 (l : Text) : Text := (l.reverse.dropWhile (· == '0')).reverse

def orZero (l : Text) : Text := if l = [] then ['0'] else l

/-! ### the Decimal functions -/

/-- `Decimal.sanity` with the five checks in source order -/
inductive SanityErr | precisionTooHigh | precisionTooLow | scaleTooHigh | scaleTooLow | scaleBiggerThanPrecision
  deriving DecidableEq, Repr

def sanity (p s : Int) : Option SanityErr :=
  if p > 38 then some .precisionTooHigh
  else if p < 0 then some .precisionTooLow
  else if s > 38 then some .scaleTooHigh
  else if s < 0 then some .scaleTooLow
  else if s > p then some .scaleBiggerThanPrecision
  else none

/-- `NewDecimal` succeeds -/
def newOk (p s : Int) : Bool := (sanity p s).isNone

/-- `Decimal.String` for Precision `p`, Scale `s` and unscaled value `i`; `none` = run-time panic
(slice bound `p - s` negative).  For `s ≤ p` all slice bounds are within `0..len`. -/
def format (p s : Nat) (i : Int) : Option Text :=
  let ds := zeroPad p (natDigits i.natAbs)
  let neg : Text := if i < 0 then ['-'] else []
  if s > p then none
  else
    let right := orZero (trimRight0 (ds.drop (p - s)))
    let left := orZero (trimLeft0 (ds.take (p - s)))
    some (neg ++ left ++ '.' :: right)

inductive Res | ok (i : Int) | err
  deriving DecidableEq, Repr

/-- the part of `SetString` after the split -/
def setParts (p s : Nat) (left right0 : Text) : Res :=
  if right0.any (fun c => !isDig c) then .err
  else
    let right := trimRight0 right0     -- trailing zeros of the fraction are dropped
    if right.length > s then .err
    else
      match bigIntSetString (left ++ right) with
      | none => .err
      | some i =>
        let i' := i * (10 : Int) ^ (s - right.length)
        if i'.natAbs ≥ 10 ^ p then .err else .ok i'

/-- `Decimal.SetString` for Precision `p`, Scale `s`: the new unscaled value or an error
(`dec` untouched). -/
def setString (p s : Nat) (str : Text) : Res :=
  match splitOn '.' (trimSpace str) with
  | [left] => setParts p s left []
  | [left, right] => setParts p s left right
  | _ => .err          -- more than one decimal point (`Split` never returns zero pieces)

/-- `Decimal.Cmp` -/
def cmp (p1 s1 : Nat) (i1 : Int) (p2 s2 : Nat) (i2 : Int) : Bool :=
  p1 == p2 && s1 == s2 && i1 == i2

/-! ### line protocol -/

/-- strict integer syntax of the protocol: optional `-`, digits -/
def readInt (s : String) : Option Int :=
  match s.toList with
  | '-' :: r => if r ≠ [] ∧ r.all isDig then some (-(ofDigits r : Int)) else none
  | r => if r ≠ [] ∧ r.all isDig then some (ofDigits r : Int) else none

def textOfHex (h : String) : Option Text :=
  match fromHex h with
  | none => none
  | some bs =>
    match String.fromUTF8? (ByteArray.mk bs.toArray) with
    | none => none
    | some s => some s.toList

def hexOfText (t : Text) : String := toHex (String.ofList t).toUTF8.data.toList

def showRes : Res → String
  | .ok i => s!"ok {i}"
  | .err => "err"

def run (args : List String) : String :=
  match args with
  | ["new", p, s] =>
    match readInt p, readInt s with
    | some p, some s => if newOk p s then "ok" else "err"
    | _, _ => "bad-op"
  | ["fmt", p, s, i] =>
    match readInt p, readInt s, readInt i with
    | some p, some s, some i =>
      if !newOk p s then "err-new"
      else match format p.toNat s.toNat i with
        | some t => "ok " ++ hexOfText t
        | none => "panic"
    | _, _, _ => "bad-op"
  | ["fmtraw", p, s, i] =>
    match readInt p, readInt s, readInt i with
    | some p, some s, some i =>
      if p < 0 ∨ s < 0 then "bad-op"
      else match format p.toNat s.toNat i with
        | some t => "ok " ++ hexOfText t
        | none => "panic"
    | _, _, _ => "bad-op"
  | ["parse", p, s, h] =>
    match readInt p, readInt s, textOfHex h with
    | some p, some s, some t =>
      if !newOk p s then "err-new" else showRes (setString p.toNat s.toNat t)
    | _, _, _ => "bad-op"
  | ["rt", p, s, i] =>
    match readInt p, readInt s, readInt i with
    | some p, some s, some i =>
      if !newOk p s then "err-new"
      else match format p.toNat s.toNat i with
        | none => "panic"
        | some t =>
          match setString p.toNat s.toNat t with
          | .err => "err"
          | .ok j => (if cmp p.toNat s.toNat i p.toNat s.toNat j then "ok " else "ne ") ++ toString j
    | _, _, _ => "bad-op"
  | _ => "bad-op"

end Dblib.Decimal
