/-
Model of the packet reader: `PacketHeader.ReadFrom` (io.ReadFull of 8 bytes), `Packet.ReadFrom`
(header, length check, body loop tolerating short reads) and the routing loop `Conn.ReadFrom`,
over a scripted transport.

Transport (`net.Conn` read semantics, stated assumption): a `Read(p)` with `len(p) = 0` returns
`(0, nil)` at once; otherwise it returns between 1 and `len(p)` of the next bytes of the stream
(`n > 0 ⇒ err = nil`), how many is decided by the *schedule* (the way TCP segments the stream);
when the stream is exhausted it ends as scripted: `eof` (peer closed), `reset` (read error), or
`hang` (nothing arrives: the read blocks).
-/
import Dblib.Model.PacketQueue
import Dblib.Model.Wire

namespace Dblib.Reader

inductive Fin where
  | eof | reset | hang
deriving Repr, DecidableEq

structure Tr where
  stream : Bytes
  sched : List Nat      -- sizes the transport would hand out; exhausted ⇒ hands out what is asked
  fin : Fin
deriving Repr

/-- outcome of reading exactly `want` bytes with repeated `Read`s -/
inductive Got where
  | all (bs : Bytes)
  | ended (got : Bytes)    -- the stream ended after `got` bytes
deriving Repr, DecidableEq

/-- repeated `Read(p[len(acc):])` until `want` bytes are there (io.ReadFull / the body loop) -/
def readExact : (fuel : Nat) → Tr → (want : Nat) → (acc : Bytes) → Got × Tr
  | 0, tr, _, acc => (.ended acc, tr)
  | fuel + 1, tr, want, acc =>
    if want = 0 then (.all acc, tr)
    else
      match tr.stream with
      | [] => (.ended acc, tr)
      | _ :: _ =>
        -- the transport hands out k bytes, 1 ≤ k ≤ want, k ≤ available
        let offer := match tr.sched with | [] => want | s :: _ => s
        let k := max 1 (min (min offer want) tr.stream.length)
        readExact fuel { tr with stream := tr.stream.drop k, sched := tr.sched.drop 1 }
          (want - k) (acc ++ tr.stream.take k)

inductive Ev where
  | packet (p : Packet)
  | connErr              -- an error put on the connection's error queue
  | stopped              -- the reader loop returned
  | hangs                -- the reader blocks in a read that never returns
deriving Repr, DecidableEq

def hdrOf (bs : Bytes) : Header :=
  match bs with
  | [t, st, l1, l0, c1, c0, nr, w] =>
    { msgType := t.toNat, status := st.toNat, length := l1.toNat * 256 + l0.toNat,
      channel := c1.toNat * 256 + c0.toNat, packetNr := nr.toNat, window := w.toNat }
  | _ => {}

/-- `TDS_BUF_CLOSE` -/
def bufClose : Nat := 9

/-- one iteration of `Conn.ReadFrom`: read a packet; `none` = the loop ends -/
def readPacket (tr : Tr) : List Ev × Option Tr :=
  match readExact 9 tr 8 [] with
  | (.ended _, tr') =>
    -- header incomplete: EOF after zero bytes / unexpected EOF / read error → error queued,
    -- the loop continues (and fails again); a hanging transport blocks
    match tr'.fin with
    | .hang => ([.hangs], none)
    | _ => ([.connErr], none)
  | (.all hb, tr') =>
    let h := hdrOf hb
    if h.length < 8 then ([.connErr], some tr')      -- invalid length (repo fix): error, loop continues
    else
      match readExact (h.length - 8 + 1) tr' (h.length - 8) [] with
      | (.all body, tr'') => ([.packet ⟨h, body⟩], some tr'')
      | (.ended _, tr'') =>
        match tr''.fin with
        | .hang => ([.hangs], none)
        | _ => ([.connErr], none)     -- EOF inside a body: waits for the read timeout, then errors

/-- the reader loop until the transport ends; `fuel` bounds the packets -/
def readLoop : Nat → Tr → List Ev
  | 0, _ => []
  | fuel + 1, tr =>
    match readPacket tr with
    | (ev, none) => ev
    | (ev, some tr') => ev ++ readLoop fuel tr'

end Dblib.Reader
