/-
The fixed-layout TDS login record, as an interpreter of the regenerated step list
`Gen/LoginLayout.lean` (extracted from `LoginConfig.pack`, tds/loginConfig.go) with the semantics
of `writeString` (tds/helper.go) and `writeBasedOnEndian` (tds/binary.go).
-/
import Dblib.Gen.LoginLayout
import Dblib.Util

namespace Dblib.LoginRecord
open Dblib.Gen.LoginLayout

structure Fields where
  hostname : Bytes := []
  username : Bytes := []
  password : Bytes := []
  hostproc : Bytes := []
  appname : Bytes := []
  servname : Bytes := []
  language : Bytes := []
  charset : Bytes := []
deriving Repr, DecidableEq

/-- the value a step refers to -/
def fieldOf (f : Fields) : Ref → Bytes
  | .hostname => f.hostname
  | .username => f.username
  | .password => f.password
  | .hostproc => f.hostproc
  | .appname => f.appname
  | .servname => f.servname
  | .language => f.language
  | .charset => f.charset
  | .const bs => bs.map UInt8.ofNat

/-- `writeString(stream, s, padTo)`: the text, zero padding to `padTo`, one length byte;
a text longer than `padTo` is an error -/
def writeString (s : Bytes) (padTo : Nat) : Option Bytes :=
  if s.length > padTo then none
  else some (s ++ List.replicate (padTo - s.length) 0 ++ [UInt8.ofNat s.length])

def stepOut (little : Bool) (enc : Int) (f : Fields) : Item → Option Bytes
  | .str field w => writeString (fieldOf f field) w
  | .strEnc ids fe fl w => writeString (fieldOf f (if ids.contains enc then fe else fl)) w
  | .endian l b => some [UInt8.ofNat (if little then l else b)]
  | .byte c => some [UInt8.ofNat c]
  | .zeros n => some (List.replicate n 0)
  | .lit bs => some (bs.map UInt8.ofNat)
  | .byteEnc cases dflt =>
    match cases.find? (fun c => c.1.contains enc) with
    | some c => some [UInt8.ofNat c.2]
    | none => some [UInt8.ofNat dflt]

def packItems (little : Bool) (enc : Int) (f : Fields) : List Item → Option Bytes
  | [] => some []
  | it :: rest =>
    match stepOut little enc f it, packItems little enc f rest with
    | some a, some b => some (a ++ b)
    | _, _ => none

/-- `LoginConfig.pack` -/
def pack (enc : Int) (f : Fields) : Option Bytes := packItems littleEndian enc f layout

/-- the number of bytes a step writes (independent of the field values) -/
def width : Item → Nat
  | .str _ w => w + 1
  | .strEnc _ _ _ w => w + 1
  | .endian _ _ => 1
  | .byte _ => 1
  | .zeros n => n
  | .lit bs => bs.length
  | .byteEnc _ _ => 1

/-- `lr <enc> <host> <user> <pw> <hostproc> <app> <serv> <lang> <charset>` (hex) -> `ok <hex>` | `err` -/
def run (args : List String) : String :=
  match args with
  | [enc, a, b, c, d, e, g, h, i] =>
    match enc.toInt?, fromHex a, fromHex b, fromHex c, fromHex d, fromHex e, fromHex g, fromHex h, fromHex i with
    | some enc, some a, some b, some c, some d, some e, some g, some h, some i =>
      match pack enc { hostname := a, username := b, password := c, hostproc := d, appname := e,
                       servname := g, language := h, charset := i } with
      | some bs => "ok " ++ toHex bs
      | none => "err"
    | _, _, _, _, _, _, _, _, _ => "bad-op"
  | _ => "bad-op"

end Dblib.LoginRecord
