/-
Model of `Channel.Login` (tds/login.go) as a consumer of the packages the channel delivers.

The replies are abstracted to what `Login` inspects: the package kind and the inspected fields.
Cryptography is a parameter: `keyOK pem` says whether `rsaEncrypt` can use the key parameter
(PEM block without trailing bytes holding a PKCS#1 public key, message short enough for OAEP).
Running out of replies while waiting is `blocked`: in Go the call waits until the caller's
context expires and then returns an error wrapping the context error.

Constants are taken from the regenerated `Gen/TdsConsts.lean`.
-/
import Dblib.Model.Consume
import Dblib.Gen.TdsConsts

namespace Dblib.Login
open Dblib.Gen.Tds

/-- a parameter data field as `Login` looks at it -/
inductive PField where
  | int4 (v : Option Int)            -- *Int4FieldData with Value() (nil when NULL)
  | longBinary (bs : Option Bytes)   -- *LongBinaryFieldData with Value() (nil when empty)
  | other
deriving Repr, DecidableEq

/-- a delivered package as `Login` looks at it -/
inductive Reply where
  | loginAck (status : Int)
  | done (status : Int)
  | msg (id : Int)
  | paramFmt (nFmts : Nat)
  | params (fields : List PField)
  | capability (someTypeAllZero : Bool)  -- a requested capability type came back all zero
  | eed
  | other
deriving Repr, DecidableEq

structure Cfg where
  encrypt : Int                 -- LoginConfig.Encrypt
  packOK : Bool                 -- config.pack() succeeds (all login record fields fit)
  keyOK : Bytes → Bytes → Bool  -- pem, nonce: rsaEncrypt succeeds for the secrets of this login
  nRemote : Nat := 0

inductive Outcome where
  | success
  | error            -- an error is returned
  | blocked          -- waits for a package that never comes: error when the context expires
deriving Repr, DecidableEq

/-- what the client has sent: 0 = nothing, 1 = login record + capabilities, 2 = also the
encrypted passwords and session key -/
abbrev Sent := Nat

def consumeOps : Consume.Ops Reply :=
  { isEED := fun r => r == .eed
    isDoneFinal := fun r => match r with | .done s => s == TDS_DONE_FINAL | _ => false }

/-- callback of the `NextPackageUntil` that waits for the second login acknowledgement -/
def ackCb (r : Reply) : Consume.Cb :=
  match r with
  | .loginAck s => if s == TDS_LOG_SUCCEED then .stop else .fail
  | _ => .cont

/-- the tail of the encrypted flow, after the password message has been sent -/
def finish (q : List Reply) : Outcome :=
  match Consume.untilCb consumeOps ackCb q [] with
  | (.pkg _, q1) =>
    match q1 with
    | [] => .blocked
    | .capability zero :: q2 =>
      if zero then .error
      else
        match q2 with
        | [] => .blocked
        | .done s :: _ => if s == TDS_DONE_FINAL then .success else .error
        | _ :: _ => .error
    | _ :: _ => .error
  | (.blocked, _) => .blocked
  | _ => .error

/-- `Channel.Login`; returns the outcome and how much was sent -/
def login (cfg : Cfg) (q : List Reply) : Outcome × Sent :=
  if cfg.encrypt == TDS_MSG_SEC_ENCRYPT ∨ cfg.encrypt == TDS_MSG_SEC_ENCRYPT2 ∨ cfg.encrypt == TDS_MSG_SEC_ENCRYPT3
  then (.error, 0)
  else if !cfg.packOK then (.error, 0)
  else
    let plain := cfg.encrypt != TDS_MSG_SEC_ENCRYPT4
    match q with
    | [] => (.blocked, 1)
    | .loginAck st :: q1 =>
      if plain then
        if st != TDS_LOG_SUCCEED then (.error, 1)
        else
          match q1 with
          | [] => (.blocked, 1)
          | .done s :: _ => if s == TDS_DONE_FINAL then (.success, 1) else (.error, 1)
          | _ :: _ => (.error, 1)
      else
        if st != TDS_LOG_NEGOTIATE then (.error, 1)
        else
          match q1 with
          | [] => (.blocked, 1)
          | .msg id :: q2 =>
            if id != TDS_MSG_SEC_ENCRYPT4 then (.error, 1)
            else
              match q2 with
              | [] => (.blocked, 1)
              | .paramFmt n :: q3 =>
                if n != 3 then (.error, 1)
                else
                  match q3 with
                  | [] => (.blocked, 1)
                  | .params fields :: q4 =>
                    if fields.length != 3 then (.error, 1)
                    else
                      match q4 with
                      | [] => (.blocked, 1)
                      | .done _ :: q5 =>
                        match fields with
                        | [.int4 (some v), .longBinary (some pem), .longBinary (some nonce)] =>
                          if v != 1 then (.error, 1)
                          else if !cfg.keyOK pem nonce then (.error, 1)
                          else (finish q5, 2)
                        | _ => (.error, 1)
                      | _ :: _ => (.error, 1)
                  | _ :: _ => (.error, 1)
              | _ :: _ => (.error, 1)
          | _ :: _ => (.error, 1)
    | _ :: _ => (.error, 1)

end Dblib.Login
