/-
An independent reader of the byte stream a TDS peer sees: consecutive packets, each an 8-byte
header (type, status, big-endian length, big-endian channel, packet number, window) followed by
`length - 8` body bytes. Written from the TDS 5.0 packet layout, not from the Go code.
-/
import Dblib.Model.PacketQueue

namespace Dblib

def parsePackets : Nat → Bytes → Option (List Packet)
  | 0, bs => if bs.isEmpty then some [] else none
  | fuel + 1, bs =>
    match bs with
    | [] => some []
    | t :: st :: l1 :: l0 :: c1 :: c0 :: nr :: w :: rest =>
      let len := l1.toNat * 256 + l0.toNat
      if len < 8 ∨ rest.length < len - 8 then none
      else
        let h : Header := { msgType := t.toNat, status := st.toNat, length := len,
                            channel := c1.toNat * 256 + c0.toNat, packetNr := nr.toNat, window := w.toNat }
        (parsePackets fuel (rest.drop (len - 8))).map (⟨h, rest.take (len - 8)⟩ :: ·)
    | _ => none

end Dblib
