/-
Lifecycle model (C13): what blocks, what wakes up, and how Close gets its lock.

Three small state machines, parameterised by the structural facts regenerated from the source
(`Gen/Shape.lean`: which lock is held where, which sends are guarded by a context, which cases the
select of `NextPackage` has):

* `nextPackage` — the select of `NextPackage` as the set of results Go may pick (any ready case);
* `sendCtx` — `sendPackets` checks the context before every packet write;
* the close protocol — the reader thread delivering packages while holding the channel's read lock,
  the closer waiting for the write lock (and, since the repair, consuming the queues meanwhile).
  Go's `sync.RWMutex`: a waiting writer excludes new readers (assumption).
Wall-clock time is not modelled: "promptly"/"bounded" are step counts.
-/
import Dblib.Gen.Shape
import Dblib.Model.ChanTx

namespace Dblib.Life
open Dblib.Gen.Shape

/-! ### NextPackage -/

structure NpState where
  closed : Bool := false
  queued : Nat := 0          -- packages waiting in packageCh
  chanErrs : Nat := 0        -- errors waiting in the channel's error queue
  connErrs : Nat := 0        -- errors waiting in the connection's error queue
  ctxDone : Bool := false    -- the caller's context is cancelled / expired
  connDone : Bool := false   -- the connection's context is cancelled
  wait : Bool := true

inductive NpResult where
  | closed | pkg | ctx | connCtx | chanErr | connErr | noPackage
deriving Repr, DecidableEq

/-- the results `NextPackage` can return at once in this state (empty list = the call blocks) -/
def nextPackage (sel : List String) (closedFirst : Bool) (s : NpState) : List NpResult :=
  if closedFirst && s.closed then [.closed]
  else if nextPackageLooksAtQueueFirst && s.queued > 0 then [.pkg]   -- the non-blocking first look (regenerated fact)
  else
    sel.filterMap (fun c =>
      if c == "<-ctx.Done()" then (if s.ctxDone then some .ctx else none)
      else if c == "<-tdsChan.tdsConn.ctx.Done()" then (if s.connDone then some .connCtx else none)
      else if c == "<-tdsChan.tdsConn.errCh" then (if s.connErrs > 0 then some .connErr else none)
      else if c == "<-tdsChan.errCh" then (if s.chanErrs > 0 then some .chanErr else none)
      else if c == "<-tdsChan.packageCh" then (if s.queued > 0 then some .pkg else none)
      else if c == "<-ch" then (if s.wait then none else some .noPackage)
      else none)

/-! ### sending with a context -/

/-- `sendPackets` over `n` queued packets when the context is cancelled before packet `k` is
written: the number of packets written -/
def sendCtx (checksPerPacket : Bool) (n k : Nat) : Nat :=
  if checksPerPacket then min n k else n

/-! ### the close protocol -/

inductive RPhase where
  | holding    -- the reader is inside WritePacket, holding the read lock
  | released
deriving Repr, DecidableEq

inductive CPhase where
  | waiting    -- Close called Lock() and waits for the readers to leave
  | locked
deriving Repr, DecidableEq

structure Sys where
  cap : Nat        -- capacity of the package queue
  fill : Nat       -- packages in it
  pending : Nat    -- packages the reader still has to deliver in this WritePacket
  r : RPhase
  c : CPhase
deriving Repr, DecidableEq

inductive Step where
  | deliver   -- reader: packageCh <- pkg
  | handoff   -- reader hands a package directly to the draining closer (unbuffered queue)
  | release   -- reader: RUnlock at the end of WritePacket
  | drain     -- closer: consumes a queued package while waiting
  | lock      -- closer: acquires the write lock
deriving Repr, DecidableEq

/-- `some s'` if the step is enabled in `s`; `drains` = Close consumes the queues while waiting -/
def step (drains : Bool) (s : Sys) : Step → Option Sys
  | .deliver => if s.r == .holding ∧ s.pending > 0 ∧ s.fill < s.cap
                then some { s with pending := s.pending - 1, fill := s.fill + 1 } else none
  | .handoff => if drains ∧ s.r == .holding ∧ s.pending > 0 ∧ s.fill = s.cap ∧ s.fill = 0 ∧ s.c == .waiting
                then some { s with pending := s.pending - 1 } else none
  | .release => if s.r == .holding ∧ s.pending = 0 then some { s with r := .released } else none
  | .drain => if drains ∧ s.c == .waiting ∧ s.fill > 0 then some { s with fill := s.fill - 1 } else none
  | .lock => if s.c == .waiting ∧ s.r == .released then some { s with c := .locked } else none

def allSteps : List Step := [.deliver, .handoff, .release, .drain, .lock]

def enabled (drains : Bool) (s : Sys) : List Step := allSteps.filter (fun t => (step drains s t).isSome)

/-- progress measure -/
def measure (s : Sys) : Nat :=
  2 * s.pending + s.fill + (if s.r == .holding then 1 else 0) + (if s.c == .waiting then 1 else 0)

/-- run a maximal schedule (first enabled step each time): the measure bounds it; `blocked` iff no
step is enabled before the closer holds the lock -/
def closeRun (drains : Bool) : Nat → Sys → String
  | 0, _ => "blocked"
  | fuel + 1, s =>
    if s.c == .locked then "close=ok"
    else match enabled drains s with
      | [] => "blocked"
      | t :: _ => match step drains s t with
        | some s' => closeRun drains fuel s'
        | none => "blocked"

/-! ### driver: predicted answers of the scenario scripts of go/cmd/harness/c13.go -/

def showAlts (xs : List String) : String := joinSep "|" xs

def run (args : List String) : String :=
  match args with
  | ["cancel-recv", q, a, _] | ["cancel-recv", q, a] =>
    match q.toNat?, a.toNat? with
    | some q, some a =>
      let rs := nextPackage nextPackageSelect nextPackageChecksClosedFirst { queued := q, ctxDone := true }
      let base := rs.map (fun r => match r with | .pkg => "recv=pkg" | .ctx => "recv=ctx" | _ => "recv=err")
      -- a package arriving while the call runs may be queued before the select looks
      showAlts (if a > 0 ∧ q = 0 then base ++ ["recv=pkg"] else base)
    | _, _ => "bad-op"
  | ["conn-cancel-recv", q] =>
    match q.toNat? with
    | some q =>
      let rs := nextPackage nextPackageSelect nextPackageChecksClosedFirst { queued := q, connDone := true }
      showAlts (rs.map (fun r => match r with | .pkg => "recv=pkg" | .connCtx => "recv=ctx" | _ => "recv=err"))
    | none => "bad-op"
  | ["cancel-send", n] =>
    match n.toNat? with
    | some n =>
      -- the cancelled QueuePackage writes into the transmit queue, sends nothing (context checked
      -- before the first packet) and shifts the queue; the next SendPackage carries what stayed
      let tx : Tx := {}
      let payload := (List.range n).map (fun i => UInt8.ofNat ((3 + 31 * i) % 256))
      match tx.q.writeBytes payload tx.psize with
      | (.ok, q1) =>
        let wrote := sendCtx sendChecksCtxPerPacket q1.queue.length 0
        let q2 : PQ := if q1.ip ≤ q1.queue.length then { q1 with queue := q1.queue.drop q1.ip, ip := 0 } else q1
        match ({ tx with q := q2 }).sendPackage [0xA5] with
        | (_, .sent ps) =>
          let body := (ps.map (fun p => p.data.length)).foldl (· + ·) 0
          s!"send=ctx wire={wrote} send2=ok body2={body}"
        | _ => "send=ctx wire=0 send2=err"
      | _ => "bad-op"
    | none => "bad-op"
  | ["cancel-mid-send", n, k] | ["cancel-mid-send", n, k, _] =>
    match n.toNat?, k.toNat? with
    | some n, some k =>
      -- the message of n bytes occupies ⌈n/504⌉ packets; the context is cancelled during write k
      let total := (n + 503) / 504
      if 1 ≤ k ∧ k < total then s!"send=ctx packets={sendCtx sendChecksCtxPerPacket total k}"
      else s!"send=ok packets={total}"
    | _, _ => "bad-op"
  | ["closed-ops", _] =>
    "close=ok next=closed until=closed queue=closed flush=closed send=closed late=closed latewrite=ok written=0"
  | ["double-close", _] => if closeChecksClosedFirst then "close=ok close2=closed" else "close=ok panic"
  -- a receiver waiting in `NextPackage` holds the read lock for the whole call: `Close` waits for its write
  -- lock until the receiver has returned with its context's error; without the lock `Close` closes the
  -- queues under the receiver, whose select then yields a nil package and no error
  -- the error of a rejected special package goes into the CHANNEL's error queue, which `Close` drains while it
  -- waits for its lock (closeDrainsWhileLocking): the state of the connection's error queue does not matter
  | ["close-connerrs", _, _] => if closeDrainsWhileLocking then "close=ok" else "blocked"
  | ["close-waiting", _] =>
    if nextPackageHoldsRLock then "recv=ctx close=ok after=closed" else "recv=ok close=ok after=closed"
  | ["conn-close", n, _] | ["conn-close", n, _, _] =>   -- fourth argument: a logical channel closed earlier
    match n.toNat? with
    | some n =>
      let chans := (List.range n).map (fun i => s!"ch{i}=closed")
      joinSep " " (["connclose=ok"] ++ chans ++ ["transport=closed", "reader=ended"])
    | none => "bad-op"
  | ["close-pending", _, p, c] =>
    match p.toNat?, c.toNat? with
    | some p, some c =>
      -- the abandoned response: the reader delivers until the queue is full
      let s0 : Sys := { cap := c, fill := min p c, pending := p - min p c, r := .holding, c := .waiting }
      closeRun closeDrainsWhileLocking (measure s0 + 1) s0
    | _, _ => "bad-op"
  | ["close-errors", _, n] =>
    match n.toNat? with
    | some n =>
      -- the error queue holds 10; the reader blocks on the 11th while holding the read lock —
      -- the same protocol as for packages, with capacity 10
      let s0 : Sys := { cap := 10, fill := min n 10, pending := (if n > 10 then 1 else 0), r := .holding, c := .waiting }
      closeRun closeDrainsWhileLocking (measure s0 + 1) s0
    | none => "bad-op"
  | ["abandon-close", _] =>
    -- the cleanup loop after a callback error ends at the first error of NextPackage, and a closed
    -- channel answers at once: the call returns the callback's error
    "until=err"
  | ["reader-exit-unknown", _, _] | ["reader-exit-unknown", _] => if readerErrSendsGuarded then "connclose=ok reader=ended" else "connclose=ok reader=ended|connclose=ok reader=alive"
  -- a token without a package type becomes a tokenless package that takes the rest of its message; the
  -- message after it is delivered as usual
  -- the client-side teardown follows a refused teardown packet (`closeTearsDownAfterWriteError`)
  -- n queued packages and a queued connection error: each call returns what `nextPackage` allows — with the
  -- first look at the package queue exactly the package, n times, then the error
  | ["queued-then-error", n] | ["queued-then-error", n, _] =>
    match n.toNat? with
    | some n =>
      let step (q : Nat) : String :=
        match nextPackage nextPackageSelect nextPackageChecksClosedFirst { queued := q, connErrs := 1 } with
        | [.pkg] => "pkg"
        | [.connErr] => "err"
        | _ => "pkg|err"
      "recv=" ++ joinSep "," ((List.range (n + 1)).map (fun i => step (n - i)))
    | none => "bad-op"
  -- a refused registration registers nothing and holds nothing: the message is delivered, Close returns
  | ["refused-hook", _] => "next=pkg connclose=ok reader=ended"
  | ["close-refused", _] =>
    if closeTearsDownAfterWriteError then "ok_closefail" else "a_closed_channel_delivers_nothing_and_answers_that_it_is_closed"
  | ["unknown-token", _, _] => "next=pkg connclose=ok reader=ended"
  | ["reader-exit", _] => if readerErrSendsGuarded then "connclose=ok reader=ended" else "connclose=ok reader=ended|connclose=ok reader=alive"
  | _ => "bad-op"

end Dblib.Life
