/- Line protocol for the transmit model: `tx <psize> <chan> <pktnr0> <op>…` -/
import Dblib.Model.ChanTx
import Dblib.Model.PacketQueueDriver

namespace Dblib.Tx

/-- deterministic payload, mirrored in the Go harness: b_i = (seed + 31*i) mod 256 -/
def genBytes (n seed : Nat) : Bytes := (List.range n).map (fun i => UInt8.ofNat ((seed + 31 * i) % 256))

def digestAux : Bytes → Nat → Nat → Nat
  | [], _, d => d
  | b :: bs, i, d => digestAux bs (i + 1) ((d + b.toNat * (i % 251 + 1)) % 1000000007)

def digest (bs : Bytes) : Nat := digestAux bs 0 0

def payloadOf (f : List String) : Option Bytes :=
  match f with
  | [_, "g", n, s] => do
      let n ← n.toNat?
      let s ← s.toNat?
      pure (genBytes n s)
  | [_, hex] => fromHex hex
  | _ => none

def summarize (ps : List Packet) : String :=
  if ps.isEmpty then "-" else
  joinSep "," (ps.map (fun p =>
    match packetBytes p with
    | some bs => s!"{toHex (bs.take 8)}/{bs.length - 8}/{digest (bs.drop 8)}"
    | none => "panic"))

def showOut : Out → String
  | .sent ps => summarize ps
  | .panic => "panic"
  | .unsupported => "unsupported"

def runOps : Tx → List String → List String → List String
  | tx, [], acc => (s!"{PQ.showState tx.q} nr={tx.pktNr} ht={tx.hdrType}" :: acc).reverse
  | tx, t :: ts, acc =>
    let f := t.splitOn ":"
    match f.head? with
    | some "q" =>
      match payloadOf f with
      | some pl => let (tx', o) := tx.queuePackage pl; runOps tx' ts (showOut o :: acc)
      | none => ("bad-op" :: acc).reverse
    | some "s" =>
      match payloadOf f with
      | some pl => let (tx', o) := tx.sendPackage pl; runOps tx' ts (showOut o :: acc)
      | none => ("bad-op" :: acc).reverse
    | some "f" => let (tx', o) := tx.sendRemaining; runOps tx' ts (showOut o :: acc)
    | some "rs" => runOps tx.reset ts ("ok" :: acc)     -- `Channel.Reset`: the queued message is abandoned
    -- `SendRemainingPackets` with a cancelled context: the context check in front of the first packet
    -- fails (nothing is written); with nothing queued the loop does not run and the call succeeds; the
    -- deferred `Reset` runs either way
    | some "fc" => runOps tx.reset ts ((if tx.q.queue.isEmpty then "-" else "err:-") :: acc)
    | some "ps" =>
      match f with
      | [_, n] => match n.toNat? with
        | some n => runOps { tx with psize := n } ts ("ok" :: acc)
        | none => ("bad-op" :: acc).reverse
      | _ => ("bad-op" :: acc).reverse
    | some "ht" =>
      match f with
      | [_, n] => match n.toNat? with
        | some n => runOps { tx with hdrType := n } ts ("ok" :: acc)
        | none => ("bad-op" :: acc).reverse
      | _ => ("bad-op" :: acc).reverse
    | _ => ("bad-op" :: acc).reverse

def run (args : List String) : String :=
  match args with
  | ps :: ch :: nr :: ops =>
    match ps.toNat?, ch.toNat?, nr.toNat? with
    | some ps, some ch, some nr =>
      joinSep " " (runOps { psize := ps, chanId := ch, pktNr := nr } ops [])
    | _, _, _ => "bad-op"
  | _ => "bad-op"

end Dblib.Tx
