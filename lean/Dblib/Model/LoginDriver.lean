/- Line protocol of the login model: `login <encrypt> <hostlen> <pwlen> <tok>…` (see go/cmd/harness/c08.go) -/
import Dblib.Model.Login

namespace Dblib.Login
open Dblib.Gen.Tds

def parseField (s : String) : Option PField :=
  if s == "k" then some (.longBinary (some [1]))
  else if s == "kb" ∨ s == "kt" ∨ s == "kw" ∨ s == "kl" ∨ s == "kz" ∨ s == "kn" ∨ s == "kh" then some (.longBinary (some [0]))   -- not a usable key
  else if s == "e" then some (.longBinary none)
  else if s == "v" then some .other
  else if s.startsWith "b" then some .other     -- a VARBINARY value (key or nonce typed as VARBINARY): not a LONGBINARY field
  else match s.toList with
    | 'i' :: rest => (String.ofList rest).toInt?.map (fun v => .int4 (some v))
    | 'n' :: rest => (String.ofList rest).toNat?.map (fun n =>
        if n == 0 then .longBinary none else .longBinary (some (List.replicate n 2)))
    | _ => none

def parseReply (t : String) : Option (Option Reply) :=   -- some none = not delivered (ENVCHANGE)
  match t.splitOn ":" with
  | ["la", n] => n.toInt?.map (fun n => some (.loginAck n))
  | ["dn", n] => n.toInt?.map (fun n => some (.done n))
  | ["msg", n] => n.toInt?.map (fun n => some (.msg n))
  | ["pf", ts] => some (some (.paramFmt ts.length))
  | ["pm", vs] =>
    let fs := (if vs == "" then [] else vs.splitOn ",").map parseField
    if fs.all Option.isSome then some (some (.params (fs.filterMap id))) else none
  | ["cap", "ok"] => some (some (.capability false))
  | ["cap", "okz"] => some (some (.capability false))   -- also lists a type with a zero-length mask: "not requested"
  | ["cap", "zero"] => some (some (.capability true))
  -- a reply that leaves the request or the response type out: `ReadFrom` starts from the empty default
  -- masks of `NewCapabilityPackage` (Codec.Basic.Capability.dec), so that type is all zero
  | ["cap", "noreq"] | ["cap", "nores"] | ["cap", "empty"] => some (some (.capability true))
  | ["eed"] => some (some .eed)
  | ["ot"] => some (some .other)
  | ["env", _] => some none
  | _ => none

/-- what the channel delivers for the server messages: the packages (environment changes filtered)
and, at each end of message, the synthetic DONE(FINAL) unless the last recorded package is one
(EED packages are delivered but not recorded) -/
def deliveredOf : List String → (last : Option Reply) → (pending : Bool) → List Reply → Option (List Reply)
  | [], last, pending, acc =>
    if pending then
      match last with
      | some (.done s) => if s == TDS_DONE_FINAL then some acc else some (acc ++ [.done TDS_DONE_FINAL])
      | _ => some (acc ++ [.done TDS_DONE_FINAL])
    else some acc
  | "|" :: ts, last, _, acc =>
    let acc' := match last with
      | some (.done s) => if s == TDS_DONE_FINAL then acc else acc ++ [.done TDS_DONE_FINAL]
      | _ => acc ++ [.done TDS_DONE_FINAL]
    -- the end of a message forgets the last recorded package (repo fix 58e2a2c)
    deliveredOf ts none false acc'
  | t :: ts, last, _, acc =>
    match parseReply t with
    | none => none
    | some none => deliveredOf ts last true acc
    | some (some r) =>
      let last' := if r == .eed then last else some r
      deliveredOf ts last' true (acc ++ [r])

def showOutcome : Outcome → String
  | .success => "success"
  | .error => "error"
  | .blocked => "blocked"

def run (args : List String) : String :=
  match args with
  | enc :: hostlen :: pwlen :: toks =>
    match enc.toInt?, hostlen.toNat?, pwlen.toNat? with
    | some enc, some hostlen, some pwlen =>
      -- `cut:<k>` only tells the harness how to packetise the replies (every k bytes): what the channel
      -- delivers does not depend on it (C02); `eof`: the peer closes right behind its last reply — what was
      -- received is consumed first (NextPackage hands out queued packages before queued errors)
      match deliveredOf (toks.filter (fun t => !t.startsWith "cut:" && t != "eof")) none false [] with
      | none => "bad-op"
      | some q =>
        -- RSA-OAEP/SHA-1 with the harness' 1024 bit key carries at most 86 bytes: nonce ++ secret
        -- the clear text password is only written into the login record in the plain flow
        let encSet := enc == TDS_MSG_SEC_ENCRYPT || enc == TDS_MSG_SEC_ENCRYPT2 || enc == TDS_MSG_SEC_ENCRYPT3
                        || enc == TDS_MSG_SEC_ENCRYPT4
        let cfg : Cfg := { encrypt := enc, packOK := hostlen ≤ 30 && (encSet || pwlen ≤ 30),
                           keyOK := fun pem nonce => pem == [1] && nonce.length + max pwlen 32 ≤ 86 }
        let r := login cfg q
        s!"{showOutcome r.1} {r.2}"
    | _, _, _ => "bad-op"
  | _ => "bad-op"

end Dblib.Login
