/- Line protocol of the packet reader model: `rd <fin> <k> <sched> <pkts>` (see go/cmd/harness/c14.go) -/
import Dblib.Model.PacketReader
import Dblib.Model.ChanTx

namespace Dblib.Reader

def le (w n : Nat) : Bytes := leEncode w n

/-- a DONE(MORE) package with the given count -/
def doneBytes (count : Nat) : Bytes := [0xFD] ++ le 2 1 ++ le 2 0 ++ le 4 count

/-- a ROWFMT with one INT4 column named `c`: a package whose last read (the empty locale) has length zero -/
def rowFmtBytes : Bytes := [0xEE, 11, 0] ++ [1, 0] ++ [1, 0x63, 0] ++ [0, 0, 0, 0] ++ [0x38, 0]

/-- the stream described by the packet list: `d<n>` body of n DONE packages, `h` header-only -/
def buildStream : List String → Nat → (acc : Bytes) → Option Bytes
  | [], _, acc => some acc
  | p :: rest, n, acc =>
    let last := rest.isEmpty
    let st : Nat := if last then 1 else 0
    if p == "h" then
      buildStream rest n (acc ++ hdrBytes { msgType := 11, status := st, length := 8 })
    else if p == "f" then
      buildStream rest n (acc ++ hdrBytes { msgType := 4, status := st, length := rowFmtBytes.length + 8 } ++ rowFmtBytes)
    else
      match (p.drop 1).toString.toNat? with
      | none => none
      | some cnt =>
        if !p.startsWith "d" then none else
        let body := ((List.range cnt).map (fun j => doneBytes (n + j))).flatten
        buildStream rest (n + cnt)
          (acc ++ hdrBytes { msgType := 4, status := st, length := body.length + 8 } ++ body)

/-- the DONE counts in a packet body -/
def countsOf : Nat → Bytes → List String
  | 0, _ => []
  | fuel + 1, bs =>
    match bs with
    | 0xFD :: _ :: _ :: _ :: _ :: c0 :: c1 :: c2 :: c3 :: rest =>
      toString (leDecode [c0, c1, c2, c3]) :: countsOf fuel rest
    | 0xEE :: 11 :: 0 :: rest => "R" :: countsOf fuel (rest.drop 11)
    | _ => []

def showEvents : List Ev → List String → String
  | [], acc => s!"pk:{if acc.isEmpty then "-" else joinSep "," acc} end=hangs"
  | .packet p :: rest, acc =>
    let items := if p.hdr.length == 8 then ["H"] else countsOf p.data.length p.data
    let items := if hasEOM p.hdr.status && p.hdr.length != 8 then items ++ ["F"] else items
    showEvents rest (acc ++ items)
  | .connErr :: _, acc => s!"pk:{if acc.isEmpty then "-" else joinSep "," acc} end=connErr"
  | .hangs :: _, acc => s!"pk:{if acc.isEmpty then "-" else joinSep "," acc} end=hangs"
  | .stopped :: _, acc => s!"pk:{if acc.isEmpty then "-" else joinSep "," acc} end=stopped"

def run (args : List String) : String :=
  match args with
  | [fin, k, sched, pkts] =>
    -- `E`: the transport reports the end together with the last bytes; the reader reads on after such a packet
    -- (unless it is a close packet) and meets the end again on a read of its own: the same events as for `e`
    let fin? : Option Fin := if fin == "e" || fin == "E" then some .eof else if fin == "r" then some .reset
                              else if fin == "h" then some .hang else none
    match fin?, k.toInt?, buildStream (pkts.splitOn ",") 0 [] with
    | some fin, some k, some stream =>
      let stream := if k ≥ 0 ∧ k.toNat < stream.length then stream.take k.toNat else stream
      let sched := if sched == "-" then [] else (sched.splitOn ".").filterMap String.toNat?
      showEvents (readLoop ((pkts.splitOn ",").length + 2) ⟨stream, sched, fin⟩) []
    | _, _, _ => "bad-op"
  | _ => "bad-op"

end Dblib.Reader

namespace Dblib.Reader

/-- `rdraw <fin> <sched> <hex>`: the reader loop on an arbitrary byte stream (C10, packet level).
Answer: one item per loop iteration — `P<type>.<status>.<length>.<channel>.<nr>.<window>:<bodyhex>`
for a packet, `e` for an error — the last item is the error that ends the transport. -/
def showRaw : List Ev → List String
  | [] => []
  | .packet p :: rest =>
    s!"P{p.hdr.msgType}.{p.hdr.status}.{p.hdr.length}.{p.hdr.channel}.{p.hdr.packetNr}.{p.hdr.window}:{toHex p.data}" :: showRaw rest
  | .connErr :: rest => "e" :: showRaw rest
  | .hangs :: _ => ["hangs"]
  | .stopped :: _ => ["stop"]

def runRaw (args : List String) : String :=
  match args with
  | [fin, sched, hex] =>
    let fin? : Option Fin := if fin == "e" then some .eof else if fin == "r" then some .reset else none
    match fin?, fromHex hex with
    | some fin, some stream =>
      let sched := if sched == "-" then [] else (sched.splitOn ".").filterMap String.toNat?
      joinSep " " (showRaw (readLoop (stream.length + 2) ⟨stream, sched, fin⟩))
    | _, _ => "bad-op"
  | _ => "bad-op"

end Dblib.Reader

namespace Dblib.Reader

/-- `sendPackets` over the `total` packets of a request when the transport's `k`-th write fails:
the loop returns the error of the first failing `sendPacket`; the packets before it are on the wire -/
def sendWriteFail (total k : Nat) : Bool × Nat :=
  if 1 ≤ k ∧ k ≤ total then (false, k - 1) else (true, total)

/-- `wf <n> <k>`: a request of n bytes at packet size 512 -/
def runWf (args : List String) : String :=
  match args with
  -- `once`: only the k-th write fails, later ones would succeed — the send stops at the first failure all the same
  | [n, k] | [n, k, "once"] =>
    match n.toNat?, k.toNat? with
    | some n, some k =>
      let r := sendWriteFail ((n + 503) / 504) k
      s!"send={if r.1 then "ok" else "err"} packets={r.2}"
    | _, _ => "bad-op"
  -- `wf <n> <k> full`: the failing write reports the error together with the full byte count (io.Writer
  -- allows it; the bytes are on the wire): `sendPacket` looks at the error first, so the send fails all the
  -- same — with the k-th packet counted among those written
  | [n, k, "full"] =>
    match n.toNat?, k.toNat? with
    | some n, some k =>
      let total := (n + 503) / 504
      if 1 ≤ k ∧ k ≤ total then s!"send=err packets={k}" else s!"send=ok packets={total}"
    | _, _ => "bad-op"
  | _ => "bad-op"

end Dblib.Reader
