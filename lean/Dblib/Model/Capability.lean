/-
Model of `/repo/capability` (C19): `capability.go` (NewCapability), `versionRange.go` (contains),
`target.go` (Target.Version / SetCapabilities), `defaultVersion.go` (Has).

What is transcribed (quirks included):
* `NewCapability(desc, ss...)`: the index loop with the pending `curRange`; after the loop the
  pending range is appended only when its `Introduced` is non-empty (so a trailing `""` is dropped).
* `VersionRange.contains`: a range with both bounds empty contains nothing and compares nothing;
  otherwise `fn(Introduced, version)` first (if `Introduced` is set), then `fn(version, Removed)`
  (if `Removed` is set) — both comparisons are made for a two-sided range even when the first one
  already decides; the first comparer error is returned.
* `Target.SetCapabilities`: capabilities in order, ranges in order; for a two-sided range
  `cmp(Introduced, Removed)` is evaluated BEFORE `contains` and `>= 0` is an error; evaluation of
  a capability stops at the first containing range (`break`), so later ranges are not looked at;
  the first error aborts everything (`Target.Version` then returns no version at all).
* `DefaultVersion.Has`: the last value stored for the capability, `false` when nothing was
  stored. `SetCapability(cap,false)` followed by `SetCapability(cap,true)` leaves `true`; the model
  therefore carries the answer of a capability as the value of the loop over its ranges
  (`false` for an empty loop). Capabilities are assumed to be distinct pointers (the harness
  builds them so); with the same pointer twice the answers coincide anyway.

Parameter (trusted base): the comparer `cmp : String → String → Except E Int`. For the default
comparer (`VersionCompareSemantic` = hashicorp/go-version `NewVersion` + `Compare`) the driver
receives the comparison results of the real function as a table in the case line; for the custom
comparer the driver uses `intCmp` below, which the harness mirrors in Go.

Core Lean only (linked into the driver).
-/
import Dblib.Util

namespace Dblib.Capability

/-- `VersionRange{Introduced, Removed}` -/
structure Range where
  lo : String
  hi : String
deriving Repr, DecidableEq, Inhabited

/-! ### NewCapability -/

/-- loop state of `NewCapability`: the pending `curRange` and `c.VersionRanges` -/
structure NCState where
  cur : Range
  out : List Range

/-- one iteration of `for i, s := range versionRanges` -/
def ncStep (st : NCState) (i : Nat) (s : String) : NCState :=
  if i % 2 = 0 then
    { st with cur := { st.cur with lo := s } }                       -- curRange.Introduced = s; continue
  else
    { cur := ⟨"", ""⟩, out := st.out ++ [{ st.cur with hi := s }] }  -- Removed = s; append; reset

def ncLoop : Nat → List String → NCState → NCState
  | _, [], st => st
  | i, s :: ss, st => ncLoop (i + 1) ss (ncStep st i s)

/-- `NewCapability(_, ss...).VersionRanges` -/
def newCapability (ss : List String) : List Range :=
  let st := ncLoop 0 ss ⟨⟨"", ""⟩, []⟩
  if st.cur.lo ≠ "" then st.out ++ [st.cur] else st.out

/-! ### VersionRange.contains -/

/-- `vrange.contains(fn, version)` -/
def contains {E : Type} (cmp : String → String → Except E Int) (r : Range) (v : String) :
    Except E Bool :=
  if r.lo = "" ∧ r.hi = "" then .ok false
  else if r.lo ≠ "" then
    match cmp r.lo v with
    | .error e => .error e
    | .ok lower =>
      if r.hi = "" then .ok (decide (lower ≤ 0))
      else
        match cmp v r.hi with
        | .error e => .error e
        | .ok upper => .ok (decide (lower ≤ 0) && decide (upper < 0))
  else
    match cmp v r.hi with
    | .error e => .error e
    | .ok upper => .ok (decide (upper < 0))

/-! ### Target.SetCapabilities -/

/-- the two kinds of error `SetCapabilities` returns -/
inductive Err (E : Type) where
  | compare (e : E)   -- the comparer rejected a bound or the version
  | invalid           -- lower bound greater than or equal to the upper bound
deriving Repr, DecidableEq

/-- the guard before `contains`: only for two-sided ranges -/
def checkRange {E : Type} (cmp : String → String → Except E Int) (r : Range) : Except (Err E) Unit :=
  if r.lo ≠ "" ∧ r.hi ≠ "" then
    match cmp r.lo r.hi with
    | .error e => .error (.compare e)
    | .ok i => if i ≥ 0 then .error .invalid else .ok ()
  else .ok ()

/-- inner loop over the ranges of one capability; the value is what `Has` answers afterwards -/
def evalRanges {E : Type} (cmp : String → String → Except E Int) (v : String) :
    List Range → Except (Err E) Bool
  | [] => .ok false
  | r :: rs =>
    match checkRange cmp r with
    | .error e => .error e
    | .ok () =>
      match contains cmp r v with
      | .error e => .error (.compare e)
      | .ok true => .ok true                 -- SetCapability(cap, true); break
      | .ok false => evalRanges cmp v rs     -- SetCapability(cap, false); next range

/-- `target.Version(v)` followed by `Has` for every capability, in order -/
def setCapabilities {E : Type} (cmp : String → String → Except E Int) :
    List (List Range) → String → Except (Err E) (List Bool)
  | [], _ => .ok []
  | c :: cs, v =>
    match evalRanges cmp v c with
    | .error e => .error e
    | .ok h =>
      match setCapabilities cmp cs v with
      | .error e => .error e
      | .ok hs => .ok (h :: hs)

/-! ### Concrete comparers for the driver -/

def digitsVal : List Char → Nat → Option Nat
  | [], acc => some acc
  | c :: cs, acc => if '0' ≤ c ∧ c ≤ '9' then digitsVal cs (acc * 10 + (c.toNat - 48)) else none

/-- optional `-`, then one or more ASCII digits -/
def parseDec (s : String) : Option Int :=
  match s.toList with
  | [] => none
  | '-' :: [] => none
  | '-' :: cs => (digitsVal cs 0).map (fun n => - (Int.ofNat n))
  | cs => (digitsVal cs 0).map Int.ofNat

def sign3 (a b : Int) : Int := if a < b then -1 else if a = b then 0 else 1

/-- the custom comparer of the harness: decimal integers, anything else is an error -/
def intCmp (a b : String) : Except Unit Int :=
  match parseDec a, parseDec b with
  | some x, some y => .ok (sign3 x y)
  | _, _ => .error ()

/-- error of the table comparer: the shipped table says "error", or has no such entry -/
inductive TblErr where
  | rejected
  | missing
deriving Repr, DecidableEq

abbrev Table := List ((String × String) × Option Int)

def tblCmp (t : Table) (a b : String) : Except TblErr Int :=
  match t.lookup (a, b) with
  | none => .error .missing
  | some none => .error .rejected
  | some (some i) => .ok i

/-! ### Line protocol -/

def unItem (s : String) : String := if s = "_" then "" else s

/-- one capability: `-` = no strings, else comma separated items, `_` = the empty string -/
def parseCap (s : String) : List String :=
  if s = "-" then [] else (s.splitOn ",").map unItem

def parseCaps (s : String) : List (List Range) :=
  (s.splitOn "|").map (fun c => newCapability (parseCap c))

def parseEntry (s : String) : Option ((String × String) × Option Int) :=
  match s.splitOn ":" with
  | [k, val] =>
    match k.splitOn "," with
    | [a, b] =>
      if val = "e" then some ((unItem a, unItem b), none)
      else match parseDec val with
        | some i => some ((unItem a, unItem b), some i)
        | none => none
    | _ => none
  | _ => none

def parseTable (s : String) : Option Table :=
  if s = "-" then some [] else (s.splitOn ";").mapM parseEntry

def showHas (hs : List Bool) : String :=
  if hs.isEmpty then "ok -" else "ok " ++ joinSep "," (hs.map (fun b => if b then "1" else "0"))

def answerInt (v : String) (caps : List (List Range)) : String :=
  match setCapabilities intCmp caps (unItem v) with
  | .ok hs => showHas hs
  | .error _ => "err"

def answerTbl (t : Table) (v : String) (caps : List (List Range)) : String :=
  match setCapabilities (tblCmp t) caps (unItem v) with
  | .ok hs => showHas hs
  | .error (.compare .missing) => "bad-table"
  | .error _ => "err"

/-- `cap int <version> [<caps>]`, `cap tbl <table> <version> [<caps>]`,
`cap new <cap>` (the ranges `NewCapability` builds) -/
def run (args : List String) : String :=
  match args with
  | ["int", v] => answerInt v []
  | ["int", v, caps] => answerInt v (parseCaps caps)
  | ["tbl", t, v] =>
    match parseTable t with
    | some t => answerTbl t v []
    | none => "bad-op"
  | ["tbl", t, v, caps] =>
    match parseTable t with
    | some t => answerTbl t v (parseCaps caps)
    | none => "bad-op"
  | ["new", c] =>
    let rs := newCapability (parseCap c)
    if rs.isEmpty then "ranges -"
    else "ranges " ++ joinSep "|" (rs.map (fun r =>
      (if r.lo = "" then "_" else r.lo) ++ "," ++ (if r.hi = "" then "_" else r.hi)))
  | _ => "bad-op"

end Dblib.Capability
