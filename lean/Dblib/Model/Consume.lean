/-
Model of the consumer side of `tds/channel.go`: `NextPackage` over the package queue and
`NextPackageUntil` (EED collection, callback outcomes, draining to the final DONE).

The package queue is the list of delivered packages not yet consumed; running out of it while
waiting is `blocked` (in Go: the call waits until the context expires).
-/
import Dblib.Util

namespace Dblib.Consume

/-- outcome of the consumer's callback `processPkg` -/
inductive Cb where
  | cont      -- (false, nil)
  | stop      -- (true, nil)
  | eof       -- (_, io.EOF)
  | fail      -- (_, any other error)
deriving Repr, DecidableEq

/-- what `NextPackageUntil` returns -/
inductive Result (Pkg : Type) where
  | pkg (p : Pkg)                     -- (pkg, nil)
  | eofPkg (p : Pkg)                  -- (pkg, io.EOF)
  | nilOk                             -- (nil, nil)
  | eof                               -- (nil, io.EOF)
  | cbErr (eeds : List Pkg)           -- callback error; wrapped in an EEDError carrying `eeds` iff non-empty
  | blocked                           -- the queue ran dry: waits for the context
deriving Repr

structure Ops (Pkg : Type) where
  isEED : Pkg → Bool
  isDoneFinal : Pkg → Bool

variable {Pkg : Type}

/-- drain with the `isDoneFinal` callback: consume up to and including the first final DONE
(EED packages are collected by that inner call and dropped with it) -/
def drainToFinal (ops : Ops Pkg) : List Pkg → Option (List Pkg)
  | [] => none
  | p :: q =>
    if ops.isEED p then drainToFinal ops q
    else if ops.isDoneFinal p then some q
    else drainToFinal ops q

/-- `NextPackageUntil(ctx, wait, nil)` -/
def untilNil (ops : Ops Pkg) : List Pkg → Result Pkg × List Pkg
  | [] => (.blocked, [])
  | p :: q =>
    if ops.isEED p then untilNil ops q
    else if ops.isDoneFinal p then (.eof, q)
    else
      match drainToFinal ops q with
      | some q' => (.nilOk, q')
      | none => (.blocked, [])

/-- the drain after a callback error: consume up to and including the first final DONE, collecting
the EED packages on the way (repo fix "the error of a failed package callback carries the messages
of the rest of the response"); running out of packages = the wait ends with the context -/
def drainCollect (ops : Ops Pkg) : List Pkg → List Pkg × List Pkg
  | [] => ([], [])
  | p :: q =>
    if ops.isEED p then
      let r := drainCollect ops q
      (p :: r.1, r.2)
    else if ops.isDoneFinal p then ([], q)
    else drainCollect ops q

/-- `NextPackageUntil(ctx, wait, cb)`; `cb` may depend on the package; `eeds` accumulates the
EED packages seen by this call -/
def untilCb (ops : Ops Pkg) (cb : Pkg → Cb) : List Pkg → List Pkg → Result Pkg × List Pkg
  | [], _ => (.blocked, [])
  | p :: q, eeds =>
    if ops.isEED p then untilCb ops cb q (eeds ++ [p])
    else
      match cb p with
      | .eof => (.eofPkg p, q)
      | .fail =>
        -- consume the rest of the response unless p already is the final DONE; the messages in
        -- that rest join the error
        let r := if ops.isDoneFinal p then ([], q) else drainCollect ops q
        (.cbErr (eeds ++ r.1), r.2)
      | .stop => (.pkg p, q)
      | .cont => untilCb ops cb q eeds

end Dblib.Consume
