/-
The two directions of one `tds.Channel` side by side.

`tds/channel.go` keeps the state of the two directions in disjoint fields: `queueRx`, `lastPkgRx`
(with the package and error queues) belong to the reader goroutine (`WritePacket`,
`tryParsePackage`), `queueTx`, `lastPkgTx`, `curPacketNr`, `CurrentHeaderType` to the calls of the
sending side (`QueuePackage`, `SendRemainingPackets`, `SendPackage`, `Reset`). Which functions mention
which fields is regenerated from the source (`Gen/Shape.lean`: `rxStateTouchedBy`,
`txStateTouchedBy`) and compared with the lists this model assumes in `Props/C03/Duplex.lean`.

A step of a channel is either an arriving packet or a call of the sending side; a server may start
to answer before the send call has returned, so the two kinds interleave arbitrarily.
-/
import Dblib.Model.ChanRx
import Dblib.Model.ChanTx

namespace Dblib

inductive ChanOp where
  | body (b : Bytes) (eom : Bool)      -- a packet with a body arrives
  | headerOnly (h : Header)            -- a header-only packet arrives
  | queue (enc : Bytes)                -- `QueuePackage`
  | flush                              -- `SendRemainingPackets` (with its deferred `Reset`)
  | send (enc : Bytes)                 -- `SendPackage`
  | reset                              -- `Reset` (as `Login` and `NewChannel` call it)

def ChanOp.isRecv : ChanOp → Bool
  | .body _ _ => true
  | .headerOnly _ => true
  | _ => false

structure Chan (Pkg : Type) where
  rx : Rx Pkg
  tx : Tx

/-- what a step shows outside: events of the receive side, packets handed to the transport -/
structure ChanOut (Pkg : Type) where
  events : List (Ev Pkg) := []
  wire : List Tx.Out := []

namespace Chan
variable {Pkg : Type}

/-- one step; `none` if a package parser would panic -/
def step (ops : Ops Pkg) (c : Chan Pkg) : ChanOp → Option (Chan Pkg × ChanOut Pkg)
  | .body b eom =>
    match c.rx.writeBody ops b eom with
    | some (rx', ev) => some ({ c with rx := rx' }, { events := ev })
    | none => none
  | .headerOnly h =>
    let (rx', ev) := c.rx.writeHeaderOnly ops h
    some ({ c with rx := rx' }, { events := ev })
  | .queue enc => let (tx', o) := c.tx.queuePackage enc; some ({ c with tx := tx' }, { wire := [o] })
  | .flush => let (tx', o) := c.tx.sendRemaining; some ({ c with tx := tx' }, { wire := [o] })
  | .send enc => let (tx', o) := c.tx.sendPackage enc; some ({ c with tx := tx' }, { wire := [o] })
  | .reset => some ({ c with tx := c.tx.reset }, {})

def run (ops : Ops Pkg) : Chan Pkg → List ChanOp → Option (Chan Pkg × ChanOut Pkg)
  | c, [] => some (c, {})
  | c, o :: rest =>
    match step ops c o with
    | none => none
    | some (c', out) =>
      match run ops c' rest with
      | none => none
      | some (c'', out') => some (c'', { events := out.events ++ out'.events, wire := out.wire ++ out'.wire })

/-- the receive side alone over the arriving packets -/
def runRx (ops : Ops Pkg) : Rx Pkg → List ChanOp → Option (Rx Pkg × List (Ev Pkg))
  | rx, [] => some (rx, [])
  | rx, .body b eom :: rest =>
    match rx.writeBody ops b eom with
    | none => none
    | some (rx', ev) =>
      match runRx ops rx' rest with
      | none => none
      | some (rx'', ev') => some (rx'', ev ++ ev')
  | rx, .headerOnly h :: rest =>
    let (rx', ev) := rx.writeHeaderOnly ops h
    match runRx ops rx' rest with
    | none => none
    | some (rx'', ev') => some (rx'', ev ++ ev')
  | rx, _ :: rest => runRx ops rx rest

/-- the sending side alone over the calls -/
def runTx : Tx → List ChanOp → Tx × List Tx.Out
  | tx, [] => (tx, [])
  | tx, .queue enc :: rest => let (tx', o) := tx.queuePackage enc; let (t, w) := runTx tx' rest; (t, o :: w)
  | tx, .flush :: rest => let (tx', o) := tx.sendRemaining; let (t, w) := runTx tx' rest; (t, o :: w)
  | tx, .send enc :: rest => let (tx', o) := tx.sendPackage enc; let (t, w) := runTx tx' rest; (t, o :: w)
  | tx, .reset :: rest => runTx tx.reset rest
  | tx, _ :: rest => runTx tx rest

end Chan
end Dblib
