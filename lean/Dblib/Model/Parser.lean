/-
Parser monad for the package / field / value decoders (`ReadFrom` implementations).

A Go `ReadFrom` sees the receive queue only through `Bytes(n)` and the typed reads built on it.
By C15 (`Props/C15.lean`: `c15_bytes_refines`, `c15_bytes_short`) such a read returns the next `n`
unread bytes, or not-enough-bytes after consuming everything. A decoder is therefore a function
of the unread bytes: `P α = Bytes → Res α`.

`Res.ok a n` — value and number of bytes consumed; `notEnough` — `ErrNotEnoughBytes` (the read
that failed has exhausted the input); `err n` — any other error after consuming `n` bytes;
`panic` — the Go code would panic (index / slice bounds / makeslice / nil dereference).
-/
import Dblib.Util

namespace Dblib

inductive Res (α : Type) where
  | ok (a : α) (n : Nat)
  | notEnough
  | err (n : Nat)
  | panic
deriving Repr, DecidableEq

def P (α : Type) := Bytes → Res α

namespace P

def pure (a : α) : P α := fun _ => .ok a 0

def bind (p : P α) (f : α → P β) : P β := fun s =>
  match p s with
  | .ok a n =>
    match f a (s.drop n) with
    | .ok b m => .ok b (n + m)
    | .notEnough => .notEnough
    | .err m => .err (n + m)
    | .panic => .panic
  | .notEnough => .notEnough
  | .err n => .err n
  | .panic => .panic

instance : Monad P where
  pure := P.pure
  bind := P.bind

/-- a parse error (anything that is not `ErrNotEnoughBytes`) -/
def fail : P α := fun _ => .err 0

/-- the Go code panics here -/
def crash : P α := fun _ => .panic

/-- `ch.Bytes(k)` -/
def take (k : Nat) : P Bytes := fun s =>
  if k ≤ s.length then .ok (s.take k) k else .notEnough

/-- `ch.Bytes(n)` with a signed length: a negative length panics in `make` -/
def takeInt (n : Int) : P Bytes := if n < 0 then crash else take n.toNat

def u8 : P Nat := fun s =>
  match s with
  | b :: _ => .ok b.toNat 1
  | [] => .notEnough

/-- little-endian unsigned integer of `w` bytes (`Uint16`, `Uint32`, `Uint64`) -/
def uintLE (w : Nat) : P Nat := do
  let bs ← take w
  return leDecode bs

def u16 : P Nat := uintLE 2
def u32 : P Nat := uintLE 4
def u64 : P Nat := uintLE 8

/-- two's complement reading of an unsigned value of `w` bytes (`Int16`, `Int32`, `Int64`) -/
def toSigned (w : Nat) (n : Nat) : Int :=
  if n < 256 ^ w / 2 then (n : Int) else (n : Int) - (256 ^ w : Nat)

def intLE (w : Nat) : P Int := do
  let n ← uintLE w
  return toSigned w n

/-- run `p` `k` times -/
def replicateM : Nat → P α → P (List α)
  | 0, _ => Pure.pure []
  | k + 1, p => do
    let a ← p
    let as ← replicateM k p
    return a :: as

/-- run the parsers of a list in order -/
def sequence : List (P α) → P (List α)
  | [] => Pure.pure []
  | p :: ps => do
    let a ← p
    let as ← sequence ps
    return a :: as

def guard (c : Bool) : P Unit := if c then Pure.pure () else fail

end P

/-- **The incremental-parsing law** (C07): a successful parse consumes a prefix of its input, is
unaffected by whatever follows that prefix, and every shorter input is "not enough bytes" —
never success, never another error, never a panic. -/
def Incr (p : P α) : Prop :=
  ∀ s a n, p s = .ok a n →
    n ≤ s.length ∧ (∀ t, p (s.take n ++ t) = .ok a n) ∧ (∀ k, k < n → p (s.take k) = .notEnough)

end Dblib
