/-
Model of `asetime/{duration.go,time.go,epochs.go}` and of the pieces of Go's `time.Time` the value
codecs use (C04 / C05).  Core Lean only.

## Go's `time.Time` (trusted base, tied to the real `time` package by the `cal date …`, `cal us2t …`
## and every temporal `val …` line of the correspondence harness)

A UTC instant is `Time = (day, ns)`: `day` = days since 0001-01-01 (proleptic Gregorian, any `Int`),
`ns` = nanoseconds since midnight (`< nsPerDay`).  All harness times are UTC; a zone is not modelled.

* `yearStart y`            days from 0001-01-01 to `y`-01-01: `365(y−1) + ⌊(y−1)/4⌋ − ⌊(y−1)/100⌋ + ⌊(y−1)/400⌋`
* `daysFromCivil y m d`    `yearStart y + daysBeforeMonth m (isLeap y) + d − 1`
* `civilFromDays n`        the inverse, by the 400/100/4/1-year cascade (as Go's `absDate` did up to 1.22)
                           — proved inverse to `daysFromCivil` for every `Int` day / every valid date in
                           `Lemmas/ValueCal.lean` (`civil_days`, `days_civil`).
* `mkDate y mo d h mi s ns`  `time.Date(…, time.UTC)`: the month is normalised into the year (floor), the
                           rest is a linear number of nanoseconds added to the first of the month (Go
                           normalises ns→s→min→h→day with floor divisions one after the other, which is
                           the same as one floor division of the total).
* `Time.addDays t n`       `t.AddDate(0, 0, n)` (= `Date(y, m, d+n, …)`, linear in the day).
* `Time.add t ns`          `t.Add(time.Duration(ns))`.
* `t.year … t.nanosecond`  `t.Year()`, `t.Month()`, `t.Day()`, `t.Hour()`, `t.Minute()`, `t.Second()`, `t.Nanosecond()`.

## asetime

Transcribed expression by expression over `Int`; Go's `/` `%` on (signed) integers truncate toward
zero: `Int.tdiv` / `Int.tmod`.  Arithmetic is unbounded; `Props/C05.lean: c05_no_overflow` bounds every
intermediate of the encode direction below 2^63 on the property's domain (years 1..9999); the decode
direction takes arbitrary wire values, there the explicit conversions *and* the multiplications that can
overflow (`ASEDuration(x) * Day`, `time.Duration(dur) * time.Microsecond`) wrap like Go's `int`/`int64`
(`wrap64`).

## The two float64 functions

    FractionalSecondToMillisecond(s) = ASEDuration(float64(s)*1000/300) * Millisecond
    MillisecondToFractionalSecond(s) = int(math.Round(float64(s) * 300 / 1000 / float64(Millisecond)))

are modelled exactly: `f2ms s = tdiv (1000·s) 300 · Millisecond` and `ms2f s = roundHalfAway(300·s / (1000·Millisecond))`.
Why the float result equals the exact one for |s| ≤ 2^40 (the codecs call them with |s| < 2^37):
* f2ms: `float64(s)*1000` is an integer below 2^53, hence exact.  The quotient `fl(1000s/300)` is the
  correctly rounded value of `q = 10s/3`; `q` is an integer (then exact) or has fractional part 1/3 or 2/3,
  while |fl(q) − q| ≤ 2^-53·|q| ≤ 2^-53·2^42 < 2^-10; so `fl(q)` lies strictly between the same two integers
  as `q`, and the conversion to `int` truncates both to the same integer.
* ms2f: `float64(s)*300` is exact (< 2^49).  Let `v = 3s/10000` (the exact value of the expression).
  If `v` is a half-integer `k + 1/2` then `3s/10 = 1000k + 500` is an integer, so both divisions are exact and
  `math.Round` sees exactly `k + 1/2`.  Otherwise `v` is a multiple of 1/10000 at distance ≥ 1/10000 from every
  half-integer, while two correctly rounded divisions give |fl − v| ≤ 2·2^-53·|v|·(1+2^-53) < 2^-52·2^28.4 < 10^-7;
  so `fl` is on the same side of every half-integer as `v` and `math.Round` (half away from zero) gives the
  same integer.  The harness sweeps both functions against the model (all ticks of a day / around every
  rounding boundary) in the thorough tier and samples them in the quick tier.
-/
import Dblib.Util
import Dblib.Gen.Types

namespace Dblib.AseTime
open Dblib.Gen

/-! ### integer conversions of Go -/

/-- `int64(x)` / `int(x)` of a value computed without bound: two's complement wrap to 64 bits -/
def wrap64 (x : Int) : Int := (x + 9223372036854775808) % 18446744073709551616 - 9223372036854775808

/-- `int32(uint32)` -/
def toI32 (n : Nat) : Int :=
  if n % 4294967296 < 2147483648 then ((n % 4294967296 : Nat) : Int) else ((n % 4294967296 : Nat) : Int) - 4294967296

/-- `int16(uint16)` -/
def toI16 (n : Nat) : Int :=
  if n % 65536 < 32768 then ((n % 65536 : Nat) : Int) else ((n % 65536 : Nat) : Int) - 65536

/-- `uintN(x)` for a signed `x`: `x mod 2^N` -/
def toU (bits : Nat) (x : Int) : Nat := (x % (2 ^ bits : Nat)).toNat

/-! ### proleptic Gregorian calendar (Go `time`) -/

def nsPerDay : Nat := 86400000000000

structure Time where
  /-- days since 0001-01-01 -/
  day : Int
  /-- nanoseconds since midnight, `< nsPerDay` -/
  ns : Nat
deriving DecidableEq, Repr

def isLeap (y : Int) : Bool := y % 4 == 0 && (y % 100 != 0 || y % 400 == 0)

/-- days before month `m` (1..12) in a common year -/
def cumDays : Nat → Nat
  | 1 => 0 | 2 => 31 | 3 => 59 | 4 => 90 | 5 => 120 | 6 => 151
  | 7 => 181 | 8 => 212 | 9 => 243 | 10 => 273 | 11 => 304 | 12 => 334
  | _ => 365

def daysBeforeMonth (m : Nat) (leap : Bool) : Nat :=
  cumDays m + (if leap && decide (3 ≤ m) then 1 else 0)

def daysInMonth (m : Nat) (leap : Bool) : Nat :=
  match m with
  | 2 => if leap then 29 else 28
  | 4 => 30 | 6 => 30 | 9 => 30 | 11 => 30
  | _ => 31

def yearStart (y : Int) : Int := 365 * (y - 1) + (y - 1) / 4 - (y - 1) / 100 + (y - 1) / 400

def daysFromCivil (y : Int) (m d : Nat) : Int :=
  yearStart y + (daysBeforeMonth m (isLeap y) : Nat) + (d : Int) - 1

/-- month (1..12) of the zero-based day of the year -/
def monthOfDoy (doy : Nat) (leap : Bool) : Nat :=
  if doy < daysBeforeMonth 2 leap then 1
  else if doy < daysBeforeMonth 3 leap then 2
  else if doy < daysBeforeMonth 4 leap then 3
  else if doy < daysBeforeMonth 5 leap then 4
  else if doy < daysBeforeMonth 6 leap then 5
  else if doy < daysBeforeMonth 7 leap then 6
  else if doy < daysBeforeMonth 8 leap then 7
  else if doy < daysBeforeMonth 9 leap then 8
  else if doy < daysBeforeMonth 10 leap then 9
  else if doy < daysBeforeMonth 11 leap then 10
  else if doy < daysBeforeMonth 12 leap then 11
  else 12

/-- year, zero-based day of the year -/
def yearDoy (n : Int) : Int × Nat :=
  let a := n / 146097
  let r := n % 146097
  let b := min (r / 36524) 3
  let r1 := r - b * 36524
  let c := r1 / 1461
  let r2 := r1 % 1461
  let e := min (r2 / 365) 3
  (400 * a + 100 * b + 4 * c + e + 1, (r2 - e * 365).toNat)

/-- (year, month, day of month) of the day number -/
def civilFromDays (n : Int) : Int × Nat × Nat :=
  let yd := yearDoy n
  let leap := isLeap yd.1
  let m := monthOfDoy yd.2 leap
  (yd.1, m, yd.2 - daysBeforeMonth m leap + 1)

/-- a valid calendar date -/
def ValidDate (y : Int) (m d : Nat) : Prop := 1 ≤ m ∧ m ≤ 12 ∧ 1 ≤ d ∧ d ≤ daysInMonth m (isLeap y)

instance (y : Int) (m d : Nat) : Decidable (ValidDate y m d) := by unfold ValidDate; exact inferInstance

/-- `time.Date(y, time.Month(mo), d, h, mi, s, ns, time.UTC)` -/
def mkDate (y mo d h mi s ns : Int) : Time :=
  let m0 := mo - 1
  let y' := y + m0 / 12
  let m' := (m0 % 12).toNat + 1
  let total := ((((d - 1) * 24 + h) * 60 + mi) * 60 + s) * 1000000000 + ns
  { day := yearStart y' + (daysBeforeMonth m' (isLeap y') : Nat) + total / (nsPerDay : Nat),
    ns := (total % (nsPerDay : Nat)).toNat }

namespace Time

def year (t : Time) : Int := (civilFromDays t.day).1
def month (t : Time) : Nat := (civilFromDays t.day).2.1
def dayOfMonth (t : Time) : Nat := (civilFromDays t.day).2.2
def hour (t : Time) : Nat := t.ns / 3600000000000
def minute (t : Time) : Nat := t.ns / 60000000000 % 60
def second (t : Time) : Nat := t.ns / 1000000000 % 60
def nanosecond (t : Time) : Nat := t.ns % 1000000000

/-- `t.AddDate(0, 0, n)` -/
def addDays (t : Time) (n : Int) : Time := { t with day := t.day + n }

/-- `t.Add(time.Duration(d))`, `d` in nanoseconds -/
def add (t : Time) (d : Int) : Time :=
  let total : Int := (t.ns : Int) + d
  { day := t.day + total / (nsPerDay : Nat), ns := (total % (nsPerDay : Nat)).toNat }

def WF (t : Time) : Prop := t.ns < nsPerDay

end Time

/-- `asetime.EpochRataDie()` = 0001-01-01 -/
def epochRataDie : Time := mkDate 1 1 1 0 0 0 0
/-- `asetime.Epoch1900()` -/
def epoch1900 : Time := mkDate 1900 1 1 0 0 0 0
/-- `asetime.Epoch1753()` = 1753-01-01 09:09:09.000000009 -/
def epoch1753 : Time := mkDate 1753 1 1 9 9 9 9
/-- `time.Date(0, time.January, 1, 0, 0, 0, 0, time.UTC)` (BIGDATETIMEN decoding) -/
def dateYear0 : Time := mkDate 0 1 1 0 0 0 0

/-! ### `asetime/duration.go` -/

/-- `ASEDuration.Days()` … `Microseconds()` -/
def days (d : Int) : Int := Int.tdiv d Types.day
def hours (d : Int) : Int := Int.tdiv d Types.hour
def minutes (d : Int) : Int := Int.tdiv d Types.minute
def seconds (d : Int) : Int := Int.tdiv d Types.second
def milliseconds (d : Int) : Int := Int.tdiv d Types.millisecond
def microseconds (d : Int) : Int := d

/-- `floorDays` of `asetypes/bytes.go`: whole days rounded toward negative infinity (`%` of Go truncates) -/
def floorDays (d : Int) : Int :=
  let ds := days d
  if d < 0 ∧ Int.tmod d Types.day ≠ 0 then ds - 1 else ds

/-- the Julian day number formula ("Calendars" by Doggett) as written in `DurationFromDateTime` and
`TimeToMicroseconds` -/
def goJdn (y m d : Int) : Int :=
  Int.tdiv (1461 * (y + 4800 + Int.tdiv (m - 14) 12)) 4
    + Int.tdiv (367 * (m - 2 - 12 * (Int.tdiv (m - 14) 12))) 12
    - Int.tdiv (3 * (Int.tdiv (y + 4900 + Int.tdiv (m - 14) 12) 100)) 4
    + d - 32075

/-- `DurationFromTime` -/
def durationFromTime (t : Time) : Int :=
  let hours := Int.tdiv ((t.hour : Int) * 3600000000000) 1000
  let minutes := Int.tdiv ((t.minute : Int) * 60000000000) 1000
  let seconds := Int.tdiv ((t.second : Int) * 1000000000) 1000
  let nanoseconds := Int.tdiv (t.nanosecond : Int) 1000
  hours + minutes + seconds + nanoseconds

/-- `DurationFromDateTime` -/
def durationFromDateTime (t : Time) : Int :=
  let jd := goJdn t.year t.month t.dayOfMonth
  let rataDie := (jd - 1721425) * (Int.tdiv (24 * 3600000000000) 1000)
  let rataDie := rataDie + Int.tdiv (3600000000000 * 24 * 365) 1000
  rataDie + durationFromTime t

/-- every intermediate value of `DurationFromDateTime(t)` (for `c05_no_overflow`) -/
def durationFromDateTimeIntermediates (t : Time) : List Int :=
  let y := t.year
  let m : Int := t.month
  let d : Int := t.dayOfMonth
  let a := Int.tdiv (m - 14) 12
  let jd := goJdn y m d
  [ y + 4800 + a, 1461 * (y + 4800 + a), 367 * (m - 2 - 12 * a), y + 4900 + a,
    3 * (Int.tdiv (y + 4900 + a) 100), jd, jd - 1721425,
    (jd - 1721425) * 86400000000, (jd - 1721425) * 86400000000 + 31536000000000,
    (t.hour : Int) * 3600000000000, (t.minute : Int) * 60000000000, (t.second : Int) * 1000000000,
    durationFromTime t, durationFromDateTime t ]

/-- `float64(s)*1000/300` converted to `ASEDuration` (truncation), times `Millisecond` -/
def fractionalSecondToMillisecond (s : Int) : Int := Int.tdiv (s * 1000) 300 * Types.millisecond

/-- round half away from zero of `num / den`, `den > 0` (`math.Round`) -/
def roundHalfAway (num den : Int) : Int :=
  if 0 ≤ num then (2 * num + den) / (2 * den) else -((-(2 * num) + den) / (2 * den))

/-- `int(math.Round(float64(s) * 300 / 1000 / float64(Millisecond)))` -/
def millisecondToFractionalSecond (s : Int) : Int := roundHalfAway (s * 300) (1000 * Types.millisecond)

/-! ### `asetime/time.go` -/

/-- `TimeToMicroseconds` (all arithmetic in `uint64`: the result is taken mod 2^64) -/
def timeToMicroseconds (t : Time) : Nat :=
  let jd := goJdn t.year t.month t.dayOfMonth
  let rataDie := (jd - 1721425) * (Int.tdiv (24 * 3600000000000) 1000)
  let rataDie := rataDie + Int.tdiv (3600000000000 * 24 * 365) 1000
  let hours := Int.tdiv ((t.hour : Int) * 3600000000000) 1000
  let minutes := Int.tdiv ((t.minute : Int) * 60000000000) 1000
  let seconds := Int.tdiv ((t.second : Int) * 1000000000) 1000
  let nanoseconds := Int.tdiv (t.nanosecond : Int) 1000
  toU 64 (rataDie + hours + minutes + seconds + nanoseconds)

/-- the Fliegel / Van Flandern conversion of `MicrosecondsToTime`: (y, m, d) of the "julian day" `jD`
(= days since 1900-01-01 there) -/
def fliegel (jD : Int) : Int × Int × Int :=
  let l := jD + 68569 + 2415021
  let n := Int.tdiv (4 * l) 146097
  let l := l - Int.tdiv (146097 * n + 3) 4
  let y := Int.tdiv (4000 * (l + 1)) 1461001
  let l := l - Int.tdiv (1461 * y) 4 + 31
  let m := Int.tdiv (80 * l) 2447
  let d := l - Int.tdiv (2447 * m) 80
  let l := Int.tdiv m 11
  let m := m + 2 - 12 * l
  let y := 100 * (n - 49) + y + l
  (y, m, d)

/-- `MicrosecondsToTime` -/
def microsecondsToTime (microseconds : Nat) : Time :=
  let nanoseconds : Int := ((microseconds % 1000000 : Nat) : Int) * 1000
  let seconds : Int := Int.tmod ((microseconds / 1000000 : Nat) : Int) 86400
  let jD : Int := Int.tdiv ((microseconds / 1000000 : Nat) : Int) 86400 - 693961
  let ymd := fliegel jD
  let t := mkDate ymd.1 ymd.2.1 ymd.2.2 0 0 0 0
  let t := if nanoseconds ≠ 0 then t.add nanoseconds else t
  let t := if seconds ≠ 0 then t.add (seconds * 1000000000) else t
  t

end Dblib.AseTime
