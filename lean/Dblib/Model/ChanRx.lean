/-
Model of the receive side of `tds/channel.go`: `WritePacket`, `tryParsePackage`,
`handleSpecialPackage`, abstract in the package type and in the family of package parsers.

The receive queue is represented by its unread bytes (`buf`) and the end-of-message marker: by
C15 (`Props/C15.lean`) the real `PacketQueue` under the reader discipline of `WritePacket`
(AddPacket; Position → parse → SetPosition on failure / Discard on success; Reset) is a byte FIFO,
and a failed read has consumed everything. Packets added to the queue have a non-empty body
(header-only packets bypass it), so `AllPacketsConsumed` ⇔ no unread byte.

Events are what the outside can observe: packages put on the package queue, errors put on the
channel's error queue, hook invocations, packet size changes.
-/
import Dblib.Model.Parser
import Dblib.Model.PacketQueue

namespace Dblib

/-- what `handleSpecialPackage` distinguishes -/
inductive Special where
  | none
  | env (members : List (Nat × Bytes × Bytes))   -- (type, old value, new value)
  | eedInfo
  | eed
deriving Repr, DecidableEq

/-- result of `LookupPackage` + `LastPkg` for a token and the last delivered package -/
inductive Sel (Pkg : Type) where
  | lastErr                 -- `LastPkg` rejected the preceding package
  | parser (p : P Pkg)      -- `ReadFrom` of the fresh package

/-- the package family the channel is instantiated with -/
structure Ops (Pkg : Type) where
  select : UInt8 → Option Pkg → Sel Pkg
  special : Pkg → Special
  /-- `*DonePackage` with `Status == TDS_DONE_FINAL` -/
  isDoneFinal : Pkg → Bool
  /-- `&DonePackage{Status: TDS_DONE_FINAL}` -/
  doneFinal : Pkg
  headerOnly : Header → Pkg
  /-- `TDS_ENV_PACKSIZE` -/
  envPackSize : Nat
  /-- `strconv.Atoi` -/
  atoi : Bytes → Option Int

inductive Ev (Pkg : Type) where
  | deliver (p : Pkg)
  | chanErr
  | eedHook (i : Nat) (p : Pkg)
  | envHook (i : Nat) (t : Nat) (old new : Bytes)
  | packSize (n : Int)
deriving Repr

structure Rx (Pkg : Type) where
  buf : Bytes := []
  eom : Bool := false
  last : Option Pkg := none
  nEed : Nat := 0      -- registered EED hooks
  nEnv : Nat := 0      -- registered env-change hooks
  closed : Bool := false

namespace Rx
variable {Pkg : Type}

/-- `handleSpecialPackage` for the members of an env change: packet size updates and hook calls
in member order; a malformed or unusable packet size aborts the remaining members with an error. -/
def envMembers (ops : Ops Pkg) (nEnv : Nat) : List (Nat × Bytes × Bytes) → List (Ev Pkg) × Bool
  | [] => ([], true)
  | (t, old, new) :: rest =>
    let hooks : List (Ev Pkg) := (List.range nEnv).map (fun i => .envHook i t old new)
    if t == ops.envPackSize then
      match ops.atoi new with
      | none => ([], false)
      | some n =>
        -- a size without room for data after the header or beyond the header's length field is rejected
        if n ≤ 8 ∨ n > 65535 then ([], false) else
        let r := envMembers ops nEnv rest
        (.packSize n :: hooks ++ r.1, r.2)
    else
      let r := envMembers ops nEnv rest
      (hooks ++ r.1, r.2)

/-- after a successful parse: special handling, delivery, `lastPkgRx` -/
def accept (ops : Ops Pkg) (rx : Rx Pkg) (pkg : Pkg) : Rx Pkg × List (Ev Pkg) :=
  match ops.special pkg with
  | .env members =>
    let r := envMembers ops rx.nEnv members
    (rx, if r.2 then r.1 else r.1 ++ [.chanErr])
  | .eedInfo => (rx, [])
  | .eed =>
    -- delivered, but not recorded as `lastPkgRx` (repo fix "EED packages do not replace the last
    -- received package"): the packages that follow still see the format package before it
    (rx, (List.range rx.nEed).map (fun i => Ev.eedHook i pkg) ++ [.deliver pkg])
  | .none => ({ rx with last := some pkg }, [.deliver pkg])

/-- the `for` loop of `WritePacket` after the packet was added: parse packages while possible.
`fuel` bounds the iterations (every success consumes at least the token byte). -/
def parseLoop (ops : Ops Pkg) : Nat → Rx Pkg → Rx Pkg × List (Ev Pkg) × Bool
  | 0, rx => (rx, [], false)
  | fuel + 1, rx =>
    match rx.buf with
    | [] =>
      -- `Byte()` fails; at end of message: synthetic DONE(FINAL) unless the last package was one,
      -- then the queue is reset
      if rx.eom then
        let ev : List (Ev Pkg) :=
          match rx.last with
          | some l => if ops.isDoneFinal l then [] else [.deliver ops.doneFinal]
          | none => [.deliver ops.doneFinal]
        -- the response is complete: `lastPkgRx` is forgotten (repo fix "forget the last received
        -- package at the end of a response")
        ({ rx with buf := [], eom := false, last := none }, ev, true)
      else (rx, [], true)
    | tok :: rest =>
      match ops.select tok rx.last with
      | .lastErr =>
        -- error queued; position is behind the token: IsEOM iff nothing else is there
        if rx.eom && rest.isEmpty then ({ rx with buf := [], eom := false }, [.chanErr], true)
        else (rx, [.chanErr], true)
      | .parser p =>
        match p rest with
        | .notEnough =>
          -- the failed read consumed everything: at end of message the queue is reset
          -- (the incomplete package is dropped), otherwise the position is rolled back
          if rx.eom then ({ rx with buf := [], eom := false }, [], true) else (rx, [], true)
        | .err n =>
          if rx.eom && n == rest.length then ({ rx with buf := [], eom := false }, [.chanErr], true)
          else (rx, [.chanErr], true)
        | .panic => (rx, [], false)
        | .ok pkg n =>
          let (rx', ev) := accept ops { rx with buf := rest.drop n } pkg
          let (rx'', ev', okk) := parseLoop ops fuel rx'
          (rx'', ev ++ ev', okk)

/-- `WritePacket` for a packet with a body; returns `none` if a parser would panic -/
def writeBody (ops : Ops Pkg) (rx : Rx Pkg) (body : Bytes) (eom : Bool) : Option (Rx Pkg × List (Ev Pkg)) :=
  if rx.closed then some (rx, []) else
  let rx1 := { rx with buf := rx.buf ++ body, eom := rx.eom || eom }
  match parseLoop ops (rx1.buf.length + 2) rx1 with
  | (rx2, ev, true) => some (rx2, ev)
  | (_, _, false) => none

/-- `WritePacket` for a header-only packet -/
def writeHeaderOnly (ops : Ops Pkg) (rx : Rx Pkg) (h : Header) : Rx Pkg × List (Ev Pkg) :=
  if rx.closed then (rx, []) else (rx, [.deliver (ops.headerOnly h)])

end Rx
end Dblib
