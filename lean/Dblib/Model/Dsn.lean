/-
Model of the *simple form* of `github.com/SAP/go-dblib/dsn`:
`ParseSimple` (dsn/parse.go), `FormatSimple` (dsn/format.go), `setValue` (dsn/util.go) and the
key table built by `tagToField` (dsn/tagToField.go).

Text is `List UInt8` (= the bytes of a Go string): every Go operation used by `ParseSimple`
(`strings.Split`, `strings.Index`, `strings.SplitN`, `len`, indexing, slicing, map lookup,
`strconv.ParseBool/ParseInt`) and `sort.Strings` is byte-wise, so the model makes no assumption
about UTF-8 validity on the parse side. (The only rune-wise operation is `%q` in `FormatSimple`,
see `quote`.)

Every Go indexing / slicing expression is modelled with an explicit bounds check whose failure is
the outcome `.panic`, so "never panics" (`Props/C17.c17_simple_total`) is a statement that could
be false — and was false before the repair of the quotation loop.

Trusted base of this file (external calls modelled by small definitions, exercised by the
correspondence harness `go/cmd/harness/c17.go`):
* `strings.Split(s, " ")` = `splitOn`, `strings.Index(s, "="+q)` = `index2`,
  `strings.SplitN(s, "=", 2)` = `splitFirst`, `strings.Join([a, b], " ")` = `a ++ 32 :: b`.
* `strconv.ParseBool` = `parseBool`, `strconv.ParseInt(s, 10, 64)` = `parseInt`
  (sign, non-empty decimal digits, value in [-2^63, 2^63-1]); `int` is 64 bit.
* `fmt.Sprintf("%q", s)` = `quote`: exact for bytes < 0x80 (escapes of `"`, `\`, control bytes);
  a byte >= 0x80 is copied, i.e. it is ASSUMED to belong to the valid UTF-8 encoding of a rune with
  `strconv.IsPrint` (Go escapes the other runes as \u.... / \x..). The harness only sends such
  strings to `fsimple` / `rtsimple`.
* `%v` of a bool / int field = `true`/`false` / decimal with `-`.
* `sort.Strings` = `List.mergeSort` with the byte-wise lexicographic order `leStr` (the entries
  are sorted by their text; the keys are pairwise different, so is the text).
* reflection: a struct is a list of `Spec` (json name, raw multiref tag, kind) in field order
  with embedded structs flattened in place; field values are `Val`s at the same index. Fields
  without json tag are invisible to both directions and are left out. json names are assumed to be
  pairwise different (Go would let the later field shadow the earlier one in `FormatSimple`);
  the harness checks the table of its structs against the real `TagToField` (`dsn table`).
-/
import Dblib.Util

namespace Dblib.Dsn

abbrev Str := List UInt8

abbrev SP : UInt8 := 32     -- ' '
abbrev DQ : UInt8 := 34     -- '"'
abbrev SQ : UInt8 := 39     -- '\''
abbrev COMMA : UInt8 := 44  -- ','
abbrev EQ : UInt8 := 61     -- '='
abbrev BSL : UInt8 := 92    -- '\\'

/-- ASCII text literal -/
def b (s : String) : Str := s.toList.map (fun c => c.toNat.toUInt8)

/-! ## Go stdlib pieces -/

/-- `strings.Split(s, sep)` for a one-byte separator: never empty. -/
def splitOn (sep : UInt8) : Str → List Str
  | [] => [[]]
  | c :: cs =>
    if c = sep then [] :: splitOn sep cs
    else match splitOn sep cs with
      | [] => [[c]]
      | p :: ps => (c :: p) :: ps

/-- `strings.Index(s, string([]byte{x, y}))`, `none` = -1 -/
def index2 (x y : UInt8) : Str → Option Nat
  | [] => none
  | [_] => none
  | c :: d :: rest =>
    if c = x ∧ d = y then some 0
    else (index2 x y (d :: rest)).map (· + 1)

/-- `strings.SplitN(s, "=", 2)`: `none` = the result has length 1 -/
def splitFirst (sep : UInt8) : Str → Option (Str × Str)
  | [] => none
  | c :: cs =>
    if c = sep then some ([], cs)
    else match splitFirst sep cs with
      | none => none
      | some (k, v) => some (c :: k, v)

/-- `s[lo:hi]`, `none` = slice bounds out of range -/
def slice (s : Str) (lo hi : Nat) : Option Str :=
  if lo ≤ hi ∧ hi ≤ s.length then some ((s.take hi).drop lo) else none

/-- `strconv.ParseBool` -/
def parseBool (s : Str) : Option Bool :=
  if s = b "1" ∨ s = b "t" ∨ s = b "T" ∨ s = b "TRUE" ∨ s = b "true" ∨ s = b "True" then some true
  else if s = b "0" ∨ s = b "f" ∨ s = b "F" ∨ s = b "FALSE" ∨ s = b "false" ∨ s = b "False" then some false
  else none

def isDigit (c : UInt8) : Bool := 48 ≤ c && c ≤ 57

/-- value of a digit string (most significant first), accumulator style as `ParseUint` -/
def natOfDigits (acc : Nat) : Str → Nat
  | [] => acc
  | c :: cs => natOfDigits (10 * acc + (c - 48).toNat) cs

/-- unsigned part of `ParseInt`: non-empty, digits only -/
def parseNat (s : Str) : Option Nat :=
  if s ≠ [] ∧ s.all isDigit then some (natOfDigits 0 s) else none

/-- `strconv.ParseInt(s, 10, 64)` -/
def parseInt (s : Str) : Option Int :=
  match s with
  | [] => none
  | c :: cs =>
    if c = 45 then                       -- '-'
      match parseNat cs with
      | some n => if n ≤ 2 ^ 63 then some (-(n : Int)) else none
      | none => none
    else
      match parseNat (if c = 43 then cs else c :: cs) with   -- '+'
      | some n => if n < 2 ^ 63 then some (n : Int) else none
      | none => none

/-- decimal digits of `n`, fuel-driven (fuel `n + 1` always suffices) -/
def digitsAux : Nat → Nat → Str → Str
  | 0, _, acc => acc
  | f + 1, n, acc =>
    if n < 10 then (48 + n).toUInt8 :: acc
    else digitsAux f (n / 10) ((48 + n % 10).toUInt8 :: acc)

def natDec (n : Nat) : Str := digitsAux (n + 1) n []

/-- `%v` / `strconv.Itoa` of an int -/
def intDec (n : Int) : Str :=
  if n < 0 then 45 :: natDec n.natAbs else natDec n.natAbs

def hexNib (n : Nat) : UInt8 := if n < 10 then (48 + n).toUInt8 else (87 + n).toUInt8

/-- one byte under `%q` (see the file header for bytes >= 0x80) -/
def quoteByte (c : UInt8) : Str :=
  if c = DQ ∨ c = BSL then [BSL, c]
  else if 32 ≤ c ∧ c ≠ 127 then [c]
  else if c = 7 then b "\\a" else if c = 8 then b "\\b" else if c = 12 then b "\\f"
  else if c = 10 then b "\\n" else if c = 13 then b "\\r" else if c = 9 then b "\\t"
  else if c = 11 then b "\\v"
  else [BSL, 120, hexNib (c.toNat / 16), hexNib (c.toNat % 16)]

/-- `fmt.Sprintf("%q", s)` -/
def quote (s : Str) : Str := DQ :: (s.flatMap quoteByte ++ [DQ])

/-- byte-wise lexicographic `≤` (Go string comparison) -/
def leStr : Str → Str → Bool
  | [], _ => true
  | _ :: _, [] => false
  | x :: xs, y :: ys => if x < y then true else if y < x then false else leStr xs ys

/-! ## struct shape, key table (`tagToField`) -/

inductive Kind | str | bool | int
  deriving DecidableEq, Repr

inductive Val
  | str (s : Str)
  | bool (v : Bool)
  | int (n : Int)
  deriving DecidableEq, Repr

def Val.kind : Val → Kind
  | .str _ => .str
  | .bool _ => .bool
  | .int _ => .int

/-- the zero value of a kind -/
def Kind.zero : Kind → Val
  | .str => .str []
  | .bool => .bool false
  | .int => .int 0

structure Spec where
  json : Str        -- first element of the json tag
  multiref : Str    -- raw multiref tag, [] = absent
  kind : Kind
  deriving Repr

/-- keys under which `tagToField(…, Multiref)` registers a field: the json name followed by the
comma separated multiref names, empty names skipped; nothing for a field without json name -/
def Spec.names (s : Spec) : List Str :=
  if s.json = [] then [] else (s.json :: splitOn COMMA s.multiref).filter (· ≠ [])

abbrev Table := List (Str × Nat)

/-- `tagToField(…, Multiref)`: a map, later fields overwrite earlier ones — the entries of later
fields come first and `List.lookup` takes the first match -/
def mkTableFrom : Nat → List Spec → Table
  | _, [] => []
  | i, s :: ss => mkTableFrom (i + 1) ss ++ s.names.map (·, i)

def mkTable (specs : List Spec) : Table := mkTableFrom 0 specs

abbrev Fields := List Val

def zeroFields (specs : List Spec) : Fields := specs.map (·.kind.zero)

/-- `setValue`: `none` = error. The kind is that of the field (the current value). -/
def setValue (st : Fields) (i : Nat) (value : Str) : Option Fields :=
  match st[i]? with
  | none => none
  | some (.str _) => some (st.set i (.str value))
  | some (.bool _) => (parseBool value).map (fun v => st.set i (.bool v))
  | some (.int _) => (parseInt value).map (fun n => st.set i (.int n))

/-! ## ParseSimple -/

inductive Outcome
  | ok (st : Fields)
  | err
  | panic
  deriving DecidableEq, Repr

/-- loop condition `len(part) < start+3 || part[len(part)-1] != quot`;
`none` = the index expression panics -/
def needMore (start : Nat) (quot : UInt8) (part : Str) : Option Bool :=
  if part.length < start + 3 then some true
  else match part.getLast? with
    | none => none
    | some c => some (c != quot)

inductive Join
  | done (part : Str) (rest : List Str)
  | unterminated
  | panic
  deriving DecidableEq, Repr

/-- the inner `for len(part) < start+3 || part[len(part)-1] != quot { … }` -/
def joinLoop (start : Nat) (quot : UInt8) (part : Str) (rest : List Str) : Join :=
  match needMore start quot part with
  | none => .panic
  | some false => .done part rest
  | some true =>
    match rest with
    | [] => .unterminated
    | r :: rest' => joinLoop start quot (part ++ SP :: r) rest'
termination_by structural rest

/-- `for _, quot := range []byte{'\'', '"'} { start := Index(part, "="+quot); if start < 0
{ continue }; <joinLoop>; break }` -/
def joinQuoted (part : Str) (rest : List Str) : Join :=
  match index2 EQ SQ part with
  | some start => joinLoop start SQ part rest
  | none =>
    match index2 EQ DQ part with
    | some start => joinLoop start DQ part rest
    | none => .done part rest

/-- `if len(value) >= 2 && value[0] == quot && value[len(value)-1] == quot
{ value = value[1 : len(value)-1] }`; `none` = panic -/
def stripQuote (quot : UInt8) (value : Str) : Option Str :=
  if 2 ≤ value.length then
    match value.head?, value.getLast? with
    | some h, some l => if h = quot ∧ l = quot then slice value 1 (value.length - 1) else some value
    | _, _ => none
  else some value

/-- `if value != "" { for _, quot := range quotations { … } }` -/
def stripQuotes (value : Str) : Option Str :=
  if value = [] then some value
  else (stripQuote SQ value).bind (stripQuote DQ)

/-- one iteration of the outer loop after the quotation has been re-joined -/
def processPart (tbl : Table) (st : Fields) (part : Str) : Outcome :=
  match splitFirst EQ part with
  | none => .err                                  -- len(partS) != 2
  | some (key, value) =>
    match stripQuotes value with
    | none => .panic
    | some value =>
      match tbl.lookup key with
      | none => .err                              -- no field for key
      | some i =>
        match setValue st i value with
        | none => .err
        | some st' => .ok st'

/-- `for len(dsnS) > 0 { part, dsnS = dsnS[0], dsnS[1:]; … }`. The fuel bounds the number of
iterations; running out of fuel is reported as `.panic`, so the totality theorem also shows that
the fuel `length` used by `parseSimple` is enough. -/
def parseLoop (tbl : Table) : Nat → List Str → Fields → Outcome
  | _, [], st => .ok st
  | 0, _ :: _, _ => .panic
  | fuel + 1, part :: rest, st =>
    match joinQuoted part rest with
    | .panic => .panic
    | .unterminated => .err
    | .done part rest' =>
      match processPart tbl st part with
      | .ok st' => parseLoop tbl fuel rest' st'
      | o => o

/-- `ParseSimple(dsn, target)` on a target whose tagged fields hold `st` -/
def parseSimple (specs : List Spec) (st : Fields) (dsn : Str) : Outcome :=
  let parts := splitOn SP dsn
  parseLoop (mkTable specs) parts.length parts st

/-! ## FormatSimple -/

def fmtVal : Val → Str
  | .str s => quote s
  | .bool v => if v then b "true" else b "false"
  | .int n => intDec n

def entryText (e : Str × Val) : Str := e.1 ++ EQ :: fmtVal e.2

/-- the `key=value` entries of `TagToField(input, OnlyJSON)` -/
def entries (specs : List Spec) (vals : Fields) : List (Str × Val) :=
  (specs.zip vals).filterMap (fun sv => if sv.1.json = [] then none else some (sv.1.json, sv.2))

def joinSp : List Str → Str
  | [] => []
  | [x] => x
  | x :: xs => x ++ SP :: joinSp xs

/-- `FormatSimple(input)`: entries sorted by their text, joined with one space -/
def formatSimple (specs : List Spec) (vals : Fields) : Str :=
  joinSp (((entries specs vals).mergeSort (fun x y => leStr (entryText x) (entryText y))).map entryText)

/-! ## the structs of the harness -/

/-- `dsn.Info` -/
def specsInfo : List Spec :=
  [ ⟨b "host", b "hostname", .str⟩,
    ⟨b "port", [], .str⟩,
    ⟨b "username", b "user", .str⟩,
    ⟨b "password", b "passwd,pass", .str⟩,
    ⟨b "database", b "db", .str⟩ ]

/-- `c17Info` of go/cmd/harness/c17.go: `dsn.Info` embedded, then flag / count / note -/
def specsT : List Spec :=
  specsInfo ++
  [ ⟨b "flag", b "f", .bool⟩,
    ⟨b "count", b "n,cnt", .int⟩,
    ⟨b "note", [], .str⟩ ]

/-- `c17AB`: one-letter keys for the exhaustive alphabet -/
def specsAB : List Spec :=
  [ ⟨b "a", [], .str⟩,
    ⟨b "b", b "ab,ba", .str⟩ ]

/-- `tds.Info` -/
def specsTds : List Spec :=
  specsInfo ++
  [ ⟨b "network", [], .str⟩,
    ⟨b "client-hostname", [], .str⟩,
    ⟨b "tls-enable", [], .bool⟩,
    ⟨b "tls-hostname", [], .str⟩,
    ⟨b "tls-skip-validation", [], .bool⟩,
    ⟨b "tls-ca-file", [], .str⟩,
    ⟨b "packet-read-timeout", [], .int⟩,
    ⟨b "channel-package-queue-size", [], .int⟩,
    ⟨b "debug-log-packages", [], .bool⟩ ]

/-! ## line protocol -/

def strOf (s : Str) : String := String.ofList (s.map (fun c => Char.ofNat c.toNat))

def showVal : Val → String
  | .str s => toHex s
  | .bool v => if v then "true" else "false"
  | .int n => toString n

def showOutcome (specs : List Spec) : Outcome → String
  | .err => "err"
  | .panic => "panic"
  | .ok st => "ok " ++ joinSep ";" ((specs.zip st).map (fun sv => strOf sv.1.json ++ "=" ++ showVal sv.2))

def readVal (k : Kind) (tok : String) : Option Val :=
  match k with
  | .str => (fromHex tok).map .str
  | .bool => if tok == "true" then some (.bool true) else if tok == "false" then some (.bool false) else none
  | .int => tok.toInt?.map .int

def readVals : List Spec → List String → Option Fields
  | [], [] => some []
  | s :: ss, t :: ts => do
      let v ← readVal s.kind t
      let r ← readVals ss ts
      pure (v :: r)
  | _, _ => none

def specsOf (sid : String) : Option (List Spec) :=
  if sid == "t" then some specsT else if sid == "ab" then some specsAB else if sid == "tds" then some specsTds
  else if sid == "info" then some specsInfo else none

/-- `<keyhex>:<style>:<valhex>`, style d = "…", s = '…', n = bare -/
def readPair (tok : String) : Option Str :=
  match tok.splitOn ":" with
  | [k, sty, v] => do
      let k ← fromHex k
      let v ← fromHex v
      if sty == "d" then pure (k ++ EQ :: DQ :: (v ++ [DQ]))
      else if sty == "s" then pure (k ++ EQ :: SQ :: (v ++ [SQ]))
      else if sty == "n" then pure (k ++ EQ :: v)
      else none
  | _ => none

def readPairs : List String → Option (List Str)
  | [] => some []
  | t :: ts => do
      let p ← readPair t
      let r ← readPairs ts
      pure (p :: r)

/-- all keys of a table, sorted, with the field index `lookup` gives -/
def showTable (specs : List Spec) : String :=
  let tbl := mkTable specs
  let keys := ((tbl.map (·.1)).eraseDups).mergeSort leStr
  joinSep "," (keys.map (fun k => toHex k ++ "=" ++
    (match tbl.lookup k with
     | some i => toString i ++ (match specs[i]? with
        | some s => (match s.kind with | .str => "s" | .bool => "b" | .int => "i")
        | none => "?")
     | none => "?")))

/--
`dsn psimple <sid> <texthex>`            -> `ok k=v;…` | `err` | `panic`   (target = zero struct)
`dsn fsimple <sid> <v1> … <vn>`          -> `text <texthex>`
`dsn rtsimple <sid> <v1> … <vn>`         -> parse (format values) into a zero struct
`dsn kv <sid> <khex>:<d|s|n>:<vhex> …`   -> parse of the pairs joined with one space
`dsn table <sid>`                        -> `table <keyhex>=<index><kind>,…` sorted by key
-/
def run (args : List String) : String :=
  match args with
  | ["table", sid] =>
    match specsOf sid with
    | some specs => "table " ++ showTable specs
    | none => "bad-op"
  | ["psimple", sid, hex] =>
    match specsOf sid, fromHex hex with
    | some specs, some s => showOutcome specs (parseSimple specs (zeroFields specs) s)
    | _, _ => "bad-op"
  | "fsimple" :: sid :: vals =>
    match specsOf sid with
    | some specs =>
      match readVals specs vals with
      | some m => "text " ++ toHex (formatSimple specs m)
      | none => "bad-op"
    | none => "bad-op"
  | "rtsimple" :: sid :: vals =>
    match specsOf sid with
    | some specs =>
      match readVals specs vals with
      | some m => showOutcome specs (parseSimple specs (zeroFields specs) (formatSimple specs m))
      | none => "bad-op"
    | none => "bad-op"
  | "kv" :: sid :: pairs =>
    match specsOf sid with
    | some specs =>
      match readPairs pairs with
      | some ps => showOutcome specs (parseSimple specs (zeroFields specs) (joinSp ps))
      | none => "bad-op"
    | none => "bad-op"
  | _ => "bad-op"

end Dblib.Dsn
