/-
Model of the transmit side of `tds/channel.go`: `QueuePackage`, `sendPackets`, `sendPacket`,
`SendRemainingPackets`, `SendPackage`, `Reset`, and of `Packet.Bytes` / `PacketHeader.Read`
(serialisation). A package is represented by its encoding (the bytes its `WriteTo` writes).

Transcribes the code after the repair of the end-of-message defect (repo commit "fix: mark the
last packet of a message whose length is a multiple of the packet body size"): the packet the
position points to is held back by `QueuePackage` and gets EOM explicitly when the rest is sent.
Not modelled: contexts (C13), `LastPkg` acceptors, debug logging, transport write errors.
-/
import Dblib.Model.PacketQueue

namespace Dblib

/-- `TDS_BUF_NORMAL` -/
def bufNormal : Nat := 15

def setEOM (status : Nat) : Nat := if status % 2 == 1 then status else status + 1

/-- `PacketHeader.Read`: 8 bytes, length and channel big endian -/
def hdrBytes (h : Header) : Bytes :=
  [UInt8.ofNat h.msgType, UInt8.ofNat h.status,
   UInt8.ofNat (h.length / 256), UInt8.ofNat h.length,
   UInt8.ofNat (h.channel / 256), UInt8.ofNat h.channel,
   UInt8.ofNat h.packetNr, UInt8.ofNat h.window]

/-- `Packet.Bytes`: a slice of `Header.Length` bytes: header, then the data copied in
(truncated or zero padded to the declared length). `none` = Go panics (`bs[:8]` with length < 8). -/
def packetBytes (p : Packet) : Option Bytes :=
  if p.hdr.length < 8 then none
  else some (hdrBytes p.hdr ++ (p.data.take (p.hdr.length - 8) ++
              List.replicate (p.hdr.length - 8 - p.data.length) 0))

structure Tx where
  q : PQ := {}
  hdrType : Nat := bufNormal
  chanId : Nat := 0
  pktNr : Nat := 0
  window : Nat := 0
  psize : Nat := 512
deriving Repr

namespace Tx

/-- `sendPacket`: stamps type, channel, packet number, window; EOM when the body is not full.
Returns the packet as written to the transport. -/
def sendPacket (tx : Tx) (p : Packet) : Tx × Packet :=
  let h := { p.hdr with msgType := tx.hdrType }
  let (tx, h) :=
    if tx.chanId > 0 then
      ({ tx with pktNr := (tx.pktNr + 1) % 256 },
       { h with channel := tx.chanId % 65536, packetNr := tx.pktNr % 256, window := tx.window % 256 })
    else (tx, h)
  let h := if p.data.length != tx.psize - 8 then { h with status := setEOM h.status } else h
  (tx, { p with hdr := h })

/-- the loop of `sendPackets` over the queue (index `i`): the packets sent, in order; `none` =
Go panics (`Data[:id]` out of range) -/
def sendLoop (onlyFull : Bool) (ip id : Nat) : Tx → List Packet → Nat → List Packet → Option (Tx × List Packet)
  | tx, [], _, acc => some (tx, acc.reverse)
  | tx, p :: rest, i, acc =>
    if i == ip then
      if onlyFull then some (tx, acc.reverse)
      else if id > p.data.length then none
      else
        let p' : Packet := { hdr := { p.hdr with length := (8 + id) % 65536, status := setEOM p.hdr.status },
                             data := p.data.take id }
        let (tx, s) := tx.sendPacket p'
        sendLoop onlyFull ip id tx rest (i + 1) (s :: acc)
    else
      let (tx, s) := tx.sendPacket p
      sendLoop onlyFull ip id tx rest (i + 1) (s :: acc)

/-- `sendPackets(onlyFull)`, including the deferred queue shift / discard. -/
def sendPackets (tx : Tx) (onlyFull : Bool) : Option (Tx × List Packet) :=
  match sendLoop onlyFull tx.q.ip tx.q.id tx tx.q.queue 0 [] with
  | none => none
  | some (tx', sent) =>
    if onlyFull then
      let q := tx.q
      let q := if q.ip ≤ q.queue.length then { q with queue := q.queue.drop q.ip, ip := 0 } else q
      some ({ tx' with q := q }, sent)
    else
      -- the position packet was truncated in place before it was sent
      let q := tx.q
      let q := { q with queue := PQ.setData q.queue q.ip (fun d => d.take q.id) }
      match q.discard with
      | none => none
      | some q' => some ({ tx' with q := q' }, sent)

inductive Out where
  | sent (ps : List Packet)
  | panic
  | unsupported
deriving Repr

/-- `QueuePackage` for a package whose `WriteTo` writes `enc` -/
def queuePackage (tx : Tx) (enc : Bytes) : Tx × Out :=
  match tx.q.writeBytes enc tx.psize with
  | (.ok, q) =>
    match ({ tx with q := q }).sendPackets true with
    | some (tx', sent) => (tx', .sent sent)
    | none => (tx, .panic)
  | (.unsupported, _) => (tx, .unsupported)
  | (_, _) => (tx, .panic)

/-- `Reset` -/
def reset (tx : Tx) : Tx := { tx with hdrType := bufNormal, q := tx.q.reset }

/-- `SendRemainingPackets` (with its deferred `Reset`) -/
def sendRemaining (tx : Tx) : Tx × Out :=
  match tx.sendPackets false with
  | some (tx', sent) => (tx'.reset, .sent sent)
  | none => (tx.reset, .panic)

/-- `SendPackage` -/
def sendPackage (tx : Tx) (enc : Bytes) : Tx × Out :=
  match tx.queuePackage enc with
  | (tx', .sent s1) =>
    match tx'.sendRemaining with
    | (tx'', .sent s2) => (tx'', .sent (s1 ++ s2))
    | r => r
  | r => r

end Tx
end Dblib
