/-
Model of `tds/packetQueue.go` (and the parts of `tds/packet.go`, `tds/packetHeader.go` it uses).

A transcription, quirks included: one cursor `(ip, id)` shared by reads and writes,
`Bytes` checking availability first and consuming everything when it reports not-enough-bytes, `DiscardUntilCurrentPosition`
dropping a completely consumed cursor packet, `WriteBytes` opening packets of the packet size
in force.  Where the Go code would panic (slice bounds, index out of range) the model says `.panic`.

Indices are `Nat`: the Go fields are `int`, but no caller in the repository stores a negative
position and the correspondence harness only generates non-negative `SetPosition` arguments.
Packet sizes are restricted to 9..65535 (`NewPacket` needs a positive body and the header length is
a `uint16`); outside that range `writeBytes` answers `.unsupported` (C10 covers the validation of
sizes announced by a server).
-/
import Dblib.Util

namespace Dblib

structure Header where
  msgType : Nat := 0
  status : Nat := 0
  length : Nat := 0
  channel : Nat := 0
  packetNr : Nat := 0
  window : Nat := 0
deriving Repr, DecidableEq, Inhabited, BEq

structure Packet where
  hdr : Header
  data : Bytes
deriving Repr, DecidableEq, Inhabited, BEq

/-- `TDS_BUFSTAT_EOM` -/
def bufstatEOM : Nat := 1

def hasEOM (status : Nat) : Bool := status % 2 == 1

structure PQ where
  queue : List Packet := []
  ip : Nat := 0
  id : Nat := 0
  eom : Bool := false
deriving Repr, DecidableEq, Inhabited, BEq

namespace PQ

def reset (_ : PQ) : PQ := {}

def addPacket (q : PQ) (p : Packet) : PQ :=
  { q with queue := q.queue ++ [p], eom := q.eom || hasEOM p.hdr.status }

def position (q : PQ) : Nat × Nat := (q.ip, q.id)

def setPosition (q : PQ) (ip id : Nat) : PQ := { q with ip := ip, id := id }

/-- `DiscardUntilCurrentPosition`; `none` = Go panics (`queue[ip:]` with `ip > len`). -/
def discard (q : PQ) : Option PQ :=
  if q.ip > q.queue.length then none else
  match q.queue.drop q.ip with
  | [] => some { q with queue := [], ip := 0, id := 0 }
  | p :: rest =>
    if q.id ≥ p.data.length then some { q with queue := rest, ip := 0, id := 0 }
    else some { q with queue := p :: rest, ip := 0 }

/-- `AllPacketsConsumed`, on the packets from the cursor packet on (`queue.drop ip`). -/
def consumedFrom : List Packet → Nat → Bool
  | [], _ => true
  | [p], id => id == p.data.length
  | _ :: _ :: _, _ => false

def allConsumed (q : PQ) : Bool := consumedFrom (q.queue.drop q.ip) q.id

def isEOM (q : PQ) : Bool := q.allConsumed && q.eom

inductive RdOut where
  | ok (bs : Bytes)
  | short (bs : Bytes)      -- ErrNotEnoughBytes; `bs` is what was copied so far
  | panic
deriving Repr, DecidableEq, BEq

/-- The loop of `Bytes`, walking the packets from the cursor packet on.
Returns the outcome, the number of packets the cursor advanced and the new data index. -/
def readLoop : List Packet → (id need : Nat) → (acc : Bytes) → (adv : Nat) → RdOut × Nat × Nat
  | [], id, _, acc, adv => (.short acc, adv, id)
  | p :: rest, id, need, acc, adv =>
    if rest.isEmpty && id == p.data.length then (.short acc, adv, id)
    else if id > p.data.length then (.panic, adv, id)
    else
      let endI := min (id + need) p.data.length
      let chunk := (p.data.drop id).take (endI - id)
      let acc' := acc ++ chunk
      let need' := need - (endI - id)
      if endI == p.data.length then
        if need' == 0 then (.ok acc', adv + 1, 0)
        else readLoop rest 0 need' acc' (adv + 1)
      else (.ok acc', adv, endI)

/-- `unread()`: the number of bytes between the position and the end of the queue (an `int` in
Go: negative when the data index lies beyond the cursor packet) -/
def unreadCount (q : PQ) : Int :=
  ((q.queue.drop q.ip).map (·.data.length)).sum - q.id

/-- `Bytes(n)` for `n ≥ 0`. A request beyond the received bytes consumes everything and returns
no slice (nothing is allocated for it). -/
def bytes (q : PQ) (n : Nat) : RdOut × PQ :=
  if n == 0 then (.ok [], q)
  else if (n : Int) > q.unreadCount then (.short [], { q with ip := q.queue.length, id := 0 })
  else
  match readLoop (q.queue.drop q.ip) q.id n [] 0 with
  | (.ok bs, adv, id) => (.ok bs, { q with ip := q.ip + adv, id := id })
  | (.short bs, adv, id) => (.short bs, { q with ip := q.ip + adv, id := id })
  | (.panic, adv, id) => (.panic, { q with ip := q.ip + adv, id := id })

/-- `Read(p)` with `len(p) = n`: `copy(p, bs)` of the slice `Bytes(n)` returns, so the caller's
buffer holds exactly that slice (its length is always `n`). Returns (count, buffer contents). -/
def read (q : PQ) (n : Nat) : RdOut × Nat × PQ :=
  match q.bytes n with
  | (.ok bs, q') => (.ok bs, bs.length, q')
  | (.short bs, q') => (.short bs, bs.length, q')
  | (.panic, q') => (.panic, 0, q')

inductive WrOut where
  | ok
  | panic
  | unsupported
  | fuel
deriving Repr, DecidableEq, BEq

def newPacket (psize : Nat) : Packet :=
  { hdr := { length := psize }, data := List.replicate (psize - 8) 0 }

/-- `copy(dst[at:], src)` on lists: overwrite at most `dst.length - at` bytes. -/
def copyInto (dst : Bytes) (at_ : Nat) (src : Bytes) : Bytes :=
  let k := min src.length (dst.length - at_)
  dst.take at_ ++ src.take k ++ dst.drop (at_ + k)

def setData (queue : List Packet) (i : Nat) (f : Bytes → Bytes) : List Packet :=
  queue.modify i (fun p => { p with data := f p.data })

/-- One iteration of the loop of `WriteBytes` (`bs` non-empty): the new queue and the number of
bytes written by this iteration; `none` = Go panics. -/
def writeIter (q : PQ) (bs : Bytes) (psize : Nat) : Option (PQ × Nat) :=
  -- "Add new packet if the index points to no packet"
  let q := if q.ip == q.queue.length then { q with queue := q.queue ++ [newPacket psize] } else q
  match q.queue[q.ip]? with
  | none => none                                   -- index out of range
  | some cur =>
    let free : Int := (cur.hdr.length : Int) - 8 - q.id
    if free == 0 then
      -- "No free bytes, add a new packet": the new packet is appended at the END of the queue and
      -- written to, while the packet index is merely incremented.
      let ci := q.queue.length
      let q := { q with queue := q.queue ++ [newPacket psize], ip := q.ip + 1, id := 0 }
      let k := min (psize - 8) bs.length
      some ({ q with queue := setData q.queue ci (fun d => copyInto d 0 (bs.take k)), id := k }, k)
    else
      let free := if free > bs.length then (bs.length : Int) else free
      if free < 0 then none                          -- bs[off:off+free] with free < 0
      else if q.id > cur.data.length then none       -- Data[id:] out of range
      else
        let k := free.toNat
        some ({ q with queue := setData q.queue q.ip (fun d => copyInto d q.id (bs.take k)),
                       id := q.id + k }, k)

/-- The loop of `WriteBytes`. -/
def writeLoop : (fuel : Nat) → PQ → Bytes → (psize : Nat) → WrOut × PQ
  | 0, q, bs, _ => if bs.isEmpty then (.ok, q) else (.fuel, q)
  | fuel + 1, q, bs, psize =>
    if bs.isEmpty then (.ok, q) else
    match writeIter q bs psize with
    | none => (.panic, q)
    | some (q', k) => writeLoop fuel q' (bs.drop k) psize

def writeBytes (q : PQ) (bs : Bytes) (psize : Nat) : WrOut × PQ :=
  if bs.isEmpty then (.ok, q)
  else if psize < 9 ∨ psize > 65535 then (.unsupported, q)
  else writeLoop (bs.length + 1) q bs psize

/-! Abstraction functions -/

def flat (ps : List Packet) : Bytes := (ps.map (·.data)).flatten

/-- the bytes a reader has not consumed yet -/
def unread (q : PQ) : Bytes := (flat (q.queue.drop q.ip)).drop q.id

end PQ
end Dblib
