/-
Line protocol of the consumer-side scenarios (C03, C11): the concrete receive model
(`Model/ChanRx.lean` over `Model/Codec/Pkg.lean`) composed with the consumer model
(`Model/Consume.lean`).

  `use <nEed> <nEnv> <spec,spec,…> <tok> <tok> …`
     tok = `b<eom>:<bodyhex>` | `h:<msgType>`   a packet arrives
         | `+e` | `+n`                          one more EED / env-change hook is registered
         | `r`                                  the consumer calls NextPackageUntil once (round i uses spec i mod #specs)
     spec = `nil` | `final` | `stop<j>` | `eof<j>` | `fail<j>` | `weof<j>` | `ueof<j>` (outcome at the j-th
            callback of the call, otherwise stop at the final DONE)
Answer: `<round> ;; <round> … ;; left=<queued> E=<channel errors> PS=<packet size> H=[<hook calls>]`,
round = `[<seen by the callback> | …] -> <result>`.
-/
import Dblib.Model.ChanRxDriver
import Dblib.Model.Consume

namespace Dblib.Codec
open Dblib.Consume

def consOps : Consume.Ops (Nat × Pkg) :=
  { isEED := fun p => match p.2 with | .eed _ => true | _ => false
    isDoneFinal := fun p => Codec.ops.isDoneFinal p.2 }

/-- number the non-EED packages from the head of the queue: the index the callback counts -/
def annotate : Nat → List Pkg → List (Nat × Pkg)
  | _, [] => []
  | i, p :: q =>
    match p with
    | .eed _ => (0, p) :: annotate i q
    | _ => (i + 1, p) :: annotate (i + 1) q

def specNum (spec : String) (k : Nat) : Option Nat := (String.ofList (spec.toList.drop k)).toNat?

def cbOf (spec : String) : Nat × Pkg → Cb := fun (i, p) =>
  let dflt : Cb := if Codec.ops.isDoneFinal p then .stop else .cont
  if spec.startsWith "stop" then (if specNum spec 4 = some i then .stop else dflt)
  else if spec.startsWith "eof" then (if specNum spec 3 = some i then .eof else dflt)
  else if spec.startsWith "fail" ∨ spec.startsWith "weof" ∨ spec.startsWith "ueof" then
    -- any error other than io.EOF itself: an error wrapping io.EOF (weof) or io.ErrUnexpectedEOF (ueof) too
    (if specNum spec 4 = some i then .fail else dflt)
  else dflt

def seenOf (cb : Nat × Pkg → Cb) : List (Nat × Pkg) → List Pkg
  | [] => []
  | p :: q =>
    if consOps.isEED p then seenOf cb q
    else match cb p with
      | .cont => p.2 :: seenOf cb q
      | _ => [p.2]

def eedNr : Pkg → String
  | .eed e => toString e.msgNumber
  | _ => "?"

def showResult : Result (Nat × Pkg) → String
  | .pkg p => "pkg:" ++ showRx p.2
  | .eofPkg p => "eofpkg:" ++ showRx p.2
  | .nilOk => "nil"
  | .eof => "eof"
  | .cbErr eeds => s!"cberr({eeds.length}:{joinSep "," (eeds.map (fun e => eedNr e.2))}:true)"
  | .blocked => "blocked"

structure UseSt where
  rx : Rx Pkg
  queue : List Pkg := []
  errs : Nat := 0
  hooks : List String := []
  psize : Int := 512
  outs : List String := []
  round : Nat := 0

def useEvents (s : UseSt) : List (Ev Pkg) → UseSt
  | [] => s
  | .deliver p :: rest => useEvents { s with queue := s.queue ++ [p] } rest
  | .chanErr :: rest => useEvents { s with errs := s.errs + 1 } rest
  | .eedHook i p :: rest =>
    useEvents { s with hooks := s.hooks ++ [s!"e{i}@{s.queue.length}:{showRx p}"] } rest
  | .envHook i t old new :: rest =>
    useEvents { s with hooks := s.hooks ++ [s!"n{i}@{s.queue.length}:{t}:{toHex old}:{toHex new}:{s.psize}"] } rest
  | .packSize n :: rest => useEvents { s with psize := n } rest

def useRound (specs : List String) (s : UseSt) : UseSt :=
  let spec := specs.getD (s.round % specs.length) "nil"
  let q := annotate 0 s.queue
  let (res, q', seen) :=
    if spec == "nil" then
      let r := untilNil consOps q
      (r.1, r.2, ([] : List Pkg))
    else
      let r := untilCb consOps (cbOf spec) q []
      (r.1, r.2, seenOf (cbOf spec) q)
  { s with queue := q'.map (·.2), round := s.round + 1,
           outs := s.outs ++ [s!"[{joinSep " | " (seen.map showRx)}] -> {showResult res}"] }

def useToks (specs : List String) : UseSt → List String → Option UseSt
  | s, [] => some s
  | s, t :: ts =>
    if t == "r" then useToks specs (useRound specs s) ts
    else if t == "+e" then useToks specs { s with rx := { s.rx with nEed := s.rx.nEed + 1 } } ts
    else if t == "+n" then useToks specs { s with rx := { s.rx with nEnv := s.rx.nEnv + 1 } } ts
    else if t == "snd" then useToks specs s ts   -- a send in mid-response: nothing changes on the receive side
    else if t == "+E" ∨ t == "+N" then useToks specs s ts   -- a refused registration (nil hook): nothing is registered
    else
      match t.splitOn ":" with
      | ["H", ty] | ["h", ty] =>   -- H: header-only packet with the EOM status; it is not queued, so the status is irrelevant
        match ty.toNat? with
        | some ty =>
          let (rx', ev) := s.rx.writeHeaderOnly ops { msgType := ty, length := 8 }
          useToks specs (useEvents { s with rx := rx' } ev) ts
        | none => none
      | [b, hex] =>
        match fromHex hex with
        | some body =>
          if isBodyTok b then
            match s.rx.writeBody ops body (bodyTokEOM b) with
            | some (rx', ev) => useToks specs (useEvents { s with rx := rx' } ev) ts
            | none => some { s with outs := s.outs ++ ["panic"] }
          else none
        | none => none
      | _ => none

def runUse (args : List String) : String :=
  match args with
  | ne :: nv :: specs :: toks =>
    match ne.toNat?, nv.toNat? with
    | some ne, some nv =>
      let specs := specs.splitOn ","
      if specs.isEmpty then "bad-op" else
      match useToks specs { rx := { nEed := ne, nEnv := nv } } toks with
      | some s =>
        joinSep " ;; " (s.outs ++ [s!"left={s.queue.length} E={s.errs} PS={s.psize} H=[{joinSep " ; " s.hooks}]"])
      | none => "bad-op"
    | _, _ => "bad-op"
  | _ => "bad-op"

end Dblib.Codec
