/-
Reference codec for the TDS 5.0 value layouts (C05) — written from the protocol description, NOT from
the Go code, and deliberately in a different style than `Model/Value.lean` (positional byte formulas
instead of recursion, a month-length list instead of cumulative tables, natural-number calendar).
Core Lean only.

  integers          little-endian two's complement: byte k of an N-bit integer x is ⌊(x mod 2^N) / 256^k⌋ mod 256
  floats            the IEEE 754 bit pattern as an unsigned integer of 4 / 8 bytes
  money             count c of 1/10000 units as a 64-bit integer: high 32-bit word, then low 32-bit word
                    (each little-endian); smallmoney: one 32-bit word
  numeric/decimal   one sign byte (0 = +, 1 = −), then the magnitude big-endian without leading zero bytes
  date              int32 days since 1900-01-01
  time              int32 ticks of 1/300 s since midnight (a microsecond value goes to its nearest tick)
  datetime          int32 days since 1900-01-01, then uint32 ticks of 1/300 s since midnight
  smalldatetime     uint16 days since 1900-01-01, then uint16 minutes since midnight
  bigdatetime       uint64 microseconds since 0000-01-01 00:00 (proleptic Gregorian; year 0 is a leap year)
  bigtime           uint64 microseconds since midnight
  unitext           UTF-16LE

Calendar: the textbook day number  rataDie y m d = 365(y−1) + ⌊(y−1)/4⌋ − ⌊(y−1)/100⌋ + ⌊(y−1)/400⌋
+ (days of the months before m) + d   for years y ≥ 1 (0001-01-01 ↦ 1).
-/
import Dblib.Util

namespace Dblib.Value.Spec

/-! ### integers -/

/-- byte `k` of the natural number `n` -/
def byteAt (n k : Nat) : UInt8 := UInt8.ofNat (n / 256 ^ k % 256)

/-- unsigned little-endian on `w` bytes -/
def uintLE (w n : Nat) : Bytes := (List.range w).map (byteAt n)

/-- two's complement little-endian on `w` bytes -/
def intLE (w : Nat) (x : Int) : Bytes := uintLE w (x % ((256 ^ w : Nat) : Int)).toNat

/-! ### money, numeric -/

def money (c : Int) : Bytes := intLE 4 (c / 4294967296) ++ intLE 4 (c % 4294967296)

def smallMoney (c : Int) : Bytes := intLE 4 c

/-- big-endian value of a byte string -/
def beValue (bs : Bytes) : Nat := bs.foldl (fun a b => a * 256 + b.toNat) 0

/-- `bs` is the numeric layout of `i`: sign byte, then the magnitude big-endian without a leading zero byte
(this determines `bs` uniquely) -/
def IsNumeric (i : Int) (bs : Bytes) : Prop :=
  ∃ mag : Bytes, bs = (if i < 0 then 1 else 0) :: mag ∧ beValue mag = i.natAbs ∧ mag.head? ≠ some 0

/-! ### calendar -/

def leap (y : Nat) : Bool := (y % 4 == 0 && y % 100 != 0) || y % 400 == 0

def monthLengths (y : Nat) : List Nat := [31, if leap y then 29 else 28, 31, 30, 31, 30, 31, 31, 30, 31, 30, 31]

def validDate (y m d : Nat) : Prop := 1 ≤ y ∧ 1 ≤ m ∧ m ≤ 12 ∧ 1 ≤ d ∧ d ≤ (monthLengths y).getD (m - 1) 0

instance (y m d : Nat) : Decidable (validDate y m d) := by unfold validDate; exact inferInstance

/-- textbook proleptic Gregorian day number, 0001-01-01 ↦ 1 -/
def rataDie (y m d : Nat) : Int :=
  (365 * (y - 1) + (y - 1) / 4 : Nat) - ((y - 1) / 100 : Nat) + ((y - 1) / 400 : Nat)
    + (((monthLengths y).take (m - 1)).sum : Nat) + (d : Nat)

/-- days since 1900-01-01 -/
def daysSince1900 (y m d : Nat) : Int := rataDie y m d - rataDie 1900 1 1

/-- nearest 1/300 s tick of a microsecond count (ties to the later tick) -/
def tickOf (us : Nat) : Nat := (2 * 300 * us + 1000000) / (2 * 1000000)

/-! ### temporal layouts (`us` = microseconds since midnight) -/

def date (y m d : Nat) : Bytes := intLE 4 (daysSince1900 y m d)

def time (us : Nat) : Bytes := intLE 4 (tickOf us)

def dateTime (y m d us : Nat) : Bytes := intLE 4 (daysSince1900 y m d) ++ uintLE 4 (tickOf us)

def smallDateTime (y m d us : Nat) : Bytes :=
  uintLE 2 (daysSince1900 y m d).toNat ++ uintLE 2 (us / 60000000)

/-- microseconds since 0000-01-01: year 0 has 366 days, so 0001-01-01 (rataDie 1) is day 366 -/
def bigDateTime (y m d us : Nat) : Bytes := uintLE 8 ((rataDie y m d + 365) * 86400000000 + us).toNat

def bigTime (us : Nat) : Bytes := uintLE 8 us

/-! ### unitext -/

/-- UTF-16 code units of a Unicode scalar value -/
def utf16 (c : Nat) : List Nat :=
  if c < 0x10000 then [c] else [0xD800 + (c - 0x10000) / 0x400, 0xDC00 + (c - 0x10000) % 0x400]

/-- UTF-16LE -/
def unitext (scalars : List Nat) : Bytes := ((scalars.map utf16).flatten.map (uintLE 2)).flatten

end Dblib.Value.Spec
