/- placeholder: executable model to be written (see tools/BUILDER_BRIEF.md) -/
import Dblib.Util

namespace Dblib.NamePool

def run (_args : List String) : String := "todo"

end Dblib.NamePool
