/-
Model of `namepool/pool.go` + `namepool/name.go` (property C18).

Go code (complete):

    Pool(format)      : idCounter = 0, idPool = sync.Pool{ New: id := atomic.AddUint64(&idCounter, 1) }
    pool.Acquire()    : id := idPool.Get(); return &Name{pool, fmt.Sprintf(format, *id), id}
    pool.Release(n)   : if n == nil || n.id == nil { return }; idPool.Put(n.id); *n = Name{}
    (n *Name).Release : n.pool.Release(n)         -- evaluates n.pool first: nil *Name ⇒ nil dereference
    (n Name).Name()   : n.name                    (n Name).ID() : *n.id   -- nil id ⇒ nil dereference

What is modelled
* the pool as a nondeterministic state machine `State = { counter, pool, held }`; the resolution of
  every nondeterministic choice is an explicit argument of the op (`Choice`, the `drop` list of `gc`):
  - `acquire h (.pop id)` : `sync.Pool.Get` hands out ANY pooled id (no order guarantee),
  - `acquire h .mint`     : `sync.Pool.Get` found nothing (per-P caches, GC, race-mode drops) and
                            called `New` = `counter+1`; minting is always enabled,
  - `release h`           : `Put` of the id + `*name = Name{}`; a cleared / zero Name is a no-op,
  - `releaseNil`          : `pool.Release(nil)`, a no-op,
  - `gc drop`             : a garbage collection (or the race-mode `Put` that drops its argument)
                            forgets any subset of the pooled ids.
  A handle `h` is the identity of one `Name` object; it is in `held` exactly while the object's `id`
  pointer is non-nil. `nameOf` gives the field values of the object.
* `fmt.Sprintf(format, uint64)` for formats made of literal bytes, `%%` and `%d`
  (`Fmt`, `parseFmt`, `render`): first `%d` ↦ decimal id, later `%d` ↦ `%!d(MISSING)`, no `%d` at all ↦
  `%!(EXTRA uint64=<id>)` appended (Go's quirk for the "format without verb" case that the package
  documentation allows). Every such format has the shape `pre ++ decimal id ++ suf`. Any other verb or
  flag is outside the model (`unsupported-format`).
* the history validator `validate` (line kinds `hist` recorded / `neg` corrupted / `syn` synthetic —
  the same validator, the kind only tells the harness oracle what to expect) and the sequential API
  script interpreter `runScript` (line kind `api`), both reachable through `run`.
* panics: `(*Name)(nil).Release()` and `ID()` / `Name()` through a nil pointer or `ID()` of a cleared
  Name are explicit `panic…` outcomes of the script interpreter; `pool.Release` has none.

Trusted base (not proved here): `sync.Pool` and `atomic.AddUint64` are linearizable (a concurrent
execution is equivalent to a sequence of the ops above), a `Name` is not copied by value (a copy
shares the id pointer and can be released a second time), `fmt` prints `%d` of a `uint64` as the
decimal digits (checked by the harness on every recorded text).
-/
import Dblib.Util

namespace Dblib.NamePool

abbrev Handle := Nat

/-! ## decimal digits and the format -/

/-- ASCII decimal representation (what `%d` prints for an unsigned integer); `fuel` bounds the
number of digits (structural recursion, so that the kernel can evaluate it) -/
def decimalFuel : Nat → Nat → Bytes
  | 0, _ => []
  | fuel + 1, n =>
    if n < 10 then [UInt8.ofNat (48 + n)]
    else decimalFuel fuel (n / 10) ++ [UInt8.ofNat (48 + n % 10)]

def decimal (n : Nat) : Bytes := decimalFuel (n + 1) n

/-- normal form of a supported format: text = `pre ++ decimal id ++ suf` -/
structure Fmt where
  pre : Bytes
  suf : Bytes
deriving Repr, DecidableEq

def Fmt.render (f : Fmt) (id : Nat) : Bytes := f.pre ++ decimal id ++ f.suf

inductive Seg
  | lit (b : UInt8)
  | verb
deriving Repr, DecidableEq

/-- literal bytes, `%%`, `%d`; anything else after `%` (or a trailing `%`) is unsupported -/
def parseSegs : Bytes → Option (List Seg)
  | [] => some []
  | [b] => if b = 37 then none else some [.lit b]
  | a :: b :: r =>
    if a = 37 then
      if b = 37 then (parseSegs r).map (Seg.lit 37 :: ·)
      else if b = 100 then (parseSegs r).map (Seg.verb :: ·)
      else none
    else (parseSegs (b :: r)).map (Seg.lit a :: ·)

/-- `%!d(MISSING)` -/
def missingBytes : Bytes := [37, 33, 100, 40, 77, 73, 83, 83, 73, 78, 71, 41]
/-- `%!(EXTRA uint64=` -/
def extraBytes : Bytes := [37, 33, 40, 69, 88, 84, 82, 65, 32, 117, 105, 110, 116, 54, 52, 61]

/-- what Sprintf prints for the segments after the first `%d` (the operand is used up) -/
def renderRest : List Seg → Bytes
  | [] => []
  | .lit b :: r => b :: renderRest r
  | .verb :: r => missingBytes ++ renderRest r

/-- split at the first `%d` -/
def splitSegs : List Seg → Bytes × Option (List Seg)
  | [] => ([], none)
  | .lit b :: r => let (p, s) := splitSegs r; (b :: p, s)
  | .verb :: r => ([], some r)

def fmtOfSegs (segs : List Seg) : Fmt :=
  match splitSegs segs with
  | (p, some rest) => ⟨p, renderRest rest⟩
  | (p, none) => ⟨p ++ extraBytes, [41]⟩

def parseFmt (format : Bytes) : Option Fmt := (parseSegs format).map fmtOfSegs

/-! ## the pool state machine -/

structure State where
  counter : Nat
  pool : List Nat
  held : List (Handle × Nat)
deriving Repr, DecidableEq

def init : State := ⟨0, [], []⟩

inductive Choice
  | pop (id : Nat)
  | mint
deriving Repr, DecidableEq

inductive Op
  | acquire (h : Handle) (c : Choice)
  | release (h : Handle)
  | releaseNil
  | gc (drop : List Nat)
deriving Repr, DecidableEq

def heldIds (s : State) : List Nat := s.held.map (·.2)

def isHeld (s : State) (h : Handle) : Bool := (s.held.lookup h).isSome

/-- `Acquire` into a fresh Name object `h`. A choice that is not enabled (popping an id that is not
pooled) and an `h` that already denotes a live Name are not steps of the system: the state stutters. -/
def acquire (s : State) (h : Handle) : Choice → State
  | .pop id =>
    if isHeld s h then s
    else if s.pool.contains id then { s with pool := s.pool.erase id, held := (h, id) :: s.held }
    else s
  | .mint =>
    if isHeld s h then s
    else { counter := s.counter + 1, pool := s.pool, held := (h, s.counter + 1) :: s.held }

/-- `pool.Release(name)` for a non-nil `name`: `name.id == nil` ⇒ return; else Put + clear. -/
def release (s : State) (h : Handle) : State :=
  match s.held.lookup h with
  | none => s
  | some id => { s with pool := id :: s.pool, held := s.held.filter (fun p => p.1 != h) }

def gc (s : State) (drop : List Nat) : State :=
  { s with pool := s.pool.filter (fun id => !drop.contains id) }

def step (s : State) : Op → State
  | .acquire h c => acquire s h c
  | .release h => release s h
  | .releaseNil => s
  | .gc drop => gc s drop

def exec (s : State) (ops : List Op) : State := ops.foldl step s

/-- the fields of the Go struct `Name` -/
structure Name where
  text : Bytes
  id : Option Nat      -- `*uint64`, `none` = nil
  hasPool : Bool       -- `pool != nil`
deriving Repr, DecidableEq

def Name.zero : Name := ⟨[], none, false⟩

/-- field values of the Name object `h` (an object that is not held is the zero Name) -/
def nameOf (f : Fmt) (s : State) (h : Handle) : Name :=
  match s.held.lookup h with
  | some id => ⟨f.render id, some id, true⟩
  | none => Name.zero

/-! ## validator of a recorded history -/

inductive Ev
  | acq (h : Handle) (id : Nat) (text : Bytes)   -- logged after `Acquire` returned
  | rel (h : Handle)                              -- logged before `Release` is called
  | clr (h : Handle) (text : Bytes)               -- logged after `Release` returned: `Name()` of the object
  | relNil
  | gc
  | crash                                         -- a pool call panicked in the recording harness
deriving Repr, DecidableEq

structure V where
  held : List (Handle × Nat)
  seen : List Nat
  maxLive : Nat
  reused : Nat
deriving Repr, DecidableEq

def V.init : V := ⟨[], [], 0, 0⟩

def checkEv (f : Fmt) (v : V) : Ev → Except String V
  | .acq h id text =>
    if id = 0 then .error "zero-id"
    else if (v.held.lookup h).isSome then .error "handle-in-use"
    else if (v.held.map (·.2)).contains id then .error "dup-id"
    else if text ≠ f.render id then .error "bad-text"
    else
      let held := (h, id) :: v.held
      let old := v.seen.contains id
      .ok { held := held,
            seen := if old then v.seen else id :: v.seen,
            maxLive := max v.maxLive held.length,
            reused := if old then v.reused + 1 else v.reused }
  | .rel h => .ok { v with held := v.held.filter (fun p => p.1 != h) }
  | .clr h text =>
    if (v.held.lookup h).isSome then .error "not-released"
    else if text ≠ [] then .error "not-cleared"
    else .ok v
  | .relNil => .ok v
  | .gc => .ok v
  | .crash => .error "panic"

inductive Verdict
  | ok (v : V)
  | violation (idx : Nat) (reason : String)
deriving Repr, DecidableEq

def validateFrom (f : Fmt) (i : Nat) (v : V) : List Ev → Verdict
  | [] => .ok v
  | e :: es =>
    match checkEv f v e with
    | .error r => .violation i r
    | .ok v' => validateFrom f (i + 1) v' es

def validate (f : Fmt) (evs : List Ev) : Verdict := validateFrom f 0 V.init evs

def Verdict.show : Verdict → String
  | .ok v => s!"ok {v.maxLive} {v.seen.length} {v.reused}"
  | .violation i r => s!"violation {i} {r}"

/-! ## line protocol -/

/-- decimal token: 1..20 digits, value < 2^64 (handles and ids are `uint64` in the harness) -/
def parseU64 (s : String) : Option Nat :=
  let cs := s.toList
  if cs.isEmpty || cs.length > 20 || !cs.all (fun c => '0' ≤ c && c ≤ '9') then none
  else
    let n := cs.foldl (fun acc c => acc * 10 + (c.toNat - 48)) 0
    if n < 18446744073709551616 then some n else none

def parseEv (tok : String) : Option Ev :=
  match tok.splitOn ":" with
  | ["a", h, id, hex] =>
    match parseU64 h, parseU64 id, fromHex hex with
    | some h, some id, some t => some (.acq h id t)
    | _, _, _ => none
  | ["r", h] => (parseU64 h).map .rel
  | ["c", h, hex] =>
    match parseU64 h, fromHex hex with
    | some h, some t => some (.clr h t)
    | _, _ => none
  | ["rn"] => some .relNil
  | ["g"] => some .gc
  | ["x"] => some .crash
  | _ => none

def parseEvs : List String → Option (List Ev)
  | [] => some []
  | t :: ts =>
    match parseEv t, parseEvs ts with
    | some e, some es => some (e :: es)
    | _, _ => none

/-! ### sequential API script (`pool api <formathex> <op>…`)

Script variables are `*Name` pointers named by a number. `A7` : `v7 = pool.Acquire()`,
`Z7` : `v7 = &Name{}`, `Q7` : `v7 = nil`, `P7` : `pool.Release(v7)`, `M7` : `v7.Release()`,
`N` : `pool.Release(nil)`, `I7` : `v7.ID()`, `S7` : `v7.Name()`, `G` : two garbage collections.
Overwriting a variable that holds a live Name is not part of the script language (`bad-op`).
The answer has one token per op; a panic ends the script. -/

structure Script where
  st : State
  objs : List Handle       -- variables that point to a Name object (all others are nil pointers)
deriving Repr, DecidableEq

def Script.init : Script := ⟨NamePool.init, []⟩

/-- a fixed resolution of the nondeterminism (the answer tokens do not mention ids) -/
def firstChoice (s : State) : Choice :=
  match s.pool with
  | id :: _ => .pop id
  | [] => .mint

/-- what the harness can observe about variable `h`: nil pointer / cleared Name / live Name -/
def obs (sc : Script) (h : Handle) : String :=
  if !sc.objs.contains h then "nil"
  else if isHeld sc.st h then "live" else "cleared"

inductive ScriptOp
  | acq (h : Handle) | zero (h : Handle) | setNil (h : Handle)
  | poolRel (h : Handle) | methRel (h : Handle) | relNil
  | getId (h : Handle) | getName (h : Handle) | gc
deriving Repr, DecidableEq

/-- `.ok (state, token)` or `.error finalToken` (panic / malformed) -/
def scriptStep (sc : Script) : ScriptOp → Except String (Script × String)
  | .acq h =>
    if isHeld sc.st h then .error "bad-op"
    else .ok ({ st := acquire sc.st h (firstChoice sc.st), objs := h :: sc.objs.erase h }, "a")
  | .zero h =>
    if isHeld sc.st h then .error "bad-op"
    else .ok ({ sc with objs := h :: sc.objs.erase h }, "z")
  | .setNil h =>
    if isHeld sc.st h then .error "bad-op"
    else .ok ({ sc with objs := sc.objs.erase h }, "q")
  | .poolRel h =>
    -- name == nil ⇒ return; otherwise the guarded Put + clear
    let sc' := if sc.objs.contains h then { sc with st := release sc.st h } else sc
    .ok (sc', "p:" ++ obs sc' h)
  | .methRel h =>
    -- a nil *Name returns at the guard `name == nil` (repo fix "(*Name).Release on a nil Name is a
    -- no-op"); the script ends there with the final token `ok-nilrecv`.
    -- For a zero / cleared Name `name.pool` is a nil *pool, whose Release returns at `name.id == nil`.
    if !sc.objs.contains h then .error "ok-nilrecv"
    else
      let sc' := { sc with st := release sc.st h }
      .ok (sc', "m:" ++ obs sc' h)
  | .relNil => .ok (sc, "n")
  | .getId h =>
    if sc.objs.contains h && isHeld sc.st h then .ok (sc, "i") else .error "panic"
  | .getName h =>
    if !sc.objs.contains h then .error "panic"
    else .ok (sc, if isHeld sc.st h then "s:text" else "s:empty")
  | .gc => .ok ({ sc with st := NamePool.gc sc.st sc.st.pool }, "g")

def parseScriptOp (tok : String) : Option ScriptOp :=
  match tok.toList with
  | ['N'] => some .relNil
  | ['G'] => some .gc
  | c :: rest =>
    match parseU64 (String.ofList rest) with
    | none => none
    | some h =>
      if c = 'A' then some (.acq h) else if c = 'Z' then some (.zero h)
      else if c = 'Q' then some (.setNil h) else if c = 'P' then some (.poolRel h)
      else if c = 'M' then some (.methRel h) else if c = 'I' then some (.getId h)
      else if c = 'S' then some (.getName h) else none
  | [] => none

def parseScript : List String → Option (List ScriptOp)
  | [] => some []
  | t :: ts =>
    match parseScriptOp t, parseScript ts with
    | some o, some os => some (o :: os)
    | _, _ => none

def runScript (sc : Script) : List ScriptOp → List String
  | [] => []
  | o :: os =>
    match scriptStep sc o with
    | .error t => [t]
    | .ok (sc', t) => t :: runScript sc' os

/-- `pool hist|neg|syn <formathex> <ev>…` (recorded / corrupted / synthetic history: same validator,
the kind only tells the harness oracle what to expect) and `pool api <formathex> <op>…` -/
def run (args : List String) : String :=
  match args with
  | kind :: fhex :: rest =>
    if kind = "hist" || kind = "neg" || kind = "syn" then
      match fromHex fhex, parseEvs rest with
      | some fb, some evs =>
        match parseFmt fb with
        | some f => (validate f evs).show
        | none => "unsupported-format"
      | _, _ => "bad-op"
    else if kind = "api" then
      match fromHex fhex, parseScript rest with
      | some fb, some ops =>
        match parseFmt fb with
        | some _ =>
          let out := runScript Script.init ops
          if out.contains "bad-op" then "bad-op" else joinSep " " ("ok" :: out)
        | none => "unsupported-format"
      | _, _ => "bad-op"
    else "bad-op"
  | _ => "bad-op"

end Dblib.NamePool
