/-
Model of `isolationlevels.go`, parameterised by the regenerated `Gen/Isolation.lean`.

`toGo` returns the *set* (as a list) of answers the Go function can give: ranging over a Go map
visits the entries in an unspecified order, so every key whose value matches is a possible answer;
indexing a map is a function.
-/
import Dblib.Gen.Isolation
import Dblib.Util

namespace Dblib.Isolation
open Dblib.Gen.Isolation

/-- `ASEIsolationLevelFromGo`: `none` = error -/
def fromGoWith (shape : FromGoShape) (tbl : List (Int × Int)) (invalid : Int) (l : Int) : Option Int :=
  match shape with
  | .lookupRejectInvalid =>
    match tbl.lookup l with
    | none => none
    | some a => if a == invalid then none else some a
  | .unknown => none

/-- possible results of `ToGo` -/
def toGoWith (kind : ToGoKind) (tbl : List (Int × Int)) (dflt : Int) (lvl : Int) : List Int :=
  match kind with
  | .rangeOverMap =>
    let ks := (tbl.filter (fun kv => kv.2 == lvl)).map (·.1)
    if ks.isEmpty then [dflt] else ks
  | .lookupMap =>
    match tbl.lookup lvl with
    | some k => [k]
    | none => [dflt]
  | .unknown => []

def fromGo (l : Int) : Option Int := fromGoWith fromGoShape sql2ase aseLevelInvalid l
def toGo (lvl : Int) : List Int := toGoWith toGoKind toGoTable toGoDefault lvl

/-- `iso fromgo n` / `iso togo n` -/
def run (args : List String) : String :=
  match args with
  | ["fromgo", n] =>
    match n.toInt? with
    | some n => match fromGo n with | some a => s!"ok {a}" | none => "err"
    | none => "bad-op"
  | ["after", n, _] =>   -- translating a sql level after some ASE level was translated back: no history in a function
    match n.toInt? with
    | some n => match fromGo n with | some a => s!"ok {a}" | none => "err"
    | none => "bad-op"
  | "before" :: n :: _ =>   -- translating an ASE level back after some sql level was translated: no history in a function
    match n.toInt? with
    | some n => joinSep "," ((toGo n).map toString)
    | none => "bad-op"
  | "togo" :: n :: _ =>
    match n.toInt? with
    | some n => joinSep "," ((toGo n).map toString)
    | none => "bad-op"
  | _ => "bad-op"

end Dblib.Isolation
