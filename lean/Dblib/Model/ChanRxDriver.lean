/-
Line protocol of the concrete receive model:
  `rx <nEed> <nEnv> <pkt> <pkt> …`   pkt = `b<eom>:<bodyhex>` (packet with body) | `h:<msgType>` (header only)
Answer: `D=[<pkg> | <pkg> …] E=<channel errors> H=[<hook calls>] PS=<packet size> Q=<unread bytes>/<eom>`
with hook calls `e<i>@<k>:<pkg>` (EED hook i, after k deliveries) and `n<i>@<k>:<type>:<old>:<new>:<packet size at the call>`.
-/
import Dblib.Model.Codec.Pkg

namespace Dblib.Codec

/-- the kind as far as the Go type tells it: narrow/wide variants and the DONE aliases share one
Go type (mirrors `kindBase` in go/cmd/harness/c02.go) -/
def kindBase (k : String) : String :=
  if k == "doneproc" ∨ k == "doneinproc" then "done"
  else if k == "dynamic2" then "dynamic"
  else if k == "curdeclare3" then "curdeclare"
  else if k == "curinfo3" then "curinfo"
  else if k == "paramfmt2" then "paramfmt"
  else if k == "rowfmt2" then "rowfmt"
  else k

def showRx (p : Pkg) : String :=
  match p.show.splitOn " " with
  | k :: rest => joinSep " " (kindBase k :: rest)
  | [] => ""

structure RxOut where
  delivered : List String := []
  errs : Nat := 0
  hooks : List String := []
  psize : Int := 512

def applyEvents (o : RxOut) : List (Ev Pkg) → RxOut
  | [] => o
  | .deliver p :: rest => applyEvents { o with delivered := o.delivered ++ [showRx p] } rest
  | .chanErr :: rest => applyEvents { o with errs := o.errs + 1 } rest
  | .eedHook i p :: rest =>
    applyEvents { o with hooks := o.hooks ++ [s!"e{i}@{o.delivered.length}:{showRx p}"] } rest
  | .envHook i t old new :: rest =>
    applyEvents { o with hooks := o.hooks ++ [s!"n{i}@{o.delivered.length}:{t}:{toHex old}:{toHex new}:{o.psize}"] } rest
  | .packSize n :: rest => applyEvents { o with psize := n } rest

/-- packet tokens `b<status>:<hex>`: the status byte of the packet header as a number (b0, b1, b3 = EOM|ATTNACK,
b9 = EOM|EVENT, …) -/
def bodyTokStatus (b : String) : Option Nat :=
  if b.startsWith "b" then (b.drop 1).toNat? else none

def isBodyTok (b : String) : Bool :=
  match bodyTokStatus b with
  | some n => n < 256
  | none => false

/-- `AddPacket`: `Status&TDS_BUFSTAT_EOM == TDS_BUFSTAT_EOM` — the lowest bit, whatever else is set -/
def bodyTokEOM (b : String) : Bool :=
  match bodyTokStatus b with
  | some n => n % 2 == 1
  | none => false

def runPackets : Rx Pkg → RxOut → List String → Option (Rx Pkg × RxOut)
  | rx, o, [] => some (rx, o)
  | rx, o, t :: ts =>
    -- `snd`: the client sends a message at this point; sending touches nothing on the receive side
    if t == "snd" ∨ t.startsWith "W:" then runPackets rx o ts else   -- `W:<hex>`: the complete response, for an oracle only
    match t.splitOn ":" with
    | ["H", ty] | ["h", ty] =>   -- H: header-only packet with the EOM status; it is not queued, so the status is irrelevant
      match ty.toNat? with
      | some ty =>
        let (rx', ev) := rx.writeHeaderOnly ops { msgType := ty, length := 8 }
        runPackets rx' (applyEvents o ev) ts
      | none => none
    | [b, hex] =>
      match fromHex hex with
      | some body =>
        if isBodyTok b then
          match rx.writeBody ops body (bodyTokEOM b) with
          | some (rx', ev) => runPackets rx' (applyEvents o ev) ts
          | none => none
        else none
      | none => none
    | _ => none

def runRx (args : List String) : String :=
  match args with
  | ne :: nv :: pkts =>
    match ne.toNat?, nv.toNat? with
    | some ne, some nv =>
      -- a trailing `send`: the client sends a small message afterwards; with a packet size in force that
      -- is always usable (only sizes 9..65535 are ever put in force) the send succeeds
      let hasSend := pkts.contains "send"
      match runPackets { nEed := ne, nEnv := nv } {} (pkts.filter (· != "send")) with
      | some (rx, o) =>
        s!"D=[{joinSep " | " o.delivered}] E={o.errs} H=[{joinSep " ; " o.hooks}] PS={o.psize} Q={rx.buf.length}/{if rx.eom then 1 else 0}{if hasSend then " S=ok" else ""}"
      | none => "panic"
    | _, _ => "bad-op"
  | _ => "bad-op"

end Dblib.Codec
