/-
Conventions shared by the package codec models (`Model/Codec/*.lean`) and the line protocol
`pkg enc …` / `pkg dec …` (see go/cmd/harness/codecs.go for the protocol).

Canonical field tokens: integers in decimal (negative with `-`), strings and byte strings as
lowercase hex of their bytes (`-` = empty), lists comma separated. A codec renders a package as
`<kind> <field> <field> …` (`show`), identically to the `Show` function of its Go counterpart.
-/
import Dblib.Model.Parser

namespace Dblib.Codec

/-- outcome of an encoder (`WriteTo`) -/
inductive Enc where
  | ok (bs : Bytes)
  | err
  | panic
deriving Repr, DecidableEq

def Enc.toLine : Enc → String
  | .ok bs => "ok " ++ toHex bs
  | .err => "err"
  | .panic => "panic"

/-- render the outcome of a decoder: `ok <shown> / <consumed>` | `notEnough` | `err` | `panic` -/
def decToLine (sh : α → String) : Res α → String
  | .ok a n => s!"ok {sh a} / {n}"
  | .notEnough => "notEnough"
  | .err _ => "err"
  | .panic => "panic"

def natField? (s : String) : Option Nat := s.toNat?
def intField? (s : String) : Option Int := s.toInt?
def hexField? (s : String) : Option Bytes := fromHex s
def showInt (i : Int) : String := toString i
def showList (xs : List String) : String := if xs.isEmpty then "-" else joinSep "," xs
def splitList (s : String) : List String := if s == "-" then [] else s.splitOn ","

/-- little-endian encoding of a signed value on `w` bytes (two's complement, truncating) -/
def leEncodeInt (w : Nat) (i : Int) : Bytes :=
  leEncode w (i % (256 ^ w : Nat)).toNat

end Dblib.Codec
