/-
Package codecs of the group **Fields**, part 2: the field data of `/repo/tds/field.go` and the
packages built from them:

  kind     token  Go type                        file
  params   0xD7   ParamsPackage                  packageParams.go
  row      0xD1   RowPackage{ParamsPackage}      packageParams.go   (same ReadFrom / WriteTo / LastPkg)

Both are `LastPkgAcceptor`s: `LastPkg(format package)` builds one `FieldData` per format with
`LookupFieldData` (the same switch as `LookupFieldFmt`: the five families of `FmtClass` map to
`fieldData` (length, lengthScale), `fieldDataPrecisionScale`, `fieldDataBlob`, `fieldDataTxtPtr`);
`ReadFrom` reads the fields in order. So the decoder has the format list as parameter:
`Row.dec fmts : P (List Data)`.

Facts about the Go code used by the transcription (trusted base, tied to `/repo` by the harness):

* `fieldDataBase.readFrom`: optional status byte (format status has `0x8`), then for a type that is
  not fixed-length `readLengthBytes` (every error → the sentinel), then `ch.Bytes(length)` (`%w`),
  THEN `DataType.GoValue(endian, bs)` on the complete bytes (`Model/Value.lean`: its error is wrapped
  with `%w` around a non-sentinel error: `err`; a panic of `GoValue` would not be recovered: `panic` —
  there is none since /repo 7a20ae8, `c10_govalue_total`), then the dead check `len(bs) != length`.
  `ParamsPackage.ReadFrom` wraps with `%w`. Hence every short read is `notEnough`, and `GoValue` is only ever
  applied to a completely received field.
* `fieldDataPrecisionScale.ReadFrom` (DECN, NUMN) afterwards copies precision and scale of the format
  into the `*Decimal`; a value that is not a `*Decimal` is an error (cannot happen: `GoValue` returns a
  decimal or the null decimal for these types).
* `fieldDataTxtPtr.ReadFrom`: status, `txtPtrLen` (1), txtptr, timestamp (8), `dataLen` (4), data; the
  value is the raw `[]byte` (no `GoValue`).
* `fieldDataBlob.ReadFrom`: status, serialization byte (0/1/2, else error; 1 and 2 only with blob
  type UNICHAR), sub class id (blob types 1, 2; read only if its length is > 0) or locator (6, 7, 8) under a
  2-byte length, then chunks: `dataLen` (4 bytes); if the high bit is set the loop ends WITHOUT
  reading the chunk's bytes; a zero length continues; else the chunk is read and appended.
  (The reader dropping the last chunk and the writer's panic below are part of the known finding
  `blob-not-functional`, modelled as they are; counterexample theorems in Props/C06/Fields.lean.)
* writers: `fieldDataBase.writeTo`: status, `DataType.Bytes(endian, value, fmt.MaxLength())` (error →
  `err`, panic → `panic`), for a non-fixed type the length of the produced bytes truncated to the width
  of the length field, the bytes. `fieldDataTxtPtr.WriteTo`: `uint8(len(txtPtr))`, txtptr, the
  timestamp AS IS (whatever its length), `uint32(len(data))`, data. `fieldDataBlob.WriteTo`: chunks
  of `min(1024, len)`: with a length above 1024 that is not a multiple of 1024, `end += dataLen` steps
  over `len(data)` without ever being equal to it, and `data[start:end]` panics (slice bounds) once
  `end` exceeds the capacity.
* the token `ParamsPackage.WriteTo` writes depends on the format it got: PARAMS after a
  `ParamFmtPackage`, ROW after a `RowFmtPackage` — also for a `RowPackage` / `ParamsPackage` of the
  other kind.

Canonical field lists:
  params|row   <fmtkind> <entries> <data>     fmtkind, entries: the format package the data belong to
               (`paramfmt|paramfmt2|rowfmt|rowfmt2`, see FieldsFmt.lean); data: `.` = none, else joined by `,`
  datum (by family of the format's data type):
    length, lengthScale, lengthPrecisionScale   status;<value>        value token of Model/Value.lean (`Val.show`)
    txtPtr                                      status;txtptr;timestamp;data        (hex)
    blob                                        status;serializationtype;subclassid;locator;data
-/
import Dblib.Model.Codec.FieldsFmt

namespace Dblib.Codec.Fields
open Dblib Dblib.P Dblib.Gen Dblib.Value

inductive Data where
  | base (status : Nat) (v : Val)
  | txt (status : Nat) (txtPtr timeStamp data : Bytes)
  | blob (status serializationType : Nat) (subClassId locator data : Bytes)
deriving Repr, DecidableEq

/-- `readFromStatus`: a status byte iff the format status has `tdsFmtColumnStatus` (0x8) -/
def hasColumnStatus (f : Fmt) : Bool := f.status &&& 8 == 8

def readStatus (f : Fmt) : P Nat := if hasColumnStatus f then u8 else Pure.pure 0

/-- the raw bytes of a `fieldData`: `length` = `ByteSize` for a fixed type, else read from the wire -/
def rawBytes (t : Nat) : P Bytes :=
  if isFixed t then takeInt (fmtLengthBytes t)
  else do
    let length ← readLengthBytes (fmtLengthBytes t)
    take length

/-- the outcome of `GoValue` inside `readFrom` -/
def liftVal : VOut → P Val
  | .ok v => Pure.pure v
  | .err => fail
  | .panic => crash

/-- `fieldDataBase.readFrom` -/
def baseData (f : Fmt) : P (Nat × Val) := do
  let status ← readStatus f
  let bs ← rawBytes f.dataType
  let v ← liftVal (Value.goValue f.dataType bs)
  return (status, v)

/-- `fieldDataPrecisionScale.ReadFrom`: precision and scale of the format into the decimal -/
def withPrecisionScale (f : Fmt) : Val → P Val
  | .dec i _ _ => Pure.pure (.dec i f.precision f.scale)
  | .decnull => Pure.pure .decnull      -- the fields of the null decimal are set too; it still renders as null
  | _ => fail                           -- "%T is not of type decimal"

def txtData (f : Fmt) : P Data := do
  let status ← readStatus f
  let txtPtrLen ← u8
  let txtPtr ← take txtPtrLen
  let timeStamp ← take 8
  let dataLen ← u32
  let data ← take dataLen
  return .txt status txtPtr timeStamp data

/-- the chunk loop of `fieldDataBlob.ReadFrom`; every iteration consumes at least 4 bytes, the fuel
is the number of remaining bytes (+1) -/
def blobChunks : Nat → P Bytes
  | 0 => fail                           -- not reached with the fuel `blobData` passes
  | fuel + 1 => do
    let dataLen ← u32
    if dataLen ≥ 2147483648 then return []          -- high bit: the loop ends, the chunk is NOT read
    else if dataLen = 0 then blobChunks fuel
    else do
      let part ← take dataLen
      let rest ← blobChunks fuel
      return part ++ rest

/-- `serializationType` after the two switches; `none` = error -/
def blobSerialization (blobType serialization : Nat) : Option Nat :=
  if serialization = 0 then
    some (if blobType = 1 ∨ blobType = 2 then 0 else if blobType = 3 then 1 else if blobType = 4 then 2
          else if blobType = 5 then 3 else 0)
  else if serialization = 1 then (if blobType = 5 then some 4 else none)
  else if serialization = 2 then (if blobType = 5 then some 5 else none)
  else none

def blobData (f : Fmt) : P Data := do
  let status ← readStatus f
  let serialization ← u8
  match blobSerialization f.blobType serialization with
  | none => fail
  | some st => do
    let (sub, loc) ← (if f.blobType = 1 ∨ f.blobType = 2 then do
        let subClassIdLength ← u16
        let sub ← if subClassIdLength > 0 then take subClassIdLength else Pure.pure []
        return (sub, [])
      else if f.blobType = 6 ∨ f.blobType = 7 ∨ f.blobType = 8 then do
        let locatorLength ← u16
        let loc ← take locatorLength
        return ([], loc)
      else return ([], []) : P (Bytes × Bytes))
    let data ← (fun s => blobChunks (s.length + 1) s : P Bytes)
    return .blob status st sub loc data

/-- `FieldData.ReadFrom` of the field `LookupFieldData(f)` returns -/
def dataField (f : Fmt) : P Data :=
  match f.cls with
  | some .length | some .lengthScale => do
    let (status, v) ← baseData f
    return .base status v
  | some .lengthPrecisionScale => do
    let (status, v) ← baseData f
    let v ← withPrecisionScale f v
    return .base status v
  | some .blob => blobData f
  | some .txtPtr => txtData f
  | none => fail      -- no such `FieldData`: `LastPkg` has failed before (see `Row.accepts`)

/-- `LastPkg` succeeds: `LookupFieldData` knows every data type -/
def Row.accepts (fmts : List Fmt) : Bool := fmts.all (fun f => f.cls.isSome)

/-- `ParamsPackage.ReadFrom` after `LastPkg` of a package with formats `fmts` -/
def Row.dec (fmts : List Fmt) : P (List Data) := sequence (fmts.map dataField)

/-! ## writer -/

def encStatus (f : Fmt) (status : Nat) : Bytes := if hasColumnStatus f then leEncode 1 status else []

/-- `fieldDataBase.writeTo` -/
def encBase (f : Fmt) (status : Nat) (v : Val) : Enc :=
  match Value.bytes f.dataType v f.maxLength with
  | .err => .err
  | .panic => .panic
  | .ok bs =>
    .ok (encStatus f status ++
      (if isFixed f.dataType then [] else leEncode (lbWidth (fmtLengthBytes f.dataType)) bs.length) ++ bs)

/-- the chunk loop of `fieldDataBlob.WriteTo`; `none` = slice bounds panic -/
def encBlobChunks (data : Bytes) : Option Bytes :=
  if data.length ≤ 1024 then some (leEncode 4 (data.length + 2147483648) ++ data)
  else if data.length % 1024 = 0 then
    some ((List.range (data.length / 1024)).map (fun i =>
      leEncode 4 (1024 + (if (i + 1) * 1024 = data.length then 2147483648 else 0)) ++
        (data.drop (i * 1024)).take 1024)).flatten
  else none

def encData (f : Fmt) : Data → Enc
  | .base status v =>
    match f.cls with
    | some .length | some .lengthScale | some .lengthPrecisionScale => encBase f status v
    | _ => .err       -- not a datum of this family (the canonical parser does not produce it)
  | .txt status txtPtr timeStamp data =>
    match f.cls with
    | some .txtPtr =>
      .ok (encStatus f status ++ leEncode 1 txtPtr.length ++ txtPtr ++ timeStamp ++
            leEncode 4 data.length ++ data)
    | _ => .err
  | .blob status st sub loc data =>
    match f.cls with
    | some .blob =>
      let serialization : Nat := if st = 4 then 1 else if st = 5 then 2 else 0
      let mid : Bytes :=
        if f.blobType = 1 ∨ f.blobType = 2 then leEncode 2 sub.length ++ sub
        else if f.blobType = 6 ∨ f.blobType = 7 ∨ f.blobType = 8 then leEncode 2 loc.length ++ loc
        else []
      match encBlobChunks data with
      | none => .panic
      | some cs => .ok (encStatus f status ++ leEncode 1 serialization ++ mid ++ cs)
    | _ => .err

/-- the fields in order; the first failure ends the writer -/
def Row.encFields : List Fmt → List Data → Enc
  | f :: fs, d :: ds =>
    match encData f d with
    | .ok b =>
      match Row.encFields fs ds with
      | .ok bs => .ok (b ++ bs)
      | e => e
    | e => e
  | _, _ => .ok []

/-- `ParamsPackage.WriteTo`; `row` = the format is a `RowFmtPackage` (token ROW), else PARAMS -/
def Row.enc (row : Bool) (fmts : List Fmt) (ds : List Data) : Enc :=
  match Row.encFields fmts ds with
  | .ok bs => .ok (UInt8.ofNat (if row then tokRow else tokParams) :: bs)
  | e => e

/-! ## canonical text -/

def Data.show : Data → String
  | .base status v => s!"{status};{v.show}"
  | .txt status txtPtr timeStamp data => s!"{status};{toHex txtPtr};{toHex timeStamp};{toHex data}"
  | .blob status st sub loc data => s!"{status};{st};{toHex sub};{toHex loc};{toHex data}"

def showData (ds : List Data) : String :=
  if ds.isEmpty then "." else joinSep "," (ds.map Data.show)

def Data.ofField (f : Fmt) (s : String) : Option Data :=
  match f.cls, s.splitOn ";" with
  | some .length, [st, v] | some .lengthScale, [st, v] | some .lengthPrecisionScale, [st, v] => do
    let st ← natField? st
    let v ← parseVal v
    if st < 256 then some (.base st v) else none
  | some .txtPtr, [st, tp, ts, d] => do
    let st ← natField? st
    let tp ← hexField? tp
    let ts ← hexField? ts
    let d ← hexField? d
    if st < 256 then some (.txt st tp ts d) else none
  | some .blob, [st, ser, sub, loc, d] => do
    let st ← natField? st
    let ser ← natField? ser
    let sub ← hexField? sub
    let loc ← hexField? loc
    let d ← hexField? d
    if st < 256 ∧ ser < 256 then some (.blob st ser sub loc d) else none
  | _, _ => none

def zipOf : List Fmt → List String → Option (List Data)
  | [], [] => some []
  | f :: fs, s :: ss => do
    let d ← Data.ofField f s
    let ds ← zipOf fs ss
    some (d :: ds)
  | _, _ => none

def dataOfField (fmts : List Fmt) (s : String) : Option (List Data) :=
  zipOf fmts (if s == "." then [] else s.splitOn ",")

/-- `<fmtkind>`: (row?, wide?) -/
def parseFmtKind (s : String) : Option (Bool × Bool) :=
  if s == "paramfmt" then some (false, false)
  else if s == "paramfmt2" then some (false, true)
  else if s == "rowfmt" then some (true, false)
  else if s == "rowfmt2" then some (true, true)
  else none

/-- `params|row <fmtkind> <entries> <data>` -/
def Row.show (kind : String) (row wide : Bool) (fmts : List Fmt) (ds : List Data) : String :=
  s!"{kind} {fmtKind row wide} {showFmts fmts} {showData ds}"

def Row.ofFields : List String → Option (Bool × Bool × List Fmt × List Data)
  | [fk, es, ds] => do
    let (row, wide) ← parseFmtKind fk
    let fmts ← fmtsOfField es
    let ds ← dataOfField fmts ds
    some (row, wide, fmts, ds)
  | _ => none

end Dblib.Codec.Fields
