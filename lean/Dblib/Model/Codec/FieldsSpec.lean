/-
The independent side of C06 for the Fields codec group: the TDS 5.0 layouts of the format and data
tokens, written down as data layouts — not transcribed from `/repo` (in particular the table
`shape` below lists the data types of the specification with literal type codes; the Go tables
`ByteSizes` / `LengthBytes` / `LookupFieldFmt` are NOT consulted here).

  PARAMFMT   0xEC Length(2) NumParams(2) { NameLen(1) Name Status(1) UserType(4) DataType(1) <shape> LocaleLen(1) Locale }*
  PARAMFMT2  0x20 Length(4) NumParams(2) { NameLen(1) Name Status(4) UserType(4) DataType(1) <shape> LocaleLen(1) Locale }*
  ROWFMT     0xEE Length(2) NumCols(2)   { NameLen(1) Name Status(1) UserType(4) DataType(1) <shape> LocaleLen(1) Locale }*
  ROWFMT2    0x61 Length(4) NumCols(2)   { LabelLen(1) Label CatalogLen(1) Catalog SchemaLen(1) Schema TableLen(1) Table
                                           NameLen(1) Name Status(4) UserType(4) DataType(1) <shape> LocaleLen(1) Locale }*
  <shape> by data type:
    fixed      (nothing)                             INT1 INT2 INT4 INT8 UINT2 UINT4 UINT8 FLT4 FLT8 BIT SHORTDATE DATETIME
                                                     DATE TIME MONEY SHORTMONEY INTERVAL SINT1
    len1       Length(1)                             INTN UINTN FLTN DATETIMN DATEN TIMEN MONEYN CHAR VARCHAR BINARY VARBINARY
                                                     SENSITIVITY BOUNDARY
    len4       Length(4)                             LONGCHAR LONGBINARY
    prec       Length(1) Precision(1) Scale(1)       DECN NUMN
    scale      Length(1) Scale(1)                    BIGDATETIMEN BIGTIMEN
    text       Length(4) NameLen(2) Name             TEXT IMAGE UNITEXT XML
    blob       BlobType(1) [ClassIdLen(2) ClassId]   BLOB (class id with blob types 1 and 2)
  ROW 0xD1 / PARAMS 0xD7: per column of the preceding format
    [Status(1)] iff the column's format status has 0x08; then
    fixed: the value bytes; len1/len4/prec/scale: Length(1|4) value bytes (Length 0 = NULL);
    text: TxtPtrLen(1) TxtPtr TimeStamp(8) DataLen(4) Data.        (BLOB data: not laid out here)
    Caveat (trusted base): readers of other implementations (FreeTDS `tds_generic_get`) take a TxtPtrLen
    other than 16 — in particular 0 — for a NULL text value after which NOTHING follows (no timestamp, no
    length). This layout, like the reader and writer of /repo, always has timestamp and length; a NULL
    text value sent that way is therefore outside the statements below (and is misread by /repo: it
    takes the next 12 bytes for timestamp and length). Reported, not modelled.
  ORDERBY  0xA9 Length(2) { Column(1) }*          Length = number of columns
  ORDERBY2 0x22 Length(4) NumColumns(2) { Column(2) }*

`Length` is the number of bytes that follow it. `frame w body` puts the length of the actual body in
front; `framed len p` parses exactly `len` bytes with `p`, which must consume all of them (both from
Model/Codec/CursorSpec.lean).
-/
import Dblib.Model.Codec.Fields
import Dblib.Model.Codec.CursorSpec

namespace Dblib.Codec.Fields
open Dblib Dblib.P
open Dblib.Codec.Cursor (lstr frame plstr framed)

inductive Shape where
  | fixed (size : Nat) | len1 | len4 | prec | scale | text | blob
deriving DecidableEq, Repr

/-- the data types of TDS 5.0 and the shape of their format description -/
def shapeTable : List (Nat × Shape) :=
  [ (0x30, .fixed 1), (0x34, .fixed 2), (0x38, .fixed 4), (0xBF, .fixed 8),      -- INT1 INT2 INT4 INT8
    (0x41, .fixed 2), (0x42, .fixed 4), (0x43, .fixed 8),                        -- UINT2 UINT4 UINT8
    (0x3B, .fixed 4), (0x3E, .fixed 8), (0x32, .fixed 1),                        -- FLT4 FLT8 BIT
    (0x3A, .fixed 4), (0x3D, .fixed 8), (0x31, .fixed 4), (0x33, .fixed 4),      -- SHORTDATE DATETIME DATE TIME
    (0x3C, .fixed 8), (0x7A, .fixed 4), (0x2E, .fixed 8), (0xB0, .fixed 1),      -- MONEY SHORTMONEY INTERVAL SINT1
    (0x26, .len1), (0x44, .len1), (0x6D, .len1), (0x6F, .len1), (0x7B, .len1),   -- INTN UINTN FLTN DATETIMN DATEN
    (0x93, .len1), (0x6E, .len1), (0x2F, .len1), (0x27, .len1), (0x2D, .len1),   -- TIMEN MONEYN CHAR VARCHAR BINARY
    (0x25, .len1), (0x67, .len1), (0x68, .len1),                                 -- VARBINARY SENSITIVITY BOUNDARY
    (0xAF, .len4), (0xE1, .len4),                                                -- LONGCHAR LONGBINARY
    (0x6A, .prec), (0x6C, .prec),                                                -- DECN NUMN
    (0xBB, .scale), (0xBC, .scale),                                              -- BIGDATETIMEN BIGTIMEN
    (0x23, .text), (0x22, .text), (0xAE, .text), (0xA3, .text),                  -- TEXT IMAGE UNITEXT XML
    (0x24, .blob) ]                                                              -- BLOB

def shapeIn (tab : List (Nat × Shape)) (t : Nat) : Option Shape :=
  match tab with
  | [] => none
  | (k, v) :: rest => if k = t then some v else shapeIn rest t

def shape (t : Nat) : Option Shape := shapeIn shapeTable t

/-! ## formats -/

/-- the shape-specific part of a format description -/
def Fmt.layoutTail (f : Fmt) : Shape → Bytes
  | .fixed _ => []
  | .len1 => leEncodeInt 1 f.maxLength
  | .len4 => leEncodeInt 4 f.maxLength
  | .prec => leEncodeInt 1 f.maxLength ++ leEncode 1 f.precision ++ leEncode 1 f.scale
  | .scale => leEncodeInt 1 f.maxLength ++ leEncode 1 f.scale
  | .text => leEncodeInt 4 f.maxLength ++ lstr 2 f.tableName
  | .blob => leEncode 1 f.blobType ++ (if f.blobType = 1 ∨ f.blobType = 2 then lstr 2 f.classId else [])

/-- one column / parameter description (`names`: with the four ROWFMT2 names); `[]` for a data type
outside the specification -/
def Fmt.layout (names wide : Bool) (f : Fmt) : Bytes :=
  match shape f.dataType with
  | none => []
  | some sh =>
    (if names then lstr 1 f.label ++ lstr 1 f.catalogue ++ lstr 1 f.schema ++ lstr 1 f.table else []) ++
    lstr 1 f.name ++ leEncode (sw wide) f.status ++ leEncodeInt 4 f.userType ++ leEncode 1 f.dataType ++
    f.layoutTail sh ++ lstr 1 f.locale

def fmtsLayout (row wide : Bool) (fs : List Fmt) : Bytes :=
  leEncode 2 fs.length ++ (fs.map (Fmt.layout (row && wide) wide)).flatten

def fmtToken (row wide : Bool) : Nat :=
  match row, wide with
  | false, false => 0xEC
  | false, true => 0x20
  | true, false => 0xEE
  | true, true => 0x61

/-- the bytes after the token -/
def FmtPkg.encSpecBody (row wide : Bool) (fs : List Fmt) : Bytes := frame (lw wide) (fmtsLayout row wide fs)

def FmtPkg.encSpec (row wide : Bool) (fs : List Fmt) : Bytes :=
  UInt8.ofNat (fmtToken row wide) :: FmtPkg.encSpecBody row wide fs

/-- parse the shape-specific part: (maxLength, precision, scale, blobType, classId, tableName) -/
def specTail : Shape → P (Int × Nat × Nat × Nat × Bytes × Bytes)
  | .fixed size => return ((size : Int), 0, 0, 0, [], [])
  | .len1 => do
    let l ← uintLE 1
    return ((l : Int), 0, 0, 0, [], [])
  | .len4 => do
    let l ← uintLE 4
    return ((l : Int), 0, 0, 0, [], [])
  | .prec => do
    let l ← uintLE 1
    let p ← uintLE 1
    let s ← uintLE 1
    return ((l : Int), p, s, 0, [], [])
  | .scale => do
    let l ← uintLE 1
    let s ← uintLE 1
    return ((l : Int), 0, s, 0, [], [])
  | .text => do
    let l ← uintLE 4
    let name ← plstr 2
    return ((l : Int), 0, 0, 0, [], name)
  | .blob => do
    let bt ← uintLE 1
    let classId ← if bt = 1 ∨ bt = 2 then plstr 2 else Pure.pure []
    return (0, 0, 0, bt, classId, [])

def specField (names wide : Bool) : P Fmt := do
  let (label, catalogue, schema, table) ← (if names then do
      let label ← plstr 1
      let catalogue ← plstr 1
      let schema ← plstr 1
      let table ← plstr 1
      return (label, catalogue, schema, table)
    else return ([], [], [], []) : P (Bytes × Bytes × Bytes × Bytes))
  let name ← plstr 1
  let status ← uintLE (sw wide)
  let userType ← intLE 4
  let dataType ← uintLE 1
  match shape dataType with
  | none => fail
  | some sh => do
    let (ml, pr, sc, bt, ci, tn) ← specTail sh
    let locale ← plstr 1
    return { name := name, status := status, userType := userType, dataType := dataType, maxLength := ml,
             precision := pr, scale := sc, blobType := bt, classId := ci, tableName := tn, locale := locale,
             label := label, catalogue := catalogue, schema := schema, table := table }

def fmtsBodySpec (row wide : Bool) : P (List Fmt) := do
  let n ← uintLE 2
  replicateM n (specField (row && wide) wide)

def FmtPkg.decSpec (row wide : Bool) : P (List Fmt) := do
  let len ← uintLE (lw wide)
  framed len (fmtsBodySpec row wide)

/-! ## ROW / PARAMS -/

/-- a datum as it travels: the status byte and the raw bytes of the value; for the text shape also
text pointer and timestamp -/
structure RawDatum where
  status : Nat
  raw : Bytes
  txtPtr : Bytes := []
  timeStamp : Bytes := []
deriving Repr, DecidableEq

/-- one datum; `[]` for BLOB and for data types outside the specification -/
def datumLayout (f : Fmt) (d : RawDatum) : Bytes :=
  (if f.status &&& 8 = 8 then leEncode 1 d.status else []) ++
  match shape f.dataType with
  | some (.fixed _) => d.raw
  | some .len1 | some .prec | some .scale => lstr 1 d.raw
  | some .len4 => lstr 4 d.raw
  | some .text => lstr 1 d.txtPtr ++ d.timeStamp ++ lstr 4 d.raw
  | some .blob | none => []

def rowLayout : List Fmt → List RawDatum → Bytes
  | f :: fs, d :: ds => datumLayout f d ++ rowLayout fs ds
  | _, _ => []

def Row.encSpec (row : Bool) (fmts : List Fmt) (ds : List RawDatum) : Bytes :=
  UInt8.ofNat (if row then 0xD1 else 0xD7) :: rowLayout fmts ds

/-- the status byte, present iff the column's format status has 0x08 -/
def specStatus (f : Fmt) : P Nat := if f.status &&& 8 = 8 then uintLE 1 else Pure.pure 0

/-- independent decoder of one datum -/
def specDatum (f : Fmt) : P RawDatum := do
  let status ← specStatus f
  match shape f.dataType with
  | some (.fixed size) => do
    let raw ← take size
    return { status := status, raw := raw }
  | some .len1 | some .prec | some .scale => do
    let raw ← plstr 1
    return { status := status, raw := raw }
  | some .len4 => do
    let raw ← plstr 4
    return { status := status, raw := raw }
  | some .text => do
    let tp ← plstr 1
    let ts ← take 8
    let raw ← plstr 4
    return { status := status, raw := raw, txtPtr := tp, timeStamp := ts }
  | some .blob | none => fail

def Row.decSpec (fmts : List Fmt) : P (List RawDatum) := sequence (fmts.map specDatum)

/-! ## ORDERBY -/

def OrderBy.encSpecBody (cols : List Nat) : Bytes := frame 2 ((cols.map (leEncode 1)).flatten)

def OrderBy2.encSpecBody (cols : List Nat) : Bytes :=
  frame 4 (leEncode 2 cols.length ++ (cols.map (leEncode 2)).flatten)

end Dblib.Codec.Fields
