/-
Package codecs of the group **Cursor**: dynamic SQL and cursor packages of `/repo/tds`
(the kinds reachable from `LookupPackage`):

  kind         token  Go type                         file
  dynamic      0xE7   DynamicPackage{wide:false}      packageDynamic.go
  dynamic2     0x62   DynamicPackage{wide:true}       packageDynamic.go
  curdeclare   0x86   CurDeclarePackage{wide:false}   packageCurDeclare.go
  curdeclare3  0x10   CurDeclarePackage{wide:true}    packageCurDeclare.go
  curinfo      0x83   CurInfoPackage{wide:false}      packageCurInfo.go
  curinfo3     0x88   CurInfoPackage{wide:true}       packageCurInfo.go
  curopen      0x84   CurOpenPackage                  packageCurOpen.go
  curfetch     0x82   CurFetchPackage                 packageCurFetch.go
  curupdate    0x85   CurUpdatePackage                packageCurUpdate.go
  curdelete    0x81   CurDeletePackage                packageCurDelete.go

`K.dec` transcribes `ReadFrom` read for read (the hand-kept counter `n` and the final
`if n != totalLength` included), `K.enc` transcribes `WriteTo` (token byte, length bookkeeping and
the silent truncations `uint8(len(..))`, `uint16(totalLength)`, … — `leEncode w` truncates to `w`
bytes exactly like Go's conversions followed by `PutUintNN`).

Facts about the Go code used by the transcription (part of the trusted base, tied to `/repo` by
the correspondence harness):
* every read site of these ten `ReadFrom`s returns the sentinel `ErrNotEnoughBytes` (or, in
  `CurFetchPackage.ReadFrom`, passes the queue's own sentinel through: `return err`), so a short
  read is `notEnough` everywhere; the only other error is the final length comparison (`fail`).
* all wire lengths are unsigned (`uint8/16/32` converted to a 64-bit `int`): no length can become
  negative, there is no indexing and no type assertion, so there is no `crash` site.
* `ch.String(n)` is `string(ch.Bytes(n))`: strings are byte strings here (`Bytes`).
* a fresh package is decoded (`LookupPackage` inside `tryParsePackage`), so fields that are not
  read keep their zero value (`0`, empty string, no columns).
* `PacketQueue.Bytes(n)` allocates `n` bytes before checking availability; the only fields of this
  group that can declare more than 64 KiB are the statement lengths of `dynamic2` and
  `curdeclare3` (uint32, up to 4 GiB — `String` additionally copies them). Not modelled here
  (allocation is C10's `Alloc` model).

Canonical field lists (`show`, identical to the Go `Show` in go/cmd/harness/codec_cursor.go):
  dynamic|dynamic2        <type> <status> <id:hex> <stmt:hex>
  curdeclare|curdeclare3  <name:hex> <options> <status> <stmt:hex> <columns>
                          columns = `.` for none, else the hex names joined by `,` (`-` = empty name)
  curinfo|curinfo3        <cursorid> <name:hex> <command> <status> <rownum> <totalrows> <rowcount>
  curopen                 <cursorid> <name:hex> <status>
  curfetch                <cursorid> <name:hex> <type> <rownumber>
  curupdate               <cursorid> <name:hex> <status> <table:hex> <stmt:hex>
  curdelete               <cursorid> <name:hex> <status> <table:hex>
-/
import Dblib.Model.Codec.Common

namespace Dblib.Codec.Cursor
open Dblib Dblib.P

/-! ## tokens (tds/token.go) -/

def tokDynamic : Nat := 0xE7
def tokDynamic2 : Nat := 0x62
def tokCurDeclare : Nat := 0x86
def tokCurDeclare3 : Nat := 0x10
def tokCurInfo : Nat := 0x83
def tokCurInfo3 : Nat := 0x88
def tokCurOpen : Nat := 0x84
def tokCurFetch : Nat := 0x82
def tokCurUpdate : Nat := 0x85
def tokCurDelete : Nat := 0x81

/-! ## shared pieces -/

/-- width of the length fields that are 2 bytes in the narrow and 4 bytes in the wide variant -/
def lw (wide : Bool) : Nat := if wide then 4 else 2

/-- Go `int32` range -/
def isInt32 (i : Int) : Prop := -2147483648 ≤ i ∧ i < 2147483648

instance (i : Int) : Decidable (isInt32 i) := by unfold isInt32; exact inferInstance

/-- The block every cursor package starts with after its length: `CursorID int32`, and — iff the
id is 0 — the cursor name under a 1-byte length. Returns id, name and the bytes counted in `n`. -/
def cursorRef : P (Int × Bytes × Nat) := do
  let id ← intLE 4
  if id = 0 then do
    let nameLen ← u8
    let name ← take nameLen
    return (id, name, 4 + 1 + nameLen)
  else
    return (id, [], 4)

/-- writer side of `cursorRef`: `WriteInt32(CursorID)`, and iff it is 0 `WriteUint8(uint8(len))`,
`WriteString(Name)` -/
def encCursorRef (id : Int) (name : Bytes) : Bytes :=
  leEncodeInt 4 id ++ (if id = 0 then leEncode 1 name.length ++ name else [])

/-- its contribution to `totalLength` -/
def lenCursorRef (id : Int) (name : Bytes) : Nat :=
  4 + (if id = 0 then 1 + name.length else 0)

/-! ## DYNAMIC / DYNAMIC2 -/

/-- (named `Dyn` because `Dynamic` is a core Lean type) -/
structure Dyn where
  type : Nat      -- DynamicOperationType (byte)
  status : Nat    -- DynamicStatusType (byte)
  id : Bytes
  stmt : Bytes
deriving Repr, DecidableEq

/-- `pkg.Type&TDS_DYN_PREPARE == TDS_DYN_PREPARE || pkg.Type&TDS_DYN_EXEC_IMMED == TDS_DYN_EXEC_IMMED` -/
def hasStmt (ty : Nat) : Bool := ty &&& 0x01 == 0x01 || ty &&& 0x08 == 0x08

def Dyn.dec (wide : Bool) : P Dyn := do
  let totalLength ← uintLE (lw wide)
  let ty ← u8
  let status ← u8
  let idLen ← u8
  let id ← take idLen
  let (stmt, n) ← (if hasStmt ty then do
      let stmtLen ← uintLE (lw wide)
      let stmt ← take stmtLen
      return (stmt, 3 + idLen + lw wide + stmtLen)
    else
      return ([], 3 + idLen) : P (Bytes × Nat))
  guard (n == totalLength)
  return { type := ty, status := status, id := id, stmt := stmt }

/-- `totalLength` of the writer (untruncated) -/
def Dyn.total (wide : Bool) (k : Dyn) : Nat :=
  3 + k.id.length + (if hasStmt k.type then 2 + k.stmt.length + (if wide then 2 else 0) else 0)

/-- the bytes after the token -/
def Dyn.encBody (wide : Bool) (k : Dyn) : Bytes :=
  leEncode (lw wide) (Dyn.total wide k) ++ leEncode 1 k.type ++ leEncode 1 k.status ++
    leEncode 1 k.id.length ++ k.id ++
    (if hasStmt k.type then leEncode (lw wide) k.stmt.length ++ k.stmt else [])

/-- the writer's own count `n` of what it wrote after the length field -/
def Dyn.written (wide : Bool) (k : Dyn) : Nat :=
  1 + 1 + 1 + k.id.length + (if hasStmt k.type then lw wide + k.stmt.length else 0)

def Dyn.maxLength (wide : Bool) : Nat := if wide then 2147483647 else 32767

def Dyn.enc (wide : Bool) (k : Dyn) : Enc :=
  if k.type = 0 then .err                                        -- TDS_DYN_INVALID
  else if Dyn.total wide k ≥ Dyn.maxLength wide then .err  -- "query too long" (token already written)
  else if Dyn.written wide k ≠ Dyn.total wide k then .err  -- "expected to write …"
  else .ok (UInt8.ofNat (if wide then tokDynamic2 else tokDynamic) :: Dyn.encBody wide k)

def Dyn.kind (wide : Bool) : String := if wide then "dynamic2" else "dynamic"

def Dyn.show (wide : Bool) (k : Dyn) : String :=
  s!"{Dyn.kind wide} {k.type} {k.status} {toHex k.id} {toHex k.stmt}"

def Dyn.ofFields : List String → Option Dyn
  | [t, s, i, q] => do
    let t ← natField? t
    let s ← natField? s
    let i ← hexField? i
    let q ← hexField? q
    if t < 256 ∧ s < 256 then some { type := t, status := s, id := i, stmt := q } else none
  | _ => none

/-! ## CURDECLARE / CURDECLARE3 -/

structure CurDeclare where
  name : Bytes
  options : Nat   -- CursorOption (uint)
  status : Nat    -- CursorDStatus (uint)
  stmt : Bytes
  columns : List Bytes
deriving Repr, DecidableEq

/-- one entry of the update column list: 1-byte length, name -/
def colName : P Bytes := do
  let nameLength ← u8
  take nameLength

/-- what the column loop adds to `n` -/
def colsLen (cols : List Bytes) : Nat := (cols.map (fun c => 1 + c.length)).sum

def CurDeclare.dec (wide : Bool) : P CurDeclare := do
  let totalLength ← uintLE (lw wide)
  let nameLength ← u8
  let name ← take nameLength
  let options ← if wide then u32 else u8
  let status ← u8
  let stmtLen ← uintLE (lw wide)
  let stmt ← take stmtLen
  let columnCount ← u16
  let columns ← replicateM columnCount colName
  let n := 1 + nameLength + (if wide then 4 else 1) + 1 + lw wide + stmtLen + 2 + colsLen columns
  guard (n == totalLength)
  return { name := name, options := options, status := status, stmt := stmt, columns := columns }

def CurDeclare.total (wide : Bool) (k : CurDeclare) : Nat :=
  1 + k.name.length + 1 + 1 + 2 + k.stmt.length + 2 + (if wide then 3 + 2 else 0) + colsLen k.columns

def encCols (cols : List Bytes) : Bytes :=
  (cols.map (fun c => leEncode 1 c.length ++ c)).flatten

def CurDeclare.encBody (wide : Bool) (k : CurDeclare) : Bytes :=
  leEncode (lw wide) (CurDeclare.total wide k) ++ leEncode 1 k.name.length ++ k.name ++
    leEncode (if wide then 4 else 1) k.options ++ leEncode 1 k.status ++
    leEncode (lw wide) k.stmt.length ++ k.stmt ++ leEncode 2 k.columns.length ++ encCols k.columns

def CurDeclare.written (wide : Bool) (k : CurDeclare) : Nat :=
  1 + k.name.length + (if wide then 4 else 1) + 1 + lw wide + k.stmt.length + 2 + colsLen k.columns

def CurDeclare.enc (wide : Bool) (k : CurDeclare) : Enc :=
  if CurDeclare.written wide k ≠ CurDeclare.total wide k then .err   -- "expected to write …"
  else .ok (UInt8.ofNat (if wide then tokCurDeclare3 else tokCurDeclare) :: CurDeclare.encBody wide k)

def CurDeclare.kind (wide : Bool) : String := if wide then "curdeclare3" else "curdeclare"

def showCols (cols : List Bytes) : String :=
  if cols.isEmpty then "." else joinSep "," (cols.map toHex)

def colsOfField (s : String) : Option (List Bytes) :=
  if s == "." then some [] else (s.splitOn ",").mapM hexField?

def CurDeclare.show (wide : Bool) (k : CurDeclare) : String :=
  s!"{CurDeclare.kind wide} {toHex k.name} {k.options} {k.status} {toHex k.stmt} {showCols k.columns}"

def uint64Bound : Nat := 18446744073709551616

def CurDeclare.ofFields : List String → Option CurDeclare
  | [n, o, s, q, c] => do
    let n ← hexField? n
    let o ← natField? o
    let s ← natField? s
    let q ← hexField? q
    let c ← colsOfField c
    if o < uint64Bound ∧ s < uint64Bound then
      some { name := n, options := o, status := s, stmt := q, columns := c }
    else none
  | _ => none

/-! ## CURINFO / CURINFO3 -/

structure CurInfo where
  cursorId : Int   -- int32
  name : Bytes
  command : Nat    -- CursorCommand (uint)
  status : Nat     -- CursorIStatus (uint)
  rowNum : Int     -- int32
  totalRows : Int  -- int32
  rowCount : Int   -- int32
deriving Repr, DecidableEq

/-- `pkg.Status&TDS_CUR_ISTAT_ROWCNT == TDS_CUR_ISTAT_ROWCNT` -/
def hasRowCnt (status : Nat) : Bool := status &&& 0x20 == 0x20

def CurInfo.dec (wide : Bool) : P CurInfo := do
  let totalLength ← u16
  let (id, name, n0) ← cursorRef
  let command ← u8
  let status ← uintLE (lw wide)
  let (rowNum, totalRows) ← (if wide then do
      let rowNum ← intLE 4
      let totalRows ← intLE 4
      return (rowNum, totalRows)
    else
      return (0, 0) : P (Int × Int))
  let rowCount ← if hasRowCnt status then intLE 4 else Pure.pure 0
  let n := n0 + 1 + lw wide + (if wide then 4 + 4 else 0) + (if hasRowCnt status then 4 else 0)
  guard (n == totalLength)
  return { cursorId := id, name := name, command := command, status := status,
           rowNum := rowNum, totalRows := totalRows, rowCount := rowCount }

def CurInfo.total (wide : Bool) (k : CurInfo) : Nat :=
  4 + 1 + 2 + (if k.cursorId = 0 then 1 + k.name.length else 0) +
    (if hasRowCnt k.status then 4 else 0) + (if wide then 2 + 4 + 4 else 0)

def CurInfo.encBody (wide : Bool) (k : CurInfo) : Bytes :=
  leEncode 2 (CurInfo.total wide k) ++ encCursorRef k.cursorId k.name ++ leEncode 1 k.command ++
    leEncode (lw wide) k.status ++
    (if wide then leEncodeInt 4 k.rowNum ++ leEncodeInt 4 k.totalRows else []) ++
    (if hasRowCnt k.status then leEncodeInt 4 k.rowCount else [])

def CurInfo.enc (wide : Bool) (k : CurInfo) : Enc :=
  .ok (UInt8.ofNat (if wide then tokCurInfo3 else tokCurInfo) :: CurInfo.encBody wide k)

def CurInfo.kind (wide : Bool) : String := if wide then "curinfo3" else "curinfo"

def CurInfo.show (wide : Bool) (k : CurInfo) : String :=
  s!"{CurInfo.kind wide} {k.cursorId} {toHex k.name} {k.command} {k.status} {k.rowNum} {k.totalRows} {k.rowCount}"

def int32Field? (s : String) : Option Int := do
  let i ← intField? s
  if isInt32 i then some i else none

def uintField? (s : String) : Option Nat := do
  let n ← natField? s
  if n < uint64Bound then some n else none

def CurInfo.ofFields : List String → Option CurInfo
  | [i, n, c, s, r, t, rc] => do
    let i ← int32Field? i
    let n ← hexField? n
    let c ← uintField? c
    let s ← uintField? s
    let r ← int32Field? r
    let t ← int32Field? t
    let rc ← int32Field? rc
    some { cursorId := i, name := n, command := c, status := s, rowNum := r, totalRows := t, rowCount := rc }
  | _ => none

/-! ## CUROPEN -/

structure CurOpen where
  cursorId : Int
  name : Bytes
  status : Nat   -- CursorOStatus (uint)
deriving Repr, DecidableEq

def CurOpen.dec : P CurOpen := do
  let totalLength ← u16
  let (id, name, n0) ← cursorRef
  let status ← u8
  let n := n0 + 1
  guard (n == totalLength)
  return { cursorId := id, name := name, status := status }

def CurOpen.total (k : CurOpen) : Nat := 4 + 1 + (if k.cursorId = 0 then 1 + k.name.length else 0)

def CurOpen.encBody (k : CurOpen) : Bytes :=
  leEncode 2 (CurOpen.total k) ++ encCursorRef k.cursorId k.name ++ leEncode 1 k.status

def CurOpen.enc (k : CurOpen) : Enc := .ok (UInt8.ofNat tokCurOpen :: CurOpen.encBody k)

def CurOpen.show (k : CurOpen) : String := s!"curopen {k.cursorId} {toHex k.name} {k.status}"

def CurOpen.ofFields : List String → Option CurOpen
  | [i, n, s] => do
    let i ← int32Field? i
    let n ← hexField? n
    let s ← uintField? s
    some { cursorId := i, name := n, status := s }
  | _ => none

/-! ## CURFETCH -/

structure CurFetch where
  cursorId : Int
  name : Bytes
  type : Nat       -- CursorFetchType (uint)
  rowNumber : Int  -- int32
deriving Repr, DecidableEq

/-- `pkg.Type == TDS_CUR_ABS || pkg.Type == TDS_CUR_REL` -/
def hasRowNumber (ty : Nat) : Bool := ty == 5 || ty == 6

def CurFetch.dec : P CurFetch := do
  let totalLength ← u16
  let (id, name, n0) ← cursorRef
  let fetchType ← u8          -- `return err`: the queue's own sentinel, still not-enough-bytes
  let rowNumber ← if hasRowNumber fetchType then intLE 4 else Pure.pure 0
  let n := n0 + 1 + (if hasRowNumber fetchType then 4 else 0)
  guard (n == totalLength)
  return { cursorId := id, name := name, type := fetchType, rowNumber := rowNumber }

def CurFetch.total (k : CurFetch) : Nat :=
  4 + 1 + (if k.cursorId = 0 then 1 + k.name.length else 0) + (if hasRowNumber k.type then 4 else 0)

def CurFetch.encBody (k : CurFetch) : Bytes :=
  leEncode 2 (CurFetch.total k) ++ encCursorRef k.cursorId k.name ++ leEncode 1 k.type ++
    (if hasRowNumber k.type then leEncodeInt 4 k.rowNumber else [])

def CurFetch.enc (k : CurFetch) : Enc := .ok (UInt8.ofNat tokCurFetch :: CurFetch.encBody k)

def CurFetch.show (k : CurFetch) : String :=
  s!"curfetch {k.cursorId} {toHex k.name} {k.type} {k.rowNumber}"

def CurFetch.ofFields : List String → Option CurFetch
  | [i, n, t, r] => do
    let i ← int32Field? i
    let n ← hexField? n
    let t ← uintField? t
    let r ← int32Field? r
    some { cursorId := i, name := n, type := t, rowNumber := r }
  | _ => none

/-! ## CURUPDATE -/

structure CurUpdate where
  cursorId : Int
  name : Bytes
  status : Nat     -- CursorOStatus (uint)
  tableName : Bytes
  stmt : Bytes
deriving Repr, DecidableEq

/-- the reader reads the statement block (2-byte length, statement) iff the declared length has
room for it (`if n < int(totalLength)`) -/
def CurUpdate.dec : P CurUpdate := do
  let totalLength ← u16
  let (id, name, n0) ← cursorRef
  let status ← u8
  let tableNameLength ← u8
  let tableName ← take tableNameLength
  let n1 := n0 + 1 + 1 + tableNameLength
  let (stmt, n) ← (if n1 < totalLength then do
      let stmtLength ← u16
      let stmt ← take stmtLength
      return (stmt, n1 + 2 + stmtLength)
    else
      return ([], n1) : P (Bytes × Nat))
  guard (n == totalLength)
  return { cursorId := id, name := name, status := status, tableName := tableName, stmt := stmt }

def CurUpdate.total (k : CurUpdate) : Nat :=
  4 + 1 + 1 + k.tableName.length + (if k.cursorId = 0 then 1 + k.name.length else 0) +
    (if k.stmt.length > 0 then 2 + k.stmt.length else 0)

/-- the writer omits the statement block when the statement is empty -/
def CurUpdate.encBody (k : CurUpdate) : Bytes :=
  leEncode 2 (CurUpdate.total k) ++ encCursorRef k.cursorId k.name ++ leEncode 1 k.status ++
    leEncode 1 k.tableName.length ++ k.tableName ++
    (if k.stmt.length > 0 then leEncode 2 k.stmt.length ++ k.stmt else [])

def CurUpdate.enc (k : CurUpdate) : Enc := .ok (UInt8.ofNat tokCurUpdate :: CurUpdate.encBody k)

def CurUpdate.show (k : CurUpdate) : String :=
  s!"curupdate {k.cursorId} {toHex k.name} {k.status} {toHex k.tableName} {toHex k.stmt}"

def CurUpdate.ofFields : List String → Option CurUpdate
  | [i, n, s, t, q] => do
    let i ← int32Field? i
    let n ← hexField? n
    let s ← uintField? s
    let t ← hexField? t
    let q ← hexField? q
    some { cursorId := i, name := n, status := s, tableName := t, stmt := q }
  | _ => none

/-! ## CURDELETE -/

structure CurDelete where
  cursorId : Int
  name : Bytes
  status : Nat     -- CursorDeleteStatus (uint)
  tableName : Bytes
deriving Repr, DecidableEq

def CurDelete.dec : P CurDelete := do
  let totalLength ← u16
  let (id, name, n0) ← cursorRef
  let status ← u8
  let tableNameLength ← u8
  let tableName ← take tableNameLength
  let n := n0 + 1 + 1 + tableNameLength
  guard (n == totalLength)
  return { cursorId := id, name := name, status := status, tableName := tableName }

def CurDelete.total (k : CurDelete) : Nat :=
  4 + 1 + 1 + k.tableName.length + (if k.cursorId = 0 then 1 + k.name.length else 0)

def CurDelete.encBody (k : CurDelete) : Bytes :=
  leEncode 2 (CurDelete.total k) ++ encCursorRef k.cursorId k.name ++ leEncode 1 k.status ++
    leEncode 1 k.tableName.length ++ k.tableName

def CurDelete.enc (k : CurDelete) : Enc := .ok (UInt8.ofNat tokCurDelete :: CurDelete.encBody k)

def CurDelete.show (k : CurDelete) : String :=
  s!"curdelete {k.cursorId} {toHex k.name} {k.status} {toHex k.tableName}"

def CurDelete.ofFields : List String → Option CurDelete
  | [i, n, s, t] => do
    let i ← int32Field? i
    let n ← hexField? n
    let s ← uintField? s
    let t ← hexField? t
    some { cursorId := i, name := n, status := s, tableName := t }
  | _ => none

/-! ## group entry points -/

def encWith {K : Type} (ofFields : List String → Option K) (enc : K → Enc) (fields : List String) : String :=
  match ofFields fields with
  | some k => (enc k).toLine
  | none => "bad-op"

/-- `pkg enc <kind> <field>…`; `none` = not a kind of this group -/
def encLine (kind : String) (fields : List String) : Option String :=
  match kind with
  | "dynamic" => some (encWith Dyn.ofFields (Dyn.enc false) fields)
  | "dynamic2" => some (encWith Dyn.ofFields (Dyn.enc true) fields)
  | "curdeclare" => some (encWith CurDeclare.ofFields (CurDeclare.enc false) fields)
  | "curdeclare3" => some (encWith CurDeclare.ofFields (CurDeclare.enc true) fields)
  | "curinfo" => some (encWith CurInfo.ofFields (CurInfo.enc false) fields)
  | "curinfo3" => some (encWith CurInfo.ofFields (CurInfo.enc true) fields)
  | "curopen" => some (encWith CurOpen.ofFields CurOpen.enc fields)
  | "curfetch" => some (encWith CurFetch.ofFields CurFetch.enc fields)
  | "curupdate" => some (encWith CurUpdate.ofFields CurUpdate.enc fields)
  | "curdelete" => some (encWith CurDelete.ofFields CurDelete.enc fields)
  | _ => none

/-- `pkg dec <tok> <ctx> <bytes>`; `none` = not a token of this group. No kind of this group is a
`LastPkgAcceptor`: the context is ignored, as in `lookupWithCtx`. -/
def decLine (tok : Nat) (_ctx : Option Bytes) (bs : Bytes) : Option String :=
  if tok = tokDynamic then some (decToLine (Dyn.show false) (Dyn.dec false bs))
  else if tok = tokDynamic2 then some (decToLine (Dyn.show true) (Dyn.dec true bs))
  else if tok = tokCurDeclare then some (decToLine (CurDeclare.show false) (CurDeclare.dec false bs))
  else if tok = tokCurDeclare3 then some (decToLine (CurDeclare.show true) (CurDeclare.dec true bs))
  else if tok = tokCurInfo then some (decToLine (CurInfo.show false) (CurInfo.dec false bs))
  else if tok = tokCurInfo3 then some (decToLine (CurInfo.show true) (CurInfo.dec true bs))
  else if tok = tokCurOpen then some (decToLine CurOpen.show (CurOpen.dec bs))
  else if tok = tokCurFetch then some (decToLine CurFetch.show (CurFetch.dec bs))
  else if tok = tokCurUpdate then some (decToLine CurUpdate.show (CurUpdate.dec bs))
  else if tok = tokCurDelete then some (decToLine CurDelete.show (CurDelete.dec bs))
  else none

end Dblib.Codec.Cursor
