/-
The concrete package family: the sum of all modelled package kinds, the token → parser selection
of `LookupPackage` + `LastPkg`, and the instantiation `ops : Ops Pkg` of the receive model
(`Model/ChanRx.lean`) with it.
-/
import Dblib.Model.ChanRx
import Dblib.Model.Codec.Basic
import Dblib.Model.Codec.Cursor
import Dblib.Model.Codec.Fields
import Dblib.Gen.TdsConsts

namespace Dblib.Codec
open Dblib.Gen.Tds

inductive Pkg where
  | done (kind : String) (d : Basic.Done)
  | eed (e : Basic.EED)
  | error (e : Basic.Error)
  | loginAck (a : Basic.LoginAck)
  | msg (m : Basic.Msg)
  | envChange (e : Basic.EnvChange)
  | capability (c : Basic.Capability)
  | language (l : Basic.Language)
  | returnStatus (r : Basic.ReturnStatus)
  | logout (l : Basic.Logout)
  | dyn (wide : Bool) (d : Cursor.Dyn)
  | curDeclare (wide : Bool) (c : Cursor.CurDeclare)
  | curInfo (wide : Bool) (c : Cursor.CurInfo)
  | curOpen (c : Cursor.CurOpen)
  | curFetch (c : Cursor.CurFetch)
  | curUpdate (c : Cursor.CurUpdate)
  | curDelete (c : Cursor.CurDelete)
  | paramFmt (wide : Bool) (fs : List Fields.Fmt)
  | rowFmt (wide : Bool) (fs : List Fields.Fmt)
  /-- PARAMS (`kind = "params"`) / ROW (`kind = "row"`) with the format package it holds
  (`row`: a RowFmtPackage, else a ParamFmtPackage; its `wide` flag; its formats) -/
  | params (kind : String) (row wide : Bool) (fmts : List Fields.Fmt) (ds : List Fields.Data)
  /-- ORDERBY / ORDERBY2 with the RowFmtPackage it references (wide flag, formats) -/
  | orderBy (wide2 : Bool) (rowFmt : Option (Bool × List Fields.Fmt)) (cols : List Nat)
  | headerOnly (h : Header)

def Pkg.show : Pkg → String
  | .done kind d => Basic.Done.show kind d
  | .eed e => e.show
  | .error e => e.show
  | .loginAck a => a.show
  | .msg m => m.show
  | .envChange e => e.show
  | .capability c => c.show
  | .language l => l.show
  | .returnStatus r => r.show
  | .logout l => l.show
  | .dyn w d => Cursor.Dyn.show w d
  | .curDeclare w c => Cursor.CurDeclare.show w c
  | .curInfo w c => Cursor.CurInfo.show w c
  | .curOpen c => c.show
  | .curFetch c => c.show
  | .curUpdate c => c.show
  | .curDelete c => c.show
  | .paramFmt w fs => Fields.showFmtPkg false w fs
  | .rowFmt w fs => Fields.showFmtPkg true w fs
  | .params kind row w fmts ds => Fields.Row.show kind row w fmts ds
  | .orderBy w2 _ cols => Fields.OrderBy.show w2 cols
  | .headerOnly h => s!"headeronly {h.msgType}"

/-- lift a decoder into the sum type -/
def lift {α : Type} (p : P α) (f : α → Pkg) : P Pkg := do
  let a ← p
  return f a

/-- a token `LookupPackage` maps to a `TokenlessPackage`: its `ReadFrom` can only end with
not-enough-bytes -/
def tokenless : P Pkg := fun _ => .notEnough

/-- the switch of `LookupPackage`: token → decoder of the fresh package -/
def parsers : List (Nat × P Pkg) :=
  [ (0xFD, lift Basic.Done.dec (.done "done")),
    (0xFE, lift Basic.Done.dec (.done "doneproc")),
    (0xFF, lift Basic.Done.dec (.done "doneinproc")),
    (0xE5, lift Basic.EED.dec .eed),
    (0xAA, lift Basic.Error.dec .error),
    (0xAD, lift Basic.LoginAck.dec .loginAck),
    (0x65, lift Basic.Msg.dec .msg),
    (0xE3, lift Basic.EnvChange.dec .envChange),
    (0xE2, lift Basic.Capability.dec .capability),
    (0x21, lift Basic.Language.dec .language),
    (0x79, lift Basic.ReturnStatus.dec .returnStatus),
    (0x71, lift Basic.Logout.dec .logout),
    (Cursor.tokDynamic, lift (Cursor.Dyn.dec false) (.dyn false)),
    (Cursor.tokDynamic2, lift (Cursor.Dyn.dec true) (.dyn true)),
    (Cursor.tokCurDeclare, lift (Cursor.CurDeclare.dec false) (.curDeclare false)),
    (Cursor.tokCurDeclare3, lift (Cursor.CurDeclare.dec true) (.curDeclare true)),
    (Cursor.tokCurInfo, lift (Cursor.CurInfo.dec false) (.curInfo false)),
    (Cursor.tokCurInfo3, lift (Cursor.CurInfo.dec true) (.curInfo true)),
    (Cursor.tokCurOpen, lift Cursor.CurOpen.dec .curOpen),
    (Cursor.tokCurFetch, lift Cursor.CurFetch.dec .curFetch),
    (Cursor.tokCurUpdate, lift Cursor.CurUpdate.dec .curUpdate),
    (Cursor.tokCurDelete, lift Cursor.CurDelete.dec .curDelete),
    (Fields.tokParamFmt, lift (Fields.ParamFmt.dec false) (.paramFmt false)),
    (Fields.tokParamFmt2, lift (Fields.ParamFmt.dec true) (.paramFmt true)),
    (Fields.tokRowFmt, lift (Fields.RowFmt.dec false) (.rowFmt false)),
    (Fields.tokRowFmt2, lift (Fields.RowFmt.dec true) (.rowFmt true)) ]

/-- the Go package type (and the `wide` flag `LookupPackage` passes) each entry of `parsers`
transcribes, in the order of `parsers`; compared with the regenerated switch of `LookupPackage`
(`Gen/Lookup.lean`) in `Props/C07/Lookup.lean` -/
def parsersMeta : List (Nat × String × Bool) :=
  [ (0xFD, "DonePackage", false), (0xFE, "DoneProcPackage", false), (0xFF, "DoneInProcPackage", false),
    (0xE5, "EEDPackage", false), (0xAA, "ErrorPackage", false), (0xAD, "LoginAckPackage", false),
    (0x65, "MsgPackage", false), (0xE3, "EnvChangePackage", false), (0xE2, "CapabilityPackage", false),
    (0x21, "LanguagePackage", false), (0x79, "ReturnStatusPackage", false), (0x71, "LogoutPackage", false),
    (0xE7, "DynamicPackage", false), (0x62, "DynamicPackage", true),
    (0x86, "CurDeclarePackage", false), (0x10, "CurDeclarePackage", true),
    (0x83, "CurInfoPackage", false), (0x88, "CurInfoPackage", true),
    (0x84, "CurOpenPackage", false), (0x82, "CurFetchPackage", false),
    (0x85, "CurUpdatePackage", false), (0x81, "CurDeletePackage", false),
    (0xEC, "ParamFmtPackage", false), (0x20, "ParamFmtPackage", true),
    (0xEE, "RowFmtPackage", false), (0x61, "RowFmtPackage", true) ]

/-- the `LastPkgAcceptor`s: their parser depends on the preceding package (`select`) -/
def acceptorsMeta : List (Nat × String × Bool) :=
  [ (0xD7, "ParamsPackage", false), (0xD1, "RowPackage", false),
    (0xA9, "OrderByPackage", false), (0x22, "OrderBy2Package", false) ]

def findParser (t : Nat) : List (Nat × P Pkg) → P Pkg
  | [] => tokenless
  | (k, p) :: rest => if k = t then p else findParser t rest

/-- the format `ParamsPackage.LastPkg(other)` takes over from the preceding package (row?, wide?,
formats); `none` = it returns an error: `*ParamFmtPackage` / `*RowFmtPackage` themselves;
`*ParamsPackage` → its `paramFmt`, `*RowPackage` → its `rowFmt` (a package of the one type holding the
other kind of format hands over nil: "both paramFmt and rowFmt are nil"); `*OrderByPackage` /
`*OrderBy2Package` → its `rowFmt`; any other package → error -/
def heldFormat : Option Pkg → Option (Bool × Bool × List Fields.Fmt)
  | some (.paramFmt w fs) => some (false, w, fs)
  | some (.rowFmt w fs) => some (true, w, fs)
  | some (.params "params" false w fs _) => some (false, w, fs)
  | some (.params "row" true w fs _) => some (true, w, fs)
  | some (.orderBy _ (some (w, fs)) _) => some (true, w, fs)
  | _ => none

/-- `LookupPackage(token)` + `LastPkg(lastPkgRx)` + `ReadFrom` -/
def select (tok : UInt8) (last : Option Pkg) : Sel Pkg :=
  let t := tok.toNat
  if t = Fields.tokParams ∨ t = Fields.tokRow then
    match heldFormat last with
    | some (row, wide, fmts) =>
      if Fields.Row.accepts fmts then
        .parser (lift (Fields.Row.dec fmts) (.params (if t = Fields.tokRow then "row" else "params") row wide fmts))
      else .lastErr                              -- `LookupFieldData` fails (cannot happen after a decoded format)
    | none => .lastErr
  else if t = Fields.tokOrderBy then
    match last with
    | some (.rowFmt w fs) => .parser (lift Fields.OrderBy.dec (.orderBy false (some (w, fs))))
    | _ => .lastErr                              -- "received package other than RowFmtPackage"
  else if t = Fields.tokOrderBy2 then
    match last with
    | some (.rowFmt w fs) => .parser (lift Fields.OrderBy2.dec (.orderBy true (some (w, fs))))
    | _ => .lastErr
  else .parser (findParser t parsers)

/-- `strconv.Atoi` on the bytes of a string: optional sign, at least one digit, nothing else;
values beyond int64 are errors -/
def atoi (bs : Bytes) : Option Int :=
  let (neg, ds) := match bs with
    | 0x2D :: r => (true, r)
    | 0x2B :: r => (false, r)
    | r => (false, r)
  if ds.isEmpty ∨ !ds.all (fun b => 0x30 ≤ b ∧ b ≤ 0x39) then none
  else
    let n : Nat := ds.foldl (fun (acc : Nat) b => acc * 10 + (b.toNat - 0x30)) 0
    let v : Int := if neg then -(n : Int) else n
    if v < -9223372036854775808 ∨ v > 9223372036854775807 then none else some v

def special : Pkg → Special
  | .envChange e => .env (e.members.map (fun m => (m.typ, m.old, m.new)))
  | .eed e => if e.status % 4 / 2 = 1 then .eedInfo else .eed      -- Status&TDS_EED_INFO == TDS_EED_INFO
  | _ => .none

def ops : Ops Pkg :=
  { select := select
    special := special
    isDoneFinal := fun p => match p with | .done _ d => d.status == 0 | _ => false
    doneFinal := .done "done" { status := 0, tran := 0, count := 0 }
    headerOnly := .headerOnly
    envPackSize := 4
    atoi := atoi }

end Dblib.Codec
