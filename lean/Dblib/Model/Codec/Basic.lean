/-
Codec group **Basic**: the fixed-layout packages of `/repo/tds`
(`packageDone.go`, `packageEED.go`, `packageError.go`, `packageLoginAck.go`, `packageMsg.go`,
`packageEnvChange.go`, `packageCapability.go`, `packageLanguage.go`, `packageReturnStatus.go`,
`packageLogout.go`; `packageTokenless.go` is documented below, not modelled).

For every kind `K`: `structure K` (serialised fields), `K.dec` (transcription of `ReadFrom`, read for
read, in the parser monad of `Model/Parser.lean`), `K.encBody`/`K.enc` (transcription of `WriteTo`;
`enc` includes whatever token byte the Go code writes), `K.show`/`K.ofFields` (canonical rendering,
identical to `go/cmd/harness/codec_basic.go`), `K.encSpecBody`/`K.encSpec` or `K.decSpec` (written
from the TDS 5.0 layout, not from the Go code), and the group entry points `encLine` / `decLine`.

Quirks of the Go code that are transcribed (not repaired):
* `DoneProcPackage` and `DoneInProcPackage` are type aliases of `DonePackage`: one `WriteTo`, which
  always writes the token `TDS_DONE` (0xFD).
* `EEDPackage.ReadFrom` strips one trailing `"\n"` of the message (writer and reader agree on
  `16 + …` bytes after the length field since commit 1e4c2ef).
* `LoginAckPackage`: `WriteTo` writes the stored `Length` and `NameLength` fields, not the
  lengths of what follows; `ReadFrom` never compares `Length` with what it read.
* `MsgPackage.ReadFrom` ignores the length byte.
* `EnvChangePackage.ReadFrom` stops when `n ≥ length` and rejects `n > length` (`n` is an `int`
  since commit 43248a8).
* `CapabilityPackage.ReadFrom` starts from the three default masks of `NewCapabilityPackage`
  (request: 107 entries, response: 74, security: 1); `parseValueMask` of `L` bytes yields `8·L+1`
  entries; `valueMask.Bytes` of `n` entries yields `⌈n/8⌉` bytes, so a mask that was read grows by a
  leading zero byte when it is written again. `WriteTo` ranges over a Go map (random order): the
  model (and the harness, by re-sorting the real output) emits ascending type order. Types whose
  mask `isEmpty` (one entry, or no entry set) are not written.
* `LanguagePackage.ReadFrom` rejects a declared length 0 with an error right after the length
  field (commit c622599; before, `Bytes(-1)` panicked), so `int(totalLength) - 1 ≥ 0` at the read.
* `LogoutPackage.ReadFrom` rejects every option byte other than 0.

Truncations: `uint8(len(..))`, `uint16(len(..))`, `uint32(len(..))` are modelled by `leEncode w`, which
truncates modulo `256^w`.

`TokenlessPackage` (the `default` of `LookupPackage`): `ReadFrom` is `bytes.Buffer.ReadFrom` over
`PacketQueue.Read`. `Buffer.ReadFrom` offers at least 512 bytes of room per `Read`; `PacketQueue.Read(p)`
is `Bytes(len(p))`, which returns `nil` only if `len(p)` bytes are there and otherwise consumes
everything and returns `ErrNotEnoughBytes` (never `io.EOF`), reporting `len(p)` bytes copied (the
tail of the buffer is zero padding). `Buffer.ReadFrom` stops only at an error, so the call always
ends with `ErrNotEnoughBytes` after consuming the whole queue, never `nil`, never another error, never
a panic. The dispatcher's answer `notEnough` for unclaimed tokens is therefore right; nothing to model.

Core Lean only (linked into the driver).
-/
import Dblib.Model.Codec.Common

namespace Dblib.Codec.Basic
open Dblib

/-! ### helpers -/

/-- `for cond(st) { st = body(st) }` with fuel; running out of fuel answers `short`
(not-enough-bytes). Both loops of this group get as fuel the declared length, which bounds the number
of rounds because every round adds at least 2 to the byte counter: the fuel is never exhausted
(`Lemmas/CodecBasic.lean`: `loop_fuel_enough`; `Props/C07/Basic.lean`: `envLoop_fuel`, `capLoop_fuel`). -/
def short {α : Type} : P α := fun _ => .notEnough

def loop {σ : Type} (cond : σ → Bool) (body : σ → P σ) : Nat → σ → P σ
  | 0, st => if cond st then short else Pure.pure st
  | f + 1, st => if cond st then body st >>= loop cond body f else Pure.pure st

/-- unsigned decimal field below `2^bits` -/
def uField? (bits : Nat) (s : String) : Option Nat :=
  match natField? s with
  | some n => if n < 2 ^ bits then some n else none
  | none => none

/-- signed decimal field in the two's complement range of `bits` bits -/
def iField? (bits : Nat) (s : String) : Option Int :=
  match intField? s with
  | some i => if -(2 ^ (bits - 1) : Int) ≤ i ∧ i < (2 ^ (bits - 1) : Int) then some i else none
  | none => none

/-- hex field of exactly `n` bytes -/
def hexN? (n : Nat) (s : String) : Option Bytes :=
  match hexField? s with
  | some bs => if bs.length = n then some bs else none
  | none => none

def byte (n : Nat) : Bytes := [UInt8.ofNat n]

/-! ### DONE / DONEPROC / DONEINPROC (0xFD / 0xFE / 0xFF) -/

structure Done where
  status : Nat
  tran : Nat
  count : Int
deriving Repr, DecidableEq

def Done.dec : P Done := do
  let status ← P.u16
  let tran ← P.u16
  let count ← P.intLE 4
  return { status, tran, count }

def Done.encBody (k : Done) : Bytes :=
  leEncode 2 k.status ++ (leEncode 2 k.tran ++ leEncodeInt 4 k.count)

/-- the one `WriteTo` of the three aliases: always the token TDS_DONE -/
def Done.enc (k : Done) : Enc := .ok (0xFD :: Done.encBody k)

/-- TDS layout: token of the kind, Status(2), TranState(2), Count(4) -/
def Done.encSpec (tok : Nat) (k : Done) : Bytes := UInt8.ofNat tok :: Done.encBody k

def Done.show (kind : String) (k : Done) : String := s!"{kind} {k.status} {k.tran} {k.count}"

def Done.ofFields : List String → Option Done
  | [a, b, c] => do
    let status ← uField? 16 a
    let tran ← uField? 16 b
    let count ← iField? 32 c
    return { status, tran, count }
  | _ => none

/-! ### EED (0xE5) -/

structure EED where
  msgNumber : Nat
  state : Nat
  cls : Nat
  sqlState : Bytes
  status : Nat
  tran : Nat
  msg : Bytes
  server : Bytes
  proc : Bytes
  line : Nat
deriving Repr, DecidableEq

/-- `strings.TrimSuffix(msg, "\n")` -/
def trimNl (bs : Bytes) : Bytes := if bs.getLast? = some 10 then bs.dropLast else bs

def EED.dec : P EED := do
  let length ← P.u16
  let msgNumber ← P.u32
  let state ← P.u8
  let cls ← P.u8
  let sqlLen ← P.u8
  let sqlState ← P.take sqlLen
  let status ← P.u8
  let tran ← P.u16
  let msgLen ← P.u16
  let msg ← P.take msgLen
  let srvLen ← P.u8
  let server ← P.take srvLen
  let procLen ← P.u8
  let proc ← P.take procLen
  let line ← P.u16
  -- n = 4+1+1+1+sqlLen+1+2+2+msgLen+1+srvLen+1+procLen+2
  if 16 + sqlLen + msgLen + srvLen + procLen ≠ length then P.fail
  else return { msgNumber, state, cls, sqlState, status, tran, msg := trimNl msg, server, proc, line }

/-- everything `WriteTo` writes after the length field -/
def EED.payload (k : EED) : Bytes :=
  leEncode 4 k.msgNumber ++ (byte k.state ++ (byte k.cls ++ (byte k.sqlState.length ++ (k.sqlState ++
  (byte k.status ++ (leEncode 2 k.tran ++ (leEncode 2 k.msg.length ++ (k.msg ++
  (byte k.server.length ++ (k.server ++ (byte k.proc.length ++ (k.proc ++ leEncode 2 k.line))))))))))))

/-- `length := 16 + len(SQLState) + len(Msg) + len(ServerName) + len(ProcName)` -/
def EED.declared (k : EED) : Nat :=
  16 + k.sqlState.length + k.msg.length + k.server.length + k.proc.length

def EED.encBody (k : EED) : Bytes := leEncode 2 (EED.declared k) ++ EED.payload k
def EED.enc (k : EED) : Enc := .ok (0xE5 :: EED.encBody k)

/-- TDS layout: Length(2) = number of bytes after the length field -/
def EED.encSpecBody (k : EED) : Bytes := leEncode 2 (EED.payload k).length ++ EED.payload k
def EED.encSpec (k : EED) : Bytes := 0xE5 :: EED.encSpecBody k

def EED.show (k : EED) : String :=
  s!"eed {k.msgNumber} {k.state} {k.cls} {toHex k.sqlState} {k.status} {k.tran} {toHex k.msg} {toHex k.server} {toHex k.proc} {k.line}"

def EED.ofFields : List String → Option EED
  | [a, b, c, d, e, f, g, h, i, j] => do
    let msgNumber ← uField? 32 a
    let state ← uField? 8 b
    let cls ← uField? 8 c
    let sqlState ← hexField? d
    let status ← uField? 8 e
    let tran ← uField? 16 f
    let msg ← hexField? g
    let server ← hexField? h
    let proc ← hexField? i
    let line ← uField? 16 j
    return { msgNumber, state, cls, sqlState, status, tran, msg, server, proc, line }
  | _ => none

/-! ### ERROR (0xAA) -/

structure Error where
  number : Int
  state : Nat
  cls : Nat
  msg : Bytes
  server : Bytes
  proc : Bytes
  line : Nat
deriving Repr, DecidableEq

def Error.dec : P Error := do
  let expect ← P.u16
  let number ← P.intLE 4
  let state ← P.u8
  let cls ← P.u8
  let msgLen ← P.u16
  let msg ← P.take msgLen
  let srvLen ← P.u8
  let server ← P.take srvLen
  let procLen ← P.u8
  let proc ← P.take procLen
  let line ← P.u16
  -- n = 4+1+1+2+msgLen+1+srvLen+1+procLen+2
  if 12 + msgLen + srvLen + procLen ≠ expect then P.fail
  else return { number, state, cls, msg, server, proc, line }

def Error.payload (k : Error) : Bytes :=
  leEncodeInt 4 k.number ++ (byte k.state ++ (byte k.cls ++ (leEncode 2 k.msg.length ++ (k.msg ++
  (byte k.server.length ++ (k.server ++ (byte k.proc.length ++ (k.proc ++ leEncode 2 k.line))))))))

/-- `expectLength := 12 + len(ErrorMsg) + len(ServerName) + len(ProcName)`; the final check
`n != expectLength` of `WriteTo` compares two untruncated ints that are equal by construction -/
def Error.encBody (k : Error) : Bytes :=
  leEncode 2 (12 + k.msg.length + k.server.length + k.proc.length) ++ Error.payload k
def Error.enc (k : Error) : Enc := .ok (0xAA :: Error.encBody k)

/-- TDS layout: Length(2), MsgNumber(4), State, Class, MsgLen(2), Msg, SrvLen, Srv, ProcLen, Proc, Line(2) -/
def Error.encSpecBody (k : Error) : Bytes := leEncode 2 (Error.payload k).length ++ Error.payload k
def Error.encSpec (k : Error) : Bytes := 0xAA :: Error.encSpecBody k

def Error.show (k : Error) : String :=
  s!"error {k.number} {k.state} {k.cls} {toHex k.msg} {toHex k.server} {toHex k.proc} {k.line}"

def Error.ofFields : List String → Option Error
  | [a, b, c, d, e, f, g] => do
    let number ← iField? 32 a
    let state ← uField? 8 b
    let cls ← uField? 8 c
    let msg ← hexField? d
    let server ← hexField? e
    let proc ← hexField? f
    let line ← uField? 16 g
    return { number, state, cls, msg, server, proc, line }
  | _ => none

/-! ### LOGINACK (0xAD) -/

structure LoginAck where
  length : Nat
  status : Nat
  version : Bytes        -- 4 bytes: major minor sp patch
  nameLength : Nat
  name : Bytes
  progVersion : Bytes    -- 4 bytes
deriving Repr, DecidableEq

/-- `NewVersion` of a 4 byte slice never fails (`Bytes(4)` returns 4 bytes) -/
def LoginAck.dec : P LoginAck := do
  let length ← P.u16
  let status ← P.u8
  let version ← P.take 4
  let nameLength ← P.u8
  let name ← P.take nameLength
  let progVersion ← P.take 4
  return { length, status, version, nameLength, name, progVersion }

/-- `WriteTo` writes the stored Length / NameLength (with non-nil versions, as `ofFields` builds) -/
def LoginAck.encBody (k : LoginAck) : Bytes :=
  leEncode 2 k.length ++ (byte k.status ++ (k.version ++ (byte k.nameLength ++ (k.name ++ k.progVersion))))
def LoginAck.enc (k : LoginAck) : Enc := .ok (0xAD :: LoginAck.encBody k)

/-- TDS layout: Length(2) = 10 + len(name), Status, TDSVersion(4), NameLen, ProgName, ProgVersion(4);
the stored `length` / `nameLength` of `k` are not used -/
def LoginAck.encSpecBody (k : LoginAck) : Bytes :=
  leEncode 2 (10 + k.name.length) ++ (byte k.status ++ (k.version ++ (byte k.name.length ++ (k.name ++ k.progVersion))))
def LoginAck.encSpec (k : LoginAck) : Bytes := 0xAD :: LoginAck.encSpecBody k

def LoginAck.show (k : LoginAck) : String :=
  s!"loginack {k.length} {k.status} {toHex k.version} {k.nameLength} {toHex k.name} {toHex k.progVersion}"

def LoginAck.ofFields : List String → Option LoginAck
  | [a, b, c, d, e, f] => do
    let length ← uField? 16 a
    let status ← uField? 8 b
    let version ← hexN? 4 c
    let nameLength ← uField? 8 d
    let name ← hexField? e
    let progVersion ← hexN? 4 f
    return { length, status, version, nameLength, name, progVersion }
  | _ => none

/-! ### MSG (0x65) -/

structure Msg where
  status : Nat
  msgId : Nat
deriving Repr, DecidableEq

def Msg.dec : P Msg := do
  let _ ← P.u8          -- the length byte is ignored
  let status ← P.u8
  let msgId ← P.u16
  return { status, msgId }

def Msg.encBody (k : Msg) : Bytes := byte 3 ++ (byte k.status ++ leEncode 2 k.msgId)
def Msg.enc (k : Msg) : Enc := .ok (0x65 :: Msg.encBody k)

/-- TDS layout: Length(1) = 3, Status(1), MsgId(2) -/
def Msg.encSpec (k : Msg) : Bytes := 0x65 :: (byte 3 ++ (byte k.status ++ leEncode 2 k.msgId))

/-- independent reader of the TDS layout (after the token): the length byte must be 3 -/
def Msg.decSpec : P Msg := do
  let l ← P.u8
  P.guard (l == 3)
  let status ← P.u8
  let msgId ← P.u16
  return { status, msgId }

def Msg.show (k : Msg) : String := s!"msg {k.status} {k.msgId}"

def Msg.ofFields : List String → Option Msg
  | [a, b] => do
    let status ← uField? 8 a
    let msgId ← uField? 16 b
    return { status, msgId }
  | _ => none

/-! ### ENVCHANGE (0xE3) -/

structure Member where
  typ : Nat
  new : Bytes
  old : Bytes
deriving Repr, DecidableEq

structure EnvChange where
  members : List Member
deriving Repr, DecidableEq

/-- `EnvChangePackageField.ReadFrom`: the member and the number of bytes it reports as read -/
def Member.dec : P (Member × Nat) := do
  let typ ← P.u8
  let l1 ← P.u8
  let new ← (if l1 > 0 then P.take l1 else Pure.pure [])
  let l2 ← P.u8
  let old ← (if l2 > 0 then P.take l2 else Pure.pure [])
  return ({ typ, new, old }, 3 + l1 + l2)

/-- loop state: `n` and `pkg.members` -/
abbrev EnvState := Nat × List Member

def envStep (st : EnvState) : P EnvState := do
  let (m, i) ← Member.dec
  return (st.1 + i, st.2 ++ [m])

/-- every round adds at least 3 to `n`: `length` rounds of fuel are never exhausted -/
def EnvChange.dec : P EnvChange := do
  let length ← P.u16
  let st ← loop (fun st : EnvState => decide (st.1 < length)) envStep length (0, [])
  if st.1 > length then P.fail else return { members := st.2 }

def Member.enc (m : Member) : Bytes :=
  byte m.typ ++ (byte m.new.length ++ (m.new ++ (byte m.old.length ++ m.old)))

def membersEnc : List Member → Bytes
  | [] => []
  | m :: ms => Member.enc m ++ membersEnc ms

/-- `totalLength += member.ByteLength()` = 3 + len(new) + len(old) -/
def membersLen : List Member → Nat
  | [] => 0
  | m :: ms => (3 + m.new.length + m.old.length) + membersLen ms

/-- the final check `length != totalLength` compares equal untruncated ints -/
def EnvChange.encBody (k : EnvChange) : Bytes := leEncode 2 (membersLen k.members) ++ membersEnc k.members
def EnvChange.enc (k : EnvChange) : Enc := .ok (0xE3 :: EnvChange.encBody k)

/-- TDS layout: Length(2) = bytes that follow; per change Type, NewLen, New, OldLen, Old -/
def EnvChange.encSpecBody (k : EnvChange) : Bytes :=
  leEncode 2 (membersEnc k.members).length ++ membersEnc k.members
def EnvChange.encSpec (k : EnvChange) : Bytes := 0xE3 :: EnvChange.encSpecBody k

def Member.show (m : Member) : String := s!"{m.typ}:{toHex m.new}:{toHex m.old}"
def EnvChange.show (k : EnvChange) : String := "envchange " ++ showList (k.members.map Member.show)

def Member.ofField (s : String) : Option Member :=
  match s.splitOn ":" with
  | [a, b, c] => do
    let typ ← uField? 8 a
    let new ← hexField? b
    let old ← hexField? c
    return { typ, new, old }
  | _ => none

def EnvChange.ofFields : List String → Option EnvChange
  | [a] => do
    let members ← (splitList a).mapM Member.ofField
    return { members }
  | _ => none

/-! ### CAPABILITY (0xE2) and `valueMask` -/

/-- the eight bits of a byte, least significant first (`valueMaskBitMasks[j]`) -/
def bits8 (b : UInt8) : List Bool := (List.range 8).map (fun j => b.toNat.testBit j)

/-- `parseValueMask`: `newValueMask(8·len)` has `8·len + 1` entries; the bytes are walked from the
last to the first, each from the least to the most significant bit -/
def parseMask (bs : Bytes) : List Bool := bs.reverse.flatMap bits8 ++ [false]

def bitsToNat : List Bool → Nat
  | [] => 0
  | b :: bs => (if b then 1 else 0) + 2 * bitsToNat bs

/-- the byte built by the inner loop `for j := 0; j < 8; j++` from up to eight entries -/
def packByte (chunk : List Bool) : UInt8 := UInt8.ofNat (bitsToNat chunk)

/-- the outer loop of `valueMask.Bytes`, in iteration order: round `k` packs entries `8k … 8k+7` -/
def maskChunks : Nat → List Bool → Bytes
  | 0, _ => []
  | k + 1, l => packByte (l.take 8) :: maskChunks k (l.drop 8)

/-- `valueMask.Bytes`: `max = ⌈n/8⌉` bytes; round `k` fills byte `max-1-k` -/
def maskBytes (caps : List Bool) : Bytes := (maskChunks ((caps.length + 7) / 8) caps).reverse

/-- `valueMask.isEmpty` -/
def maskEmpty (caps : List Bool) : Bool := caps.length == 1 || caps.all (fun b => !b)

/-- the TDS value mask written from the layout rule: capability `n` is bit `n % 8` of byte
`len - 1 - n / 8`, i.e. bit `j` of byte `i` is capability `8·(len-1-i) + j` (absent = not set) -/
def specMaskBytes (caps : List Bool) : Bytes :=
  let len := (caps.length + 7) / 8
  (List.range len).map (fun i =>
    UInt8.ofNat (bitsToNat ((List.range 8).map (fun j => caps.getD (8 * (len - 1 - i) + j) false))))

/-- `map[CapabilityType]*valueMask` as an association list with ascending distinct keys -/
abbrev CapMap := List (Nat × List Bool)

def capSet (t : Nat) (v : List Bool) : CapMap → CapMap
  | [] => [(t, v)]
  | (k, w) :: rest =>
    if t < k then (t, v) :: (k, w) :: rest
    else if t = k then (t, v) :: rest
    else (k, w) :: capSet t v rest

structure Capability where
  caps : CapMap
deriving Repr, DecidableEq

/-- `NewCapabilityPackage(nil, nil, nil)`: `newValueMask(TDS_REQ_COMMAND_ENCRYPTION = 106)`,
`newValueMask(TDS_RES_DR_NOKILL = 73)`, `newValueMask(0)` -/
def defaultCaps : CapMap :=
  [(1, List.replicate 107 false), (2, List.replicate 74 false), (3, [false])]

/-- loop state: `length` and the map -/
abbrev CapState := Nat × CapMap

def capStep (st : CapState) : P CapState := do
  let typ ← P.u8
  let capLen ← P.u8
  let bs ← P.take capLen
  return (st.1 + 2 + capLen, capSet typ (parseMask bs) st.2)

/-- every round adds at least 2 to `length`: `totalLength` rounds of fuel are never exhausted -/
def Capability.dec : P Capability := do
  let total ← P.u16
  let st ← loop (fun st : CapState => decide (st.1 < total)) capStep total (0, defaultCaps)
  if st.1 > total then P.fail else return { caps := st.2 }

def capEntryEnc (e : Nat × List Bool) : Bytes :=
  if maskEmpty e.2 then [] else byte e.1 ++ (byte (maskBytes e.2).length ++ maskBytes e.2)

def capsEnc : CapMap → Bytes
  | [] => []
  | e :: es => capEntryEnc e ++ capsEnc es

/-- `bytesToWrite += 2 + len(vm.Bytes())` over the non-empty masks -/
def capsLen : CapMap → Nat
  | [] => 0
  | e :: es => (if maskEmpty e.2 then 0 else 2 + (maskBytes e.2).length) + capsLen es

/-- ascending type order (the Go order is the random map order); the final check
`writtenBytes != bytesToWrite` compares equal ints -/
def Capability.encBody (k : Capability) : Bytes := leEncode 2 (capsLen k.caps) ++ capsEnc k.caps
def Capability.enc (k : Capability) : Enc := .ok (0xE2 :: Capability.encBody k)

def capEntrySpec (e : Nat × List Bool) : Bytes :=
  if maskEmpty e.2 then [] else byte e.1 ++ (byte (specMaskBytes e.2).length ++ specMaskBytes e.2)

def capsSpec : CapMap → Bytes
  | [] => []
  | e :: es => capEntrySpec e ++ capsSpec es

/-- TDS layout: Length(2), then per type with at least one capability: Type, MaskLen, ValueMask -/
def Capability.encSpecBody (k : Capability) : Bytes := leEncode 2 (capsSpec k.caps).length ++ capsSpec k.caps
def Capability.encSpec (k : Capability) : Bytes := 0xE2 :: Capability.encSpecBody k

def showBits (bs : List Bool) : String :=
  if bs.isEmpty then "-" else String.ofList (bs.map (fun b => if b then '1' else '0'))

def capEntryShow (e : Nat × List Bool) : String := s!"{e.1}:{showBits e.2}"
def Capability.show (k : Capability) : String := "capability " ++ showList (k.caps.map capEntryShow)

def bitsField? (s : String) : Option (List Bool) :=
  if s == "-" then some []
  else s.toList.mapM (fun c => if c == '1' then some true else if c == '0' then some false else none)

def capEntryOfField (s : String) : Option (Nat × List Bool) :=
  match s.splitOn ":" with
  | [a, b] => do
    let t ← uField? 8 a
    let bits ← bitsField? b
    return (t, bits)
  | _ => none

/-- later entries of the same type win, as stores into the Go map do -/
def Capability.ofFields : List String → Option Capability
  | [a] => do
    let es ← (splitList a).mapM capEntryOfField
    return { caps := es.foldl (fun m e => capSet e.1 e.2 m) [] }
  | _ => none

/-! ### LANGUAGE (0x21) -/

structure Language where
  status : Nat
  cmd : Bytes
deriving Repr, DecidableEq

def Language.dec : P Language := do
  let total ← P.u32
  if total = 0 then P.fail else       -- "invalid length 0 for language package"
  let status ← P.u8
  let cmd ← P.takeInt ((total : Int) - 1)     -- `ch.String(int(totalLength) - 1)`
  return { status, cmd }

/-- `uint32(1 + len(Cmd))`, `byte(pkg.Status)` -/
def Language.encBody (k : Language) : Bytes := leEncode 4 (1 + k.cmd.length) ++ (byte k.status ++ k.cmd)
def Language.enc (k : Language) : Enc := .ok (0x21 :: Language.encBody k)

/-- independent reader of the TDS layout (after the token): Length(4) ≥ 1 counts the status byte
and the text -/
def Language.decSpec : P Language := do
  let total ← P.u32
  P.guard (decide (1 ≤ total))
  let status ← P.u8
  let cmd ← P.take (total - 1)
  return { status, cmd }

def Language.show (k : Language) : String := s!"language {k.status} {toHex k.cmd}"

def Language.ofFields : List String → Option Language
  | [a, b] => do
    let status ← uField? 31 a
    let cmd ← hexField? b
    return { status, cmd }
  | _ => none

/-! ### RETURNSTATUS (0x79) -/

structure ReturnStatus where
  value : Int
deriving Repr, DecidableEq

def ReturnStatus.dec : P ReturnStatus := do
  let value ← P.intLE 4
  return { value }

def ReturnStatus.encBody (k : ReturnStatus) : Bytes := leEncodeInt 4 k.value
def ReturnStatus.enc (k : ReturnStatus) : Enc := .ok (0x79 :: ReturnStatus.encBody k)

/-- TDS layout: token, Value(4) -/
def ReturnStatus.encSpec (k : ReturnStatus) : Bytes := 0x79 :: leEncodeInt 4 k.value

def ReturnStatus.show (k : ReturnStatus) : String := s!"returnstatus {k.value}"

def ReturnStatus.ofFields : List String → Option ReturnStatus
  | [a] => do
    let value ← iField? 32 a
    return { value }
  | _ => none

/-! ### LOGOUT (0x71) -/

structure Logout where
  options : Nat
deriving Repr, DecidableEq

def Logout.dec : P Logout := do
  let options ← P.u8
  if options ≠ 0 then P.fail else return { options }

def Logout.encBody (k : Logout) : Bytes := byte k.options
def Logout.enc (k : Logout) : Enc := .ok (0x71 :: Logout.encBody k)

/-- independent reader of the TDS layout (after the token): Options(1) -/
def Logout.decSpec : P Logout := do
  let options ← P.u8
  return { options }

def Logout.show (k : Logout) : String := s!"logout {k.options}"

def Logout.ofFields : List String → Option Logout
  | [a] => do
    let options ← uField? 8 a
    return { options }
  | _ => none

/-! ### group entry points -/

def encWith {K : Type} (of : List String → Option K) (enc : K → Enc) (fields : List String) : String :=
  match of fields with
  | some k => (enc k).toLine
  | none => "bad-op"

def encLine (kind : String) (fields : List String) : Option String :=
  match kind with
  | "done" | "doneproc" | "doneinproc" => some (encWith Done.ofFields Done.enc fields)
  | "eed" => some (encWith EED.ofFields EED.enc fields)
  | "error" => some (encWith Error.ofFields Error.enc fields)
  | "loginack" => some (encWith LoginAck.ofFields LoginAck.enc fields)
  | "msg" => some (encWith Msg.ofFields Msg.enc fields)
  | "envchange" => some (encWith EnvChange.ofFields EnvChange.enc fields)
  | "capability" => some (encWith Capability.ofFields Capability.enc fields)
  | "language" => some (encWith Language.ofFields Language.enc fields)
  | "returnstatus" => some (encWith ReturnStatus.ofFields ReturnStatus.enc fields)
  | "logout" => some (encWith Logout.ofFields Logout.enc fields)
  | _ => none

/-- none of the kinds of this group is a `LastPkgAcceptor`: the context is not looked at -/
def decLine (tok : Nat) (_ctx : Option Bytes) (bs : Bytes) : Option String :=
  match tok with
  | 0xFD => some (decToLine (Done.show "done") (Done.dec bs))
  | 0xFE => some (decToLine (Done.show "doneproc") (Done.dec bs))
  | 0xFF => some (decToLine (Done.show "doneinproc") (Done.dec bs))
  | 0xE5 => some (decToLine EED.show (EED.dec bs))
  | 0xAA => some (decToLine Error.show (Error.dec bs))
  | 0xAD => some (decToLine LoginAck.show (LoginAck.dec bs))
  | 0x65 => some (decToLine Msg.show (Msg.dec bs))
  | 0xE3 => some (decToLine EnvChange.show (EnvChange.dec bs))
  | 0xE2 => some (decToLine Capability.show (Capability.dec bs))
  | 0x21 => some (decToLine Language.show (Language.dec bs))
  | 0x79 => some (decToLine ReturnStatus.show (ReturnStatus.dec bs))
  | 0x71 => some (decToLine Logout.show (Logout.dec bs))
  | _ => none

end Dblib.Codec.Basic
