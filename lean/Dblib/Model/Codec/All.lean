/-
Dispatcher of the `pkg` line protocol over the codec groups. A token no group claims is what
`LookupPackage` maps to a `TokenlessPackage`, whose `ReadFrom` (bytes.Buffer.ReadFrom over
`PacketQueue.Read`) can only end with not-enough-bytes.
-/
import Dblib.Model.Codec.Common
import Dblib.Model.Codec.Basic
import Dblib.Model.Codec.Cursor
import Dblib.Model.Codec.Fields

namespace Dblib.Codec

/-- the groups: (encLine, decLine) -/
def groups : List ((String → List String → Option String) × (Nat → Option Bytes → Bytes → Option String)) :=
  [(Basic.encLine, Basic.decLine), (Cursor.encLine, Cursor.decLine), (Fields.encLine, Fields.decLine)]

def firstSome {α : Type} : List (Option α) → Option α
  | [] => none
  | some a :: _ => some a
  | none :: rest => firstSome rest

def run (args : List String) : String :=
  match args with
  | "enc" :: kind :: fields =>
    (firstSome (groups.map (fun g => g.1 kind fields))).getD "bad-op"
  | "rt" :: kind :: fields =>
    -- write, then read back what was written (token consumed by the channel first)
    match firstSome (groups.map (fun g => g.1 kind fields)) with
    | none => "bad-op"
    | some e =>
      match e.splitOn " " with
      | ["ok", hex] =>
        match fromHex hex with
        | some (t :: body) =>
          let d := (firstSome (groups.map (fun g => g.2 t.toNat none body))).getD "notEnough"
          s!"{d} of {body.length}"
        | _ => "bad-op"
      | _ => e
  | ["dec", tokhex, ctx, hex] =>
    match fromHex tokhex, fromHex hex with
    | some [t], some bs =>
      let c : Option (Option Bytes) := if ctx == "-" then some none else (fromHex ctx).map some
      match c with
      | none => "bad-op"
      | some c => (firstSome (groups.map (fun g => g.2 t.toNat c bs))).getD "notEnough"
    | _, _ => "bad-op"
  | _ => "bad-op"

end Dblib.Codec
