/-
The independent side of C06 for the Cursor codec group: the TDS 5.0 token layouts of the dynamic
and cursor tokens, written down as data layouts — not transcribed from `/repo`.

Every token of the group has the shape `token, Length, body` where `Length` (2 bytes; 4 bytes for
DYNAMIC2 and CURDECLARE3) is the number of bytes of `body`. Accordingly

* `K.layout k` is the body, every string under a length prefix computed from the string
  (`lstr w s`), every count computed from the list it counts;
* `frame w body` puts the length of the actual body in front; `K.encSpec k` = token, frame;
* `K.decSpec` reads the length, cuts out exactly that many bytes (`framed`) and parses them with
  `K.bodySpec`, which must consume all of them. Optional trailing parts are recognised by the
  body not being exhausted (`atEnd`), optional inner parts by the flag that announces them. The
  spec decoders keep no byte counter.

Layouts (TDS 5.0 functional specification; `[..]` optional):
  DYNAMIC   Length(2) Type(1) Status(1) IdLen(1) Id [StmtLen(2) Stmt]       Stmt iff Type has PREPARE|EXEC_IMMED
  DYNAMIC2  Length(4) Type(1) Status(1) IdLen(1) Id [StmtLen(4) Stmt]
  CURDECLARE  Length(2) NameLen(1) Name Options(1) Status(1) StmtLen(2) Stmt NumColumns {ColNameLen(1) ColName}*
  CURDECLARE3 Length(4) NameLen(1) Name Options(4) Status(1) StmtLen(4) Stmt NumColumns {ColNameLen(1) ColName}*
  CURINFO   Length(2) CursorId(4) [NameLen(1) Name] Command(1) Status(2) [RowCount(4)]
  CURINFO3  Length(2) CursorId(4) [NameLen(1) Name] Command(1) Status(4) RowNum(4) TotalRows(4) [RowCount(4)]
  CUROPEN   Length(2) CursorId(4) [NameLen(1) Name] Status(1)
  CURFETCH  Length(2) CursorId(4) [NameLen(1) Name] Type(1) [RowNum(4)]     RowNum iff Type is ABS|REL
  CURUPDATE Length(2) CursorId(4) [NameLen(1) Name] Status(1) TableLen(1) Table [StmtLen(2) Stmt]
  CURDELETE Length(2) CursorId(4) [NameLen(1) Name] Status(1) TableLen(1) Table
  (the cursor name is present iff CursorId is 0; RowCount iff Status has TDS_CUR_ISTAT_ROWCNT)

Caveat (trusted base): the width of `NumColumns` is taken as 2 bytes for both CURDECLARE forms,
as the wide form is used against ASE by go-ase with an empty column list; FreeTDS writes the
narrow CURDECLARE with a 1-byte NumColumns. The narrow form is never produced by the library
(`NewCurDeclarePackage` always sets `wide`), and a server never sends it.
-/
import Dblib.Model.Codec.Cursor

namespace Dblib.Codec.Cursor
open Dblib Dblib.P

/-- a string under a `w`-byte length prefix -/
def lstr (w : Nat) (s : Bytes) : Bytes := leEncode w s.length ++ s

/-- a body under a `w`-byte length prefix -/
def frame (w : Nat) (body : Bytes) : Bytes := leEncode w body.length ++ body

def plstr (w : Nat) : P Bytes := do
  let n ← uintLE w
  take n

/-- parse exactly the next `len` bytes with `p`; `p` must consume all of them -/
def framed (len : Nat) (p : P α) : P α := fun s =>
  if len ≤ s.length then
    match p (s.take len) with
    | .ok a n => if n = len then .ok a len else .err n
    | .notEnough => .err 0
    | .err n => .err n
    | .panic => .panic
  else .notEnough

/-- is the (framed) input exhausted? -/
def atEnd : P Bool := fun s => .ok s.isEmpty 0

def int32 : P Int := intLE 4

/-- cursor reference: id, name iff id = 0 -/
def specRef : P (Int × Bytes) := do
  let id ← int32
  if id = 0 then do
    let name ← plstr 1
    return (id, name)
  else return (id, [])

def layoutRef (id : Int) (name : Bytes) : Bytes :=
  leEncodeInt 4 id ++ (if id = 0 then lstr 1 name else [])

/-! ### DYNAMIC -/

def Dyn.layout (wide : Bool) (k : Dyn) : Bytes :=
  leEncode 1 k.type ++ leEncode 1 k.status ++ lstr 1 k.id ++
    (if hasStmt k.type then lstr (lw wide) k.stmt else [])

def Dyn.encSpec (wide : Bool) (k : Dyn) : Bytes :=
  UInt8.ofNat (if wide then 0x62 else 0xE7) :: frame (lw wide) (Dyn.layout wide k)

def Dyn.bodySpec (wide : Bool) : P Dyn := do
  let ty ← uintLE 1
  let status ← uintLE 1
  let id ← plstr 1
  let stmt ← if hasStmt ty then plstr (lw wide) else Pure.pure []
  return { type := ty, status := status, id := id, stmt := stmt }

def Dyn.decSpec (wide : Bool) : P Dyn := do
  let len ← uintLE (lw wide)
  framed len (Dyn.bodySpec wide)

/-! ### CURDECLARE -/

def layoutCols (cols : List Bytes) : Bytes := (cols.map (lstr 1)).flatten

def CurDeclare.layout (wide : Bool) (k : CurDeclare) : Bytes :=
  lstr 1 k.name ++ leEncode (if wide then 4 else 1) k.options ++ leEncode 1 k.status ++
    lstr (lw wide) k.stmt ++ leEncode 2 k.columns.length ++ layoutCols k.columns

def CurDeclare.bodySpec (wide : Bool) : P CurDeclare := do
  let name ← plstr 1
  let options ← uintLE (if wide then 4 else 1)
  let status ← uintLE 1
  let stmt ← plstr (lw wide)
  let numColumns ← uintLE 2
  let columns ← replicateM numColumns (plstr 1)
  return { name := name, options := options, status := status, stmt := stmt, columns := columns }

def CurDeclare.decSpec (wide : Bool) : P CurDeclare := do
  let len ← uintLE (lw wide)
  framed len (CurDeclare.bodySpec wide)

/-! ### CURINFO -/

def CurInfo.layout (wide : Bool) (k : CurInfo) : Bytes :=
  layoutRef k.cursorId k.name ++ leEncode 1 k.command ++ leEncode (lw wide) k.status ++
    (if wide then leEncodeInt 4 k.rowNum ++ leEncodeInt 4 k.totalRows else []) ++
    (if hasRowCnt k.status then leEncodeInt 4 k.rowCount else [])

def CurInfo.encSpec (wide : Bool) (k : CurInfo) : Bytes :=
  UInt8.ofNat (if wide then 0x88 else 0x83) :: frame 2 (CurInfo.layout wide k)

def CurInfo.bodySpec (wide : Bool) : P CurInfo := do
  let (id, name) ← specRef
  let command ← uintLE 1
  let status ← uintLE (lw wide)
  let rowNum ← if wide then int32 else Pure.pure 0
  let totalRows ← if wide then int32 else Pure.pure 0
  let rowCount ← if hasRowCnt status then int32 else Pure.pure 0
  return { cursorId := id, name := name, command := command, status := status,
           rowNum := rowNum, totalRows := totalRows, rowCount := rowCount }

def CurInfo.decSpec (wide : Bool) : P CurInfo := do
  let len ← uintLE 2
  framed len (CurInfo.bodySpec wide)

/-! ### CUROPEN -/

def CurOpen.layout (k : CurOpen) : Bytes := layoutRef k.cursorId k.name ++ leEncode 1 k.status

def CurOpen.bodySpec : P CurOpen := do
  let (id, name) ← specRef
  let status ← uintLE 1
  return { cursorId := id, name := name, status := status }

def CurOpen.decSpec : P CurOpen := do
  let len ← uintLE 2
  framed len CurOpen.bodySpec

/-! ### CURFETCH -/

def CurFetch.layout (k : CurFetch) : Bytes :=
  layoutRef k.cursorId k.name ++ leEncode 1 k.type ++
    (if hasRowNumber k.type then leEncodeInt 4 k.rowNumber else [])

def CurFetch.bodySpec : P CurFetch := do
  let (id, name) ← specRef
  let ty ← uintLE 1
  let rowNumber ← if hasRowNumber ty then int32 else Pure.pure 0
  return { cursorId := id, name := name, type := ty, rowNumber := rowNumber }

def CurFetch.decSpec : P CurFetch := do
  let len ← uintLE 2
  framed len CurFetch.bodySpec

/-! ### CURUPDATE (the statement block is optional) -/

def CurUpdate.layout (k : CurUpdate) : Bytes :=
  layoutRef k.cursorId k.name ++ leEncode 1 k.status ++ lstr 1 k.tableName ++
    (if k.stmt = [] then [] else lstr 2 k.stmt)

def CurUpdate.bodySpec : P CurUpdate := do
  let (id, name) ← specRef
  let status ← uintLE 1
  let tableName ← plstr 1
  let done ← atEnd
  let stmt ← if done then Pure.pure [] else plstr 2
  return { cursorId := id, name := name, status := status, tableName := tableName, stmt := stmt }

def CurUpdate.decSpec : P CurUpdate := do
  let len ← uintLE 2
  framed len CurUpdate.bodySpec

/-! ### CURDELETE -/

def CurDelete.layout (k : CurDelete) : Bytes :=
  layoutRef k.cursorId k.name ++ leEncode 1 k.status ++ lstr 1 k.tableName

def CurDelete.bodySpec : P CurDelete := do
  let (id, name) ← specRef
  let status ← uintLE 1
  let tableName ← plstr 1
  return { cursorId := id, name := name, status := status, tableName := tableName }

def CurDelete.decSpec : P CurDelete := do
  let len ← uintLE 2
  framed len CurDelete.bodySpec

end Dblib.Codec.Cursor
