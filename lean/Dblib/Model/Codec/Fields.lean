/-
Package codecs of the group **Fields**: entry points of the `pkg` line protocol
(formats: `FieldsFmt.lean`, data / PARAMS / ROW: `FieldsRow.lean`; see there for the canonical
field lists).

`decLine tok ctx bs` mirrors `pkgDecLine` / `lookupWithCtx` of go/cmd/harness/codecs.go for the
`LastPkgAcceptor`s PARAMS, ROW, ORDERBY, ORDERBY2: `ctx` holds the bytes of ONE preceding package,
token included; it is decoded as a fresh package (`LookupPackage(ctx[0])` + `ReadFrom`, without a
`LastPkg` of its own) and handed to `LastPkg`:

* no / empty ctx: `LastPkg(nil)` fails → `lasterr`;
* ctx does not decode → `ctx-<class>`;
* PARAMS / ROW accept a `ParamFmtPackage` or `RowFmtPackage` (either one, for both tokens) and decode
  with its formats. They also accept `*ParamsPackage`, `*RowPackage`, `*OrderByPackage`,
  `*OrderBy2Package` and take over the format THAT package holds — which, for a package decoded on its
  own as `lookupWithCtx` does, is nil: "both paramFmt and rowFmt are nil" → `lasterr`. The inherited
  format (ROW after ROW, ROW after ORDERBY after ROWFMT) only exists along a channel's package stream:
  that is the `select tok last` of `Model/Codec/Pkg.lean`, not this line protocol.
  Any other package → `lasterr`;
* ORDERBY / ORDERBY2 accept a `RowFmtPackage` only.
A ctx whose token belongs to another codec group is classified with that group's `decLine`
(`ok …` → a package of a foreign type → `lasterr`); a token no group claims is a `TokenlessPackage`,
whose `ReadFrom` ends with not-enough-bytes.
-/
import Dblib.Model.Codec.FieldsRow
import Dblib.Model.Codec.Basic
import Dblib.Model.Codec.Cursor

namespace Dblib.Codec.Fields
open Dblib Dblib.P

def encWith {K : Type} (ofFields : List String → Option K) (enc : K → Enc) (fields : List String) : String :=
  match ofFields fields with
  | some k => (enc k).toLine
  | none => "bad-op"

/-- `pkg enc <kind> <field>…`; `none` = not a kind of this group. The server-only kinds have no
`Build` in the harness (`rowfmt`, `rowfmt2`, `orderby`, `orderby2`: `WriteTo` = "not implemented",
modelled by `RowFmt.enc` / `OrderBy.enc` = `.err`; `row`: a client never writes a ROW — the writer it
shares with PARAMS is reached through kind `params` with a `rowfmt` / `rowfmt2` format): `bad-op` on
both sides. -/
def encLine (kind : String) (fields : List String) : Option String :=
  match kind with
  | "paramfmt" => some (encWith fmtPkgOfFields (ParamFmt.enc false) fields)
  | "paramfmt2" => some (encWith fmtPkgOfFields (ParamFmt.enc true) fields)
  | "rowfmt" | "rowfmt2" | "orderby" | "orderby2" | "row" => some "bad-op"
  | "params" =>
    -- the token written depends on the format kind in the fields: ROW after rowfmt / rowfmt2
    some (encWith Row.ofFields (fun (r : Bool × Bool × List Fmt × List Data) => Row.enc r.1 r.2.2.1 r.2.2.2) fields)
  | _ => none

/-- what `lookupWithCtx` hands to `LastPkg` -/
inductive Ctx where
  | nil                                          -- no preceding package
  | fmt (row wide : Bool) (fmts : List Fmt)      -- a decoded format package
  | other                                        -- a decoded package of another type
  | bad (cls : String)                           -- the ctx did not decode: `ctx-<cls>`

def resClass : Res α → Option String
  | .ok _ _ => none
  | .notEnough => some "notEnough"
  | .err _ => some "err"
  | .panic => some "panic"

def ctxOfFmt (row wide : Bool) (r : Res (List Fmt)) : Ctx :=
  match r with
  | .ok fmts _ => .fmt row wide fmts
  | .notEnough => .bad "notEnough"
  | .err _ => .bad "err"
  | .panic => .bad "panic"

def ctxOfLine (line : String) : Ctx :=
  if line.startsWith "ok " then .other else .bad line

def decodeCtx (ctx : Option Bytes) : Ctx :=
  match ctx with
  | none | some [] => .nil
  | some (t :: body) =>
    let tok := t.toNat
    if tok = tokParamFmt then ctxOfFmt false false (ParamFmt.dec false body)
    else if tok = tokParamFmt2 then ctxOfFmt false true (ParamFmt.dec true body)
    else if tok = tokRowFmt then ctxOfFmt true false (RowFmt.dec false body)
    else if tok = tokRowFmt2 then ctxOfFmt true true (RowFmt.dec true body)
    else if tok = tokParams ∨ tok = tokRow then .other      -- a fresh PARAMS/ROW has no fields: reads nothing
    else if tok = tokOrderBy then (match resClass (OrderBy.dec body) with | none => .other | some c => .bad c)
    else if tok = tokOrderBy2 then (match resClass (OrderBy2.dec body) with | none => .other | some c => .bad c)
    else
      match Basic.decLine tok none body with
      | some line => ctxOfLine line
      | none =>
        match Cursor.decLine tok none body with
        | some line => ctxOfLine line
        | none => .bad "notEnough"                           -- TokenlessPackage

def decRow (kind : String) (ctx : Option Bytes) (bs : Bytes) : String :=
  match decodeCtx ctx with
  | .bad c => "ctx-" ++ c
  | .nil | .other => "lasterr"
  | .fmt row wide fmts =>
    if Row.accepts fmts then decToLine (Row.show kind row wide fmts) (Row.dec fmts bs) else "lasterr"

def decOrderBy (wide : Bool) (ctx : Option Bytes) (bs : Bytes) : String :=
  match decodeCtx ctx with
  | .bad c => "ctx-" ++ c
  | .fmt true _ _ => decToLine (OrderBy.show wide) ((if wide then OrderBy2.dec else OrderBy.dec) bs)
  | _ => "lasterr"

/-- `pkg dec <tok> <ctx> <bytes>`; `none` = not a token of this group -/
def decLine (tok : Nat) (ctx : Option Bytes) (bs : Bytes) : Option String :=
  if tok = tokParamFmt then some (decToLine (showFmtPkg false false) (ParamFmt.dec false bs))
  else if tok = tokParamFmt2 then some (decToLine (showFmtPkg false true) (ParamFmt.dec true bs))
  else if tok = tokRowFmt then some (decToLine (showFmtPkg true false) (RowFmt.dec false bs))
  else if tok = tokRowFmt2 then some (decToLine (showFmtPkg true true) (RowFmt.dec true bs))
  else if tok = tokParams then some (decRow "params" ctx bs)
  else if tok = tokRow then some (decRow "row" ctx bs)
  else if tok = tokOrderBy then some (decOrderBy false ctx bs)
  else if tok = tokOrderBy2 then some (decOrderBy true ctx bs)
  else none

end Dblib.Codec.Fields
