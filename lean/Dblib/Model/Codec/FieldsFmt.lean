/-
Package codecs of the group **Fields**, part 1: the field formats of `/repo/tds/field.go` and the
format packages built from them (the kinds reachable from `LookupPackage`):

  kind        token  Go type                      file
  paramfmt    0xEC   ParamFmtPackage{wide:false}  packageParamFmt.go
  paramfmt2   0x20   ParamFmtPackage{wide:true}   packageParamFmt.go
  rowfmt      0xEE   RowFmtPackage{wide:false}    packageRowFmt.go   (ReadFrom only; WriteTo = "not implemented")
  rowfmt2     0x61   RowFmtPackage{wide:true}     packageRowFmt.go
  orderby     0xA9   OrderByPackage               packageOrderBy.go  (ReadFrom only)
  orderby2    0x22   OrderBy2Package              packageOrderBy.go  (ReadFrom only)

`K.dec` transcribes `ReadFrom` read for read, `K.enc` transcribes `WriteTo`.

Facts about the Go code used by the transcription (trusted base, tied to `/repo` by the
correspondence harness go/cmd/harness/codec_fields.go, whose generators enumerate all 256 data type
bytes):

* `LookupFieldFmt` (field.go) maps a data type byte to one of five struct families
  (`fieldFmtLength`, `…LengthScale`, `…LengthPrecisionScale`, `fieldFmtBlob`, `fieldFmtTxtPtr`) and
  presets `maxLength` for some types: `fmtTable`. Every other byte is an error (`unhandled datatype`),
  returned with `%w` around a fresh error: `err`, after the reads that precede it. `%s` of an unknown
  `DataType` is the stringer's `DataType(n)`: no panic.
* `fieldFmtBase.IsFixedLength` = `ByteSize() != -1`, `LengthBytes()` = `ByteSize()` if fixed, else
  `DataType().LengthBytes()` (both tables regenerated: `Gen/Types.lean`, read through
  `Value.byteSize` / `Value.lengthBytes`). BLOB is in neither table: `LengthBytes() = -1`, so
  `readLengthBytes(ch, -1)` reads ONE byte (the `default:` arm) and `readFromBase` reports `-1` bytes
  read. The byte counters are therefore `Int`. (Known finding `blob-not-functional`, modelled as it is.)
* every read site of the format readers returns the sentinel `ErrNotEnoughBytes` or wraps it with
  `%w`: a short read is `notEnough` everywhere. Other errors: unknown data type; PARAMFMT's per-field
  `readBytes != formatByteLength` and final `n > totalBytes` (sic: `>`); ROWFMT's final
  `readBytes != totalLength`; ORDERBY2's final `n != totalBytes`.
* `RowFmtPackage.ReadFrom` reads its length with `ch.Uint16()` for ROWFMT and `ch.Uint32()` for ROWFMT2
  (since /repo 9daa22d; before, four bytes for both tokens).
* `ch.Int8()` of the data type token in ROWFMT, converted to `asetypes.DataType` (a byte): the same
  byte value as `ch.Byte()` in PARAMFMT.
* no index / slice / type assertion / signed wire length: no `crash` site in the format decoders.
* a fresh package is decoded: fields that are not read keep their zero value or the preset.

Canonical field lists (`show`, identical to the Go `Show`):
  paramfmt|paramfmt2|rowfmt|rowfmt2   <entries>      `.` = no entry, else entries joined by `,`
  entry = name;status;usertype;datatype;maxlength;precision;scale;blobtype;classid;tablename;locale;
          label;catalogue;schema;table      (strings as hex, `-` = empty; the last four only in ROWFMT2)
  orderby|orderby2                    <columns>      `.` = none, else decimal column numbers joined by `,`
-/
import Dblib.Model.Codec.Common
import Dblib.Model.Value

namespace Dblib.Codec.Fields
open Dblib Dblib.P Dblib.Gen

/-! ## tokens (tds/token.go) -/

def tokParamFmt : Nat := 0xEC
def tokParamFmt2 : Nat := 0x20
def tokRowFmt : Nat := 0xEE
def tokRowFmt2 : Nat := 0x61
def tokParams : Nat := 0xD7
def tokRow : Nat := 0xD1
def tokOrderBy : Nat := 0xA9
def tokOrderBy2 : Nat := 0x22

/-- width of the fields that are 2 (length) resp. 1 (status) bytes narrow and 4 bytes wide -/
def lw (wide : Bool) : Nat := if wide then 4 else 2
def sw (wide : Bool) : Nat := if wide then 4 else 1

/-! ## `LookupFieldFmt` -/

/-- the struct family of a field format -/
inductive FmtClass where
  | length                 -- fieldFmtLength
  | lengthScale            -- fieldFmtLengthScale
  | lengthPrecisionScale   -- fieldFmtLengthPrecisionScale
  | blob                   -- fieldFmtBlob
  | txtPtr                 -- fieldFmtTxtPtr
deriving DecidableEq, Repr

/-- the switch of `LookupFieldFmt`: data type ↦ (family, `setMaxLength` preset, 0 = none) -/
def fmtTable : List (Nat × FmtClass × Int) :=
  [ (Types.BIGDATETIMEN, .lengthScale, 0), (Types.BIGTIMEN, .lengthScale, 0),
    (Types.BIT, .length, 1), (Types.DATETIME, .length, 8), (Types.DATE, .length, 4),
    (Types.SHORTDATE, .length, 4), (Types.FLT4, .length, 4), (Types.FLT8, .length, 8),
    (Types.INT1, .length, 1), (Types.INT2, .length, 2), (Types.INT4, .length, 4),
    (Types.INT8, .length, 8), (Types.INTERVAL, .length, 8), (Types.SINT1, .length, 1),
    (Types.UINT2, .length, 2), (Types.UINT4, .length, 4), (Types.UINT8, .length, 8),
    (Types.MONEY, .length, 8), (Types.SHORTMONEY, .length, 4), (Types.TIME, .length, 4),
    (Types.BINARY, .length, 0), (Types.BOUNDARY, .length, 0), (Types.CHAR, .length, 0),
    (Types.DATEN, .length, 0), (Types.DATETIMEN, .length, 0), (Types.FLTN, .length, 0),
    (Types.INTN, .length, 0), (Types.UINTN, .length, 0), (Types.LONGBINARY, .length, 2147483647),
    (Types.LONGCHAR, .length, 0), (Types.MONEYN, .length, 0), (Types.SENSITIVITY, .length, 0),
    (Types.TIMEN, .length, 0), (Types.VARBINARY, .length, 0), (Types.VARCHAR, .length, 255),
    (Types.DECN, .lengthPrecisionScale, 0), (Types.NUMN, .lengthPrecisionScale, 0),
    (Types.BLOB, .blob, 0),
    (Types.IMAGE, .txtPtr, 0), (Types.TEXT, .txtPtr, 0), (Types.UNITEXT, .txtPtr, 0), (Types.XML, .txtPtr, 0) ]

def lookupIn (tab : List (Nat × FmtClass × Int)) (t : Nat) : Option (FmtClass × Int) :=
  match tab with
  | [] => none
  | (k, v) :: rest => if k = t then some v else lookupIn rest t

/-- `LookupFieldFmt(t)`; `none` = `unhandled datatype` -/
def lookupFmt (t : Nat) : Option (FmtClass × Int) := lookupIn fmtTable t

def fmtClass (t : Nat) : Option FmtClass := (lookupFmt t).map (·.1)

/-- `IsFixedLength()` -/
def isFixed (t : Nat) : Bool := Value.byteSize t != -1

/-- `fieldFmtBase.LengthBytes()` -/
def fmtLengthBytes (t : Nat) : Int := if isFixed t then Value.byteSize t else Value.lengthBytes t

/-- number of bytes `readLengthBytes(ch, n)` / `writeLengthBytes(ch, n, _)` move: 4, 2, else 1 -/
def lbWidth (n : Int) : Nat := if n = 4 then 4 else if n = 2 then 2 else 1

/-- `readLengthBytes(ch, n)`: `Uint32` / `Uint16` / `Uint8`; every error is `ErrNotEnoughBytes` -/
def readLengthBytes (n : Int) : P Nat := uintLE (lbWidth n)

/-! ## one field format -/

structure Fmt where
  name : Bytes
  status : Nat         -- uint (read from 1 or 4 bytes)
  userType : Int       -- int32
  dataType : Nat       -- asetypes.DataType (byte)
  maxLength : Int      -- int64
  precision : Nat      -- uint8, DECN / NUMN
  scale : Nat          -- uint8, DECN / NUMN / BIGDATETIMEN / BIGTIMEN
  blobType : Nat       -- BlobType (uint8), BLOB
  classId : Bytes      -- BLOB
  tableName : Bytes    -- IMAGE / TEXT / UNITEXT / XML
  locale : Bytes
  label : Bytes        -- ROWFMT2 only
  catalogue : Bytes    -- ROWFMT2 only
  schema : Bytes       -- ROWFMT2 only
  table : Bytes        -- ROWFMT2 only
deriving Repr, DecidableEq

/-- what the type-specific `FieldFmt.ReadFrom` fills in -/
structure Tail where
  maxLength : Int
  precision : Nat := 0
  scale : Nat := 0
  blobType : Nat := 0
  classId : Bytes := []
  tableName : Bytes := []
deriving Repr, DecidableEq

/-- `fieldFmtBase.readFromBase`: (maxLength, reported byte count) -/
def readFromBase (t : Nat) (preset : Int) : P (Int × Int) :=
  if isFixed t then Pure.pure (preset, 0)
  else do
    let length ← readLengthBytes (fmtLengthBytes t)
    return ((length : Int), fmtLengthBytes t)

/-- `fieldFmt.ReadFrom(ch)` of the five families: the fields and the reported byte count -/
def fmtTail (cls : FmtClass) (t : Nat) (preset : Int) : P (Tail × Int) := do
  let (maxLength, n) ← readFromBase t preset
  match cls with
  | .length => return ({ maxLength := maxLength }, n)
  | .lengthScale => do
    let scale ← u8
    return ({ maxLength := maxLength, scale := scale }, n + 1)
  | .lengthPrecisionScale => do
    let precision ← u8
    let scale ← u8
    return ({ maxLength := maxLength, precision := precision, scale := scale }, n + 1 + 1)
  | .blob => do
    let blobType ← u8
    if blobType = 1 ∨ blobType = 2 then do      -- TDS_BLOB_FULLCLASSNAME, TDS_BLOB_DBID_CLASSDEF
      let classIdLength ← u16
      let classId ← take classIdLength
      return ({ maxLength := maxLength, blobType := blobType, classId := classId }, n + 1 + 2 + classIdLength)
    else
      return ({ maxLength := maxLength, blobType := blobType }, n + 1)
  | .txtPtr => do
    let tableNameLength ← u16
    let tableName ← take tableNameLength
    return ({ maxLength := maxLength, tableName := tableName }, n + 2 + tableNameLength)

/-- `FormatByteLength()` of the five families -/
def formatByteLength (cls : FmtClass) (t : Nat) (classId tableName : Bytes) : Int :=
  match cls with
  | .length => if isFixed t then 0 else fmtLengthBytes t
  | .lengthScale => 1 + fmtLengthBytes t
  | .lengthPrecisionScale => 2 + fmtLengthBytes t
  | .blob => 1 + 1 + classId.length + fmtLengthBytes t
  | .txtPtr => 2 + tableName.length + fmtLengthBytes t

def Fmt.cls (f : Fmt) : Option FmtClass := fmtClass f.dataType

/-- `field.FormatByteLength()`; 0 for a data type `LookupFieldFmt` does not know (no such `FieldFmt` exists) -/
def Fmt.formatByteLength (f : Fmt) : Int :=
  match f.cls with
  | some cls => Fields.formatByteLength cls f.dataType f.classId f.tableName
  | none => 0

/-- the per-field length of PARAMFMT (reader and writer use the same expression) -/
def Fmt.paramFieldLength (wide : Bool) (f : Fmt) : Int :=
  1 + f.name.length + 1 + 4 + 1 + f.formatByteLength + 1 + f.locale.length + (if wide then 3 else 0)

/-! ## PARAMFMT / PARAMFMT2 -/

/-- 1-byte length, string -/
def str8 : P Bytes := do
  let n ← u8
  take n

/-- `ParamFmtPackage.ReadFromField` (`names = false`) and `RowFmtPackage.ReadFromField`
(`names = wide`): the two Go functions perform the same reads with the same error mapping (every
short read is the sentinel; an unknown data type is an error) and keep the same count; the row
variant of ROWFMT2 first reads the four names label, catalogue, schema, table. Returns the format and
the byte count `n` the function reports. -/
def readFromField (names wide : Bool) : P (Fmt × Int) := do
  let (label, catalogue, schema, table) ← (if names then do
      let label ← str8
      let catalogue ← str8
      let schema ← str8
      let table ← str8
      return (label, catalogue, schema, table)
    else return ([], [], [], []) : P (Bytes × Bytes × Bytes × Bytes))
  let name ← str8
  let status ← uintLE (sw wide)
  let userType ← intLE 4
  let token ← u8                                   -- `ch.Byte()` / `ch.Int8()` converted to DataType (byte)
  match lookupFmt token with
  | none => fail                                   -- "error preparing field format": unhandled datatype
  | some (cls, preset) => do
    let (tail, n2) ← fmtTail cls token preset
    let locale ← str8
    let f : Fmt := { name := name, status := status, userType := userType, dataType := token,
                     maxLength := tail.maxLength, precision := tail.precision, scale := tail.scale,
                     blobType := tail.blobType, classId := tail.classId, tableName := tail.tableName,
                     locale := locale, label := label, catalogue := catalogue, schema := schema, table := table }
    let n : Int := (if names then 4 + label.length + catalogue.length + schema.length + table.length else 0) +
      1 + name.length + sw wide + 4 + 1 + n2 + 1 + locale.length
    return (f, n)

/-- `ReadFromField` followed by the per-field check of `ParamFmtPackage.ReadFrom` -/
def ParamFmt.field (wide : Bool) : P (Fmt × Int) := do
  let (f, readBytes) ← readFromField false wide
  guard (readBytes == f.paramFieldLength wide)     -- "expected to read %d bytes for field %d"
  return (f, readBytes)

def sumInt (xs : List Int) : Int := xs.foldr (· + ·) 0

def ParamFmt.dec (wide : Bool) : P (List Fmt) := do
  let totalBytes ← uintLE (lw wide)
  let paramsCount ← u16
  let fields ← replicateM paramsCount (ParamFmt.field wide)
  let n : Int := 2 + sumInt (fields.map (·.2))
  guard (!(decide (n > (totalBytes : Int))))       -- `if n > totalBytes` (sic)
  return fields.map (·.1)

/-- `fieldFmtBase.writeToBase`: bytes and reported count -/
def writeToBase (t : Nat) (maxLength : Int) : Bytes × Int :=
  if isFixed t then ([], 0)
  else (leEncodeInt (lbWidth (fmtLengthBytes t)) maxLength, fmtLengthBytes t)

/-- `field.WriteTo(ch)` of the five families: bytes and reported count -/
def Fmt.encTail (f : Fmt) (cls : FmtClass) : Bytes × Int :=
  let (b, n) := writeToBase f.dataType f.maxLength
  match cls with
  | .length => (b, n)
  | .lengthScale => (b ++ leEncode 1 f.scale, n + 1)
  | .lengthPrecisionScale => (b ++ leEncode 1 f.precision ++ leEncode 1 f.scale, n + 1 + 1)
  | .blob =>
    if f.blobType = 1 ∨ f.blobType = 2 then
      -- the class id is written (and counted) only when it is not empty
      (b ++ leEncode 1 f.blobType ++ leEncode 2 f.classId.length ++ f.classId,
        n + 1 + 2 + (if f.classId.length > 0 then (f.classId.length : Int) else 0))
    else (b ++ leEncode 1 f.blobType, n + 1)
  | .txtPtr => (b ++ leEncode 2 f.tableName.length ++ f.tableName, n + 2 + f.tableName.length)

/-- `ParamFmtPackage.WriteToField`: bytes and the writer's count; `none` for a data type without
`FieldFmt` (cannot be constructed) -/
def Fmt.encParamField (wide : Bool) (f : Fmt) : Option (Bytes × Int) :=
  match f.cls with
  | none => none
  | some cls =>
    let (tb, n2) := f.encTail cls
    some (leEncode 1 f.name.length ++ f.name ++ leEncode (sw wide) f.status ++ leEncodeInt 4 f.userType ++
            leEncode 1 f.dataType ++ tb ++ leEncode 1 f.locale.length ++ f.locale,
          1 + f.name.length + sw wide + 4 + 1 + n2 + 1 + f.locale.length)

/-- the `length` the writer announces (untruncated) -/
def ParamFmt.total (wide : Bool) (fs : List Fmt) : Int :=
  2 + sumInt (fs.map (Fmt.paramFieldLength wide))

def ParamFmt.fieldsEnc (wide : Bool) : List Fmt → Option (Bytes × Int)
  | [] => some ([], 0)
  | f :: fs =>
    match f.encParamField wide, ParamFmt.fieldsEnc wide fs with
    | some (b, n), some (bs, ns) => some (b ++ bs, n + ns)
    | _, _ => none

/-- the bytes after the token (`[]` if some field has no `FieldFmt`) -/
def ParamFmt.encBody (wide : Bool) (fs : List Fmt) : Bytes :=
  leEncodeInt (lw wide) (ParamFmt.total wide fs) ++ leEncode 2 fs.length ++
    (match ParamFmt.fieldsEnc wide fs with | some (b, _) => b | none => [])

/-- the writer's own count `n` -/
def ParamFmt.written (wide : Bool) (fs : List Fmt) : Int :=
  2 + (match ParamFmt.fieldsEnc wide fs with | some (_, n) => n | none => 0)

def ParamFmt.enc (wide : Bool) (fs : List Fmt) : Enc :=
  match ParamFmt.fieldsEnc wide fs with
  | none => .err
  | some _ =>
    if ParamFmt.written wide fs > ParamFmt.total wide fs then .err   -- "expected to write %d bytes" (after writing)
    else .ok (UInt8.ofNat (if wide then tokParamFmt2 else tokParamFmt) :: ParamFmt.encBody wide fs)

/-! ## ROWFMT / ROWFMT2 -/

/-- `RowFmtPackage.ReadFromField` -/
def RowFmt.field (wide : Bool) : P (Fmt × Int) := readFromField wide wide

def RowFmt.dec (wide : Bool) : P (List Fmt) := do
  let totalLength ← uintLE (lw wide)
  let colCount ← u16
  let fields ← replicateM colCount (RowFmt.field wide)
  let readBytes : Int := 2 + sumInt (fields.map (·.2))
  guard (readBytes == (totalLength : Int))         -- "expected to read %d bytes, read %d bytes instead"
  return fields.map (·.1)

/-- `RowFmtPackage.WriteTo`: "not implemented" -/
def RowFmt.enc (_wide : Bool) (_fs : List Fmt) : Enc := .err

/-! ## ORDERBY / ORDERBY2 -/

def OrderBy.dec : P (List Nat) := do
  let columnCount ← u16
  replicateM columnCount u8

def OrderBy2.dec : P (List Nat) := do
  let totalBytes ← u32
  let columnCount ← u16
  let cols ← replicateM columnCount u16
  let n := 2 + 2 * cols.length
  guard (n == totalBytes)
  return cols

/-- `OrderByPackage.WriteTo` / `OrderBy2Package.WriteTo`: "not implemented" -/
def OrderBy.enc (_cols : List Nat) : Enc := .err

/-! ## canonical text -/

def Fmt.show (f : Fmt) : String :=
  s!"{toHex f.name};{f.status};{f.userType};{f.dataType};{f.maxLength};{f.precision};{f.scale};{f.blobType};" ++
  s!"{toHex f.classId};{toHex f.tableName};{toHex f.locale};{toHex f.label};{toHex f.catalogue};{toHex f.schema};{toHex f.table}"

def showFmts (fs : List Fmt) : String :=
  if fs.isEmpty then "." else joinSep "," (fs.map Fmt.show)

def uint64Bound : Nat := 18446744073709551616

def Fmt.ofField (s : String) : Option Fmt :=
  match s.splitOn ";" with
  | [n, st, ut, dt, ml, pr, sc, bt, ci, tn, lo, la, ca, sch, ta] => do
    let n ← hexField? n
    let st ← natField? st
    let ut ← intField? ut
    let dt ← natField? dt
    let ml ← intField? ml
    let pr ← natField? pr
    let sc ← natField? sc
    let bt ← natField? bt
    let ci ← hexField? ci
    let tn ← hexField? tn
    let lo ← hexField? lo
    let la ← hexField? la
    let ca ← hexField? ca
    let sch ← hexField? sch
    let ta ← hexField? ta
    if st < uint64Bound ∧ -2147483648 ≤ ut ∧ ut < 2147483648 ∧ dt < 256 ∧
        -9223372036854775808 ≤ ml ∧ ml < 9223372036854775808 ∧ pr < 256 ∧ sc < 256 ∧ bt < 256 ∧
        (fmtClass dt).isSome then
      some { name := n, status := st, userType := ut, dataType := dt, maxLength := ml, precision := pr,
             scale := sc, blobType := bt, classId := ci, tableName := tn, locale := lo,
             label := la, catalogue := ca, schema := sch, table := ta }
    else none
  | _ => none

def fmtsOfField (s : String) : Option (List Fmt) :=
  if s == "." then some [] else (s.splitOn ",").mapM Fmt.ofField

def fmtKind (row wide : Bool) : String :=
  match row, wide with
  | false, false => "paramfmt"
  | false, true => "paramfmt2"
  | true, false => "rowfmt"
  | true, true => "rowfmt2"

def showFmtPkg (row wide : Bool) (fs : List Fmt) : String := s!"{fmtKind row wide} {showFmts fs}"

def fmtPkgOfFields : List String → Option (List Fmt)
  | [e] => fmtsOfField e
  | _ => none

def showCols (cols : List Nat) : String :=
  if cols.isEmpty then "." else joinSep "," (cols.map toString)

def OrderBy.show (wide : Bool) (cols : List Nat) : String :=
  s!"{if wide then "orderby2" else "orderby"} {showCols cols}"

end Dblib.Codec.Fields
