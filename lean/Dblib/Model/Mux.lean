/-
Multiplexing model (C12): channel id allocation under interleaving, routing of packets to
channels by the header's channel id.

Id allocation is modelled at the granularity of the shared-memory accesses of
`Conn.getValidChannelId`: with `atomic = true` (the regenerated fact `Gen.Shape.idFetchIsAtomicRMW`)
one step fetches-and-increments the counter; with `atomic = false` (the code before fix ab106bf)
the load and the increment are separate steps. The Go memory model itself (data races) is not
modelled: the theorem assumes the accesses are atomic/locked as `Gen/Shape.lean` reports, and the
race detector run of the harness is supporting evidence.
-/
import Dblib.Gen.Shape
import Dblib.Util

namespace Dblib.Mux

inductive Pc where
  | start
  | loaded (v : Nat)     -- non-atomic variant: the counter value read, increment still to do
  | done (id : Nat)
deriving Repr, DecidableEq

structure Sys where
  counter : Nat := 0
  threads : List Pc := []
deriving Repr, DecidableEq

/-- thread `i` performs its next shared-memory access -/
def stepThread (atomic : Bool) (s : Sys) (i : Nat) : Sys :=
  match s.threads[i]? with
  | some .start =>
    if atomic then { counter := s.counter + 1, threads := s.threads.set i (.done s.counter) }
    else { s with threads := s.threads.set i (.loaded s.counter) }
  | some (.loaded v) => { counter := s.counter + 1, threads := s.threads.set i (.done v) }
  | _ => s

def runSchedule (atomic : Bool) (s : Sys) (sched : List Nat) : Sys := sched.foldl (stepThread atomic) s

def ids (s : Sys) : List Nat := s.threads.filterMap (fun p => match p with | .done id => some id | _ => none)

/-! ### routing -/

/-- the reader's routing loop over a list of (channel id, packet): every packet goes to the state
of the channel named in its header; a packet for an unregistered id is an error and nothing else -/
def route {S P : Type} (registered : Nat → Bool) (f : S → P → S) :
    (Nat → S) × Nat → List (Nat × P) → (Nat → S) × Nat
  | st, [] => st
  | (states, errs), (c, p) :: rest =>
    if registered c then
      route registered f (fun k => if k = c then f (states c) p else states k, errs) rest
    else route registered f (states, errs + 1) rest

/-- `mux sched <atomic 0|1> <nthreads> <i> <i> …` → ids after the schedule, `dup` if two are equal -/
def run (args : List String) : String :=
  match args with
  | "sched" :: a :: n :: sched =>
    match n.toNat? with
    | some n =>
      let s := runSchedule (a == "1") { threads := List.replicate n .start } (sched.filterMap String.toNat?)
      let l := ids s
      (if l.eraseDups.length == l.length then "distinct " else "dup ") ++ joinSep "," (l.map toString)
    | none => "bad-op"
  | "ids" :: _ :: n :: _ =>
    -- concurrent NewChannel calls against the real code: the model predicts distinct ids 0..n-1
    match n.toNat? with
    | some n => "ok distinct " ++ toString n
    | none => "bad-op"
  | _ => "bad-op"

end Dblib.Mux
