/- Line protocol for the PacketQueue model: `pq <op> <op> …`, one answer token per op. -/
import Dblib.Model.PacketQueue

namespace Dblib.PQ

def showState (q : PQ) : String :=
  let pk := q.queue.map (fun p => s!"{p.data.length}/{p.hdr.length}")
  s!"[{q.ip},{q.id},{if q.eom then 1 else 0},{joinSep "," pk}]"

/-- method variants of one operation: `ws` WriteString and `wy` Write (io.Writer) write the bytes of `w`,
`wi` WriteInt* the bytes of `wu` (value given as its two's complement), `st` String(n) reads the bytes of
`b`, `i` Int* the value of `u` (shown as its two's complement) -/
def normParts : List String → List String
  | "ws" :: r => "w" :: r
  | "wy" :: r => "w" :: r
  | "wi" :: r => "wu" :: r
  | "st" :: r => "b" :: r
  | "i" :: r => "u" :: r
  | l => l

/-- run one op token; `none` = stop (panic or malformed) with the given final token -/
def stepOp (q : PQ) (tok : String) : Except String (PQ × String) :=
  match normParts (tok.splitOn ":") with
  | ["a", st, hl, hex] =>
    match st.toNat?, hl.toNat?, fromHex hex with
    | some st, some hl, some d =>
      let q' := q.addPacket { hdr := { status := st, length := hl }, data := d }
      .ok (q', "ok")
    | _, _, _ => .error "bad-op"
  | ["b", n] =>
    match n.toNat? with
    | some n =>
      match q.bytes n with
      | (.ok bs, q') => .ok (q', s!"ok:{toHex bs}")
      | (.short _, q') => .ok (q', "short")
      | (.panic, _) => .error "panic"
    | none => .error "bad-op"
  | ["rd", n] =>   -- Read(p) with len(p) = n: what the caller's buffer holds afterwards
    match n.toNat? with
    | some n =>
      match q.read n with
      | (.ok bs, k, q') => .ok (q', s!"ok:{k}:{toHex bs}")
      | (.short _, k, q') => .ok (q', s!"short:{k}")
      | (.panic, _, _) => .error "panic"
    | none => .error "bad-op"
  | ["u", w] =>    -- typed little-endian read of width w
    match w.toNat? with
    | some w =>
      match q.bytes w with
      | (.ok bs, q') => .ok (q', s!"ok:{leDecode bs}")
      | (.short _, q') => .ok (q', "short")
      | (.panic, _) => .error "panic"
    | none => .error "bad-op"
  | ["w", ps, hex] =>
    match ps.toNat?, fromHex hex with
    | some ps, some d =>
      match q.writeBytes d ps with
      | (.ok, q') => .ok (q', "ok")
      | (.panic, _) => .error "panic"
      | (.unsupported, _) => .error "unsupported"
      | (.fuel, _) => .error "fuel"
    | _, _ => .error "bad-op"
  | ["wu", ps, w, v] =>   -- typed little-endian write
    match ps.toNat?, w.toNat?, v.toNat? with
    | some ps, some w, some v =>
      match q.writeBytes (leEncode w v) ps with
      | (.ok, q') => .ok (q', "ok")
      | (.panic, _) => .error "panic"
      | (.unsupported, _) => .error "unsupported"
      | (.fuel, _) => .error "fuel"
    | _, _, _ => .error "bad-op"
  | ["p"] => .ok (q, s!"{q.ip},{q.id}")
  | ["s", a, b] =>
    match a.toNat?, b.toNat? with
    | some a, some b => .ok (q.setPosition a b, "ok")
    | _, _ => .error "bad-op"
  | ["d"] =>
    match q.discard with
    | some q' => .ok (q', "ok")
    | none => .error "panic"
  | ["r"] => .ok (q.reset, "ok")
  | ["z", n] =>
    -- the packet size in force changes (PACKSIZE env change): no operation on received data depends on it
    match n.toNat? with
    | some _ => .ok (q, "ok")
    | none => .error "bad-op"
  | ["e"] => .ok (q, if q.isEOM then "1" else "0")
  | ["c"] => .ok (q, if q.allConsumed then "1" else "0")
  | ["dump"] => .ok (q, toHex (flat q.queue))
  | _ => .error "bad-op"

/-- `m` saves `Position()`, `k` restores it with `SetPosition` (the caller-side save/restore idiom) -/
def runOps : PQ → (mark : Nat × Nat) → List String → List String → List String
  | _, _, [], acc => acc.reverse
  | q, mark, t :: ts, acc =>
    if t == "m" then runOps q q.position ts (("ok" ++ showState q) :: acc)
    else if t == "k" then
      let q' := q.setPosition mark.1 mark.2
      runOps q' mark ts (("ok" ++ showState q') :: acc)
    else
    match stepOp q t with
    | .ok (q', out) => runOps q' mark ts ((out ++ showState q') :: acc)
    | .error e => (e :: acc).reverse

/-- `pq <mode> <op>…`; the mode token (R reader discipline, W writer discipline, X anything)
only matters to the harness' oracle. -/
def run (args : List String) : String := joinSep " " (runOps {} (0, 0) (args.drop 1) [])

end Dblib.PQ
