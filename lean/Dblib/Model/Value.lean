/-
Model of the value codecs `asetypes/bytes.go` (`DataType.Bytes`: Go value → wire bytes) and
`asetypes/goValue.go` (`DataType.GoValue`: wire bytes → Go value), C04 / C05 / C10.  Core Lean only.
The code as it is after the commits c404295 (`floorDays` for DATE / DATETIME), 20c1efa (UNITEXT as UTF-16LE),
8cf068f (XML decoded as binary data), 7a20ae8 (DATE / DATEN / BIGDATETIMEN of a wrong length are an error).

Tables (`DataType` constants, `ByteSizes`, decimal precisions, `asetime` units) come from the
regenerated `Dblib/Gen/Types.lean`; calendar and `asetime` functions from `Model/AseTime.lean`.
The byte order is little-endian (`tds/binary.go: endian = binary.LittleEndian`, which is what `tds`
passes; several arms use `binary.LittleEndian` literally).

## Go values (`Val`)

    null                         the nil interface
    u8 i16 i32 i64 u16 u32 u64   fixed-size integers (what `binary.Write` accepts and `goValue` returns)
    f32 bits / f64 bits          floats as IEEE bit patterns (`math.Float32bits`), so NaN payloads count
    bool, bytes, str             `bool`, `[]byte`, `string` (a Go string is a byte sequence, not nec. UTF-8)
    dec i prec scale             `*asetypes.Decimal` with unscaled value `i` and the exported fields
    decnull                      `&Decimal{i: nil}` — what `goValue` returns for a zero-length MONEY*/DECN/NUMN
                                 (the library's NULL decimal, see `NullDecimal.Scan`); also stands for a nil `*Decimal`
    time t                       `time.Time` in UTC (`AseTime.Time`)

## Go behaviour restated here (trusted base, exercised by the correspondence harness c04.go / c05.go)

* `binary.Write(buf, LittleEndian, v)`: fixed-size integers, floats (bit pattern), `bool` (1/0), `[]byte`
  (and `string`, converted by `Bytes` before) are written; `*Decimal`, `time.Time` are rejected with an error.
* `binary.Read(buf, LittleEndian, &x)` for a `w`-byte `x`: error if fewer than `w` bytes, else the first `w`.
* `LittleEndian.PutUintNN(b, v)` / `UintNN(b)` panic (index out of range) when `len(b) < NN/8`;
  `make([]byte, n)` panics for `n < 0` (the model does not bound `n` from above; the harness keeps `n ≤ 65536`).
* `x.(time.Time)`, `x.(string)` without comma-ok panic on another dynamic type; `x.(*Decimal)` with comma-ok does not.
* `(*big.Int)(nil)` dereferenced by `dec.Int()` / `dec.ByteSize()` panics.
* `big.Int.Int64()` = the low 64 bits, two's complement; `big.Int.Bytes()` = minimal big-endian magnitude;
  `ByteSize() = int(math.Ceil(float64(BitLen)/8) + 1)` = `len(Bytes()) + 1`.
* `[]rune(string)`: UTF-8 decoding, every invalid byte gives U+FFFD (`utf8Dec`); `utf16.Encode` (`utf16Enc`);
  `utf16.Decode` (`utf16Dec`: a lone surrogate gives U+FFFD); `string([]rune)`: UTF-8 encoding, invalid runes
  give U+FFFD (`utf8Enc`); `strings.TrimRight(s, "\x00")`.

## Line protocol

    val dec <typehex> <hex>            -> ok <val> | err | panic                 GoValue
    val enc <typehex> <maxlen> <val>   -> ok <hex> | err | panic                 Bytes
    val rt  <typehex> <maxlen> <val>   -> ok <val> | err | panic | enc-err | enc-panic     GoValue(Bytes(v))
    val rtsweep <typehex> <lo> <n>     -> sweep <count> <sum>     dense round-trip sweep (DATE/DATEN: days since
                                          0001-01-01; TIME/TIMEN: ticks; DATETIME/DATETIMEN: day·25920000 + tick):
                                          number of exact round trips and sum of the encodings' LE values
    cal date y mo d h mi s ns          -> <time>                                 time.Date(…, UTC)
    cal dfd | dft | t2us  <7 ints>     -> <int>     DurationFromDateTime / DurationFromTime / TimeToMicroseconds of that time.Date
    cal us2t <µs>                      -> <time>    MicrosecondsToTime
    cal f2ms n | ms2f n                -> <int>     FractionalSecondToMillisecond / MillisecondToFractionalSecond
    cal units n                        -> d h mi s ms us   ASEDuration(n).Days() … .Microseconds()
    cal adddays <7 ints> n             -> <time>    time.Date(…).AddDate(0,0,n)
    cal add <7 ints> n                 -> <time>    time.Date(…).Add(n ns)
    cal sumf2ms lo n | summs2f lo n | summs2fb k n    -> <int>   sums over ranges (float-vs-exact sweeps, see c05.go)
    cal epochs                         -> <time> <time> <time>   EpochRataDie, Epoch1900, Epoch1753

Value tokens: `null`, `u8:5`, `i16:-5`, `i32:…`, `i64:…`, `u16:…`, `u32:…`, `u64:…`, `f32:<bits, decimal>`,
`f64:<bits>`, `b:0|1`, `bytes:<hex>`, `str:<hex>` (`-` = empty), `dec:<unscaled int>:<prec>:<scale>`, `decnull`,
`t:<y>-<m>-<d>-<h>-<mi>-<s>-<ns>` (a negative year has a leading `-`).  `<typehex>` = two hex digits.
-/
import Dblib.Util
import Dblib.Gen.Types
import Dblib.Model.AseTime

namespace Dblib.Value
open Dblib.Gen Dblib.AseTime

inductive Val
  | null
  | u8 (n : Nat) | i16 (n : Int) | i32 (n : Int) | i64 (n : Int)
  | u16 (n : Nat) | u32 (n : Nat) | u64 (n : Nat)
  | f32 (bits : Nat) | f64 (bits : Nat)
  | bool (b : Bool)
  | bytes (b : Bytes)
  | str (b : Bytes)
  | dec (i : Int) (prec scale : Nat)
  | decnull
  | time (t : Time)
deriving DecidableEq, Repr

inductive VOut | ok (v : Val) | err | panic
deriving DecidableEq, Repr

inductive BOut | ok (b : Bytes) | err | panic
deriving DecidableEq, Repr

/-! ### tables -/

def lookupInt (tab : List (Nat × Int)) (t : Nat) : Int :=
  match tab.find? (fun kv => kv.1 == t) with
  | some kv => kv.2
  | none => -1

/-- `DataType.ByteSize()` -/
def byteSize (t : Nat) : Int := lookupInt Types.byteSizes t

/-- `DataType.LengthBytes()` -/
def lengthBytes (t : Nat) : Int := lookupInt Types.lengthBytes t

/-- `DataType.GoReflectType() != nil` -/
def hasGoType (t : Nat) : Bool := Types.reflectNonNil.contains t

/-! ### byte helpers -/

def zeros (n : Nat) : Bytes := List.replicate n 0

/-- `make([]byte, length)`; `none` = panic -/
def mkBytes (length : Int) : Option Bytes := if length < 0 then none else some (zeros length.toNat)

/-- `LittleEndian.PutUintNN(bs, v)` on `w = NN/8` bytes; `none` = panic (index out of range) -/
def putLE (w : Nat) (bs : Bytes) (v : Nat) : Option Bytes :=
  if bs.length < w then none else some (leEncode w v ++ bs.drop w)

/-- `LittleEndian.UintNN(bs)`; `none` = panic -/
def getLE (w : Nat) (bs : Bytes) : Option Nat :=
  if bs.length < w then none else some (leDecode (bs.take w))

/-- `binary.Read(buffer, endian, &x)` for a `w`-byte integer; `none` = error (EOF / unexpected EOF) -/
def readLE (w : Nat) (bs : Bytes) : Option Nat :=
  if bs.length < w then none else some (leDecode (bs.take w))

/-- signed reading of an unsigned `8w`-bit pattern -/
def toSigned (w : Nat) (n : Nat) : Int :=
  if n % 2 ^ (8 * w) < 2 ^ (8 * w - 1) then ((n % 2 ^ (8 * w) : Nat) : Int)
  else ((n % 2 ^ (8 * w) : Nat) : Int) - ((2 ^ (8 * w) : Nat) : Int)

/-- minimal big-endian magnitude (`big.Int.Bytes()`): no leading zero byte, empty for 0 -/
def natBytesBE (n : Nat) : Bytes :=
  if n = 0 then [] else natBytesBE (n / 256) ++ [UInt8.ofNat (n % 256)]
termination_by n
decreasing_by omega

/-- `big.Int.SetBytes` -/
def beNat (bs : Bytes) : Nat := bs.foldl (fun a b => 256 * a + b.toNat) 0

/-! ### text -/

def isCont (b : Nat) : Bool := 0x80 ≤ b && b ≤ 0xBF

/-- one step of Go's UTF-8 decoder on first byte `b0` and the following bytes: (rune, number of
continuation bytes consumed); an invalid or truncated sequence is (U+FFFD, 0) -/
def decodeRune (b0 : Nat) (rest : Bytes) : Nat × Nat :=
  if b0 < 0x80 then (b0, 0)
  else if 0xC2 ≤ b0 && b0 ≤ 0xDF then
    match rest with
    | b1 :: _ => if isCont b1.toNat then ((b0 - 0xC0) * 64 + (b1.toNat - 0x80), 1) else (0xFFFD, 0)
    | _ => (0xFFFD, 0)
  else if 0xE0 ≤ b0 && b0 ≤ 0xEF then
    match rest with
    | b1 :: b2 :: _ =>
      let lo := if b0 = 0xE0 then 0xA0 else 0x80
      let hi := if b0 = 0xED then 0x9F else 0xBF
      if lo ≤ b1.toNat && b1.toNat ≤ hi && isCont b2.toNat then
        ((b0 - 0xE0) * 4096 + (b1.toNat - 0x80) * 64 + (b2.toNat - 0x80), 2)
      else (0xFFFD, 0)
    | _ => (0xFFFD, 0)
  else if 0xF0 ≤ b0 && b0 ≤ 0xF4 then
    match rest with
    | b1 :: b2 :: b3 :: _ =>
      let lo := if b0 = 0xF0 then 0x90 else 0x80
      let hi := if b0 = 0xF4 then 0x8F else 0xBF
      if lo ≤ b1.toNat && b1.toNat ≤ hi && isCont b2.toNat && isCont b3.toNat then
        ((b0 - 0xF0) * 262144 + (b1.toNat - 0x80) * 4096 + (b2.toNat - 0x80) * 64 + (b3.toNat - 0x80), 3)
      else (0xFFFD, 0)
    | _ => (0xFFFD, 0)
  else (0xFFFD, 0)

/-- `[]rune(s)`; the first argument counts continuation bytes still to skip -/
def utf8DecAux : Nat → Bytes → List Nat
  | _, [] => []
  | skip + 1, _ :: rest => utf8DecAux skip rest
  | 0, b0 :: rest =>
    let rk := decodeRune b0.toNat rest
    rk.1 :: utf8DecAux rk.2 rest

def utf8Dec (s : Bytes) : List Nat := utf8DecAux 0 s

def isSurrogate (r : Nat) : Bool := 0xD800 ≤ r && r < 0xE000

/-- UTF-8 encoding of one rune as `string(rune)` / `string([]rune)` does it -/
def utf8Enc (r : Nat) : Bytes :=
  let r := if isSurrogate r || r > 0x10FFFF then 0xFFFD else r
  if r < 0x80 then [UInt8.ofNat r]
  else if r < 0x800 then [UInt8.ofNat (0xC0 + r / 64), UInt8.ofNat (0x80 + r % 64)]
  else if r < 0x10000 then
    [UInt8.ofNat (0xE0 + r / 4096), UInt8.ofNat (0x80 + r / 64 % 64), UInt8.ofNat (0x80 + r % 64)]
  else
    [UInt8.ofNat (0xF0 + r / 262144), UInt8.ofNat (0x80 + r / 4096 % 64), UInt8.ofNat (0x80 + r / 64 % 64),
     UInt8.ofNat (0x80 + r % 64)]

def utf8EncAll (rs : List Nat) : Bytes := (rs.map utf8Enc).flatten

/-- `utf16.Encode` of one rune -/
def utf16Enc (r : Nat) : List Nat :=
  if isSurrogate r || r > 0x10FFFF then [0xFFFD]
  else if r < 0x10000 then [r]
  else [0xD800 + (r - 0x10000) / 1024, 0xDC00 + (r - 0x10000) % 1024]

def utf16EncAll (rs : List Nat) : List Nat := (rs.map utf16Enc).flatten

/-- `utf16.Decode`: a high surrogate followed by a low surrogate is one rune, any other surrogate is U+FFFD -/
def utf16Dec : List Nat → List Nat
  | [] => []
  | [u1] => [if isSurrogate u1 then 0xFFFD else u1]
  | u1 :: u2 :: rest =>
    if 0xD800 ≤ u1 ∧ u1 < 0xDC00 ∧ 0xDC00 ≤ u2 ∧ u2 < 0xE000 then
      (0x10000 + (u1 - 0xD800) * 1024 + (u2 - 0xDC00)) :: utf16Dec rest
    else (if isSurrogate u1 then 0xFFFD else u1) :: utf16Dec (u2 :: rest)

/-- `units[i] = LittleEndian.Uint16(bs[2*i:])` for `i < len(bs)/2` -/
def unitsOfLE : Bytes → List Nat
  | b0 :: b1 :: rest => (b0.toNat + 256 * b1.toNat) :: unitsOfLE rest
  | _ => []

/-- `strings.TrimRight(s, "\x00")` on the UTF-8 bytes -/
def trimRightNul (s : Bytes) : Bytes := (s.reverse.dropWhile (· == 0)).reverse

/-! ### `DataType.GoValue` -/

def sizeBad (t : Nat) (bs : Bytes) : Bool := byteSize t != -1 && (bs.length : Int) != byteSize t

def readAs (w : Nat) (bs : Bytes) (mk : Nat → Val) : VOut :=
  match readLE w bs with
  | some n => .ok (mk n)
  | none => .err

/-- the arms of `goValue` that do not call `GoValue` again (everything but INTN, UINTN, FLTN) -/
def goValueArm (t : Nat) (bs : Bytes) : VOut :=
  if t = Types.INT1 then readAs 1 bs .u8
  else if t = Types.INT2 then readAs 2 bs (fun n => .i16 (toSigned 2 n))
  else if t = Types.INT4 then readAs 4 bs (fun n => .i32 (toSigned 4 n))
  else if t = Types.INT8 then readAs 8 bs (fun n => .i64 (toSigned 8 n))
  else if t = Types.UINT2 then readAs 2 bs .u16
  else if t = Types.UINT4 then readAs 4 bs .u32
  else if t = Types.UINT8 then readAs 8 bs .u64
  else if t = Types.FLT4 then readAs 4 bs .f32
  else if t = Types.FLT8 then readAs 8 bs .f64
  else if t = Types.BIT then
    match bs with
    | [] => .panic
    | b :: _ => .ok (.bool (b == 1))
  else if t = Types.LONGBINARY ∨ t = Types.BINARY ∨ t = Types.VARBINARY ∨ t = Types.IMAGE ∨ t = Types.XML then
    if bs.length = 0 then .ok .null else .ok (.bytes bs)
  else if t = Types.CHAR ∨ t = Types.VARCHAR ∨ t = Types.TEXT ∨ t = Types.LONGCHAR then
    if bs.length = 0 then .ok .null else .ok (.str bs)
  else if t = Types.UNITEXT then
    if bs.length = 0 then .ok .null
    else if bs.length % 2 ≠ 0 then .err
    else .ok (.str (trimRightNul (utf8EncAll (utf16Dec (unitsOfLE bs)))))
  else if t = Types.SHORTMONEY ∨ t = Types.MONEY ∨ t = Types.MONEYN then
    -- NewDecimal(0, 0) cannot fail
    if bs.length = 0 then .ok .decnull
    else if bs.length = 4 then
      .ok (.dec (toI32 (leDecode (bs.take 4))) Types.aseShortMoneyPrecision Types.aseShortMoneyScale)
    else if bs.length = 8 then
      let mnyhigh := leDecode (bs.take 4)
      let mnylow := leDecode ((bs.drop 4).take 4)
      .ok (.dec (wrap64 ((mnyhigh : Int) * 4294967296 + (mnylow : Int))) Types.aseMoneyPrecision Types.aseMoneyScale)
    else .ok (.dec 0 0 0)
  else if t = Types.DECN ∨ t = Types.NUMN then
    match bs with
    | [] => .ok .decnull
    | sign :: mag =>
      -- NewDecimal(18, 0) cannot fail
      let i : Int := beNat mag
      .ok (.dec (if sign == 1 then -i else i) Types.aseDecimalDefaultPrecision Types.aseDecimalDefaultScale)
  else if t = Types.DATE ∨ t = Types.DATEN then
    if bs.length = 0 then .ok .null
    else if bs.length ≠ 4 then .err
    else match getLE 4 bs with
      | none => .panic
      | some u =>
        let x := toI32 u
        let days := wrap64 (x * Types.day)
        .ok (.time (epoch1900.addDays (AseTime.days days)))
  else if t = Types.TIME ∨ t = Types.BIGTIMEN ∨ t = Types.TIMEN then
    if bs.length = 0 then .ok .null
    else if bs.length = 4 then
      let x := toI32 (leDecode (bs.take 4))
      let dur := fractionalSecondToMillisecond x
      .ok (.time ((mkDate 1 1 1 0 0 0 0).add (milliseconds dur * 1000000)))
    else if bs.length = 8 then
      let dur := wrap64 (leDecode (bs.take 8))
      .ok (.time (epochRataDie.add (wrap64 (dur * 1000))))
    else .err
  else if t = Types.SHORTDATE ∨ t = Types.DATETIME ∨ t = Types.DATETIMEN then
    if bs.length = 0 then .ok .null
    else if bs.length = 4 then
      let days := leDecode (bs.take 2)
      let mins := leDecode ((bs.drop 2).take 2)
      .ok (.time ((epoch1900.addDays days).add ((mins : Int) * 60000000000)))
    else if bs.length = 8 then
      let days := wrap64 (toI32 (leDecode (bs.take 4)) * Types.day)
      let ms := fractionalSecondToMillisecond (leDecode ((bs.drop 4).take 4))
      .ok (.time ((epoch1900.addDays (AseTime.days days)).add (microseconds ms * 1000)))
    else .err
  else if t = Types.BIGDATETIMEN then
    if bs.length = 0 then .ok .null
    else if bs.length ≠ 8 then .err
    else match getLE 8 bs with
      | none => .panic
      | some u =>
        let dur := wrap64 u
        let t0 := dateYear0.addDays (AseTime.days dur)
        let ms := microseconds dur - AseTime.days dur * Types.day
        .ok (.time (t0.add (ms * 1000)))
  else .err

/-- `T.GoValue(endian, bs)` for the types `goValue` re-enters with (INT1, INT2, …, FLT8) -/
def goValueBase (t : Nat) (bs : Bytes) : VOut :=
  if sizeBad t bs then .err else goValueArm t bs

/-- the `switch t` of `goValue` -/
def goValueSwitch (t : Nat) (bs : Bytes) : VOut :=
  if t = Types.INTN then
    if bs.length = 0 then .ok .null
    else if bs.length = 1 then goValueBase Types.INT1 bs
    else if bs.length = 2 then goValueBase Types.INT2 bs
    else if bs.length = 4 then goValueBase Types.INT4 bs
    else if bs.length = 8 then goValueBase Types.INT8 bs
    else .err
  else if t = Types.UINTN then
    if bs.length = 0 then .ok .null
    else if bs.length = 1 then goValueBase Types.INT1 bs
    else if bs.length = 2 then goValueBase Types.UINT2 bs
    else if bs.length = 4 then goValueBase Types.UINT4 bs
    else if bs.length = 8 then goValueBase Types.UINT8 bs
    else .err
  else if t = Types.FLTN then
    if bs.length = 0 then .ok .null
    else if bs.length = 4 then goValueBase Types.FLT4 bs
    else if bs.length = 8 then goValueBase Types.FLT8 bs
    else .err
  else goValueArm t bs

/-- `DataType.GoValue` -/
def goValue (t : Nat) (bs : Bytes) : VOut :=
  if sizeBad t bs then .err else goValueSwitch t bs

/-! ### `DataType.Bytes` -/

/-- `binary.Write(buf, LittleEndian, value)` after the `string → []byte` conversion; `none` = error -/
def binWrite : Val → Option Bytes
  | .u8 n => some (leEncode 1 n)
  | .i16 n => some (leEncode 2 (toU 16 n))
  | .i32 n => some (leEncode 4 (toU 32 n))
  | .i64 n => some (leEncode 8 (toU 64 n))
  | .u16 n => some (leEncode 2 n)
  | .u32 n => some (leEncode 4 n)
  | .u64 n => some (leEncode 8 n)
  | .f32 b => some (leEncode 4 b)
  | .f64 b => some (leEncode 8 b)
  | .bool b => some [if b then 1 else 0]
  | .bytes b => some b
  | .str b => some b
  | _ => none

def ofOpt : Option Bytes → BOut
  | some b => .ok b
  | none => .panic

/-- the 4- or 8-byte layout of SHORTDATE / DATETIME / DATETIMEN written into `bs = make([]byte, length)` -/
def dateTimeBytes (tt : Int) (length : Int) (bs : Bytes) : Bytes :=
  let days := floorDays tt
  if length = 4 then
    let s := microseconds tt - days * Types.day
    leEncode 2 (toU 16 days) ++ leEncode 2 (toU 16 (minutes s))
  else if length = 8 then
    let s := microseconds tt - days * Types.day
    let s := millisecondToFractionalSecond s
    leEncode 4 (toU 32 days) ++ leEncode 4 (toU 32 s)
  else bs

/-- the writes `for i { PutUint16(bs[2*i:], u[i]) }` into `bs` (`len bs = 2·len u`) -/
def unitextWrite : Nat → List Nat → Bytes → Bytes
  | _, [], bs => bs
  | i, u :: us, bs =>
    unitextWrite (i + 1) us (bs.take (2 * i) ++ leEncode 2 u ++ bs.drop (2 * i + 2))

/-- the last part of `Bytes`: `binary.Write` and the `ByteSize` check -/
def genericBytes (t : Nat) (v : Val) : BOut :=
  match binWrite v with
  | none => .err
  | some bs =>
    if byteSize t != -1 && byteSize t != (bs.length : Int) then .err else .ok bs

/-- `DataType.Bytes(endian, value, length)` -/
def bytes (t : Nat) (v : Val) (maxLen : Int) : BOut :=
  if v = .null then .ok []
  else if t = Types.MONEY ∨ t = Types.SHORTMONEY ∨ t = Types.MONEYN then
    match v with
    | .dec i _ _ =>
      match mkBytes maxLen with
      | none => .panic
      | some bs =>
        if maxLen = 4 then .ok (leEncode 4 (toU 32 (wrap64 i)))
        else if maxLen = 8 then
          .ok (leEncode 4 (toU 32 (wrap64 i / 4294967296)) ++ leEncode 4 (toU 32 (wrap64 i)))
        else .ok bs
    | .decnull => .panic           -- dec.Int(): nil *big.Int
    | _ => .err
  else if t = Types.DECN ∨ t = Types.NUMN then
    match v with
    | .dec i _ _ =>
      let mag := natBytesBE i.natAbs
      -- bs := make([]byte, len(mag)+1); copy(bs[1:], mag); sign
      .ok ((if i < 0 then 1 else 0) :: mag)
    | .decnull => .panic           -- dec.ByteSize(): nil *big.Int
    | _ => .err
  else if t = Types.DATE ∨ t = Types.DATEN then
    match v with
    | .time tm =>
      let tt := durationFromDateTime tm - durationFromDateTime epoch1900
      match mkBytes maxLen with
      | none => .panic
      | some bs => ofOpt (putLE 4 bs (toU 32 (floorDays tt)))
    | _ => .panic                  -- value.(time.Time)
  else if t = Types.TIME ∨ t = Types.TIMEN then
    match v with
    | .time tm =>
      let dur := durationFromTime tm
      let fract := millisecondToFractionalSecond (microseconds dur)
      match mkBytes maxLen with
      | none => .panic
      | some bs => ofOpt (putLE 4 bs (toU 32 fract))
    | _ => .panic
  else if t = Types.SHORTDATE ∨ t = Types.DATETIME ∨ t = Types.DATETIMEN then
    match v with
    | .time tm =>
      let tt := durationFromDateTime tm - durationFromDateTime epoch1900
      match mkBytes maxLen with
      | none => .panic
      | some bs => .ok (dateTimeBytes tt maxLen bs)
    | _ => .panic
  else if t = Types.BIGDATETIMEN then
    match v with
    | .time tm =>
      let dur := durationFromDateTime tm
      match mkBytes maxLen with
      | none => .panic
      | some bs => ofOpt (putLE 8 bs (toU 64 dur))
    | _ => .panic
  else if t = Types.BIGTIMEN then
    match v with
    | .time tm =>
      let dur := durationFromTime tm
      match mkBytes maxLen with
      | none => .panic
      | some bs => ofOpt (putLE 8 bs (toU 64 dur))
    | _ => .panic
  else if t = Types.UNITEXT then
    match v with
    | .str s =>
      let units := utf16EncAll (utf8Dec s)
      .ok (unitextWrite 0 units (zeros (units.length * 2)))
    | _ => .panic                  -- value.(string)
  else genericBytes t v

/-- outcome of `GoValue(Bytes(v))` -/
inductive RtOut | encErr | encPanic | dec (o : VOut)
deriving DecidableEq, Repr

/-- encode with `Bytes`, decode the produced bytes with `GoValue` -/
def roundTrip (t : Nat) (v : Val) (maxLen : Int) : RtOut :=
  match bytes t v maxLen with
  | .ok bs => .dec (goValue t bs)
  | .err => .encErr
  | .panic => .encPanic

/-! ### canonical text -/

def showTime (t : Time) : String :=
  s!"t:{t.year}-{t.month}-{t.dayOfMonth}-{t.hour}-{t.minute}-{t.second}-{t.nanosecond}"

def Val.show : Val → String
  | .null => "null"
  | .u8 n => s!"u8:{n}" | .i16 n => s!"i16:{n}" | .i32 n => s!"i32:{n}" | .i64 n => s!"i64:{n}"
  | .u16 n => s!"u16:{n}" | .u32 n => s!"u32:{n}" | .u64 n => s!"u64:{n}"
  | .f32 b => s!"f32:{b}" | .f64 b => s!"f64:{b}"
  | .bool b => if b then "b:1" else "b:0"
  | .bytes b => "bytes:" ++ toHex b
  | .str b => "str:" ++ toHex b
  | .dec i p s => s!"dec:{i}:{p}:{s}"
  | .decnull => "decnull"
  | .time t => showTime t

def natIn (s : String) (bound : Nat) : Option Nat := do
  let n ← s.toNat?
  if n < bound then some n else none

def intIn (s : String) (lo hi : Int) : Option Int := do
  let n ← s.toInt?
  if lo ≤ n ∧ n ≤ hi then some n else none

/-- `y-m-d-h-mi-s-ns` with an optional leading `-` for a negative year; all other fields natural -/
def parseTimeFields (s : String) : Option (List Int) :=
  let parts := s.splitOn "-"
  let (neg, parts) := match parts with
    | "" :: rest => (true, rest)
    | _ => (false, parts)
  match parts.mapM String.toNat? with
  | some (y :: rest) =>
    if rest.length = 6 then some ((if neg then -(y : Int) else (y : Int)) :: rest.map Int.ofNat) else none
  | _ => none

def timeOfFields : List Int → Option Time
  | [y, mo, d, h, mi, s, ns] => some (mkDate y mo d h mi s ns)
  | _ => none

def parseVal (s : String) : Option Val :=
  if s == "null" then some .null
  else if s == "decnull" then some .decnull
  else match s.splitOn ":" with
  | ["u8", x] => (natIn x 256).map .u8
  | ["i16", x] => (intIn x (-32768) 32767).map .i16
  | ["i32", x] => (intIn x (-2147483648) 2147483647).map .i32
  | ["i64", x] => (intIn x (-9223372036854775808) 9223372036854775807).map .i64
  | ["u16", x] => (natIn x 65536).map .u16
  | ["u32", x] => (natIn x 4294967296).map .u32
  | ["u64", x] => (natIn x 18446744073709551616).map .u64
  | ["f32", x] => (natIn x 4294967296).map .f32
  | ["f64", x] => (natIn x 18446744073709551616).map .f64
  | ["b", "0"] => some (.bool false)
  | ["b", "1"] => some (.bool true)
  | ["bytes", x] => (fromHex x).map .bytes
  | ["str", x] => (fromHex x).map .str
  | ["dec", i, p, sc] | ["decr", i, p, sc] => do   -- decr: the object went through a rejected SetString, which leaves it untouched
      let i ← i.toInt?
      let p ← p.toNat?
      let sc ← sc.toNat?
      some (.dec i p sc)
  | ["t", x] => do
      let f ← parseTimeFields x
      let t ← timeOfFields f
      some (.time t)
  | _ => none

def parseType (s : String) : Option Nat :=
  if s.length ≠ 2 then none
  else match fromHex s with
    | some [b] => some b.toNat
    | _ => none

def VOut.toLine : VOut → String
  | .ok v => "ok " ++ v.show
  | .err => "err"
  | .panic => "panic"

def BOut.toLine : BOut → String
  | .ok b => "ok " ++ toHex b
  | .err => "err"
  | .panic => "panic"

/-- the `i`-th value of a dense sweep and the length of its format: DATE / DATEN: day `i` since 0001-01-01;
TIME / TIMEN: tick `i` of 1/300 s (as decoded: `i/300 s` truncated to the millisecond);
DATETIME / DATETIMEN: day `i / 25920000`, tick `i % 25920000` -/
def sweepVal (t : Nat) (i : Nat) : Option (Val × Int) :=
  if t = Types.DATE ∨ t = Types.DATEN then some (.time ⟨(i : Int), 0⟩, 4)
  else if t = Types.TIME ∨ t = Types.TIMEN then some (.time ⟨0, 10 * i / 3 * 1000000⟩, 4)
  else if t = Types.DATETIME ∨ t = Types.DATETIMEN then
    some (.time ⟨((i / 25920000 : Nat) : Int), 10 * (i % 25920000) / 3 * 1000000⟩, 8)
  else none

/-- `val rtsweep`: over `n` consecutive sweep values from `lo`: how many round-trip exactly, and the sum of
the little-endian values of the encodings -/
def sweep (t : Nat) : Nat → Nat → Nat → Nat → Option (Nat × Nat)
  | _, 0, cnt, sum => some (cnt, sum)
  | i, n + 1, cnt, sum =>
    match sweepVal t i with
    | none => none
    | some (v, l) =>
      let enc := match bytes t v l with
        | .ok bs => leDecode bs
        | _ => 0
      let ok := if roundTrip t v l = .dec (.ok v) then 1 else 0
      sweep t (i + 1) n (cnt + ok) (sum + enc)

/-- `val …` -/
def run (args : List String) : String :=
  match args with
  | ["rtsweep", t, lo, n] =>
    match parseType t, lo.toNat?, n.toNat? with
    | some t, some lo, some n =>
      match sweep t lo n 0 0 with
      | some (cnt, sum) => s!"sweep {cnt} {sum}"
      | none => "bad-op"
    | _, _, _ => "bad-op"
  | ["dec", t, hex] =>
    match parseType t, fromHex hex with
    | some t, some bs => (goValue t bs).toLine
    | _, _ => "bad-op"
  | ["enc", t, maxLen, v] =>
    match parseType t, maxLen.toInt?, parseVal v with
    | some t, some l, some v => if l > 65536 then "bad-op" else (bytes t v l).toLine
    | _, _, _ => "bad-op"
  | ["rt", t, maxLen, v] =>
    match parseType t, maxLen.toInt?, parseVal v with
    | some t, some l, some v =>
      if l > 65536 then "bad-op" else
      match roundTrip t v l with
      | .dec o => o.toLine
      | .encErr => "enc-err"
      | .encPanic => "enc-panic"
    | _, _, _ => "bad-op"
  | _ => "bad-op"

/-! ### `cal …` -/

def sumRange (f : Int → Int) (lo : Int) : Nat → Int → Int
  | 0, acc => acc
  | n + 1, acc => sumRange f (lo + 1) n (acc + f lo)

/-- the microsecond values around the `k`-th rounding boundary of `ms2f` (`3s/10000 = k + 1/2`) -/
def boundaryProbe (k : Int) : Int :=
  let s0 := (10000 * k + 5000) / 3
  millisecondToFractionalSecond (s0 - 1) + 3 * millisecondToFractionalSecond s0
    + 5 * millisecondToFractionalSecond (s0 + 1) + 7 * millisecondToFractionalSecond (s0 + 2)

def runCal (args : List String) : String :=
  match args with
  | ["epochs"] => showTime epochRataDie ++ " " ++ showTime epoch1900 ++ " " ++ showTime epoch1753
  | ["us2t", x] =>
    match natIn x 18446744073709551616 with
    | some us => showTime (microsecondsToTime us)
    | none => "bad-op"
  | ["f2ms", x] => match x.toInt? with
    | some n => toString (fractionalSecondToMillisecond n)
    | none => "bad-op"
  | ["ms2f", x] => match x.toInt? with
    | some n => toString (millisecondToFractionalSecond n)
    | none => "bad-op"
  | ["units", x] => match x.toInt? with
    | some n => s!"{days n} {hours n} {minutes n} {seconds n} {milliseconds n} {microseconds n}"
    | none => "bad-op"
  | ["sumf2ms", lo, n] => match lo.toInt?, n.toNat? with
    | some lo, some n => toString (sumRange fractionalSecondToMillisecond lo n 0)
    | _, _ => "bad-op"
  | ["summs2f", lo, n] => match lo.toInt?, n.toNat? with
    | some lo, some n => toString (sumRange millisecondToFractionalSecond lo n 0)
    | _, _ => "bad-op"
  | ["summs2fb", k, n] => match k.toInt?, n.toNat? with
    | some k, some n => toString (sumRange boundaryProbe k n 0)
    | _, _ => "bad-op"
  | op :: rest =>
    match rest.mapM String.toInt? with
    | some [y, mo, d, h, mi, s, ns] =>
      let t := mkDate y mo d h mi s ns
      if op == "date" then showTime t
      else if op == "dfd" then toString (durationFromDateTime t)
      else if op == "dft" then toString (durationFromTime t)
      else if op == "t2us" then toString (timeToMicroseconds t)
      else "bad-op"
    | some [y, mo, d, h, mi, s, ns, n] =>
      let t := mkDate y mo d h mi s ns
      if op == "adddays" then showTime (t.addDays n)
      else if op == "add" then showTime (t.add n)
      else "bad-op"
    | _ => "bad-op"
  | _ => "bad-op"

end Dblib.Value
