/-
C06 for the Cursor codec group (Model/Codec/Cursor.lean, Model/Codec/CursorSpec.lean).

For every kind `K` (all statements for all field values, all lengths, all trailing bytes `rest`):

* `K.WF`            the width constraints under which the writer does not truncate
                    (a string under a 1-byte prefix is < 256 bytes, an `int32` is in range, the
                    total fits its length field, …); `K.norm` the documented normalisations (what
                    the writer does not send comes back as the zero value).
* `K.enc_ok`        under `WF` the writer succeeds and its output is token :: `encBody`.
* `K.length_fields` `encBody k = frame w (layout k)`: the hand-computed `totalLength` is the number
                    of bytes that follow it, every string length prefix is the length of the string
                    after it, the column count is the number of columns (`layout` computes all of
                    them from the data). Unconditional.
* `K.roundtrip`     `K.dec (encBody k ++ rest) = ok (norm k) |encBody k|` — the Go reader reads back
                    what the Go writer wrote and consumes exactly that.
* `K.matches_spec`  `K.decSpec (encBody k ++ rest) = ok (norm k) |encBody k|` — the independent,
                    length-delimited layout decoder accepts the writer's bytes.
* dynamic, curinfo (also sent by the server): `K.enc_eq_encSpec` (writer = layout encoder) and
  `K.dec_encSpec` (the Go reader decodes the layout encoder's bytes).

CURUPDATE: the statement block (2-byte length + statement) is optional; the writer omits it for
an empty statement and the reader reads it iff the declared length has room for it (fixed: the
reader used to read it always, see the history of this file).
-/
import Dblib.Model.Codec.CursorSpec
import Dblib.Lemmas.CodecCursorSpec

set_option linter.unusedSimpArgs false

namespace Dblib.Props.C06.Cursor
open Dblib Dblib.P Dblib.Codec Dblib.Codec.Cursor Dblib.CodecCursor

theorem lw_pos (wide : Bool) : 256 ^ lw wide = if wide then 4294967296 else 65536 := by
  cases wide <;> simp [lw]

/-! ## DYNAMIC / DYNAMIC2 -/

structure Dyn.WF (wide : Bool) (k : Dyn) : Prop where
  type : k.type < 256
  status : k.status < 256
  id : k.id.length < 256
  total : Dyn.total wide k < Dyn.maxLength wide

/-- a statement is only sent with TDS_DYN_PREPARE / TDS_DYN_EXEC_IMMED -/
def Dyn.norm (k : Dyn) : Dyn := { k with stmt := if hasStmt k.type then k.stmt else [] }

example : Dyn.WF false { type := 1, status := 0, id := [1, 2], stmt := [3, 4, 5] } := by
  constructor <;> decide

theorem Dyn.enc_ok (wide : Bool) (k : Dyn) (h : Dyn.WF wide k) (h0 : k.type ≠ 0) :
    Dyn.enc wide k = .ok (UInt8.ofNat (if wide then tokDynamic2 else tokDynamic) :: Dyn.encBody wide k) := by
  have hw : Dyn.written wide k = Dyn.total wide k := by
    unfold Dyn.written Dyn.total lw; cases wide <;> simp <;> split <;> omega
  have ht := h.total
  unfold Dyn.enc
  simp [h0, hw, Nat.not_le.mpr ht]

/-- the writer refuses the invalid type and over-long packages, it never truncates silently -/
theorem Dyn.enc_err (wide : Bool) (k : Dyn)
    (h : k.type = 0 ∨ Dyn.maxLength wide ≤ Dyn.total wide k) : Dyn.enc wide k = .err := by
  unfold Dyn.enc
  rcases h with h | h
  · simp [h]
  · by_cases h0 : k.type = 0 <;> simp [h0, h]

theorem Dyn.length_fields (wide : Bool) (k : Dyn) :
    Dyn.encBody wide k = frame (lw wide) (Dyn.layout wide k) := by
  have hl : (Dyn.layout wide k).length = Dyn.total wide k := by
    unfold Dyn.layout Dyn.total lstr lw
    cases wide <;> cases hasStmt k.type <;> simp [leEncode_length] <;> omega
  unfold frame
  rw [hl]
  unfold Dyn.encBody Dyn.layout lstr
  cases hasStmt k.type <;> simp [List.append_assoc]

theorem Dyn.roundtrip (wide : Bool) (k : Dyn) (rest : Bytes) (h : Dyn.WF wide k) :
    Dyn.dec wide (Dyn.encBody wide k ++ rest) = .ok (Dyn.norm k) (Dyn.encBody wide k).length := by
  obtain ⟨ht, hs, hi, htot⟩ := h
  have hlw : Dyn.total wide k < 256 ^ lw wide := by
    cases wide <;> simp [Dyn.maxLength, lw] at * <;> omega
  unfold Dyn.dec Dyn.encBody
  cases hst : hasStmt k.type
  · have hg : (3 + k.id.length == Dyn.total wide k) = true := by
      simp [Dyn.total, hst]
    rt_simp [hst, hlw, ht, hs, hi, guard_bind_true _ _ _ hg, Dyn.norm]
  · have hsl : k.stmt.length < 256 ^ lw wide := by
      cases wide <;> simp [Dyn.maxLength, Dyn.total, lw, hst] at * <;> omega
    have hg : (3 + k.id.length + lw wide + k.stmt.length == Dyn.total wide k) = true := by
      cases wide <;> simp [Dyn.total, lw, hst] <;> omega
    rt_simp [hst, hlw, ht, hs, hi, hsl, guard_bind_true _ _ _ hg, Dyn.norm]

theorem Dyn.bodySpec_layout (wide : Bool) (k : Dyn) (rest : Bytes) (h : Dyn.WF wide k) :
    Dyn.bodySpec wide (Dyn.layout wide k ++ rest) = .ok (Dyn.norm k) (Dyn.layout wide k).length := by
  obtain ⟨ht, hs, hi, htot⟩ := h
  have ht' : k.type < 256 ^ 1 := by simpa using ht
  have hs' : k.status < 256 ^ 1 := by simpa using hs
  have hi' : k.id.length < 256 ^ 1 := by simpa using hi
  unfold Dyn.bodySpec Dyn.layout lstr
  cases hst : hasStmt k.type
  · rt_simp [hst, ht', hs', plstr_bind _ _ _ _ hi', Dyn.norm]
  · have hsl : k.stmt.length < 256 ^ lw wide := by
      cases wide <;> simp [Dyn.maxLength, Dyn.total, lw, hst] at * <;> omega
    rt_simp [hst, ht', hs', plstr_bind _ _ _ _ hi', plstr_bind _ _ _ _ hsl, Dyn.norm]
    all_goals (congr 1; omega)

theorem Dyn.matches_spec (wide : Bool) (k : Dyn) (rest : Bytes) (h : Dyn.WF wide k) :
    Dyn.decSpec wide (Dyn.encBody wide k ++ rest) = .ok (Dyn.norm k) (Dyn.encBody wide k).length := by
  have hb := Dyn.bodySpec_layout wide k [] h
  rw [List.append_nil] at hb
  have hl : (Dyn.layout wide k).length < 256 ^ lw wide := by
    have := congrArg List.length (Dyn.length_fields wide k)
    have ht := h.total
    have hl : (Dyn.layout wide k).length = Dyn.total wide k := by
      unfold Dyn.layout Dyn.total lstr lw
      cases wide <;> cases hasStmt k.type <;> simp [leEncode_length] <;> omega
    cases wide <;> simp [Dyn.maxLength, lw] at * <;> omega
  rw [Dyn.length_fields]
  unfold Dyn.decSpec frame
  rt_simp [hl, framed_exact _ _ _ _ hb]

/-- writer = layout encoder (DYNAMIC also travels server → client as acknowledgement) -/
theorem Dyn.enc_eq_encSpec (wide : Bool) (k : Dyn) (h : Dyn.WF wide k) (h0 : k.type ≠ 0) :
    Dyn.enc wide k = .ok (Dyn.encSpec wide k) := by
  rw [Dyn.enc_ok wide k h h0, Dyn.length_fields]
  unfold Dyn.encSpec tokDynamic tokDynamic2
  rfl

/-- the Go reader decodes what a server laying the token out by the book sends -/
theorem Dyn.dec_encSpec (wide : Bool) (k : Dyn) (rest : Bytes) (h : Dyn.WF wide k) :
    Dyn.dec wide (frame (lw wide) (Dyn.layout wide k) ++ rest) =
      .ok (Dyn.norm k) (frame (lw wide) (Dyn.layout wide k)).length := by
  rw [← Dyn.length_fields]; exact Dyn.roundtrip wide k rest h

/-! ## CURDECLARE / CURDECLARE3 -/

structure CurDeclare.WF (wide : Bool) (k : CurDeclare) : Prop where
  name : k.name.length < 256
  options : k.options < (if wide then 4294967296 else 256)
  status : k.status < 256
  stmt : k.stmt.length < (if wide then 4294967296 else 65536)
  ncols : k.columns.length < 65536
  cols : ∀ c ∈ k.columns, c.length < 256
  total : CurDeclare.total wide k < (if wide then 4294967296 else 65536)

example : CurDeclare.WF true { name := [1], options := 0x200, status := 1, stmt := [2, 3], columns := [[], [4]] } := by
  constructor <;> decide

theorem CurDeclare.written_eq (wide : Bool) (k : CurDeclare) :
    CurDeclare.written wide k = CurDeclare.total wide k := by
  unfold CurDeclare.written CurDeclare.total lw; cases wide <;> simp <;> omega

/-- the writer never fails (and therefore truncates silently outside `WF`) -/
theorem CurDeclare.enc_ok (wide : Bool) (k : CurDeclare) :
    CurDeclare.enc wide k =
      .ok (UInt8.ofNat (if wide then tokCurDeclare3 else tokCurDeclare) :: CurDeclare.encBody wide k) := by
  unfold CurDeclare.enc
  simp [CurDeclare.written_eq]

theorem CurDeclare.layout_length (wide : Bool) (k : CurDeclare) :
    (CurDeclare.layout wide k).length = CurDeclare.total wide k := by
  unfold CurDeclare.layout CurDeclare.total lstr lw
  rw [layoutCols_eq]
  cases wide <;> simp [leEncode_length, encCols_length] <;> omega

theorem CurDeclare.length_fields (wide : Bool) (k : CurDeclare) :
    CurDeclare.encBody wide k = frame (lw wide) (CurDeclare.layout wide k) := by
  unfold frame
  rw [CurDeclare.layout_length]
  unfold CurDeclare.encBody CurDeclare.layout lstr
  rw [layoutCols_eq]
  simp [List.append_assoc]

theorem CurDeclare.roundtrip (wide : Bool) (k : CurDeclare) (rest : Bytes) (h : CurDeclare.WF wide k) :
    CurDeclare.dec wide (CurDeclare.encBody wide k ++ rest) = .ok k (CurDeclare.encBody wide k).length := by
  obtain ⟨hn, ho, hs, hq, hnc, hc, htot⟩ := h
  have hnc' : k.columns.length < 256 ^ 2 := by simpa using hnc
  unfold CurDeclare.dec CurDeclare.encBody
  cases wide
  · have htot' : CurDeclare.total false k < 256 ^ lw false := by simpa [lw] using htot
    have hq' : k.stmt.length < 256 ^ lw false := by simpa [lw] using hq
    have ho' : k.options < 256 := by simpa using ho
    have hg : (1 + k.name.length + 1 + 1 + lw false + k.stmt.length + 2 + colsLen k.columns
        == CurDeclare.total false k) = true := by
      simp [CurDeclare.total, lw] <;> omega
    rt_simp [htot', hn, ho', hs, hq', hnc', cols_bind _ _ _ hc, guard_bind_true _ _ _ hg, encCols_length]
    all_goals (congr 1; omega)
  · have htot' : CurDeclare.total true k < 256 ^ lw true := by simpa [lw] using htot
    have hq' : k.stmt.length < 256 ^ lw true := by simpa [lw] using hq
    have ho' : k.options < 256 ^ 4 := by simpa using ho
    have hg : (1 + k.name.length + 4 + 1 + lw true + k.stmt.length + 2 + colsLen k.columns
        == CurDeclare.total true k) = true := by
      simp [CurDeclare.total, lw] <;> omega
    rt_simp [htot', hn, ho', hs, hq', hnc', cols_bind _ _ _ hc, guard_bind_true _ _ _ hg, encCols_length]
    all_goals (congr 1; omega)

theorem CurDeclare.bodySpec_layout (wide : Bool) (k : CurDeclare) (rest : Bytes) (h : CurDeclare.WF wide k) :
    CurDeclare.bodySpec wide (CurDeclare.layout wide k ++ rest) = .ok k (CurDeclare.layout wide k).length := by
  obtain ⟨hn, ho, hs, hq, hnc, hc, htot⟩ := h
  have hnc' : k.columns.length < 256 ^ 2 := by simpa using hnc
  have hn' : k.name.length < 256 ^ 1 := by simpa using hn
  have hs' : k.status < 256 ^ 1 := by simpa using hs
  unfold CurDeclare.bodySpec CurDeclare.layout lstr
  rw [layoutCols_eq]
  cases wide
  · have hq' : k.stmt.length < 256 ^ lw false := by simpa [lw] using hq
    have ho' : k.options < 256 ^ 1 := by simpa using ho
    rt_simp [plstr_bind _ _ _ _ hn', ho', hs', plstr_bind _ _ _ _ hq', hnc', specCols_bind _ _ _ hc,
      encCols_length]
    all_goals (congr 1; omega)
  · have hq' : k.stmt.length < 256 ^ lw true := by simpa [lw] using hq
    have ho' : k.options < 256 ^ 4 := by simpa using ho
    rt_simp [plstr_bind _ _ _ _ hn', ho', hs', plstr_bind _ _ _ _ hq', hnc', specCols_bind _ _ _ hc,
      encCols_length]
    all_goals (congr 1; omega)

theorem CurDeclare.matches_spec (wide : Bool) (k : CurDeclare) (rest : Bytes) (h : CurDeclare.WF wide k) :
    CurDeclare.decSpec wide (CurDeclare.encBody wide k ++ rest) =
      .ok k (CurDeclare.encBody wide k).length := by
  have hb := CurDeclare.bodySpec_layout wide k [] h
  rw [List.append_nil] at hb
  have hl : (CurDeclare.layout wide k).length < 256 ^ lw wide := by
    rw [CurDeclare.layout_length, lw_pos]; exact h.total
  rw [CurDeclare.length_fields]
  unfold CurDeclare.decSpec frame
  rt_simp [hl, framed_exact _ _ _ _ hb]

/-! ## CURINFO / CURINFO3 -/

structure CurInfo.WF (wide : Bool) (k : CurInfo) : Prop where
  id : isInt32 k.cursorId
  name : k.cursorId = 0 → k.name.length < 256
  command : k.command < 256
  status : k.status < (if wide then 4294967296 else 65536)
  rowNum : isInt32 k.rowNum
  totalRows : isInt32 k.totalRows
  rowCount : isInt32 k.rowCount

/-- the name is only sent with cursor id 0, RowNum/TotalRows only in the wide form, RowCount only
with the status bit TDS_CUR_ISTAT_ROWCNT -/
def CurInfo.norm (wide : Bool) (k : CurInfo) : CurInfo :=
  { k with name := if k.cursorId = 0 then k.name else [],
           rowNum := if wide then k.rowNum else 0,
           totalRows := if wide then k.totalRows else 0,
           rowCount := if hasRowCnt k.status then k.rowCount else 0 }

example : CurInfo.WF true ⟨0, [1], 3, 0x22, -1, 7, 2147483647⟩ := by
  constructor <;> decide

theorem CurInfo.enc_ok (wide : Bool) (k : CurInfo) :
    CurInfo.enc wide k = .ok (UInt8.ofNat (if wide then tokCurInfo3 else tokCurInfo) :: CurInfo.encBody wide k) :=
  rfl

theorem CurInfo.layout_length (wide : Bool) (k : CurInfo) :
    (CurInfo.layout wide k).length = CurInfo.total wide k := by
  unfold CurInfo.layout CurInfo.total
  rw [layoutRef_eq]
  simp only [List.length_append, encCursorRef_length, lenCursorRef, leEncode_length]
  cases wide <;> cases hasRowCnt k.status <;> by_cases h0 : k.cursorId = 0 <;>
    simp [h0, lw, leEncodeInt_length] <;> omega

theorem CurInfo.length_fields (wide : Bool) (k : CurInfo) :
    CurInfo.encBody wide k = frame 2 (CurInfo.layout wide k) := by
  unfold frame
  rw [CurInfo.layout_length]
  unfold CurInfo.encBody CurInfo.layout
  rw [layoutRef_eq]
  simp [List.append_assoc]

theorem CurInfo.total_lt (wide : Bool) (k : CurInfo) (h : CurInfo.WF wide k) :
    CurInfo.total wide k < 256 ^ 2 := by
  have := h.name
  unfold CurInfo.total
  by_cases h0 : k.cursorId = 0
  · have := this h0
    simp [h0]; cases wide <;> cases hasRowCnt k.status <;> simp <;> omega
  · simp [h0]; cases wide <;> cases hasRowCnt k.status <;> simp

theorem CurInfo.roundtrip (wide : Bool) (k : CurInfo) (rest : Bytes) (h : CurInfo.WF wide k) :
    CurInfo.dec wide (CurInfo.encBody wide k ++ rest) =
      .ok (CurInfo.norm wide k) (CurInfo.encBody wide k).length := by
  have htot := CurInfo.total_lt wide k h
  obtain ⟨hid, hn, hc, hs, hrn, htr, hrc⟩ := h
  have hs' : k.status < 256 ^ lw wide := by rw [lw_pos]; exact hs
  unfold CurInfo.dec CurInfo.encBody
  cases wide <;> cases hrcnt : hasRowCnt k.status
  all_goals
    rt_simp [htot, cursorRef_bind _ _ _ _ hid hn, hc, hs', hrn, htr, hrc, hrcnt, CurInfo.norm, encCursorRef_length]
    rw [guard_beq_bind]
    · rt_simp []
      all_goals (first | rfl | (congr 1; omega))
    · simp [CurInfo.total, lenCursorRef, lw, hrcnt]; omega

theorem CurInfo.bodySpec_layout (wide : Bool) (k : CurInfo) (rest : Bytes) (h : CurInfo.WF wide k) :
    CurInfo.bodySpec wide (CurInfo.layout wide k ++ rest) =
      .ok (CurInfo.norm wide k) (CurInfo.layout wide k).length := by
  obtain ⟨hid, hn, hc, hs, hrn, htr, hrc⟩ := h
  have hs' : k.status < 256 ^ lw wide := by rw [lw_pos]; exact hs
  have hc' : k.command < 256 ^ 1 := by simpa using hc
  unfold CurInfo.bodySpec CurInfo.layout int32
  rw [layoutRef_eq]
  cases wide <;> cases hrcnt : hasRowCnt k.status
  all_goals
    rt_simp [specRef_bind _ _ _ _ hid hn, hc', hs', hrn, htr, hrc, hrcnt, CurInfo.norm, encCursorRef_length]
  all_goals (first | rfl | (congr 1; omega) | skip)

theorem CurInfo.matches_spec (wide : Bool) (k : CurInfo) (rest : Bytes) (h : CurInfo.WF wide k) :
    CurInfo.decSpec wide (CurInfo.encBody wide k ++ rest) =
      .ok (CurInfo.norm wide k) (CurInfo.encBody wide k).length := by
  have hb := CurInfo.bodySpec_layout wide k [] h
  rw [List.append_nil] at hb
  have hl : (CurInfo.layout wide k).length < 256 ^ 2 := by
    rw [CurInfo.layout_length]; exact CurInfo.total_lt wide k h
  rw [CurInfo.length_fields]
  unfold CurInfo.decSpec frame
  rt_simp [hl, framed_exact _ _ _ _ hb]

/-- writer = layout encoder (CURINFO is what the server answers to cursor commands) -/
theorem CurInfo.enc_eq_encSpec (wide : Bool) (k : CurInfo) :
    CurInfo.enc wide k = .ok (CurInfo.encSpec wide k) := by
  rw [CurInfo.enc_ok, CurInfo.length_fields]
  unfold CurInfo.encSpec tokCurInfo tokCurInfo3
  rfl

/-- the Go reader decodes what a server laying the token out by the book sends -/
theorem CurInfo.dec_encSpec (wide : Bool) (k : CurInfo) (rest : Bytes) (h : CurInfo.WF wide k) :
    CurInfo.dec wide (frame 2 (CurInfo.layout wide k) ++ rest) =
      .ok (CurInfo.norm wide k) (frame 2 (CurInfo.layout wide k)).length := by
  rw [← CurInfo.length_fields]; exact CurInfo.roundtrip wide k rest h

/-! ## CUROPEN -/

structure CurOpen.WF (k : CurOpen) : Prop where
  id : isInt32 k.cursorId
  name : k.cursorId = 0 → k.name.length < 256
  status : k.status < 256

def CurOpen.norm (k : CurOpen) : CurOpen := { k with name := if k.cursorId = 0 then k.name else [] }

example : CurOpen.WF { cursorId := -5, name := [], status := 2 } := by constructor <;> decide

theorem CurOpen.enc_ok (k : CurOpen) : CurOpen.enc k = .ok (UInt8.ofNat tokCurOpen :: CurOpen.encBody k) := rfl

theorem CurOpen.layout_length (k : CurOpen) : (CurOpen.layout k).length = CurOpen.total k := by
  unfold CurOpen.layout CurOpen.total
  rw [layoutRef_eq]
  simp only [List.length_append, encCursorRef_length, lenCursorRef, leEncode_length]
  by_cases h0 : k.cursorId = 0 <;> simp [h0] <;> omega

theorem CurOpen.length_fields (k : CurOpen) : CurOpen.encBody k = frame 2 (CurOpen.layout k) := by
  unfold frame
  rw [CurOpen.layout_length]
  unfold CurOpen.encBody CurOpen.layout
  rw [layoutRef_eq]
  simp [List.append_assoc]

theorem CurOpen.total_lt (k : CurOpen) (h : CurOpen.WF k) : CurOpen.total k < 256 ^ 2 := by
  have := h.name
  unfold CurOpen.total
  by_cases h0 : k.cursorId = 0
  · have := this h0
    simp [h0]; omega
  · simp [h0]

theorem CurOpen.roundtrip (k : CurOpen) (rest : Bytes) (h : CurOpen.WF k) :
    CurOpen.dec (CurOpen.encBody k ++ rest) = .ok (CurOpen.norm k) (CurOpen.encBody k).length := by
  have htot := CurOpen.total_lt k h
  obtain ⟨hid, hn, hs⟩ := h
  have hg : (lenCursorRef k.cursorId k.name + 1 == CurOpen.total k) = true := by
    simp [CurOpen.total, lenCursorRef]; omega
  unfold CurOpen.dec CurOpen.encBody
  rt_simp [htot, cursorRef_bind _ _ _ _ hid hn, hs, guard_bind_true _ _ _ hg, CurOpen.norm, encCursorRef_length]

theorem CurOpen.bodySpec_layout (k : CurOpen) (rest : Bytes) (h : CurOpen.WF k) :
    CurOpen.bodySpec (CurOpen.layout k ++ rest) = .ok (CurOpen.norm k) (CurOpen.layout k).length := by
  obtain ⟨hid, hn, hs⟩ := h
  have hs' : k.status < 256 ^ 1 := by simpa using hs
  unfold CurOpen.bodySpec CurOpen.layout
  rw [layoutRef_eq]
  rt_simp [specRef_bind _ _ _ _ hid hn, hs', CurOpen.norm, encCursorRef_length]

theorem CurOpen.matches_spec (k : CurOpen) (rest : Bytes) (h : CurOpen.WF k) :
    CurOpen.decSpec (CurOpen.encBody k ++ rest) = .ok (CurOpen.norm k) (CurOpen.encBody k).length := by
  have hb := CurOpen.bodySpec_layout k [] h
  rw [List.append_nil] at hb
  have hl : (CurOpen.layout k).length < 256 ^ 2 := by
    rw [CurOpen.layout_length]; exact CurOpen.total_lt k h
  rw [CurOpen.length_fields]
  unfold CurOpen.decSpec frame
  rt_simp [hl, framed_exact _ _ _ _ hb]

/-! ## CURFETCH -/

structure CurFetch.WF (k : CurFetch) : Prop where
  id : isInt32 k.cursorId
  name : k.cursorId = 0 → k.name.length < 256
  type : k.type < 256
  rowNumber : isInt32 k.rowNumber

/-- a row number is only sent with TDS_CUR_ABS / TDS_CUR_REL -/
def CurFetch.norm (k : CurFetch) : CurFetch :=
  { k with name := if k.cursorId = 0 then k.name else [],
           rowNumber := if hasRowNumber k.type then k.rowNumber else 0 }

example : CurFetch.WF { cursorId := 0, name := [7], type := 5, rowNumber := -3 } := by
  constructor <;> decide

theorem CurFetch.enc_ok (k : CurFetch) : CurFetch.enc k = .ok (UInt8.ofNat tokCurFetch :: CurFetch.encBody k) := rfl

theorem CurFetch.layout_length (k : CurFetch) : (CurFetch.layout k).length = CurFetch.total k := by
  unfold CurFetch.layout CurFetch.total
  rw [layoutRef_eq]
  simp only [List.length_append, encCursorRef_length, lenCursorRef, leEncode_length]
  by_cases h0 : k.cursorId = 0 <;> cases hasRowNumber k.type <;> simp [h0, leEncodeInt_length] <;> omega

theorem CurFetch.length_fields (k : CurFetch) : CurFetch.encBody k = frame 2 (CurFetch.layout k) := by
  unfold frame
  rw [CurFetch.layout_length]
  unfold CurFetch.encBody CurFetch.layout
  rw [layoutRef_eq]
  simp [List.append_assoc]

theorem CurFetch.total_lt (k : CurFetch) (h : CurFetch.WF k) : CurFetch.total k < 256 ^ 2 := by
  have := h.name
  unfold CurFetch.total
  by_cases h0 : k.cursorId = 0
  · have := this h0
    simp [h0]; cases hasRowNumber k.type <;> simp <;> omega
  · simp [h0]; cases hasRowNumber k.type <;> simp

theorem CurFetch.roundtrip (k : CurFetch) (rest : Bytes) (h : CurFetch.WF k) :
    CurFetch.dec (CurFetch.encBody k ++ rest) = .ok (CurFetch.norm k) (CurFetch.encBody k).length := by
  have htot := CurFetch.total_lt k h
  obtain ⟨hid, hn, ht, hrn⟩ := h
  unfold CurFetch.dec CurFetch.encBody
  cases hr : hasRowNumber k.type
  all_goals
    rt_simp [htot, cursorRef_bind _ _ _ _ hid hn, ht, hrn, hr, CurFetch.norm, encCursorRef_length]
    rw [guard_beq_bind]
    · rt_simp []
      all_goals (first | rfl | (congr 1; omega))
    · simp [CurFetch.total, lenCursorRef, hr]; omega

theorem CurFetch.bodySpec_layout (k : CurFetch) (rest : Bytes) (h : CurFetch.WF k) :
    CurFetch.bodySpec (CurFetch.layout k ++ rest) = .ok (CurFetch.norm k) (CurFetch.layout k).length := by
  obtain ⟨hid, hn, ht, hrn⟩ := h
  have ht' : k.type < 256 ^ 1 := by simpa using ht
  unfold CurFetch.bodySpec CurFetch.layout int32
  rw [layoutRef_eq]
  cases hr : hasRowNumber k.type
  all_goals
    rt_simp [specRef_bind _ _ _ _ hid hn, ht', hrn, hr, CurFetch.norm, encCursorRef_length]
  all_goals (first | rfl | (congr 1; omega) | skip)

theorem CurFetch.matches_spec (k : CurFetch) (rest : Bytes) (h : CurFetch.WF k) :
    CurFetch.decSpec (CurFetch.encBody k ++ rest) = .ok (CurFetch.norm k) (CurFetch.encBody k).length := by
  have hb := CurFetch.bodySpec_layout k [] h
  rw [List.append_nil] at hb
  have hl : (CurFetch.layout k).length < 256 ^ 2 := by
    rw [CurFetch.layout_length]; exact CurFetch.total_lt k h
  rw [CurFetch.length_fields]
  unfold CurFetch.decSpec frame
  rt_simp [hl, framed_exact _ _ _ _ hb]

/-! ## CURUPDATE -/

structure CurUpdate.WF (k : CurUpdate) : Prop where
  id : isInt32 k.cursorId
  name : k.cursorId = 0 → k.name.length < 256
  status : k.status < 256
  table : k.tableName.length < 256
  total : CurUpdate.total k < 65536

def CurUpdate.norm (k : CurUpdate) : CurUpdate := { k with name := if k.cursorId = 0 then k.name else [] }

example : CurUpdate.WF { cursorId := 0, name := [1], status := 1, tableName := [2], stmt := [3, 4] } := by
  constructor <;> decide
example : CurUpdate.WF { cursorId := 1, name := [], status := 0, tableName := [116], stmt := [] } := by
  constructor <;> decide

theorem CurUpdate.enc_ok (k : CurUpdate) :
    CurUpdate.enc k = .ok (UInt8.ofNat tokCurUpdate :: CurUpdate.encBody k) := rfl

theorem CurUpdate.layout_length (k : CurUpdate) : (CurUpdate.layout k).length = CurUpdate.total k := by
  unfold CurUpdate.layout CurUpdate.total lstr
  rw [layoutRef_eq]
  simp only [List.length_append, encCursorRef_length, lenCursorRef, leEncode_length]
  cases hq : k.stmt <;> by_cases h0 : k.cursorId = 0 <;> simp [h0, leEncode_length] <;> omega

/-- the writer's bytes are a well-formed token: the declared length is right also when the
statement block is omitted -/
theorem CurUpdate.length_fields (k : CurUpdate) : CurUpdate.encBody k = frame 2 (CurUpdate.layout k) := by
  unfold frame
  rw [CurUpdate.layout_length]
  unfold CurUpdate.encBody CurUpdate.layout lstr
  rw [layoutRef_eq]
  cases hq : k.stmt <;> simp [List.append_assoc]

theorem CurUpdate.roundtrip (k : CurUpdate) (rest : Bytes) (h : CurUpdate.WF k) :
    CurUpdate.dec (CurUpdate.encBody k ++ rest) = .ok (CurUpdate.norm k) (CurUpdate.encBody k).length := by
  obtain ⟨hid, hn, hs, ht, htot⟩ := h
  have htot' : CurUpdate.total k < 256 ^ 2 := by simpa using htot
  unfold CurUpdate.dec CurUpdate.encBody
  by_cases hpos : k.stmt.length > 0
  · have hq : k.stmt.length < 256 ^ 2 := by
      unfold CurUpdate.total at htot; simp [hpos] at htot ⊢; omega
    have hlt : lenCursorRef k.cursorId k.name + 1 + 1 + k.tableName.length < CurUpdate.total k := by
      simp [CurUpdate.total, lenCursorRef, hpos]; omega
    rt_simp [htot', cursorRef_bind _ _ _ _ hid hn, hs, ht, hpos, hq, hlt, CurUpdate.norm, encCursorRef_length]
    rw [guard_beq_bind]
    · rt_simp []
      all_goals (first | rfl | (congr 1; omega))
    · simp [CurUpdate.total, lenCursorRef, hpos]; omega
  · have he : k.stmt = [] := List.eq_nil_of_length_eq_zero (by omega)
    have hlt : ¬ lenCursorRef k.cursorId k.name + 1 + 1 + k.tableName.length < CurUpdate.total k := by
      simp [CurUpdate.total, lenCursorRef, he]; omega
    rt_simp [htot', cursorRef_bind _ _ _ _ hid hn, hs, ht, hpos, hlt, CurUpdate.norm, encCursorRef_length]
    rw [guard_beq_bind]
    · rt_simp [he]
      all_goals (first | rfl | (congr 1; omega))
    · simp [CurUpdate.total, lenCursorRef, he]; omega

theorem CurUpdate.bodySpec_layout (k : CurUpdate) (h : CurUpdate.WF k) :
    CurUpdate.bodySpec (CurUpdate.layout k ++ []) = .ok (CurUpdate.norm k) (CurUpdate.layout k).length := by
  obtain ⟨hid, hn, hs, ht, htot⟩ := h
  have hs' : k.status < 256 ^ 1 := by simpa using hs
  have ht' : k.tableName.length < 256 ^ 1 := by simpa using ht
  unfold CurUpdate.bodySpec CurUpdate.layout lstr
  rw [layoutRef_eq]
  cases hq : k.stmt with
  | nil =>
    rt_simp [specRef_bind _ _ _ _ hid hn, hs', plstr_bind _ _ _ _ ht', atEnd_bind_nil, CurUpdate.norm,
      encCursorRef_length, hq]
  | cons b bs =>
    have hl : (b :: bs).length < 256 ^ 2 := by
      unfold CurUpdate.total at htot; simp [hq] at htot ⊢; omega
    have hl' : bs.length + 1 < 256 ^ 2 := by simpa using hl
    have hp := fun (rest : Bytes) (f : Bytes → P CurUpdate) => plstr_bind 2 (b :: bs) rest f hl
    simp only [List.length_cons] at hp
    rt_simp [specRef_bind _ _ _ _ hid hn, hs', plstr_bind _ _ _ _ ht', CurUpdate.norm,
      encCursorRef_length, hq, reduceCtorEq, atEnd_bind_leEncode2, hp]
    all_goals (first | rfl | (congr 1; omega))

/-- the independent layout decoder accepts the writer's bytes for every statement, the empty one
included -/
theorem CurUpdate.matches_spec (k : CurUpdate) (rest : Bytes) (h : CurUpdate.WF k) :
    CurUpdate.decSpec (CurUpdate.encBody k ++ rest) = .ok (CurUpdate.norm k) (CurUpdate.encBody k).length := by
  have hb := CurUpdate.bodySpec_layout k h
  rw [List.append_nil] at hb
  have hl : (CurUpdate.layout k).length < 256 ^ 2 := by
    rw [CurUpdate.layout_length]; simpa using h.total
  rw [CurUpdate.length_fields]
  unfold CurUpdate.decSpec frame
  rt_simp [hl, framed_exact _ _ _ _ hb]

/-! ## CURDELETE -/

structure CurDelete.WF (k : CurDelete) : Prop where
  id : isInt32 k.cursorId
  name : k.cursorId = 0 → k.name.length < 256
  status : k.status < 256
  table : k.tableName.length < 256

def CurDelete.norm (k : CurDelete) : CurDelete := { k with name := if k.cursorId = 0 then k.name else [] }

example : CurDelete.WF { cursorId := 9, name := [], status := 0, tableName := [1, 2] } := by
  constructor <;> decide

theorem CurDelete.enc_ok (k : CurDelete) :
    CurDelete.enc k = .ok (UInt8.ofNat tokCurDelete :: CurDelete.encBody k) := rfl

theorem CurDelete.layout_length (k : CurDelete) : (CurDelete.layout k).length = CurDelete.total k := by
  unfold CurDelete.layout CurDelete.total lstr
  rw [layoutRef_eq]
  simp only [List.length_append, encCursorRef_length, lenCursorRef, leEncode_length]
  by_cases h0 : k.cursorId = 0 <;> simp [h0] <;> omega

theorem CurDelete.length_fields (k : CurDelete) : CurDelete.encBody k = frame 2 (CurDelete.layout k) := by
  unfold frame
  rw [CurDelete.layout_length]
  unfold CurDelete.encBody CurDelete.layout lstr
  rw [layoutRef_eq]
  simp [List.append_assoc]

theorem CurDelete.total_lt (k : CurDelete) (h : CurDelete.WF k) : CurDelete.total k < 256 ^ 2 := by
  have := h.name
  have := h.table
  unfold CurDelete.total
  by_cases h0 : k.cursorId = 0
  · have := h.name h0
    simp [h0]; omega
  · simp [h0]; omega

theorem CurDelete.roundtrip (k : CurDelete) (rest : Bytes) (h : CurDelete.WF k) :
    CurDelete.dec (CurDelete.encBody k ++ rest) = .ok (CurDelete.norm k) (CurDelete.encBody k).length := by
  have htot := CurDelete.total_lt k h
  obtain ⟨hid, hn, hs, ht⟩ := h
  have hg : (lenCursorRef k.cursorId k.name + 1 + 1 + k.tableName.length == CurDelete.total k) = true := by
    simp [CurDelete.total, lenCursorRef]; omega
  unfold CurDelete.dec CurDelete.encBody
  rt_simp [htot, cursorRef_bind _ _ _ _ hid hn, hs, ht, guard_bind_true _ _ _ hg, CurDelete.norm,
    encCursorRef_length]

theorem CurDelete.bodySpec_layout (k : CurDelete) (rest : Bytes) (h : CurDelete.WF k) :
    CurDelete.bodySpec (CurDelete.layout k ++ rest) = .ok (CurDelete.norm k) (CurDelete.layout k).length := by
  obtain ⟨hid, hn, hs, ht⟩ := h
  have hs' : k.status < 256 ^ 1 := by simpa using hs
  have ht' : k.tableName.length < 256 ^ 1 := by simpa using ht
  unfold CurDelete.bodySpec CurDelete.layout lstr
  rw [layoutRef_eq]
  rt_simp [specRef_bind _ _ _ _ hid hn, hs', plstr_bind _ _ _ _ ht', CurDelete.norm, encCursorRef_length]

theorem CurDelete.matches_spec (k : CurDelete) (rest : Bytes) (h : CurDelete.WF k) :
    CurDelete.decSpec (CurDelete.encBody k ++ rest) = .ok (CurDelete.norm k) (CurDelete.encBody k).length := by
  have hb := CurDelete.bodySpec_layout k [] h
  rw [List.append_nil] at hb
  have hl : (CurDelete.layout k).length < 256 ^ 2 := by
    rw [CurDelete.layout_length]; exact CurDelete.total_lt k h
  rw [CurDelete.length_fields]
  unfold CurDelete.decSpec frame
  rt_simp [hl, framed_exact _ _ _ _ hb]

end Dblib.Props.C06.Cursor
