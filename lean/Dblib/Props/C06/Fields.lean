/-
C06 for the Fields codec group (Model/Codec/Fields*.lean, Model/Codec/FieldsSpec.lean).

Formats (all statements for all lists of descriptions, all field values, all trailing bytes `rest`):
* `Fmt.WF names wide f`  the width constraints of one description (a name under a 1-byte prefix is
  < 256 bytes, the status fits its 1 / 4 bytes, `int32` user type, the maximum length fits the
  `Length` member of the data type's TDS shape, …; BLOB excluded: counterexamples below);
  `Fmt.norm names f` what a reader that knows the data type reconstructs (members the shape does not
  have are zero, a fixed-length type has its size as maximum length) — both in Lemmas/CodecFieldsRt.lean.
* `ParamFmt.dec_encSpec` / `RowFmt.dec_encSpec`  the Go readers decode what a server laying the
  token out by the book sends (PARAMFMT/2 and ROWFMT/2; the narrow ROWFMT since /repo 9daa22d).
* `ParamFmt.enc_eq_encSpec`  the Go writer produces exactly the TDS layout; hence
  `ParamFmt.roundtrip` (reader ∘ writer) and `ParamFmt.length_fields` (every length / count member
  written equals the size / number of what follows it).
* `FmtPkg.decSpec_encSpec`, `ParamFmt.matches_spec`  the independent length-delimited decoder accepts the
  layout, hence the writer's bytes (client-sent leg).
* BLOB — known finding `blob-not-functional`: `ParamFmt.blob_roundtrip_counterexample` (the reader rejects
  what the writer wrote: per-field byte count), `ParamFmt.blob_enc_counterexample`,
  `ParamFmt.blob_spec_counterexample`, `RowFmt.blob_spec_counterexample` (a BLOB description laid out by the
  book is misread: `readLengthBytes(ch, -1)` consumes a byte), `Row.blob_roundtrip_counterexample` (the data
  reader drops the last chunk), `Row.blob_enc_panic_counterexample` (the data writer panics above 1024 bytes
  unless the length is a multiple of 1024).

Data (ROW / PARAMS):
* `Row.dec_layout`  for every list of formats and raw data laid out by the book, the Go reader
  returns, per column, `GoValue` of exactly the raw bytes (precision / scale of the format put into a
  decimal), status, text pointer, timestamp — and consumes exactly the layout (server-sent leg, ROW and
  PARAMS).
* `Row.enc_layout`  the Go writer's output for a list of values is the layout of the bytes
  `DataType.Bytes` produced (`length_fields`: the length member is the length of these bytes).
* `params_roundtrip`  the package leg of C04.
* `Row.decSpec_layout` the independent decoder cuts the layout into the same raw data.

ORDERBY / ORDERBY2: `dec_encSpec`.
-/
import Dblib.Lemmas.CodecFieldsRow

set_option linter.unusedSimpArgs false

namespace Dblib.Props.C06.Fields
open Dblib Dblib.P Dblib.Codec Dblib.Codec.Fields Dblib.CodecCursor Dblib.CodecFields
open Dblib.Codec.Cursor (lstr frame plstr framed isInt32)

/-! ## format packages -/

/-- the width constraints of a format package -/
structure FmtPkg.WF (row wide : Bool) (fs : List Fmt) : Prop where
  fields : ∀ f ∈ fs, Fmt.WF (row && wide) wide f
  count : fs.length < 65536
  total : (fmtsLayout row wide fs).length < 256 ^ lw wide

example : FmtPkg.WF true true
    [{ name := [0x61], status := 0x10, userType := 7, dataType := 0x26, maxLength := 4, precision := 0, scale := 0,
       blobType := 0, classId := [], tableName := [], locale := [], label := [0x62], catalogue := [], schema := [],
       table := [0x74] }] := by
  refine ⟨?_, by decide, by decide⟩
  intro f hf
  simp only [List.mem_singleton] at hf
  subst hf
  exact ⟨by decide, by decide, by decide, ⟨.len1, by decide, by decide, by decide⟩, by decide, by decide, by decide,
    by decide, by decide, by decide, by decide, by decide⟩

theorem fmtsLayout_length (row wide : Bool) (fs : List Fmt) :
    (fmtsLayout row wide fs).length = 2 + ((fs.map (Fmt.layout (row && wide) wide)).flatten).length := by
  simp [fmtsLayout, leEncode_length]

theorem encSpecBody_eq (row wide : Bool) (fs : List Fmt) :
    FmtPkg.encSpecBody row wide fs =
      leEncode (lw wide) (2 + ((fs.map (Fmt.layout (row && wide) wide)).flatten).length) ++
        (leEncode 2 fs.length ++ (fs.map (Fmt.layout (row && wide) wide)).flatten) := by
  simp [FmtPkg.encSpecBody, frame, fmtsLayout, leEncode_length]

/-- **ROWFMT / ROWFMT2**: the Go reader decodes the TDS layout (2-byte length and 1-byte status for
the narrow token, 4-byte length, 4-byte status and the four extra names for ROWFMT2) -/
theorem RowFmt.dec_encSpec (wide : Bool) (fs : List Fmt) (rest : Bytes) (h : FmtPkg.WF true wide fs) :
    RowFmt.dec wide (FmtPkg.encSpecBody true wide fs ++ rest) =
      .ok (fs.map (Fmt.norm wide)) (FmtPkg.encSpecBody true wide fs).length := by
  obtain ⟨hf, hc, ht⟩ := h
  have hc' : fs.length < 256 ^ 2 := by simpa using hc
  rw [fmtsLayout_length] at ht
  simp only [Bool.true_and] at hf ht
  have hfield : ∀ f ∈ fs, ∀ (β' : Type) (g : Fmt × Int → P β') (r : Bytes),
      (RowFmt.field wide >>= g) (Fmt.layout wide wide f ++ r) =
        shift (Fmt.layout wide wide f).length (g (Fmt.norm wide f, ((Fmt.layout wide wide f).length : Int)) r) :=
    fun f hfm β' g r => readFromField_layout wide wide f r g (hf f hfm)
  have hrep := fun (g : List (Fmt × Int) → P (List Fmt)) r =>
    replicateM_layout (RowFmt.field wide) (Fmt.layout wide wide)
      (fun f => (Fmt.norm wide f, ((Fmt.layout wide wide f).length : Int))) fs hfield g r
  have hsum : (2 + sumInt (List.map (fun x => ((Fmt.layout wide wide x).length : Int)) fs) ==
        ((2 + ((fs.map (Fmt.layout wide wide)).flatten).length : Nat) : Int)) = true := by
    rw [sumInt_lengths (Fmt.layout wide wide) fs]; simp
  rw [encSpecBody_eq]
  simp only [Bool.true_and]
  unfold RowFmt.dec
  rt_simp [ht, hc', hrep, List.map_map, Function.comp_def]
  rt_simp [guard_bind_true _ _ _ hsum]

/-- the column used in the examples -/
def int4Column : Fmt :=
  { name := [0x61], status := 0, userType := 0, dataType := 0x38, maxLength := 4, precision := 0, scale := 0,
    blobType := 0, classId := [], tableName := [], locale := [], label := [], catalogue := [], schema := [],
    table := [] }

/-- non-vacuity for the narrow token (the former counterexample: before /repo 9daa22d the reader took a
4-byte length for ROWFMT too and this package was misread) -/
example : FmtPkg.WF true false [int4Column] ∧
    RowFmt.dec false (FmtPkg.encSpecBody true false [int4Column]) = .ok [int4Column] 13 := by
  refine ⟨⟨?_, by decide, by decide⟩, by decide⟩
  intro f hf
  simp only [List.mem_singleton] at hf
  subst hf
  exact ⟨by decide, by decide, by decide, ⟨.fixed 4, by decide, by decide, by decide⟩, by decide, by decide, by decide,
    by decide, by decide, by decide, by decide, by decide⟩

/-! ### PARAMFMT / PARAMFMT2 -/

theorem wf_shapes {row wide : Bool} {fs : List Fmt} (h : FmtPkg.WF row wide fs) :
    ∀ f ∈ fs, ∃ sh, shape f.dataType = some sh ∧ sh ≠ .blob := by
  intro f hf
  obtain ⟨sh, hsh, hnb, _⟩ := (h.fields f hf).shape
  exact ⟨sh, hsh, hnb⟩

/-- **PARAMFMT / PARAMFMT2, server-sent leg**: the Go reader decodes the TDS layout -/
theorem ParamFmt.dec_encSpec (wide : Bool) (fs : List Fmt) (rest : Bytes) (h : FmtPkg.WF false wide fs) :
    ParamFmt.dec wide (FmtPkg.encSpecBody false wide fs ++ rest) =
      .ok (fs.map (Fmt.norm false)) (FmtPkg.encSpecBody false wide fs).length := by
  obtain ⟨hf, hc, ht⟩ := h
  have hc' : fs.length < 256 ^ 2 := by simpa using hc
  rw [fmtsLayout_length] at ht
  simp only [Bool.false_and] at hf ht
  have hfield : ∀ f ∈ fs, ∀ (β' : Type) (g : Fmt × Int → P β') (r : Bytes),
      (ParamFmt.field wide >>= g) (Fmt.layout false wide f ++ r) =
        shift (Fmt.layout false wide f).length (g (Fmt.norm false f, ((Fmt.layout false wide f).length : Int)) r) :=
    fun f hfm β' g r => paramField_layout wide f r g (hf f hfm)
  have hrep := fun (g : List (Fmt × Int) → P (List Fmt)) r =>
    replicateM_layout (ParamFmt.field wide) (Fmt.layout false wide)
      (fun f => (Fmt.norm false f, ((Fmt.layout false wide f).length : Int))) fs hfield g r
  have hsum : (!decide (2 + sumInt (List.map (fun x => ((Fmt.layout false wide x).length : Int)) fs) >
        ((2 + ((fs.map (Fmt.layout false wide)).flatten).length : Nat) : Int))) = true := by
    rw [sumInt_lengths (Fmt.layout false wide) fs]; simp
  rw [encSpecBody_eq]
  simp only [Bool.false_and]
  unfold ParamFmt.dec
  rt_simp [ht, hc', hrep, List.map_map, Function.comp_def]
  rt_simp [guard_bind_true _ _ _ hsum]

/-- **the Go writer produces the TDS layout** (and does not fail) -/
theorem ParamFmt.enc_eq_encSpec (wide : Bool) (fs : List Fmt) (h : FmtPkg.WF false wide fs) :
    ParamFmt.enc wide fs = .ok (FmtPkg.encSpec false wide fs) := by
  have hsh := wf_shapes h
  have ht := h.total
  rw [fmtsLayout_length] at ht
  simp only [Bool.false_and] at ht
  unfold ParamFmt.enc ParamFmt.written ParamFmt.encBody FmtPkg.encSpec
  rw [fieldsEnc_eq wide fs hsh, total_eq wide fs hsh, encSpecBody_eq]
  simp only [Bool.false_and]
  rw [leEncodeInt_ofNat _ _ ht]
  have : ¬ ((2 : Int) + (((fs.map (Fmt.layout false wide)).flatten).length : Int) >
      ((2 + ((fs.map (Fmt.layout false wide)).flatten).length : Nat) : Int)) := by
    simp
  simp only [this, if_false]
  cases wide <;> simp [fmtToken, tokParamFmt, tokParamFmt2]

/-- the bytes after the token, as written by the Go writer -/
theorem ParamFmt.encBody_eq (wide : Bool) (fs : List Fmt) (h : FmtPkg.WF false wide fs) :
    ParamFmt.encBody wide fs = FmtPkg.encSpecBody false wide fs := by
  have hsh := wf_shapes h
  have ht := h.total
  rw [fmtsLayout_length] at ht
  simp only [Bool.false_and] at ht
  unfold ParamFmt.encBody
  rw [fieldsEnc_eq wide fs hsh, total_eq wide fs hsh, encSpecBody_eq]
  simp only [Bool.false_and]
  rw [leEncodeInt_ofNat _ _ ht, List.append_assoc]

/-- **length fields**: the announced length is the number of bytes that follow it, the count is the
number of descriptions, every string length prefix is the length of the string after it
(`fmtsLayout` computes all of them from the data) -/
theorem ParamFmt.length_fields (wide : Bool) (fs : List Fmt) (h : FmtPkg.WF false wide fs) :
    ParamFmt.encBody wide fs = frame (lw wide) (fmtsLayout false wide fs) :=
  ParamFmt.encBody_eq wide fs h

/-- **round trip**: the Go reader reads back what the Go writer wrote and consumes exactly that -/
theorem ParamFmt.roundtrip (wide : Bool) (fs : List Fmt) (rest : Bytes) (h : FmtPkg.WF false wide fs) :
    ParamFmt.dec wide (ParamFmt.encBody wide fs ++ rest) =
      .ok (fs.map (Fmt.norm false)) (ParamFmt.encBody wide fs).length := by
  rw [ParamFmt.encBody_eq wide fs h]; exact ParamFmt.dec_encSpec wide fs rest h

/-! ### the independent decoder -/

/-- the length-delimited layout decoder reads the layout of a format package back -/
theorem FmtPkg.decSpec_encSpec (row wide : Bool) (fs : List Fmt) (rest : Bytes) (h : FmtPkg.WF row wide fs) :
    FmtPkg.decSpec row wide (FmtPkg.encSpecBody row wide fs ++ rest) =
      .ok (fs.map (Fmt.norm (row && wide))) (FmtPkg.encSpecBody row wide fs).length := by
  obtain ⟨hf, hc, ht⟩ := h
  have hc' : fs.length < 256 ^ 2 := by simpa using hc
  have hfield : ∀ f ∈ fs, ∀ (β' : Type) (g : Fmt → P β') (r : Bytes),
      (specField (row && wide) wide >>= g) (Fmt.layout (row && wide) wide f ++ r) =
        shift (Fmt.layout (row && wide) wide f).length (g (Fmt.norm (row && wide) f) r) :=
    fun f hfm β' g r => specField_layout (row && wide) wide f r g (hf f hfm)
  have hrep := replicateM_layout (specField (row && wide) wide) (Fmt.layout (row && wide) wide)
      (Fmt.norm (row && wide)) fs hfield (fun as => (Pure.pure as : P (List Fmt))) []
  have hbody : fmtsBodySpec row wide (fmtsLayout row wide fs) =
      .ok (fs.map (Fmt.norm (row && wide))) (fmtsLayout row wide fs).length := by
    unfold fmtsBodySpec fmtsLayout
    simp only [List.append_nil] at hrep
    have hb : ∀ s, (replicateM fs.length (specField (row && wide) wide) >>= fun as => (Pure.pure as : P (List Fmt))) s =
        replicateM fs.length (specField (row && wide) wide) s := by
      intro s
      simp only [Bind.bind, P.bind]
      cases replicateM fs.length (specField (row && wide) wide) s <;> simp [Pure.pure, P.pure]
    rw [hb] at hrep
    have := uintLE_bind 2 fs.length ((fs.map (Fmt.layout (row && wide) wide)).flatten)
      (fun n => replicateM n (specField (row && wide) wide)) hc'
    rw [this, hrep]
    simp [pure_apply, leEncode_length]
  unfold FmtPkg.decSpec FmtPkg.encSpecBody frame
  rt_simp [ht, framed_exact _ _ _ _ hbody]

/-- **client-sent leg**: the independent decoder accepts what the Go writer wrote -/
theorem ParamFmt.matches_spec (wide : Bool) (fs : List Fmt) (rest : Bytes) (h : FmtPkg.WF false wide fs) :
    FmtPkg.decSpec false wide (ParamFmt.encBody wide fs ++ rest) =
      .ok (fs.map (Fmt.norm false)) (ParamFmt.encBody wide fs).length := by
  rw [ParamFmt.encBody_eq wide fs h]
  have := FmtPkg.decSpec_encSpec false wide fs rest h
  simpa using this

/-! ### BLOB descriptions: counterexamples — the Lean side of the known finding `blob-not-functional`

BLOB (data type 0x24) support of /repo is not functional as a whole and stays unrepaired (the correct
wire layout cannot be established offline): the format accounting below, and for the data the reader
that drops the last chunk and the writer that panics above 1024 bytes (`blobChunks`, `encBlobChunks` of
Model/Codec/FieldsRow.lean, tied to the code by the harness). The harness files every failing case
that involves a BLOB column under that one finding (`ffIsBlobCase`, go/cmd/harness/codec_fields.go).

A BLOB description is excluded from `Fmt.WF` because every statement above fails for it: BLOB is
in neither `ByteSizes` nor `LengthBytes`, so `LengthBytes()` is -1; `readFromBase` / `writeToBase`
move one byte (the `default:` arm of `readLengthBytes` / `writeLengthBytes`) that the TDS layout
does not have, and report -1 bytes. -/

def blobColumn (bt : Nat) (ci : Bytes) : Fmt :=
  { name := [0x62], status := 0, userType := 0, dataType := 0x24, maxLength := 0, precision := 0, scale := 0,
    blobType := bt, classId := ci, tableName := [], locale := [], label := [], catalogue := [], schema := [],
    table := [] }

/-- known finding `blob-not-functional`: the PARAMFMT reader rejects what the PARAMFMT writer wrote for a
BLOB column (blob type 4, no class id): the per-field check compares the reader's count 0 with
`FormatByteLength() = 1` -/
theorem ParamFmt.blob_roundtrip_counterexample :
    ParamFmt.enc false [blobColumn 4 []] = .ok (0xEC :: ParamFmt.encBody false [blobColumn 4 []]) ∧
    ParamFmt.dec false (ParamFmt.encBody false [blobColumn 4 []]) = .err 15 := by decide

/-- known finding `blob-not-functional`: with a class id (blob types 1, 2) the writer itself fails — after
having written the package: it counted more bytes than it announced -/
theorem ParamFmt.blob_enc_counterexample : ParamFmt.enc false [blobColumn 1 [0x63]] = .err := by decide

/-- known finding `blob-not-functional`: a BLOB description laid out by the book is misread by both format
readers (the blob type is taken for the length byte, …) -/
theorem ParamFmt.blob_spec_counterexample :
    ParamFmt.dec false (FmtPkg.encSpecBody false false [blobColumn 4 []]) = .notEnough ∧
    ParamFmt.dec true (FmtPkg.encSpecBody false true [blobColumn 4 []]) = .notEnough := by decide

/-- known finding `blob-not-functional`: the same for ROWFMT2 and ROWFMT -/
theorem RowFmt.blob_spec_counterexample :
    RowFmt.dec true (FmtPkg.encSpecBody true true [blobColumn 4 []]) = .notEnough ∧
    RowFmt.dec true (FmtPkg.encSpecBody true true [blobColumn 1 [0x63]]) = .notEnough ∧
    RowFmt.dec false (FmtPkg.encSpecBody true false [blobColumn 4 []]) = .notEnough := by decide

/-- known finding `blob-not-functional`, data: the reader drops the last chunk of what the writer wrote — the
5 data bytes are neither returned nor consumed (they are taken for the next column / package) -/
theorem Row.blob_roundtrip_counterexample :
    Row.enc true [blobColumn 4 []] [.blob 0 2 [] [] [1, 2, 3, 4, 5]] =
      .ok [0xD1, 0, 5, 0, 0, 0x80, 1, 2, 3, 4, 5] ∧
    Row.dec [blobColumn 4 []] [0, 5, 0, 0, 0x80, 1, 2, 3, 4, 5] = .ok [.blob 0 2 [] [] []] 5 := by decide

/-- known finding `blob-not-functional`, data: the writer panics (slice bounds) on every value longer than
1024 bytes whose length is not a multiple of 1024 -/
theorem Row.blob_enc_panic_counterexample (data : Bytes) (h1 : 1024 < data.length) (h2 : data.length % 1024 ≠ 0) :
    Row.enc true [blobColumn 4 []] [.blob 0 2 [] [] data] = .panic := by
  have hcls : (blobColumn 4 []).cls = some .blob := by decide
  have hc : encBlobChunks data = none := by
    unfold encBlobChunks
    simp [Nat.not_le.mpr h1, h2]
  simp [Row.enc, Row.encFields, encData, hcls, hc]

example : ∃ data : Bytes, 1024 < data.length ∧ data.length % 1024 ≠ 0 :=
  ⟨List.replicate 1025 0, by rw [List.length_replicate]; omega, by rw [List.length_replicate]; omega⟩

/-! ## ROW / PARAMS -/

/-- **server-sent leg** (ROW and PARAMS): for every list of formats, a row laid out by the book —
every datum fitting its column (`RawDatum.WF`) — is decoded to `GoValue` of exactly the raw bytes of
every column (`datumResult`), and exactly the layout is consumed -/
theorem Row.dec_encSpec (fmts : List Fmt) (raws : List RawDatum) (rs : List Data) (rest : Bytes)
    (h : All3 DatumReads fmts raws rs) :
    Row.dec fmts (rowLayout fmts raws ++ rest) = .ok rs (rowLayout fmts raws).length := by
  have := rowDec_layout fmts raws rs h rest (fun as => (Pure.pure as : P (List Data)))
  have hb : (Row.dec fmts >>= fun as => (Pure.pure as : P (List Data))) (rowLayout fmts raws ++ rest) =
      Row.dec fmts (rowLayout fmts raws ++ rest) := by
    simp only [Bind.bind, P.bind]
    cases Row.dec fmts (rowLayout fmts raws ++ rest) <;> simp [Pure.pure, P.pure]
  rw [hb] at this
  rw [this]; simp [pure_apply]

example : All3 DatumReads [int4Column] [{ status := 0, raw := [1, 0, 0, 0] }] [.base 0 (.i32 1)] := by
  have hsh : shape int4Column.dataType = some (.fixed 4) := by decide
  refine ⟨⟨⟨by decide, ?_⟩, by decide⟩, trivial⟩
  rw [hsh]
  rfl

/-- **the Go writer produces the TDS layout** of the bytes `DataType.Bytes` returns for every value
(`datumRaw`): in particular every length member is the length of the bytes that follow it
(`length_fields`; `datumLayout` computes it from the bytes) -/
theorem Row.enc_eq_encSpec (row : Bool) (fmts : List Fmt) (ds : List Data) (raws : List RawDatum)
    (h : All3 (fun f d r => datumRaw f d = some r) fmts ds raws) :
    Row.enc row fmts ds = .ok (Row.encSpec row fmts raws) := by
  unfold Row.enc Row.encSpec
  rw [rowEnc_layout fmts ds raws h]
  cases row <;> simp [tokRow, tokParams]

/-- **package leg of C04**: for every list of formats and every list of field values that
`DataType.Bytes` encodes for those formats (to bytes that fit their columns), decoding the PARAMS
package the Go writer produces, after its PARAMFMT, gives per column `GoValue` of exactly the bytes
`Bytes` produced (`rs`), consuming exactly what was written -/
theorem params_roundtrip (fmts : List Fmt) (ds : List Data) (raws : List RawDatum) (rs : List Data) (rest : Bytes)
    (henc : All3 (fun f d r => datumRaw f d = some r) fmts ds raws)
    (hdec : All3 DatumReads fmts raws rs) :
    Row.enc false fmts ds = .ok (UInt8.ofNat tokParams :: rowLayout fmts raws) ∧
      Row.dec fmts (rowLayout fmts raws ++ rest) = .ok rs (rowLayout fmts raws).length := by
  refine ⟨?_, Row.dec_encSpec fmts raws rs rest hdec⟩
  rw [Row.enc_eq_encSpec false fmts ds raws henc]
  rfl

/-- a datum that survives the trip: `Bytes` encodes it, the bytes fit the column, and `GoValue` of
these bytes (with precision / scale of the format for a decimal) is the datum again -/
def DatumRoundTrips (f : Fmt) (d : Data) : Prop :=
  ∃ r, datumRaw f d = some r ∧ RawDatum.WF f r ∧ datumResult f r = some d

theorem all3_of_roundTrips (fmts : List Fmt) (ds : List Data) (h : All2 DatumRoundTrips fmts ds) :
    ∃ raws, All3 (fun f d r => datumRaw f d = some r) fmts ds raws ∧ All3 DatumReads fmts raws ds := by
  induction fmts generalizing ds with
  | nil =>
    cases ds with
    | nil => exact ⟨[], trivial, trivial⟩
    | cons d ds => simp only [All2] at h
  | cons f fs ih =>
    cases ds with
    | nil => simp only [All2] at h
    | cons d ds =>
      simp only [All2] at h
      obtain ⟨⟨r, h1, h2, h3⟩, hrest⟩ := h
      obtain ⟨raws, ha, hb⟩ := ih ds hrest
      exact ⟨r :: raws, ⟨h1, ha⟩, ⟨⟨h2, h3⟩, hb⟩⟩

/-- **package leg of C04, value form**: if every value makes the value-level round trip (the
conclusion of Props/C04 for its data type: `DatumRoundTrips`, see `datumRoundTrips_of_value`), the
PARAMS package makes the package-level round trip: the reader returns the same values -/
theorem params_roundtrip_values (fmts : List Fmt) (ds : List Data) (rest : Bytes)
    (h : All2 DatumRoundTrips fmts ds) :
    ∃ body, Row.enc false fmts ds = .ok (UInt8.ofNat tokParams :: body) ∧
      Row.dec fmts (body ++ rest) = .ok ds body.length := by
  obtain ⟨raws, ha, hb⟩ := all3_of_roundTrips fmts ds h
  exact ⟨rowLayout fmts raws, params_roundtrip fmts ds raws ds rest ha hb⟩

/-- the value-level round trip `GoValue(Bytes(v)) = v` (`Value.roundTrip`, what Props/C04 proves per data
type — taken as hypothesis `hrt` here: Props/C04.lean was still changing while this file was
written) lifts to the datum: for a column of a value shape other than DECN / NUMN, with the status
byte the column format provides for -/
theorem datumRoundTrips_of_value (f : Fmt) (sh : Shape) (status : Nat) (v : Value.Val)
    (hsh : shape f.dataType = some sh) (hv : valueShape sh = true) (hnp : sh ≠ .prec)
    (hst : status < 256 ∧ (hasColumnStatus f = false → status = 0))
    (hrt : Value.roundTrip f.dataType v f.maxLength = .dec (.ok v))
    (hfit : ∀ b, Value.bytes f.dataType v f.maxLength = .ok b → rawFits sh b) :
    DatumRoundTrips f (.base status v) := by
  unfold Value.roundTrip at hrt
  cases hb : Value.bytes f.dataType v f.maxLength with
  | err => simp [hb] at hrt
  | panic => simp [hb] at hrt
  | ok b =>
    simp only [hb, Value.RtOut.dec.injEq] at hrt
    have hfit' := hfit b hb
    have hseen : seenStatus f status = status := by
      unfold seenStatus
      cases hc : hasColumnStatus f
      · simp [hst.2 hc]
      · simp
    refine ⟨{ status := status, raw := b }, ?_, ⟨hst.1, ?_⟩, ?_⟩
    · unfold datumRaw
      rw [hsh]
      cases sh <;> simp [valueShape] at hv <;> simp [hb]
    · rw [hsh]
      unfold rawFits at hfit'
      cases sh <;> simp [valueShape] at hv <;> simpa using hfit'
    · unfold datumResult
      rw [hsh]
      cases sh <;> simp [valueShape] at hv <;> simp [hrt, hseen] at hnp ⊢

/-- the independent decoder cuts a row laid out by the book into its raw data -/
theorem Row.decSpec_encSpec (fmts : List Fmt) (raws : List RawDatum) (rest : Bytes)
    (h : All2 RawDatum.WF fmts raws) :
    Row.decSpec fmts (rowLayout fmts raws ++ rest) = .ok (normRaws fmts raws) (rowLayout fmts raws).length := by
  have := rowDecSpec_layout fmts raws h rest (fun as => (Pure.pure as : P (List RawDatum)))
  have hb : (Row.decSpec fmts >>= fun as => (Pure.pure as : P (List RawDatum))) (rowLayout fmts raws ++ rest) =
      Row.decSpec fmts (rowLayout fmts raws ++ rest) := by
    simp only [Bind.bind, P.bind]
    cases Row.decSpec fmts (rowLayout fmts raws ++ rest) <;> simp [Pure.pure, P.pure]
  rw [hb] at this
  rw [this]; simp [pure_apply]

/-- **client-sent leg of PARAMS**: the independent decoder, given the formats, cuts what the Go writer
wrote into exactly the bytes `DataType.Bytes` produced for every value (and the members of every text
pointer datum) -/
theorem Row.matches_spec (row : Bool) (fmts : List Fmt) (ds : List Data) (raws : List RawDatum) (rest : Bytes)
    (henc : All3 (fun f d r => datumRaw f d = some r) fmts ds raws) (hfit : All2 RawDatum.WF fmts raws) :
    ∃ body, Row.enc row fmts ds = .ok (UInt8.ofNat (if row then tokRow else tokParams) :: body) ∧
      Row.decSpec fmts (body ++ rest) = .ok (normRaws fmts raws) body.length := by
  refine ⟨rowLayout fmts raws, ?_, Row.decSpec_encSpec fmts raws rest hfit⟩
  rw [Row.enc_eq_encSpec row fmts ds raws henc]
  cases row <;> rfl

/-! ## ORDERBY / ORDERBY2 (server only) -/

theorem flatten_leEncode_length (w : Nat) (cols : List Nat) :
    ((cols.map (leEncode w)).flatten).length = w * cols.length := by
  induction cols with
  | nil => rfl
  | cons c cs ih =>
    simp only [List.map_cons, List.flatten_cons, List.length_append, leEncode_length, ih, List.length_cons]
    rw [Nat.mul_add]; omega

theorem OrderBy.dec_encSpec (cols : List Nat) (rest : Bytes) (hc : ∀ c ∈ cols, c < 256) (hn : cols.length < 65536) :
    OrderBy.dec (OrderBy.encSpecBody cols ++ rest) = .ok cols (OrderBy.encSpecBody cols).length := by
  have hn' : cols.length < 256 ^ 2 := by simpa using hn
  have hl := flatten_leEncode_length 1 cols
  have hrep := replicateM_layout (β := List Nat) u8 (leEncode 1) (fun c => c) cols
    (fun c hcm β' g r => by
      have := u8_bind c r g (hc c hcm)
      simpa [leEncode_length] using this)
    (fun as => (Pure.pure as : P (List Nat))) rest
  unfold OrderBy.dec OrderBy.encSpecBody frame
  have hb : ∀ s, (replicateM cols.length u8 >>= fun as => (Pure.pure as : P (List Nat))) s = replicateM cols.length u8 s := by
    intro s
    simp only [Bind.bind, P.bind]
    cases replicateM cols.length u8 s <;> simp [Pure.pure, P.pure]
  rw [hb] at hrep
  simp only [hl, Nat.one_mul] at hrep ⊢
  rt_simp [hn', hrep, hl]
  simp

theorem OrderBy2.dec_encSpec (cols : List Nat) (rest : Bytes) (hc : ∀ c ∈ cols, c < 65536) (hn : cols.length < 65536) :
    OrderBy2.dec (OrderBy2.encSpecBody cols ++ rest) = .ok cols (OrderBy2.encSpecBody cols).length := by
  have hn' : cols.length < 256 ^ 2 := by simpa using hn
  have hl := flatten_leEncode_length 2 cols
  have ht : 2 + 2 * cols.length < 256 ^ 4 := by simp; omega
  have hrep := fun (g : List Nat → P (List Nat)) r => replicateM_layout (uintLE 2) (leEncode 2) (fun c => c) cols
    (fun c hcm β' g r => by
      have hc' : c < 256 ^ 2 := by simpa using hc c hcm
      have := uintLE_bind 2 c r g hc'
      simpa [leEncode_length] using this)
    g r
  have hg : (2 + 2 * cols.length == 2 + 2 * cols.length) = true := by simp
  unfold OrderBy2.dec OrderBy2.encSpecBody frame
  simp only [hl, List.length_append, leEncode_length, List.map_id'] at hrep ⊢
  rt_simp [ht, hn', hrep, hl, guard_bind_true _ _ _ hg]

end Dblib.Props.C06.Fields
