/-
C06 (package encodings are self-consistent and match their layout), codec group Basic.

Per kind `K` of `Model/Codec/Basic.lean` (all statements for ALL field values within the width
constraints `K.WF`, all lengths, all `rest`):

* `K.roundtrip`      `K.dec (K.encBody k ++ rest) = ok (norm k) |K.encBody k|` — what `WriteTo` writes
                     (after the token) is read back by `ReadFrom`, consuming exactly what was written;
* `K.spec_roundtrip` `K.dec (K.encSpecBody k ++ rest) = ok (norm k) …` — the reader against the TDS 5.0
                     layout (server-only kinds), or `K.decSpec (K.encBody k ++ rest) = ok k …` — an
                     independent reader of the layout against the writer (client-only kinds);
                     `K.enc_eq_spec` where writer and layout coincide;
* `K.length_fields`  the length field written first equals the number of bytes that follow it (the
                     inner length prefixes are covered by the round trips: a wrong prefix cannot
                     reproduce the fields).

The four violations found in the first round (EED declared length, ERROR reader without State/Class,
RETURNSTATUS writer without token, ENVCHANGE uint16 counter) are repaired in `/repo`; their theorems
are now the full statements. Behaviour that is still as it was and is stated as it is:
* `Done.enc_token_of_aliases`: DONEPROC / DONEINPROC are written with the token of DONE.
* `LoginAck.length_fields_counterexample`: the writer emits the stored Length / NameLength.
* `Logout.dec_rejects_options`: the reader rejects what the writer writes for options ≠ 0.

`c06_valuemask`: capability `n` ↔ bit `n % 8` of byte `len − 1 − n / 8`, reader and writer, for every
mask length and every subset.
-/
import Dblib.Lemmas.CodecBasic
import Dblib.Lemmas.CodecBasicMask

namespace Dblib.Props.C06.Basic
open Dblib Dblib.Codec Dblib.Codec.Basic

/-- `p` rejects `enc` (whatever follows) after consuming all of it -/
def Fails {α : Type} (p : P α) (enc : Bytes) : Prop :=
  ∀ rest, p (enc ++ rest) = .err enc.length

theorem fails_bind {α β : Type} {p : P α} {f : α → P β} {e1 e2 : Bytes} {a : α}
    (hp : Parses p e1 a) (hf : Fails (f a) e2) : Fails (p >>= f) (e1 ++ e2) := by
  intro rest
  simp only [Bind.bind, P.bind]
  rw [List.append_assoc, hp (e2 ++ rest)]
  simp only [List.drop_left, hf rest, List.length_append]

theorem fails_bind_last {α β : Type} {p : P α} {f : α → P β} {e : Bytes} {a : α}
    (hp : Parses p e a) (hf : f a = P.fail) : Fails (p >>= f) e := by
  intro rest
  have h2 : f a (List.drop e.length (e ++ rest)) = .err 0 := by rw [hf]; rfl
  simp only [Bind.bind, P.bind, hp rest, h2, Nat.add_zero]

/-! ### DONE / DONEPROC / DONEINPROC -/

def Done.WF (k : Done) : Prop :=
  k.status < 65536 ∧ k.tran < 65536 ∧ -2147483648 ≤ k.count ∧ k.count < 2147483648

theorem Done.roundtrip (k : Done) (h : Done.WF k) (rest : Bytes) :
    Done.dec (Done.encBody k ++ rest) = .ok k (Done.encBody k).length := by
  obtain ⟨h1, h2, h3, h4⟩ := h
  revert rest
  show Parses Done.dec (Done.encBody k) k
  unfold Done.dec Done.encBody
  refine parses_bind (parses_u16 _ h1) ?_
  refine parses_bind (parses_u16 _ h2) ?_
  exact parses_bind_pure (parses_int32 _ h3 h4) rfl

/-- the layout of each of the three tokens is its token followed by what `WriteTo` writes after its
own token: the reader (the same for the three tokens) reads the layout -/
theorem Done.spec_roundtrip (tok : Nat) (k : Done) (h : Done.WF k) (rest : Bytes) :
    ∃ body, Done.encSpec tok k = UInt8.ofNat tok :: body ∧
      Done.dec (body ++ rest) = .ok k body.length :=
  ⟨Done.encBody k, rfl, Done.roundtrip k h rest⟩

theorem Done.enc_eq_spec (k : Done) : Done.enc k = .ok (Done.encSpec 0xFD k) := rfl

/-- `DoneProcPackage` and `DoneInProcPackage` are aliases of `DonePackage`: their `WriteTo` writes the
token of DONE, not 0xFE / 0xFF -/
theorem Done.enc_token_of_aliases (k : Done) :
    Done.enc k ≠ .ok (Done.encSpec 0xFE k) ∧ Done.enc k ≠ .ok (Done.encSpec 0xFF k) := by
  constructor <;> (intro h; injection h with h; injection h with h _; exact absurd h (by decide))

example : Done.WF ⟨0x10, 0, 5⟩ := by unfold Done.WF; decide

/-! ### EED -/

def EED.WF (k : EED) : Prop :=
  k.msgNumber < 4294967296 ∧ k.state < 256 ∧ k.cls < 256 ∧ k.sqlState.length < 256 ∧ k.status < 256 ∧
  k.tran < 65536 ∧ k.msg.length < 65536 ∧ k.server.length < 256 ∧ k.proc.length < 256 ∧ k.line < 65536 ∧
  16 + k.sqlState.length + k.msg.length + k.server.length + k.proc.length < 65536

/-- documented normalisation: the reader strips one trailing newline of the message -/
def EED.norm (k : EED) : EED := { k with msg := trimNl k.msg }

theorem EED.payload_length (k : EED) :
    (EED.payload k).length = 16 + k.sqlState.length + k.msg.length + k.server.length + k.proc.length := by
  simp only [EED.payload, List.length_append, leEncode_length, byte_length]; omega

/-- the reads of `ReadFrom` after the length field, on the payload, followed by the length check -/
theorem EED.parses_after_length (k : EED) (h : EED.WF k) (L : Nat)
    (hL : 16 + k.sqlState.length + k.msg.length + k.server.length + k.proc.length = L) :
    Parses EED.dec (leEncode 2 L ++ EED.payload k) (EED.norm k) := by
  obtain ⟨h1, h2, h3, h4, h5, h6, h7, h8, h9, h10, h11⟩ := h
  unfold EED.dec EED.payload
  refine parses_bind (parses_u16 _ (by omega)) ?_
  refine parses_bind (parses_u32 _ h1) ?_
  refine parses_bind (parses_u8 _ h2) ?_
  refine parses_bind (parses_u8 _ h3) ?_
  refine parses_bind (parses_u8 _ h4) ?_
  refine parses_bind (parses_take _) ?_
  refine parses_bind (parses_u8 _ h5) ?_
  refine parses_bind (parses_u16 _ h6) ?_
  refine parses_bind (parses_u16 _ h7) ?_
  refine parses_bind (parses_take _) ?_
  refine parses_bind (parses_u8 _ h8) ?_
  refine parses_bind (parses_take _) ?_
  refine parses_bind (parses_u8 _ h9) ?_
  refine parses_bind (parses_take _) ?_
  refine parses_bind_pure (parses_u16 _ h10) ?_
  rw [if_neg (by omega)]
  rfl

/-- the reader against the TDS layout (Length = number of bytes that follow) -/
theorem EED.spec_roundtrip (k : EED) (h : EED.WF k) (rest : Bytes) :
    EED.dec (EED.encSpecBody k ++ rest) = .ok (EED.norm k) (EED.encSpecBody k).length :=
  EED.parses_after_length k h _ (EED.payload_length k).symm rest

/-- the writer produces the TDS layout -/
theorem EED.enc_eq_spec (k : EED) : EED.enc k = .ok (EED.encSpec k) := by
  unfold EED.enc EED.encSpec EED.encBody EED.encSpecBody EED.declared
  rw [EED.payload_length]

/-- what `WriteTo` writes is read back (up to the stripped newline), consuming exactly what was written -/
theorem EED.roundtrip (k : EED) (h : EED.WF k) (rest : Bytes) :
    EED.dec (EED.encBody k ++ rest) = .ok (EED.norm k) (EED.encBody k).length :=
  EED.parses_after_length k h _ rfl rest

/-- the length field written equals the number of bytes that follow it -/
theorem EED.length_fields (k : EED) (h : EED.WF k) :
    leDecode ((EED.encBody k).take 2) = (EED.encBody k).length - 2 := by
  obtain ⟨_, _, _, _, _, _, _, _, _, _, h11⟩ := h
  have h2 : (EED.encBody k).take 2 = leEncode 2 (EED.declared k) := by
    unfold EED.encBody
    rw [List.take_append_of_le_length (by simp [leEncode_length])]
    exact List.take_of_length_le (by simp [leEncode_length])
  rw [h2, leDecode_leEncode 2 _ (by unfold EED.declared; omega)]
  simp only [EED.encBody, List.length_append, leEncode_length, EED.payload_length, EED.declared]
  omega

/-- the layout's length field is right -/
theorem EED.spec_length_fields (k : EED) (h : EED.WF k) :
    leDecode ((EED.encSpecBody k).take 2) = (EED.encSpecBody k).length - 2 := by
  obtain ⟨_, _, _, _, _, _, _, _, _, _, h11⟩ := h
  have h2 : (EED.encSpecBody k).take 2 = leEncode 2 (EED.payload k).length := by
    unfold EED.encSpecBody
    rw [List.take_append_of_le_length (by simp [leEncode_length])]
    exact List.take_of_length_le (by simp [leEncode_length])
  rw [h2, leDecode_leEncode 2 _ (by rw [EED.payload_length]; omega)]
  simp only [EED.encSpecBody, List.length_append, leEncode_length]
  omega

example : EED.WF ⟨1, 2, 3, [0x5a, 0x5a], 1, 0, [0x68, 0x69, 10], [0x73], [0x70], 7⟩ := by
  unfold EED.WF; decide
example : EED.norm ⟨1, 2, 3, [], 1, 0, [0x68, 10], [], [], 7⟩ = ⟨1, 2, 3, [], 1, 0, [0x68], [], [], 7⟩ := by
  decide

/-! ### ERROR -/

def Error.WF (k : Error) : Prop :=
  -2147483648 ≤ k.number ∧ k.number < 2147483648 ∧ k.state < 256 ∧ k.cls < 256 ∧
  k.msg.length < 65536 ∧ k.server.length < 256 ∧ k.proc.length < 256 ∧ k.line < 65536 ∧
  12 + k.msg.length + k.server.length + k.proc.length < 65536

theorem Error.payload_length (k : Error) :
    (Error.payload k).length = 12 + k.msg.length + k.server.length + k.proc.length := by
  simp only [Error.payload, List.length_append, leEncode_length, leEncodeInt_length, byte_length]; omega

/-- the writer agrees with the TDS layout -/
theorem Error.enc_eq_spec (k : Error) : Error.enc k = .ok (Error.encSpec k) := by
  unfold Error.enc Error.encSpec Error.encBody Error.encSpecBody
  rw [Error.payload_length]

theorem Error.length_fields (k : Error) (h : Error.WF k) :
    leDecode ((Error.encBody k).take 2) = (Error.encBody k).length - 2 := by
  obtain ⟨_, _, _, _, _, _, _, _, h9⟩ := h
  have h2 : (Error.encBody k).take 2 = leEncode 2 (12 + k.msg.length + k.server.length + k.proc.length) := by
    unfold Error.encBody
    rw [List.take_append_of_le_length (by simp [leEncode_length])]
    exact List.take_of_length_le (by simp [leEncode_length])
  rw [h2, leDecode_leEncode 2 _ (by omega)]
  simp only [Error.encBody, List.length_append, leEncode_length, Error.payload_length]
  omega

/-- what `WriteTo` writes is read back, State and Class included -/
theorem Error.roundtrip (k : Error) (h : Error.WF k) (rest : Bytes) :
    Error.dec (Error.encBody k ++ rest) = .ok k (Error.encBody k).length := by
  obtain ⟨h1, h2, h3, h4, h5, h6, h7, h8, h9⟩ := h
  revert rest
  show Parses Error.dec (Error.encBody k) k
  unfold Error.dec Error.encBody Error.payload
  refine parses_bind (parses_u16 _ (by omega)) ?_
  refine parses_bind (parses_int32 _ h1 h2) ?_
  refine parses_bind (parses_u8 _ h3) ?_
  refine parses_bind (parses_u8 _ h4) ?_
  refine parses_bind (parses_u16 _ h5) ?_
  refine parses_bind (parses_take _) ?_
  refine parses_bind (parses_u8 _ h6) ?_
  refine parses_bind (parses_take _) ?_
  refine parses_bind (parses_u8 _ h7) ?_
  refine parses_bind (parses_take _) ?_
  refine parses_bind_pure (parses_u16 _ h8) ?_
  rw [if_neg (by omega)]

/-- the reader against the TDS layout -/
theorem Error.spec_roundtrip (k : Error) (h : Error.WF k) (rest : Bytes) :
    Error.dec (Error.encSpecBody k ++ rest) = .ok k (Error.encSpecBody k).length := by
  have : Error.encSpecBody k = Error.encBody k := by
    unfold Error.encBody Error.encSpecBody; rw [Error.payload_length]
  rw [this]; exact Error.roundtrip k h rest

example : Error.WF ⟨-7, 3, 4, [0x6d], [0x73], [0x70], 9⟩ := by unfold Error.WF; decide

/-! ### LOGINACK -/

def LoginAck.WF (k : LoginAck) : Prop :=
  k.status < 256 ∧ k.version.length = 4 ∧ k.name.length < 256 ∧ k.progVersion.length = 4

/-- what the reader reports for the layout: Length and NameLength as the layout defines them -/
def LoginAck.norm (k : LoginAck) : LoginAck :=
  { k with length := 10 + k.name.length, nameLength := k.name.length }

theorem LoginAck.spec_roundtrip (k : LoginAck) (h : LoginAck.WF k) (rest : Bytes) :
    LoginAck.dec (LoginAck.encSpecBody k ++ rest) = .ok (LoginAck.norm k) (LoginAck.encSpecBody k).length := by
  obtain ⟨h1, h2, h3, h4⟩ := h
  revert rest
  show Parses LoginAck.dec (LoginAck.encSpecBody k) _
  unfold LoginAck.dec LoginAck.encSpecBody
  refine parses_bind (parses_u16 _ (by omega)) ?_
  refine parses_bind (parses_u8 _ h1) ?_
  refine parses_bind (parses_take_of_eq h2.symm) ?_
  refine parses_bind (parses_u8 _ h3) ?_
  refine parses_bind (parses_take _) ?_
  exact parses_bind_pure (parses_take_of_eq h4.symm) rfl

/-- the writer against the reader: for a package whose stored NameLength is the length of its name -/
theorem LoginAck.roundtrip (k : LoginAck) (h : LoginAck.WF k) (hl : k.length < 65536)
    (hn : k.nameLength = k.name.length) (rest : Bytes) :
    LoginAck.dec (LoginAck.encBody k ++ rest) = .ok k (LoginAck.encBody k).length := by
  obtain ⟨h1, h2, h3, h4⟩ := h
  revert rest
  show Parses LoginAck.dec (LoginAck.encBody k) k
  unfold LoginAck.dec LoginAck.encBody
  refine parses_bind (parses_u16 _ hl) ?_
  refine parses_bind (parses_u8 _ h1) ?_
  refine parses_bind (parses_take_of_eq h2.symm) ?_
  refine parses_bind (parses_u8 _ (by omega)) ?_
  refine parses_bind (parses_take_of_eq hn) ?_
  refine parses_bind_pure (parses_take_of_eq h4.symm) ?_
  cases k; simp_all

/-- the layout's length field is right -/
theorem LoginAck.spec_length_fields (k : LoginAck) (h : LoginAck.WF k) :
    leDecode ((LoginAck.encSpecBody k).take 2) = (LoginAck.encSpecBody k).length - 2 := by
  obtain ⟨_, h2, h3, h4⟩ := h
  have ht : (LoginAck.encSpecBody k).take 2 = leEncode 2 (10 + k.name.length) := by
    unfold LoginAck.encSpecBody
    rw [List.take_append_of_le_length (by simp [leEncode_length])]
    exact List.take_of_length_le (by simp [leEncode_length])
  rw [ht, leDecode_leEncode 2 _ (by omega)]
  simp only [LoginAck.encSpecBody, List.length_append, leEncode_length, byte_length, h2, h4]
  omega

/-- FALSE in `/repo` for the writer: it emits the stored `Length`, whatever follows
(the package is server-only; the reader never checks `Length` either) -/
theorem LoginAck.length_fields_counterexample :
    leDecode ((LoginAck.encBody ⟨0, 5, [5, 0, 0, 0], 3, [65, 83, 69], [16, 0, 3, 7]⟩).take 2) = 0 ∧
    (LoginAck.encBody ⟨0, 5, [5, 0, 0, 0], 3, [65, 83, 69], [16, 0, 3, 7]⟩).length - 2 = 13 := by
  decide

example : LoginAck.WF ⟨13, 5, [5, 0, 0, 0], 3, [65, 83, 69], [16, 0, 3, 7]⟩ := by unfold LoginAck.WF; decide

/-! ### MSG -/

def Msg.WF (k : Msg) : Prop := k.status < 256 ∧ k.msgId < 65536

theorem Msg.roundtrip (k : Msg) (h : Msg.WF k) (rest : Bytes) :
    Msg.dec (Msg.encBody k ++ rest) = .ok k (Msg.encBody k).length := by
  obtain ⟨h1, h2⟩ := h
  revert rest
  show Parses Msg.dec (Msg.encBody k) k
  unfold Msg.dec Msg.encBody
  refine parses_bind (parses_u8 3 (by decide)) ?_
  refine parses_bind (parses_u8 _ h1) ?_
  exact parses_bind_pure (parses_u16 _ h2) rfl

/-- both directions: the writer produces the layout … -/
theorem Msg.enc_eq_spec (k : Msg) : Msg.enc k = .ok (Msg.encSpec k) := rfl

/-- … and an independent reader of the layout (which insists on Length = 3) reads the writer -/
theorem Msg.spec_roundtrip (k : Msg) (h : Msg.WF k) (rest : Bytes) :
    Msg.decSpec (Msg.encBody k ++ rest) = .ok k (Msg.encBody k).length := by
  obtain ⟨h1, h2⟩ := h
  revert rest
  show Parses Msg.decSpec (Msg.encBody k) k
  unfold Msg.decSpec Msg.encBody
  refine parses_bind (parses_u8 3 (by decide)) ?_
  refine parses_bind (e1 := []) (a := ()) (fun rest => rfl) ?_
  refine parses_bind (parses_u8 _ h1) ?_
  exact parses_bind_pure (parses_u16 _ h2) rfl

/-- the length byte (3) counts the bytes that follow it -/
theorem Msg.length_fields (k : Msg) :
    ((Msg.encBody k).take 1 = byte 3) ∧ (Msg.encBody k).length - 1 = 3 := by
  constructor
  · rfl
  · simp [Msg.encBody, byte_length, leEncode_length]

example : Msg.WF ⟨1, 14⟩ := by unfold Msg.WF; decide

/-! ### ENVCHANGE -/

def Member.WF (m : Member) : Prop := m.typ < 256 ∧ m.new.length < 256 ∧ m.old.length < 256

def EnvChange.WF (k : EnvChange) : Prop :=
  (∀ m ∈ k.members, Member.WF m) ∧ membersLen k.members < 65536

theorem Member.enc_length (m : Member) : (Member.enc m).length = 3 + m.new.length + m.old.length := by
  simp only [Member.enc, List.length_append, byte_length]; omega

theorem membersEnc_length (ms : List Member) : (membersEnc ms).length = membersLen ms := by
  induction ms with
  | nil => rfl
  | cons m ms ih => simp only [membersEnc, membersLen, List.length_append, Member.enc_length, ih]

theorem parses_optTake (bs : Bytes) :
    Parses (if bs.length > 0 then P.take bs.length else Pure.pure []) bs bs := by
  by_cases h : bs.length > 0
  · rw [if_pos h]; exact parses_take bs
  · rw [if_neg h]
    have : bs = [] := List.eq_nil_of_length_eq_zero (by omega)
    subst this
    exact parses_pure []

theorem Member.parses (m : Member) (h : Member.WF m) :
    Parses Member.dec (Member.enc m) (m, 3 + m.new.length + m.old.length) := by
  obtain ⟨h1, h2, h3⟩ := h
  unfold Member.dec Member.enc
  refine parses_bind (parses_u8 _ h1) ?_
  refine parses_bind (parses_u8 _ h2) ?_
  refine parses_bind (parses_optTake _) ?_
  refine parses_bind (parses_u8 _ h3) ?_
  exact parses_bind_pure (parses_optTake _) rfl

/-- the reader's loop over the members written, from any state with `n` bytes counted so far -/
theorem envLoop_parses (L : Nat) (ms : List Member) (hwf : ∀ m ∈ ms, Member.WF m)
    (n : Nat) (acc : List Member) (hn : n + membersLen ms = L) (f : Nat) (hf : ms.length ≤ f) :
    Parses (loop (fun st : EnvState => decide (st.1 < L)) envStep f (n, acc)) (membersEnc ms)
      (L, acc ++ ms) := by
  induction ms generalizing n acc f with
  | nil =>
    simp only [membersLen, Nat.add_zero] at hn
    subst hn
    cases f with
    | zero =>
      rw [loop_zero_neg (cond := fun st : EnvState => decide (st.1 < n)) (st := (n, acc)) (by simp)]
      rw [List.append_nil]; exact parses_pure (α := EnvState) (n, acc)
    | succ f =>
      rw [loop_succ_neg (cond := fun st : EnvState => decide (st.1 < n)) (st := (n, acc)) f (by simp)]
      rw [List.append_nil]; exact parses_pure (α := EnvState) (n, acc)
  | cons m ms ih =>
    simp only [membersLen] at hn
    cases f with
    | zero => simp at hf
    | succ f =>
      rw [loop_succ_pos (cond := fun st : EnvState => decide (st.1 < L)) (st := (n, acc)) f
        (by simp; omega)]
      simp only [membersEnc]
      refine parses_bind (a := (n + (3 + m.new.length + m.old.length), acc ++ [m])) ?_ ?_
      · unfold envStep
        exact parses_bind_pure (Member.parses m (hwf m (by simp))) rfl
      · have := ih (fun x hx => hwf x (by simp [hx])) (n + (3 + m.new.length + m.old.length)) (acc ++ [m])
          (by omega) f (by simpa using hf)
        simpa using this

theorem membersLen_ge (ms : List Member) : ms.length ≤ membersLen ms := by
  induction ms with
  | nil => simp [membersLen]
  | cons m ms ih => simp only [membersLen, List.length_cons]; omega

theorem EnvChange.roundtrip (k : EnvChange) (h : EnvChange.WF k) (rest : Bytes) :
    EnvChange.dec (EnvChange.encBody k ++ rest) = .ok k (EnvChange.encBody k).length := by
  obtain ⟨h1, h2⟩ := h
  revert rest
  show Parses EnvChange.dec (EnvChange.encBody k) k
  unfold EnvChange.dec EnvChange.encBody
  refine parses_bind (parses_u16 _ h2) ?_
  refine parses_bind_pure
    (envLoop_parses _ k.members h1 0 [] (by simp) _ (membersLen_ge k.members)) ?_
  simp

/-- the writer produces the TDS layout (server-only kind: the reader reads the layout) -/
theorem EnvChange.enc_eq_spec (k : EnvChange) : EnvChange.enc k = .ok (EnvChange.encSpec k) := by
  unfold EnvChange.enc EnvChange.encSpec EnvChange.encBody EnvChange.encSpecBody
  rw [membersEnc_length]

theorem EnvChange.spec_roundtrip (k : EnvChange) (h : EnvChange.WF k) (rest : Bytes) :
    EnvChange.dec (EnvChange.encSpecBody k ++ rest) = .ok k (EnvChange.encSpecBody k).length := by
  have : EnvChange.encSpecBody k = EnvChange.encBody k := by
    unfold EnvChange.encBody EnvChange.encSpecBody; rw [membersEnc_length]
  rw [this]; exact EnvChange.roundtrip k h rest

theorem EnvChange.length_fields (k : EnvChange) (h : EnvChange.WF k) :
    leDecode ((EnvChange.encBody k).take 2) = (EnvChange.encBody k).length - 2 := by
  obtain ⟨_, h2⟩ := h
  have ht : (EnvChange.encBody k).take 2 = leEncode 2 (membersLen k.members) := by
    unfold EnvChange.encBody
    rw [List.take_append_of_le_length (by simp [leEncode_length])]
    exact List.take_of_length_le (by simp [leEncode_length])
  rw [ht, leDecode_leEncode 2 _ h2]
  simp only [EnvChange.encBody, List.length_append, leEncode_length, membersEnc_length]
  omega

example : EnvChange.WF ⟨[⟨1, [109], [116]⟩, ⟨4, [], []⟩]⟩ := by
  unfold EnvChange.WF Member.WF; decide

/-! ### CAPABILITY and `valueMask` -/

/-- **c06_valuemask** — capability `n` ↔ bit `n % 8` of byte `len − 1 − n / 8`
(`maskBit bs n = (bs[len-1-n/8]).testBit (n % 8)`), for every mask length and every subset:
1. reader: entry `c` of `parseValueMask(bs)` is `maskBit bs c` for every `c < 8·len`;
2. reader: the parsed mask has `8·len + 1` entries, the extra last one is not set;
3. writer: `valueMask.Bytes()` of `n` entries has `⌈n/8⌉` bytes and `maskBit` of them at `c` is
   entry `c` (not set beyond the last entry), for every `c < 8·⌈n/8⌉`;
4. writer = TDS layout rule (`specMaskBytes`);
5. write then read preserves every capability (`getCapability`), although the slice grows. -/
theorem c06_valuemask :
    (∀ (bs : Bytes) (c : Nat), c < 8 * bs.length → (parseMask bs)[c]? = some (maskBit bs c)) ∧
    (∀ bs : Bytes, (parseMask bs).length = 8 * bs.length + 1 ∧ (parseMask bs)[8 * bs.length]? = some false) ∧
    (∀ caps : List Bool, (maskBytes caps).length = (caps.length + 7) / 8 ∧
      ∀ c, c < 8 * ((caps.length + 7) / 8) → maskBit (maskBytes caps) c = caps.getD c false) ∧
    (∀ caps : List Bool, maskBytes caps = specMaskBytes caps) ∧
    (∀ (caps : List Bool) (c : Nat), (parseMask (maskBytes caps)).getD c false = caps.getD c false) := by
  refine ⟨parseMask_get, fun bs => ⟨parseMask_length bs, parseMask_last bs⟩,
    fun caps => ⟨maskBytes_length caps, maskBytes_bit caps⟩, maskBytes_eq_spec, ?_⟩
  intro caps c
  rw [parseMask_maskBytes]
  simp only [List.getD_eq_getElem?_getD]
  by_cases hc : c < caps.length
  · rw [List.getElem?_append_left (by simp; omega), List.getElem?_append_left hc]
  · rw [List.getElem?_eq_none (Nat.le_of_not_lt hc)]
    by_cases hc2 : c < (caps ++ List.replicate (8 * ((caps.length + 7) / 8) - caps.length) false ++ [false]).length
    · rw [List.getElem?_eq_getElem hc2]
      simp only [Option.getD_some, Option.getD_none]
      rw [List.getElem_append]
      split
      · rw [List.getElem_append_right (by omega)]; simp
      · simp
    · rw [List.getElem?_eq_none (Nat.le_of_not_lt hc2)]

/-- the example of the property text: 9 entries with capabilities 1 and 8 set are the bytes 01 02 -/
example : maskBytes [false, true, false, false, false, false, false, false, true] = [0x01, 0x02] := by decide
example : parseMask [0x01, 0x02] = [false, true, false, false, false, false, false, false, true,
    false, false, false, false, false, false, false, false] := by decide

def Capability.WF (k : Capability) : Prop :=
  (∀ e ∈ k.caps, e.1 < 256 ∧ (maskBytes e.2).length < 256) ∧ capsLen k.caps < 65536

/-- what the reader holds after reading the entries `es` into the map `acc`: every mask that is
written (not `isEmpty`) is stored as parsed -/
def readBack (es : CapMap) (acc : CapMap) : CapMap :=
  es.foldl (fun m e => if maskEmpty e.2 then m else capSet e.1 (parseMask (maskBytes e.2)) m) acc

/-- documented normalisation: the reader starts from the three default masks, types without a set
capability are not written, a written mask comes back padded to `8·⌈n/8⌉ + 1` entries -/
def Capability.norm (k : Capability) : Capability := { caps := readBack k.caps defaultCaps }

theorem capsEnc_length (es : CapMap) : (capsEnc es).length = capsLen es := by
  induction es with
  | nil => rfl
  | cons e es ih =>
    simp only [capsEnc, capsLen, List.length_append, ih, capEntryEnc]
    split <;> simp [byte_length]; omega

theorem capStep_parses (t : Nat) (bits : List Bool) (ht : t < 256) (hl : (maskBytes bits).length < 256)
    (st : CapState) :
    Parses (capStep st) (byte t ++ (byte (maskBytes bits).length ++ maskBytes bits))
      (st.1 + 2 + (maskBytes bits).length, capSet t (parseMask (maskBytes bits)) st.2) := by
  unfold capStep
  refine parses_bind (parses_u8 _ ht) ?_
  refine parses_bind (parses_u8 _ hl) ?_
  exact parses_bind_pure (parses_take _) rfl

theorem capLoop_parses (L : Nat) (es : CapMap)
    (hwf : ∀ e ∈ es, e.1 < 256 ∧ (maskBytes e.2).length < 256)
    (n : Nat) (acc : CapMap) (hn : n + capsLen es = L) (f : Nat) (hf : capsLen es ≤ f) :
    Parses (loop (fun st : CapState => decide (st.1 < L)) capStep f (n, acc)) (capsEnc es)
      (L, readBack es acc) := by
  induction es generalizing n acc f with
  | nil =>
    simp only [capsLen, Nat.add_zero] at hn
    subst hn
    cases f with
    | zero =>
      rw [loop_zero_neg (cond := fun st : CapState => decide (st.1 < n)) (st := (n, acc)) (by simp)]
      exact parses_pure (α := CapState) (n, acc)
    | succ f =>
      rw [loop_succ_neg (cond := fun st : CapState => decide (st.1 < n)) (st := (n, acc)) f (by simp)]
      exact parses_pure (α := CapState) (n, acc)
  | cons e es ih =>
    have hwf' : ∀ x ∈ es, x.1 < 256 ∧ (maskBytes x.2).length < 256 := fun x hx => hwf x (by simp [hx])
    by_cases hE : maskEmpty e.2 = true
    · have h1 : capsEnc (e :: es) = capsEnc es := by simp [capsEnc, capEntryEnc, hE]
      have h2 : capsLen (e :: es) = capsLen es := by simp [capsLen, hE]
      have h3 : readBack (e :: es) acc = readBack es acc := by simp [readBack, hE]
      rw [h1, h3]
      exact ih hwf' n acc (by omega) f (by omega)
    · have h1 : capsEnc (e :: es) =
          (byte e.1 ++ (byte (maskBytes e.2).length ++ maskBytes e.2)) ++ capsEnc es := by
        simp [capsEnc, capEntryEnc, hE]
      have h2 : capsLen (e :: es) = (2 + (maskBytes e.2).length) + capsLen es := by simp [capsLen, hE]
      have h3 : readBack (e :: es) acc = readBack es (capSet e.1 (parseMask (maskBytes e.2)) acc) := by
        simp [readBack, hE]
      rw [h2] at hn hf
      cases f with
      | zero => omega
      | succ f =>
        rw [loop_succ_pos (cond := fun st : CapState => decide (st.1 < L)) (st := (n, acc)) f
          (by simp; omega), h1, h3]
        refine parses_bind (capStep_parses e.1 e.2 (hwf e (by simp)).1 (hwf e (by simp)).2 (n, acc)) ?_
        exact ih hwf' (n + 2 + (maskBytes e.2).length) _ (by omega) f (by omega)

theorem Capability.roundtrip (k : Capability) (h : Capability.WF k) (rest : Bytes) :
    Capability.dec (Capability.encBody k ++ rest) = .ok (Capability.norm k) (Capability.encBody k).length := by
  obtain ⟨h1, h2⟩ := h
  revert rest
  show Parses Capability.dec (Capability.encBody k) _
  unfold Capability.dec Capability.encBody
  refine parses_bind (parses_u16 _ h2) ?_
  refine parses_bind_pure (capLoop_parses _ k.caps h1 0 defaultCaps (by simp) _ (Nat.le_refl _)) ?_
  simp [Capability.norm]

/-- both directions: the writer produces the TDS layout (masks by the bit-position rule) -/
theorem Capability.enc_eq_spec (k : Capability) : Capability.enc k = .ok (Capability.encSpec k) := by
  have hs : ∀ es : CapMap, capsEnc es = capsSpec es := by
    intro es
    induction es with
    | nil => rfl
    | cons e es ih => simp only [capsEnc, capsSpec, capEntryEnc, capEntrySpec, maskBytes_eq_spec, ih]
  unfold Capability.enc Capability.encSpec Capability.encBody Capability.encSpecBody
  rw [← hs, capsEnc_length]

theorem Capability.spec_roundtrip (k : Capability) (h : Capability.WF k) (rest : Bytes) :
    Capability.dec (Capability.encSpecBody k ++ rest) =
      .ok (Capability.norm k) (Capability.encSpecBody k).length := by
  have := Capability.enc_eq_spec k
  unfold Capability.enc Capability.encSpec at this
  injection this with this
  injection this with _ this
  rw [← this]; exact Capability.roundtrip k h rest

theorem Capability.length_fields (k : Capability) (h : Capability.WF k) :
    leDecode ((Capability.encBody k).take 2) = (Capability.encBody k).length - 2 := by
  obtain ⟨_, h2⟩ := h
  have ht : (Capability.encBody k).take 2 = leEncode 2 (capsLen k.caps) := by
    unfold Capability.encBody
    rw [List.take_append_of_le_length (by simp [leEncode_length])]
    exact List.take_of_length_le (by simp [leEncode_length])
  rw [ht, leDecode_leEncode 2 _ h2]
  simp only [Capability.encBody, List.length_append, leEncode_length, capsEnc_length]
  omega

/-- `capSet` is a map store: the stored type answers with the new mask, every other type is untouched -/
theorem capSet_lookup_same (t : Nat) (v : List Bool) (m : CapMap) : (capSet t v m).lookup t = some v := by
  induction m with
  | nil => simp [capSet]
  | cons e m ih =>
    obtain ⟨k, w⟩ := e
    unfold capSet
    split
    · simp [List.lookup]
    · split
      · simp [List.lookup]
      · rename_i h1 h2
        have : (t == k) = false := by simp; omega
        simp [List.lookup, this, ih]

theorem capSet_lookup_other (t t' : Nat) (v : List Bool) (m : CapMap) (h : t' ≠ t) :
    (capSet t v m).lookup t' = m.lookup t' := by
  induction m with
  | nil =>
    have : (t' == t) = false := by simp; omega
    simp [capSet, List.lookup, this]
  | cons e m ih =>
    obtain ⟨k, w⟩ := e
    have ht : (t' == t) = false := by simp; omega
    unfold capSet
    split
    · simp [List.lookup, ht]
    · split
      · rename_i h1 h2; subst h2; simp [List.lookup, ht]
      · by_cases hk : (t' == k) = true
        · simp [List.lookup, hk]
        · have : (t' == k) = false := by simpa using hk
          simp [List.lookup, this, ih]

example : Capability.WF ⟨[(1, [false, true, false, false, false, false, false, false, true]), (2, [false, false])]⟩ := by
  unfold Capability.WF; decide

/-! ### LANGUAGE -/

def Language.WF (k : Language) : Prop := k.status < 256 ∧ 1 + k.cmd.length < 4294967296

theorem Language.roundtrip (k : Language) (h : Language.WF k) (rest : Bytes) :
    Language.dec (Language.encBody k ++ rest) = .ok k (Language.encBody k).length := by
  obtain ⟨h1, h2⟩ := h
  revert rest
  show Parses Language.dec (Language.encBody k) k
  unfold Language.dec Language.encBody
  refine parses_bind (parses_u32 _ h2) ?_
  rw [if_neg (by omega)]
  refine parses_bind (parses_u8 _ h1) ?_
  refine parses_bind_pure (e := k.cmd) (a := k.cmd) ?_ rfl
  unfold P.takeInt
  rw [if_neg (by omega)]
  exact parses_take_of_eq (by omega)

/-- client-only kind: an independent reader of the TDS layout reads what the writer writes -/
theorem Language.spec_roundtrip (k : Language) (h : Language.WF k) (rest : Bytes) :
    Language.decSpec (Language.encBody k ++ rest) = .ok k (Language.encBody k).length := by
  obtain ⟨h1, h2⟩ := h
  revert rest
  show Parses Language.decSpec (Language.encBody k) k
  unfold Language.decSpec Language.encBody
  refine parses_bind (parses_u32 _ h2) ?_
  refine parses_bind (e1 := []) (a := ()) (fun rest => by simp [P.guard, Pure.pure, P.pure]) ?_
  refine parses_bind (parses_u8 _ h1) ?_
  exact parses_bind_pure (parses_take_of_eq (by omega)) rfl

theorem Language.length_fields (k : Language) (h : Language.WF k) :
    leDecode ((Language.encBody k).take 4) = (Language.encBody k).length - 4 := by
  obtain ⟨_, h2⟩ := h
  have ht : (Language.encBody k).take 4 = leEncode 4 (1 + k.cmd.length) := by
    unfold Language.encBody
    rw [List.take_append_of_le_length (by simp [leEncode_length])]
    exact List.take_of_length_le (by simp [leEncode_length])
  rw [ht, leDecode_leEncode 4 _ (by simpa using h2)]
  simp only [Language.encBody, List.length_append, leEncode_length, byte_length]
  omega

example : Language.WF ⟨0, [115, 101, 108]⟩ := by unfold Language.WF; decide

/-! ### RETURNSTATUS -/

def ReturnStatus.WF (k : ReturnStatus) : Prop := -2147483648 ≤ k.value ∧ k.value < 2147483648

/-- the four value bytes the writer produces after its token are read back -/
theorem ReturnStatus.roundtrip (k : ReturnStatus) (h : ReturnStatus.WF k) (rest : Bytes) :
    ReturnStatus.dec (ReturnStatus.encBody k ++ rest) = .ok k (ReturnStatus.encBody k).length := by
  revert rest
  show Parses ReturnStatus.dec (leEncodeInt 4 k.value) k
  unfold ReturnStatus.dec
  exact parses_bind_pure (parses_int32 _ h.1 h.2) rfl

/-- the writer produces the TDS layout: token 0x79, then the value -/
theorem ReturnStatus.enc_eq_spec (k : ReturnStatus) : ReturnStatus.enc k = .ok (ReturnStatus.encSpec k) := rfl

/-- `WriteTo`, then (the channel consumes the token) `ReadFrom`, reproduces the package -/
theorem ReturnStatus.enc_roundtrip (k : ReturnStatus) (h : ReturnStatus.WF k) (rest : Bytes) :
    ∃ body, ReturnStatus.enc k = .ok (0x79 :: body) ∧
      ReturnStatus.dec (body ++ rest) = .ok k body.length :=
  ⟨ReturnStatus.encBody k, rfl, ReturnStatus.roundtrip k h rest⟩

example : ReturnStatus.WF ⟨-3⟩ := by unfold ReturnStatus.WF; decide

/-! ### LOGOUT -/

/-- client-only kind: an independent reader of the layout reads what the writer writes -/
theorem Logout.spec_roundtrip (k : Logout) (h : k.options < 256) (rest : Bytes) :
    Logout.decSpec (Logout.encBody k ++ rest) = .ok k (Logout.encBody k).length := by
  revert rest
  show Parses Logout.decSpec (Logout.encBody k) k
  unfold Logout.decSpec Logout.encBody
  exact parses_bind_pure (parses_u8 _ h) rfl

/-- the library's own reader accepts the only option value it knows … -/
theorem Logout.roundtrip (k : Logout) (h : k.options = 0) (rest : Bytes) :
    Logout.dec (Logout.encBody k ++ rest) = .ok k (Logout.encBody k).length := by
  revert rest
  show Parses Logout.dec (Logout.encBody k) k
  unfold Logout.dec Logout.encBody
  refine parses_bind_pure (parses_u8 _ (by omega)) ?_
  rw [if_neg (by omega)]

/-- … and rejects every other option byte the writer can write -/
theorem Logout.dec_rejects_options (k : Logout) (h0 : k.options ≠ 0) (h : k.options < 256) (rest : Bytes) :
    Logout.dec (Logout.encBody k ++ rest) = .err 1 := by
  have : Fails Logout.dec (Logout.encBody k) := by
    unfold Logout.dec Logout.encBody
    exact fails_bind_last (parses_u8 _ h) (by rw [if_pos h0])
  exact this rest

example : (⟨5⟩ : Logout).options ≠ 0 ∧ (⟨5⟩ : Logout).options < 256 := by decide

end Dblib.Props.C06.Basic
