/-
C15 — The packet queue behaves as a byte FIFO across packet boundaries.

Model: `Model/PacketQueue.lean` (transcription of tds/packetQueue.go, tied to the code by the
correspondence harness `go/cmd/harness/c15.go`, which compares model and real queue step by step
on random and exhaustive-short op sequences, including undisciplined ones and panics).

Reader discipline = {AddPacket, Bytes(n) / typed reads / Read, Position→SetPosition of a position
saved since the last discard/reset, DiscardUntilCurrentPosition, Reset}.
-/
import Dblib.Lemmas.PacketQueue
import Dblib.Lemmas.PacketQueueWrite

namespace Dblib.Props.C15
open Dblib Dblib.PQ

/-! ## Single operations (restated from `Lemmas/PacketQueue.lean` so that the property file
lists the obligations explicitly) -/

/-- A read of `n` available bytes returns exactly the next `n` unread bytes (across packet
boundaries), consumes exactly those, and leaves the stored packets untouched. -/
theorem c15_bytes_refines (q : PQ) (n : Nat) (hwf : q.WF) (hn : n ≤ q.unread.length) :
    ∃ q', q.bytes n = (.ok (q.unread.take n), q') ∧ q'.unread = q.unread.drop n
      ∧ q'.queue = q.queue ∧ q'.eom = q.eom ∧ q'.WF :=
  bytes_refines q n hwf hn

/-- A read beyond the available bytes reports not-enough-bytes — never a value, never a panic. -/
theorem c15_bytes_short (q : PQ) (n : Nat) (hwf : q.WF) (hn : q.unread.length < n) :
    ∃ bs q', q.bytes n = (.short bs, q') ∧ q'.queue = q.queue ∧ q'.eom = q.eom
      ∧ q'.unread = [] ∧ q'.WF :=
  bytes_short q n hwf hn

/-- `Read` fills the caller's buffer with the next `len(p)` unread bytes and reports that count. -/
theorem c15_read_fills (q : PQ) (n : Nat) (hwf : q.WF) (hn : n ≤ q.unread.length) :
    ∃ q', q.read n = (.ok (q.unread.take n), n, q') ∧ q'.unread = q.unread.drop n := by
  obtain ⟨q', hb, hu, _⟩ := bytes_refines q n hwf hn
  refine ⟨q', ?_, hu⟩
  have hl : (q.unread.take n).length = n := by simp [List.length_take]; omega
  simp only [PQ.read, hb, hl]

/-- Restoring the position saved before a failed read makes all unread bytes readable again. -/
theorem c15_rollback_restores (q : PQ) (n : Nat) (hwf : q.WF) :
    let q' := (q.bytes n).2
    (q'.setPosition q.ip q.id).unread = q.unread ∧ (q'.setPosition q.ip q.id).WF := by
  have hq : (q.bytes n).2.queue = q.queue := by
    by_cases hn : n ≤ q.unread.length
    · obtain ⟨q', h, _, hq, _⟩ := bytes_refines q n hwf hn; rw [h]; exact hq
    · obtain ⟨bs, q', h, hq, _⟩ := bytes_short q n hwf (by omega); rw [h]; exact hq
  simp only [setPosition, unread, WF, hq]
  exact ⟨trivial, hwf⟩

/-- Discarding never drops an unread byte (and does not panic on a well-formed queue). -/
theorem c15_discard_keeps_unread (q : PQ) (hwf : q.WF) :
    ∃ q', q.discard = some q' ∧ q'.unread = q.unread ∧ q'.WF ∧ q'.eom = q.eom :=
  discard_keeps_unread q hwf

/-- An enqueued packet's bytes become readable after everything enqueued before. -/
theorem c15_addPacket_appends (q : PQ) (p : Packet) (hwf : q.WF) :
    (q.addPacket p).unread = q.unread ++ p.data ∧ (q.addPacket p).WF :=
  ⟨unreadAt_append q.queue p q.ip q.id hwf, WFpos_append q.queue p q.ip q.id hwf⟩

/-! ## Refinement of the flat byte FIFO over arbitrary operation sequences -/

inductive ROp where
  | add (p : Packet)
  | bytes (n : Nat)
  | mark            -- `Position()` saved by the caller
  | restore         -- `SetPosition(saved)`
  | discard
  | reset

inductive Out where
  | none
  | ok (bs : Bytes)
  | short
  | panic
deriving DecidableEq

/-- the flat specification: the unread bytes, and what was unread at the saved position -/
structure Spec where
  unread : Bytes := []
  marked : Option Bytes := some []

/-- one step of the specification; `none` = outside the reader discipline (restoring a position
that was saved before a discard or reset) -/
def specStep (s : Spec) : ROp → Option (Spec × Out)
  | .add p => some ({ unread := s.unread ++ p.data, marked := s.marked.map (· ++ p.data) }, .none)
  | .bytes n =>
    if n ≤ s.unread.length then some ({ s with unread := s.unread.drop n }, .ok (s.unread.take n))
    else some ({ s with unread := [] }, .short)
  | .mark => some ({ s with marked := some s.unread }, .none)
  | .restore =>
    match s.marked with
    | some m => some ({ s with unread := m }, .none)
    | none => none
  | .discard => some ({ s with marked := none }, .none)
  | .reset => some ({ unread := [], marked := none }, .none)

def specRun : Spec → List ROp → Option (List Out)
  | _, [] => some []
  | s, op :: ops =>
    match specStep s op with
    | none => none
    | some (s', o) => (specRun s' ops).map (o :: ·)

structure Impl where
  q : PQ := {}
  mark : Nat × Nat := (0, 0)

def implStep (c : Impl) : ROp → Impl × Out
  | .add p => ({ c with q := c.q.addPacket p }, .none)
  | .bytes n =>
    match c.q.bytes n with
    | (.ok bs, q') => ({ c with q := q' }, .ok bs)
    | (.short _, q') => ({ c with q := q' }, .short)
    | (.panic, q') => ({ c with q := q' }, .panic)
  | .mark => ({ c with mark := c.q.position }, .none)
  | .restore => ({ c with q := c.q.setPosition c.mark.1 c.mark.2 }, .none)
  | .discard =>
    match c.q.discard with
    | some q' => ({ c with q := q' }, .none)
    | none => (c, .panic)
  | .reset => ({ c with q := c.q.reset }, .none)

def implRun : Impl → List ROp → List Out
  | _, [] => []
  | c, op :: ops => (implStep c op).2 :: implRun (implStep c op).1 ops

/-- the refinement relation -/
def R (c : Impl) (s : Spec) : Prop :=
  c.q.WF ∧ c.q.unread = s.unread ∧
    ∀ m, s.marked = some m → WFpos c.q.queue c.mark.1 c.mark.2 ∧ unreadAt c.q.queue c.mark.1 c.mark.2 = m

theorem R_init : R {} {} := by
  refine ⟨by simp [WF, WFpos, WFrest], by simp [unread, flat], ?_⟩
  intro m hm
  simp at hm
  subst hm
  exact ⟨by simp [WFpos, WFrest], by simp [unreadAt, flat]⟩

theorem step_refines (c : Impl) (s : Spec) (op : ROp) (s' : Spec) (o : Out)
    (hR : R c s) (hs : specStep s op = some (s', o)) :
    (implStep c op).2 = o ∧ R (implStep c op).1 s' := by
  obtain ⟨hwf, hun, hmk⟩ := hR
  cases op with
  | add p =>
    simp only [specStep, Option.some.injEq, Prod.mk.injEq] at hs
    obtain ⟨hs, ho⟩ := hs
    subst hs; subst ho
    refine ⟨rfl, WFpos_append _ p _ _ hwf, ?_, ?_⟩
    · show (c.q.addPacket p).unread = _
      rw [(c15_addPacket_appends c.q p hwf).1, hun]
    · intro m hm
      simp only [Option.map_eq_some_iff] at hm
      obtain ⟨m0, hm0, rfl⟩ := hm
      obtain ⟨hw, hu⟩ := hmk m0 hm0
      exact ⟨WFpos_append _ p _ _ hw, by
        show unreadAt (c.q.queue ++ [p]) c.mark.1 c.mark.2 = _
        rw [unreadAt_append _ p _ _ hw, hu]⟩
  | bytes n =>
    simp only [specStep] at hs
    by_cases hn : n ≤ s.unread.length
    · simp only [hn, if_true, Option.some.injEq, Prod.mk.injEq] at hs
      obtain ⟨hs, ho⟩ := hs
      subst hs; subst ho
      obtain ⟨q', hb, hu', hq', _, hwf'⟩ := bytes_refines c.q n hwf (by rw [hun]; exact hn)
      simp only [implStep, hb]
      refine ⟨by rw [hun], hwf', by rw [hu', hun], ?_⟩
      intro m hm
      show WFpos q'.queue _ _ ∧ unreadAt q'.queue _ _ = m
      rw [hq']; exact hmk m hm
    · simp only [hn, if_false, Option.some.injEq, Prod.mk.injEq] at hs
      obtain ⟨hs, ho⟩ := hs
      subst hs; subst ho
      obtain ⟨bs, q', hb, hq', _, hu', hwf'⟩ := bytes_short c.q n hwf (by rw [hun]; omega)
      simp only [implStep, hb]
      refine ⟨trivial, hwf', hu', ?_⟩
      intro m hm
      show WFpos q'.queue _ _ ∧ unreadAt q'.queue _ _ = m
      rw [hq']; exact hmk m hm
  | mark =>
    simp only [specStep, Option.some.injEq, Prod.mk.injEq] at hs
    obtain ⟨hs, ho⟩ := hs
    subst hs; subst ho
    refine ⟨rfl, hwf, hun, ?_⟩
    intro m hm
    simp only [Option.some.injEq] at hm
    subst hm
    exact ⟨hwf, hun⟩
  | restore =>
    simp only [specStep] at hs
    cases hm : s.marked with
    | none => rw [hm] at hs; simp at hs
    | some m =>
      rw [hm] at hs
      simp only [Option.some.injEq, Prod.mk.injEq] at hs
      obtain ⟨hs, ho⟩ := hs
      subst hs; subst ho
      obtain ⟨hw, hu⟩ := hmk m hm
      refine ⟨rfl, hw, hu, ?_⟩
      intro m' hm'
      exact hmk m' (by rw [hm]; exact hm')
  | discard =>
    simp only [specStep, Option.some.injEq, Prod.mk.injEq] at hs
    obtain ⟨hs, ho⟩ := hs
    subst hs; subst ho
    obtain ⟨q', hd, hu', hwf', _⟩ := discard_keeps_unread c.q hwf
    simp only [implStep, hd]
    exact ⟨trivial, hwf', by rw [hu', hun], by intro m hm; simp at hm⟩
  | reset =>
    simp only [specStep, Option.some.injEq, Prod.mk.injEq] at hs
    obtain ⟨hs, ho⟩ := hs
    subst hs; subst ho
    exact ⟨rfl, reset_WF c.q, reset_unread c.q, by intro m hm; simp at hm⟩

/-- **The packet queue refines the flat byte FIFO**: for every sequence of operations of the
reader discipline, of any length, the real queue's answers are those of the flat specification
(same bytes, same not-enough-bytes reports, no panic). -/
theorem c15_pq_refines_fifo (ops : List ROp) :
    ∀ (c : Impl) (s : Spec) (outs : List Out), R c s → specRun s ops = some outs → implRun c ops = outs := by
  induction ops with
  | nil => intro c s outs _ h; simp [specRun] at h; simp [implRun, h]
  | cons op ops ih =>
    intro c s outs hR h
    simp only [specRun] at h
    cases hs : specStep s op with
    | none => rw [hs] at h; simp at h
    | some so =>
      obtain ⟨s', o⟩ := so
      rw [hs] at h
      simp only [Option.map_eq_some_iff] at h
      obtain ⟨outs', hrun, rfl⟩ := h
      obtain ⟨ho, hR'⟩ := step_refines c s op s' o hR hs
      simp only [implRun, ho, ih _ _ _ hR' hrun]

/-- the specification never answers `panic`, hence neither does the queue under the discipline -/
theorem specRun_no_panic (ops : List ROp) : ∀ (s : Spec) (outs : List Out),
    specRun s ops = some outs → Out.panic ∉ outs := by
  induction ops with
  | nil => intro s outs h; simp [specRun] at h; simp [h]
  | cons op ops ih =>
    intro s outs h
    simp only [specRun] at h
    cases hs : specStep s op with
    | none => rw [hs] at h; simp at h
    | some so =>
      obtain ⟨s', o⟩ := so
      rw [hs] at h
      simp only [Option.map_eq_some_iff] at h
      obtain ⟨outs', hrun, rfl⟩ := h
      have ho : o ≠ .panic := by
        cases op <;> simp only [specStep] at hs
        all_goals (try split at hs) <;> simp at hs <;> (try (obtain ⟨_, rfl⟩ := hs; simp))
      simp only [List.mem_cons, not_or]
      exact ⟨fun h => ho h.symm, ih s' outs' hrun⟩

theorem c15_pq_no_panic (ops : List ROp) (outs : List Out)
    (h : specRun {} ops = some outs) : Out.panic ∉ implRun {} ops := by
  rw [c15_pq_refines_fifo ops {} {} outs R_init h]
  exact specRun_no_panic ops {} outs h

/-- non-vacuity: a disciplined history with a read across a packet boundary, a failed read,
a rollback and a discard -/
example :
    specRun {} [.add ⟨{}, [1, 2]⟩, .add ⟨{}, [3]⟩, .mark, .bytes 3, .bytes 1, .restore, .bytes 2, .discard, .bytes 1]
      = some [.none, .none, .none, .ok [1, 2, 3], .short, .none, .ok [1, 2], .none, .ok [3]] := by decide

/-! ## Writer discipline: layout of written data -/

/-- a sequence of `WriteBytes` calls, each with the packet size in force at that call -/
def writeAll : PQ → List (Bytes × Nat) → WrOut × PQ
  | q, [] => (.ok, q)
  | q, (bs, s) :: rest =>
    match q.writeBytes bs s with
    | (.ok, q') => writeAll q' rest
    | r => r

theorem writeAll_spec (ws : List (Bytes × Nat)) (hws : ∀ x ∈ ws, 9 ≤ x.2 ∧ x.2 ≤ 65535) :
    ∀ (q : PQ) (w : Bytes), WInv q w →
    ∃ q', writeAll q ws = (.ok, q') ∧ WInv q' (w ++ (ws.map (·.1)).flatten) ∧ q'.eom = q.eom
      ∧ ∃ added, hdrs q' = hdrs q ++ added ∧ ∀ h ∈ added, ∃ x ∈ ws, h = { length := x.2 } := by
  induction ws with
  | nil => intro q w h; exact ⟨q, rfl, by simpa using h, rfl, [], by simp, by simp⟩
  | cons x rest ih =>
    intro q w hinv
    obtain ⟨bs, s⟩ := x
    have hx := hws (bs, s) (by simp)
    obtain ⟨q1, j, hw1, hinv1, hh1, he1⟩ := writeBytes_spec q bs w s hinv hx.1 hx.2
    obtain ⟨q2, hw2, hinv2, he2, added, hh2, hadd⟩ :=
      ih (fun y hy => hws y (by simp [hy])) q1 (w ++ bs) hinv1
    refine ⟨q2, by simp only [writeAll, hw1]; exact hw2, by simpa [List.append_assoc] using hinv2,
      by rw [he2, he1], List.replicate j { length := s } ++ added, by rw [hh2, hh1, List.append_assoc], ?_⟩
    intro h hh
    simp only [List.mem_append, List.mem_replicate] at hh
    rcases hh with ⟨_, rfl⟩ | hh
    · exact ⟨(bs, s), by simp, rfl⟩
    · obtain ⟨y, hy, rfl⟩ := hadd h hh
      exact ⟨y, by simp [hy], rfl⟩

/-- **Layout of written data.** From a reset queue, after any sequence of writes (packet size
9..65535, possibly changing between writes): no write fails or panics; every packet's header
length is its body capacity + 8 and is one of the packet sizes that were in force; the packets
before the position packet are used completely and the position packet up to the data index
(at least one byte) — so every packet but the last is full — and the used bytes are exactly
the bytes written, in order. -/
theorem c15_write_layout (q0 : PQ) (ws : List (Bytes × Nat)) (hws : ∀ x ∈ ws, 9 ≤ x.2 ∧ x.2 ≤ 65535) :
    ∃ q', writeAll q0.reset ws = (.ok, q') ∧ WInv q' (ws.map (·.1)).flatten
      ∧ ∀ h ∈ hdrs q', ∃ x ∈ ws, h = { length := x.2 } := by
  obtain ⟨q', hw, hinv, _, added, hh, hadd⟩ := writeAll_spec ws hws q0.reset [] (WInv_reset q0)
  refine ⟨q', hw, by simpa using hinv, ?_⟩
  intro h hm
  rw [hh] at hm
  simp only [hdrs, reset, List.map_nil, List.nil_append] at hm
  exact hadd h hm

/-- what the invariant says in plain terms for a non-empty write: the queue is `init ++ [last]`,
the position is in `last` behind at least one byte, and the written bytes are all of `init`
followed by the used prefix of `last`. -/
theorem c15_layout_reading (q : PQ) (w : Bytes) (h : WInv q w) (hw : w ≠ []) :
    ∃ init last, q.queue = init ++ [last] ∧ q.ip = init.length ∧ 1 ≤ q.id ∧ q.id ≤ last.data.length
      ∧ w = flat init ++ last.data.take q.id ∧ ∀ p ∈ q.queue, p.hdr.length = p.data.length + 8 := by
  obtain ⟨hok, hs⟩ := h
  cases hs with
  | empty _ _ _ hwe => exact absurd hwe hw
  | cur init last hq hip h1 h2 hww => exact ⟨init, last, hq, hip, h1, h2, hww, fun p hp => (hok p hp).1⟩

/-- non-vacuity: three writes at two packet sizes; the first packet (size 10, body 2) is full -/
example : (writeAll ({} : PQ).reset [([1, 2, 3], 10), ([4], 10), ([5, 6, 7], 11)]).1 = .ok
    ∧ ((writeAll ({} : PQ).reset [([1, 2, 3], 10), ([4], 10), ([5, 6, 7], 11)]).2.queue.map (·.data))
        = [[1, 2], [3, 4], [5, 6, 7]] := by decide


/-! ## Typed reads and writes

`PacketQueue` offers, beside `Bytes(n)` and `WriteBytes`, a method per integer width (`Uint8 … Int64`,
`WriteUint8 … WriteInt64`, `Byte`, `WriteByte`), `String(n)` / `WriteString` and the `io.Reader` /
`io.Writer` pair. Every one of them is the byte operation on a little-endian encoding (strings: on their
bytes), which is how the line protocol treats them (`u i st rd`, `wu wi ws wy` — method variants of `b`
and `w`, tied to the code by the C15 harness, which calls each real method). What that buys: typed access
is as good a FIFO as byte access. -/

/-- the little-endian encoding of width `w` has `w` bytes … -/
theorem leEncode_length (w n : Nat) : (leEncode w n).length = w := by
  induction w generalizing n with
  | zero => rfl
  | succ w ih => simp [leEncode, ih]

/-- … and decodes to the value reduced to the width -/
theorem leDecode_leEncode_mod (w n : Nat) : leDecode (leEncode w n) = n % 256 ^ w := by
  induction w generalizing n with
  | zero => simp [leEncode, leDecode, Nat.mod_one]
  | succ w ih =>
    simp only [leEncode, leDecode, ih]
    have : (UInt8.ofNat (n % 256)).toNat = n % 256 := by
      simp [UInt8.toNat_ofNat']
    rw [this, Nat.pow_succ, Nat.mul_comm (256 ^ w) 256, Nat.mod_mul]

/-- a typed read of width `w`: the little-endian value of the next `w` bytes, or not-enough-bytes -/
def readUint (q : PQ) (w : Nat) : Option Nat × PQ :=
  match q.bytes w with
  | (.ok bs, q') => (some (leDecode bs), q')
  | (_, q') => (none, q')

/-- a typed write of width `w` at packet size `ps` -/
def writeUint (q : PQ) (w v ps : Nat) : WrOut × PQ := q.writeBytes (leEncode w v) ps

/-- **a typed read returns the little-endian value of exactly the next `w` unread bytes** — across packet
boundaries — and consumes exactly those -/
theorem c15_typed_read (q : PQ) (w : Nat) (hwf : q.WF) (hn : w ≤ q.unread.length) :
    ∃ q', readUint q w = (some (leDecode (q.unread.take w)), q') ∧ q'.unread = q.unread.drop w ∧ q'.WF := by
  obtain ⟨q', hb, hu, _, _, hwf'⟩ := c15_bytes_refines q w hwf hn
  exact ⟨q', by simp [readUint, hb], hu, hwf'⟩

/-- … and reports not-enough-bytes, never a value, when fewer than `w` bytes are unread -/
theorem c15_typed_read_short (q : PQ) (w : Nat) (hwf : q.WF) (hn : q.unread.length < w) :
    (readUint q w).1 = none := by
  obtain ⟨bs, q', hb, _⟩ := c15_bytes_short q w hwf hn
  simp [readUint, hb]

/-- **what a typed write puts into the queue is read back as the value** (mod 2^(8w)): if the unread
bytes start with the encoding of `v`, the typed read of the same width returns `v` reduced to the width -/
theorem c15_typed_round_trip (q : PQ) (w v : Nat) (rest : Bytes) (hwf : q.WF)
    (hq : q.unread = leEncode w v ++ rest) :
    ∃ q', readUint q w = (some (v % 256 ^ w), q') ∧ q'.unread = rest := by
  have hl : (leEncode w v).length = w := leEncode_length w v
  have hn : w ≤ q.unread.length := by rw [hq, List.length_append, hl]; omega
  obtain ⟨q', hr, hu, _⟩ := c15_typed_read q w hwf hn
  refine ⟨q', ?_, ?_⟩
  · rw [hr, hq, List.take_left' hl, leDecode_leEncode_mod]
  · rw [hu, hq, List.drop_left' hl]

/-- **typed writes lay the encodings out like byte writes**: from a reset queue any sequence of typed
writes (any widths, values and packet sizes 9..65535) succeeds, and the used bytes of the packets are
the little-endian encodings in order, every packet but the last full -/
theorem c15_typed_write_layout (q0 : PQ) (ws : List (Nat × Nat × Nat))
    (hws : ∀ x ∈ ws, 9 ≤ x.2.2 ∧ x.2.2 ≤ 65535) :
    ∃ q', writeAll q0.reset (ws.map (fun x => (leEncode x.1 x.2.1, x.2.2))) = (.ok, q')
      ∧ WInv q' (ws.map (fun x => leEncode x.1 x.2.1)).flatten := by
  have h : ∀ y ∈ ws.map (fun x => (leEncode x.1 x.2.1, x.2.2)), 9 ≤ y.2 ∧ y.2 ≤ 65535 := by
    intro y hy
    obtain ⟨x, hx, rfl⟩ := List.mem_map.1 hy
    exact hws x hx
  obtain ⟨q', hw, hinv, _⟩ := c15_write_layout q0 _ h
  refine ⟨q', hw, ?_⟩
  simpa [List.map_map, Function.comp_def] using hinv

/-- non-vacuity: a two-byte and a four-byte value written at packet size 10 (body 2) and read back -/
example : (writeAll ({} : PQ).reset [(leEncode 2 513, 10), (leEncode 4 67305985, 10)]).1 = .ok
    ∧ ((writeAll ({} : PQ).reset [(leEncode 2 513, 10), (leEncode 4 67305985, 10)]).2.queue.map (·.data))
        = [[1, 2], [1, 2], [3, 4]] := by decide


/-! ## End of message

The receive path asks `IsEOM` after a failed parse to decide between "the message is over: reset" and
"wait for the next packet", and resets the queue at the end of every message. What these two must
guarantee so that nothing of one response leaks into the next. -/

/-- `Reset` gives the initial queue: nothing queued, position at the start, the end-of-message state
cleared — whatever the queue was -/
theorem c15_reset_is_initial (q : PQ) :
    q.reset.queue = [] ∧ q.reset.ip = 0 ∧ q.reset.id = 0 ∧ q.reset.eom = false ∧ q.reset.unread = [] := by
  simp [reset, unread, flat]

/-- **the end of one message does not reach into the next**: after the reset that ends a message, the
first packet of the next message — one without the end-of-message status — leaves the queue not at end
of message, however the last message ended -/
theorem c15_eom_does_not_leak (q : PQ) (p : Packet) (hp : hasEOM p.hdr.status = false) :
    (q.reset.addPacket p).isEOM = false := by
  simp [reset, addPacket, isEOM, hp]

/-- `IsEOM` answers yes only when every queued byte has been consumed AND an end-of-message packet was
queued: on a well-formed queue nothing is left unread then -/
theorem c15_isEOM_nothing_unread (q : PQ) (h : q.isEOM = true) :
    q.eom = true ∧ q.unread = [] := by
  simp only [isEOM, Bool.and_eq_true] at h
  refine ⟨h.2, ?_⟩
  have hc := h.1
  simp only [allConsumed] at hc
  simp only [unread]
  match hd : q.queue.drop q.ip with
  | [] => simp
  | [p] =>
    rw [hd] at hc
    simp only [consumedFrom, beq_iff_eq] at hc
    simp [flat, hc]
  | _ :: _ :: _ => rw [hd] at hc; simp [consumedFrom] at hc

/-- non-vacuity: an end-of-message packet consumed to its end -/
example : ({ queue := [{ hdr := { status := 1, length := 10 }, data := [1, 2] }], ip := 0, id := 2, eom := true } : PQ).isEOM = true := by
  decide

end Dblib.Props.C15
