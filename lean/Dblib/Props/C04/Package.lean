/-
C04 — package leg: field values survive encoding and decoding unchanged *inside a PARAMS package*.

`Props/C04/Values.lean` proves, per data type, `roundTrip t v l = GoValue(Bytes(v, l)) = v` for the value
domain of the type. `Props/C06/Fields.lean` proves that the PARAMS writer lays the bytes `Bytes` produced
out with their length members and that the PARAMS reader, after the PARAMFMT, hands exactly these bytes
to `GoValue` (`params_roundtrip`, `params_roundtrip_values`, with the value-level round trip as a
hypothesis). This file discharges that hypothesis:

* `ColumnOK f d`  — `f` is a column of a data type of the regenerated tables and `d` a datum of the
  domain the value theorem of that type covers (the maximum length of the format is the `length`
  argument of `Bytes`: 4 / 8 where the type has two widths);
* `datumRoundTrips_of_columnOK : ColumnOK f d → DatumRoundTrips f d`, family by family;
* `c04_package_leg` — for every list of columns and data with `ColumnOK` position by position, the Go
  writer produces a PARAMS package which the Go reader, after the format, decodes to the same data,
  consuming exactly what was written.

Families covered (all of the property's domain except BLOB — known finding `blob-not-functional` —
and with the two caveats below): integers (INT1/2/4/8, UINT2/4/8, INTN, UINTN), floats (FLT4/8, FLTN), BIT,
binary and character strings (BINARY, VARBINARY, LONGBINARY, CHAR, VARCHAR, LONGCHAR: non-empty, below
the range of the 1- / 4-byte length member), money (MONEY, SHORTMONEY, MONEYN 8 and 4: precision and
scale are the money constants), DECN / NUMN (any integer below 10^38 in absolute value; precision and
scale are those of the column format, which is what the reader puts into the decimal), DATE / DATEN
(midnight values 0001 … 9999), DATETIME / DATETIMEN(8) (every day × every 1/300 s tick), SHORTDATE /
DATETIMEN(4) (whole minutes 1900-01-01 … 2079-06-06), TIME / TIMEN (ticks), BIGTIMEN (microseconds of the
day), BIGDATETIMEN (microseconds 0001 … 9999), NULL for the nullable types whose zero-length datum
decodes to `nil`, and the text pointer family TEXT / IMAGE / UNITEXT / XML (raw data with text pointer and
timestamp; no value conversion happens in a package).

Caveats (both are properties of /repo, stated by the domain of `ColumnOK`, not gaps of the proof):
* a NULL of MONEYN / DECN / NUMN is not in `ColumnOK`: `Bytes(nil)` is the empty datum, which decodes to the
  library's NULL decimal `&Decimal{i: nil}`, not to `nil` (and that value cannot be written: `Bytes` panics);
* in a package TEXT / UNITEXT / XML data travel as raw bytes (`fieldDataTxtPtr`): the value-level theorems
  `c04_unitext_rt` / `c04_xml_rt` have no package counterpart, the raw bytes survive unchanged instead.
-/
import Dblib.Props.C04.Values
import Dblib.Props.C06.Fields

set_option linter.unusedSimpArgs false

namespace Dblib.Props.C04
open Dblib Dblib.Value Dblib.AseTime Dblib.Gen
open Dblib.Codec Dblib.Codec.Fields Dblib.CodecFields Dblib.Props.C06.Fields
open Dblib.Lemmas.ValueArms Dblib.Lemmas.ValueTemporal

/-! ## helpers -/

/-- the status a datum may carry: a byte, and 0 when the column has no status byte -/
def StatusOK (f : Fmt) (status : Nat) : Prop := status < 256 ∧ (hasColumnStatus f = false → status = 0)

theorem rt_go {t : Nat} {v v' : Val} {l : Int} {b : Bytes} (hrt : roundTrip t v l = .dec (.ok v'))
    (hb : bytes t v l = .ok b) : goValue t b = .ok v' := by
  simpa [roundTrip, hb] using hrt

/-- a value accepted by `GoValue` of a fixed-length type has the size of the type -/
theorem goValue_ok_fixed {t : Nat} {b : Bytes} {v : Val} (h : goValue t b = .ok v) (hs : byteSize t ≠ -1) :
    (b.length : Int) = byteSize t := by
  unfold goValue sizeBad at h
  by_cases hc : (b.length : Int) = byteSize t
  · exact hc
  · simp [hs, hc] at h

/-- a fixed-length column: the value-level round trip is the package-level round trip of the datum -/
theorem roundTrips_fixed (f : Fmt) (t size : Nat) (st : Nat) (v : Val) (ht : f.dataType = t)
    (hsh : shape t = some (.fixed size)) (hst : StatusOK f st)
    (hrt : roundTrip t v f.maxLength = .dec (.ok v)) : DatumRoundTrips f (.base st v) := by
  subst ht
  refine datumRoundTrips_of_value f (.fixed size) st v hsh rfl (by simp) hst hrt ?_
  intro b hb
  have hgo := rt_go hrt hb
  obtain ⟨cls, p, _, hag⟩ := shape_lookup hsh
  unfold agrees at hag
  rw [hsh] at hag
  simp only [Bool.and_eq_true, beq_iff_eq, isFixed, bne_iff_ne, ne_eq] at hag
  obtain ⟨⟨⟨_, hf⟩, hbs⟩, _⟩ := hag
  have := goValue_ok_fixed hgo hf
  unfold rawFits
  simp only
  omega

/-- a nullable column under a 1-byte length (shapes len1, scale) whose `GoValue` only accepts short data -/
theorem roundTrips_short (f : Fmt) (t : Nat) (sh : Shape) (st : Nat) (v : Val) (ht : f.dataType = t)
    (hsh : shape t = some sh) (hsh' : sh = .len1 ∨ sh = .scale)
    (h8 : ∀ b v', goValue t b = .ok v' → b.length ≤ 8) (hst : StatusOK f st)
    (hrt : roundTrip t v f.maxLength = .dec (.ok v)) : DatumRoundTrips f (.base st v) := by
  subst ht
  refine datumRoundTrips_of_value f sh st v hsh (by rcases hsh' with h | h <;> subst h <;> rfl)
    (by rcases hsh' with h | h <;> subst h <;> simp) hst hrt ?_
  intro b hb
  have := h8 b v (rt_go hrt hb)
  unfold rawFits
  rcases hsh' with h | h <;> subst h <;> simp only <;> omega

/-- a string column: the bytes written are the string itself -/
theorem roundTrips_string (f : Fmt) (t : Nat) (sh : Shape) (st : Nat) (v : Val) (b : Bytes) (ht : f.dataType = t)
    (hsh : shape t = some sh) (hsh' : sh = .len1 ∨ sh = .len4) (hb : bytes t v f.maxLength = .ok b)
    (hfit : rawFits sh b) (hst : StatusOK f st)
    (hrt : roundTrip t v f.maxLength = .dec (.ok v)) : DatumRoundTrips f (.base st v) := by
  subst ht
  refine datumRoundTrips_of_value f sh st v hsh (by rcases hsh' with h | h <;> subst h <;> rfl)
    (by rcases hsh' with h | h <;> subst h <;> simp) hst hrt ?_
  intro b' hb'
  rw [hb] at hb'
  injection hb' with hb'
  subst hb'
  exact hfit

/-! ### `GoValue` of the nullable numeric and temporal types only accepts 0, 1, 2, 4 or 8 bytes -/

theorem len8_INTN (b : Bytes) (v : Val) (h : goValue Types.INTN b = .ok v) : b.length ≤ 8 := by
  rw [goValue_INTN] at h
  by_cases hl : b.length ≤ 8
  · exact hl
  · have h0 : b.length ≠ 0 := by omega
    have h1 : b.length ≠ 1 := by omega
    have h2 : b.length ≠ 2 := by omega
    have h4 : b.length ≠ 4 := by omega
    have h8 : b.length ≠ 8 := by omega
    simp [h0, h1, h2, h4, h8] at h

theorem len8_UINTN (b : Bytes) (v : Val) (h : goValue Types.UINTN b = .ok v) : b.length ≤ 8 := by
  rw [goValue_UINTN] at h
  by_cases hl : b.length ≤ 8
  · exact hl
  · have h0 : b.length ≠ 0 := by omega
    have h1 : b.length ≠ 1 := by omega
    have h2 : b.length ≠ 2 := by omega
    have h4 : b.length ≠ 4 := by omega
    have h8 : b.length ≠ 8 := by omega
    simp [h0, h1, h2, h4, h8] at h

theorem len8_FLTN (b : Bytes) (v : Val) (h : goValue Types.FLTN b = .ok v) : b.length ≤ 8 := by
  rw [goValue_FLTN] at h
  by_cases hl : b.length ≤ 8
  · exact hl
  · have h0 : b.length ≠ 0 := by omega
    have h4 : b.length ≠ 4 := by omega
    have h8 : b.length ≠ 8 := by omega
    simp [h0, h4, h8] at h

theorem len8_DATEN (b : Bytes) (v : Val) (h : goValue Types.DATEN b = .ok v) : b.length ≤ 8 := by
  rw [goValue_DATEN, dateArm] at h
  by_cases hl : b.length ≤ 8
  · exact hl
  · have h0 : b.length ≠ 0 := by omega
    have h4 : b.length ≠ 4 := by omega
    simp [h0, h4] at h

theorem len8_timeArm (b : Bytes) (v : Val) (h : timeArm b = .ok v) : b.length ≤ 8 := by
  unfold timeArm at h
  by_cases hl : b.length ≤ 8
  · exact hl
  · have h0 : b.length ≠ 0 := by omega
    have h4 : b.length ≠ 4 := by omega
    have h8 : b.length ≠ 8 := by omega
    simp [h0, h4, h8] at h

theorem len8_dateTimeArm (b : Bytes) (v : Val) (h : dateTimeArm b = .ok v) : b.length ≤ 8 := by
  unfold dateTimeArm at h
  by_cases hl : b.length ≤ 8
  · exact hl
  · have h0 : b.length ≠ 0 := by omega
    have h4 : b.length ≠ 4 := by omega
    have h8 : b.length ≠ 8 := by omega
    simp [h0, h4, h8] at h

theorem len8_BIGDATETIMEN (b : Bytes) (v : Val) (h : goValue Types.BIGDATETIMEN b = .ok v) : b.length ≤ 8 := by
  rw [goValue_BIGDATETIMEN] at h
  by_cases hl : b.length ≤ 8
  · exact hl
  · have h0 : b.length ≠ 0 := by omega
    have h8 : b.length ≠ 8 := by omega
    simp [h0, h8] at h

/-! ### decimals: size of the magnitude -/

theorem natBytesBE_length (k n : Nat) (h : n < 256 ^ k) : (natBytesBE n).length ≤ k := by
  induction k generalizing n with
  | zero =>
    have : n = 0 := by simpa using h
    subst this
    rw [natBytesBE]; simp
  | succ k ih =>
    rw [natBytesBE]
    split
    · simp
    · have : n / 256 < 256 ^ k := by
        rw [Nat.pow_succ] at h
        exact Nat.div_lt_of_lt_mul (by rw [Nat.mul_comm]; exact h)
      have := ih _ this
      simp only [List.length_append, List.length_cons, List.length_nil]
      omega

theorem seen_ok {f : Fmt} {st : Nat} (hst : StatusOK f st) : seenStatus f st = st := by
  unfold seenStatus
  cases hc : hasColumnStatus f
  · simp [hst.2 hc]
  · simp

/-- DECN / NUMN (shape `prec`): the reader puts precision and scale of the column format into the decimal,
so a decimal that carries exactly those survives -/
theorem roundTrips_decimal (f : Fmt) (t : Nat) (st : Nat) (i : Int) (ht : f.dataType = t)
    (htt : t = Types.DECN ∨ t = Types.NUMN) (hi : i.natAbs < 10 ^ Types.aseMaxDecimalDigits) (hst : StatusOK f st) :
    DatumRoundTrips f (.base st (.dec i f.precision f.scale)) := by
  have hsh : shape f.dataType = some .prec := by
    rw [ht]; rcases htt with h | h <;> subst h <;> decide
  have hlen : (natBytesBE i.natAbs).length ≤ 16 :=
    natBytesBE_length 16 _ (Nat.lt_trans hi (by decide))
  have hb : bytes f.dataType (.dec i f.precision f.scale) f.maxLength =
      .ok ((if i < 0 then 1 else 0) :: natBytesBE i.natAbs) := by
    rw [ht]; rcases htt with h | h <;> subst h
    · exact bytes_DECN _ _ _ _
    · exact bytes_NUMN _ _ _ _
  have hgo : goValue f.dataType ((if i < 0 then 1 else 0) :: natBytesBE i.natAbs) =
      .ok (.dec i Types.aseDecimalDefaultPrecision Types.aseDecimalDefaultScale) := by
    have h1 := c04_decimal_rt i f.precision f.scale f.maxLength
    rw [ht] at hb ⊢
    rcases htt with h | h <;> subst h
    · exact rt_go h1.1 hb
    · exact rt_go h1.2 hb
  refine ⟨{ status := st, raw := (if i < 0 then 1 else 0) :: natBytesBE i.natAbs }, ?_, ⟨hst.1, ?_⟩, ?_⟩
  · unfold datumRaw
    rw [hsh]
    simp [hb]
  · rw [hsh]
    simp only [List.length_cons]
    omega
  · unfold datumResult
    rw [hsh]
    simp [hgo, seen_ok hst]

/-! ## the columns whose data survive a PARAMS package -/

/-- the nullable types whose empty datum decodes to `nil` -/
def nullTypes : List Nat :=
  [Types.INTN, Types.UINTN, Types.FLTN, Types.DATEN, Types.TIMEN, Types.DATETIMEN, Types.BIGTIMEN, Types.BIGDATETIMEN,
   Types.CHAR, Types.VARCHAR, Types.BINARY, Types.VARBINARY, Types.LONGCHAR, Types.LONGBINARY]

/-- `ColumnOK f d`: column `f` (its data type read off the regenerated tables, its maximum length the width
`Bytes` encodes to where the type has two widths) and a datum `d` of the domain the value-level theorem of
that data type covers -/
inductive ColumnOK : Fmt → Data → Prop
  | int (f : Fmt) (st t : Nat) (v : Val) : f.dataType = t → IntVal t v → StatusOK f st → ColumnOK f (.base st v)
  | float (f : Fmt) (st t : Nat) (v : Val) : f.dataType = t → FloatVal t v → StatusOK f st → ColumnOK f (.base st v)
  | bit (f : Fmt) (st : Nat) (b : Bool) : f.dataType = Types.BIT → StatusOK f st → ColumnOK f (.base st (.bool b))
  | binary (f : Fmt) (st : Nat) (b : Bytes) : f.dataType = Types.BINARY ∨ f.dataType = Types.VARBINARY →
      b ≠ [] → b.length < 256 → StatusOK f st → ColumnOK f (.base st (.bytes b))
  | longbinary (f : Fmt) (st : Nat) (b : Bytes) : f.dataType = Types.LONGBINARY →
      b ≠ [] → b.length < 4294967296 → StatusOK f st → ColumnOK f (.base st (.bytes b))
  | char (f : Fmt) (st : Nat) (b : Bytes) : f.dataType = Types.CHAR ∨ f.dataType = Types.VARCHAR →
      b ≠ [] → b.length < 256 → StatusOK f st → ColumnOK f (.base st (.str b))
  | longchar (f : Fmt) (st : Nat) (b : Bytes) : f.dataType = Types.LONGCHAR →
      b ≠ [] → b.length < 4294967296 → StatusOK f st → ColumnOK f (.base st (.str b))
  | money8 (f : Fmt) (st : Nat) (i : Int) : f.dataType = Types.MONEY ∨ f.dataType = Types.MONEYN → f.maxLength = 8 →
      -9223372036854775808 ≤ i ∧ i ≤ 9223372036854775807 → StatusOK f st →
      ColumnOK f (.base st (.dec i Types.aseMoneyPrecision Types.aseMoneyScale))
  | money4 (f : Fmt) (st : Nat) (i : Int) : f.dataType = Types.SHORTMONEY ∨ f.dataType = Types.MONEYN →
      f.maxLength = 4 → -2147483648 ≤ i ∧ i ≤ 2147483647 → StatusOK f st →
      ColumnOK f (.base st (.dec i Types.aseShortMoneyPrecision Types.aseShortMoneyScale))
  | decimal (f : Fmt) (st : Nat) (i : Int) : f.dataType = Types.DECN ∨ f.dataType = Types.NUMN →
      i.natAbs < 10 ^ Types.aseMaxDecimalDigits → StatusOK f st →
      ColumnOK f (.base st (.dec i f.precision f.scale))
  | date (f : Fmt) (st : Nat) (t : Time) : f.dataType = Types.DATE ∨ f.dataType = Types.DATEN → f.maxLength = 4 →
      InRange t → t.ns = 0 → StatusOK f st → ColumnOK f (.base st (.time t))
  | datetime (f : Fmt) (st : Nat) (d : Int) (k : Nat) : f.dataType = Types.DATETIME ∨ f.dataType = Types.DATETIMEN →
      f.maxLength = 8 → 0 ≤ d ∧ d < 3652059 → k < 25920000 → StatusOK f st →
      ColumnOK f (.base st (.time ⟨d, tickNs k⟩))
  | smalldatetime (f : Fmt) (st : Nat) (t : Time) : f.dataType = Types.SHORTDATE ∨ f.dataType = Types.DATETIMEN →
      f.maxLength = 4 → 693595 ≤ t.day ∧ t.day < 693595 + 65536 → t.ns < nsPerDay → t.ns % 60000000000 = 0 →
      StatusOK f st → ColumnOK f (.base st (.time t))
  | time (f : Fmt) (st : Nat) (k : Nat) : f.dataType = Types.TIME ∨ f.dataType = Types.TIMEN → f.maxLength = 4 →
      k < 25920000 → StatusOK f st → ColumnOK f (.base st (.time ⟨0, tickNs k⟩))
  | bigtime (f : Fmt) (st : Nat) (ns : Nat) : f.dataType = Types.BIGTIMEN → f.maxLength = 8 →
      ns < nsPerDay → ns % 1000 = 0 → StatusOK f st → ColumnOK f (.base st (.time ⟨0, ns⟩))
  | bigdatetime (f : Fmt) (st : Nat) (t : Time) : f.dataType = Types.BIGDATETIMEN → f.maxLength = 8 →
      InRange t → t.ns % 1000 = 0 → StatusOK f st → ColumnOK f (.base st (.time t))
  | null (f : Fmt) (st : Nat) : f.dataType ∈ nullTypes → StatusOK f st → ColumnOK f (.base st .null)
  | text (f : Fmt) (st : Nat) (txtPtr timeStamp data : Bytes) : shape f.dataType = some .text →
      txtPtr.length < 256 → timeStamp.length = 8 → data.length < 4294967296 → StatusOK f st →
      ColumnOK f (.txt st txtPtr timeStamp data)

/-- NULL in a nullable column whose empty datum decodes to `nil` -/
theorem roundTrips_null (f : Fmt) (t : Nat) (st : Nat) (ht : f.dataType = t)
    (hsh : shape t = some .len1 ∨ shape t = some .len4 ∨ shape t = some .scale)
    (hgo : goValue t [] = .ok .null) (hst : StatusOK f st) : DatumRoundTrips f (.base st .null) := by
  subst ht
  have hb := c04_null_enc f.dataType f.maxLength
  have key : ∀ sh, shape f.dataType = some sh → (sh = .len1 ∨ sh = .len4 ∨ sh = .scale) →
      DatumRoundTrips f (.base st .null) := by
    intro sh hsh hs
    refine datumRoundTrips_of_value f sh st .null hsh (by rcases hs with h | h | h <;> subst h <;> rfl)
      (by rcases hs with h | h | h <;> subst h <;> simp) hst (by simp [roundTrip, hb, hgo]) ?_
    intro b hb'
    rw [hb] at hb'
    injection hb' with hb'
    subst hb'
    unfold rawFits
    rcases hs with h | h | h <;> subst h <;> simp
  rcases hsh with h | h | h
  · exact key _ h (Or.inl rfl)
  · exact key _ h (Or.inr (Or.inl rfl))
  · exact key _ h (Or.inr (Or.inr rfl))

theorem str_ne {b : Bytes} (hb : b ≠ []) : b.length ≠ 0 := fun h => hb (List.length_eq_zero_iff.1 h)

/-- **every `ColumnOK` datum survives**: `Bytes` encodes it, the bytes fit the column, and the reader makes the
same datum of them -/
theorem datumRoundTrips_of_columnOK {f : Fmt} {d : Data} (h : ColumnOK f d) : DatumRoundTrips f d := by
  cases h with
  | int st t v ht hv hst =>
    have hrt := c04_int_rt t v f.maxLength hv
    cases hv
    case int1 => exact roundTrips_fixed f _ 1 st _ ht (by decide) hst hrt
    case int2 => exact roundTrips_fixed f _ 2 st _ ht (by decide) hst hrt
    case int4 => exact roundTrips_fixed f _ 4 st _ ht (by decide) hst hrt
    case int8 => exact roundTrips_fixed f _ 8 st _ ht (by decide) hst hrt
    case uint2 => exact roundTrips_fixed f _ 2 st _ ht (by decide) hst hrt
    case uint4 => exact roundTrips_fixed f _ 4 st _ ht (by decide) hst hrt
    case uint8 => exact roundTrips_fixed f _ 8 st _ ht (by decide) hst hrt
    case intn1 | intn2 | intn4 | intn8 =>
      exact roundTrips_short f _ .len1 st _ ht (by decide) (Or.inl rfl) len8_INTN hst hrt
    case uintn1 | uintn2 | uintn4 | uintn8 =>
      exact roundTrips_short f _ .len1 st _ ht (by decide) (Or.inl rfl) len8_UINTN hst hrt
  | float st t v ht hv hst =>
    have hrt := c04_float_rt t v f.maxLength hv
    cases hv
    case flt4 => exact roundTrips_fixed f _ 4 st _ ht (by decide) hst hrt
    case flt8 => exact roundTrips_fixed f _ 8 st _ ht (by decide) hst hrt
    case fltn4 | fltn8 =>
      exact roundTrips_short f _ .len1 st _ ht (by decide) (Or.inl rfl) len8_FLTN hst hrt
  | bit st b ht hst =>
    exact roundTrips_fixed f _ 1 st _ ht (by decide) hst (c04_bit_rt b f.maxLength)
  | binary st b ht hb hl hst =>
    have hne : (Val.bytes b) ≠ .null := by simp
    rcases ht with ht | ht
    · refine roundTrips_string f _ .len1 st _ b ht (by decide) (Or.inl rfl) ?_ hl hst
        ((c04_bytes_str_rt Types.BINARY b f.maxLength hb).1 (Or.inl rfl))
      rw [bytes_BINARY, if_neg hne]; exact genericBytes_ok _ _ b rfl (Or.inl rfl)
    · refine roundTrips_string f _ .len1 st _ b ht (by decide) (Or.inl rfl) ?_ hl hst
        ((c04_bytes_str_rt Types.VARBINARY b f.maxLength hb).1 (Or.inr (Or.inl rfl)))
      rw [bytes_VARBINARY, if_neg hne]; exact genericBytes_ok _ _ b rfl (Or.inl rfl)
  | longbinary st b ht hb hl hst =>
    have hne : (Val.bytes b) ≠ .null := by simp
    refine roundTrips_string f _ .len4 st _ b ht (by decide) (Or.inr rfl) ?_ hl hst
      ((c04_bytes_str_rt Types.LONGBINARY b f.maxLength hb).1 (Or.inr (Or.inr (Or.inl rfl))))
    rw [bytes_LONGBINARY, if_neg hne]; exact genericBytes_ok _ _ b rfl (Or.inl rfl)
  | char st b ht hb hl hst =>
    have hne : (Val.str b) ≠ .null := by simp
    rcases ht with ht | ht
    · refine roundTrips_string f _ .len1 st _ b ht (by decide) (Or.inl rfl) ?_ hl hst
        ((c04_bytes_str_rt Types.CHAR b f.maxLength hb).2 (Or.inl rfl))
      rw [bytes_CHAR, if_neg hne]; exact genericBytes_ok _ _ b rfl (Or.inl rfl)
    · refine roundTrips_string f _ .len1 st _ b ht (by decide) (Or.inl rfl) ?_ hl hst
        ((c04_bytes_str_rt Types.VARCHAR b f.maxLength hb).2 (Or.inr (Or.inl rfl)))
      rw [bytes_VARCHAR, if_neg hne]; exact genericBytes_ok _ _ b rfl (Or.inl rfl)
  | longchar st b ht hb hl hst =>
    have hne : (Val.str b) ≠ .null := by simp
    refine roundTrips_string f _ .len4 st _ b ht (by decide) (Or.inr rfl) ?_ hl hst
      ((c04_bytes_str_rt Types.LONGCHAR b f.maxLength hb).2 (Or.inr (Or.inr (Or.inl rfl))))
    rw [bytes_LONGCHAR, if_neg hne]; exact genericBytes_ok _ _ b rfl (Or.inl rfl)
  | money8 st i ht hml hi hst =>
    have hrt := c04_money_rt i Types.aseMoneyPrecision Types.aseMoneyScale hi
    rcases ht with ht | ht
    · exact roundTrips_fixed f _ 8 st _ ht (by decide) hst (by rw [hml]; exact hrt.1)
    · refine roundTrips_string f _ .len1 st _ _ ht (by decide) (Or.inl rfl)
        (by rw [hml, bytes_MONEYN]; exact enc_money8 i _ _) ?_ hst (by rw [hml]; exact hrt.2)
      simp [rawFits, Dblib.CodecCursor.leEncode_length]
  | money4 st i ht hml hi hst =>
    have hrt := c04_shortmoney_rt i Types.aseShortMoneyPrecision Types.aseShortMoneyScale hi
    rcases ht with ht | ht
    · exact roundTrips_fixed f _ 4 st _ ht (by decide) hst (by rw [hml]; exact hrt.1)
    · refine roundTrips_string f _ .len1 st _ _ ht (by decide) (Or.inl rfl)
        (by rw [hml, bytes_MONEYN]; exact enc_money4 i _ _) ?_ hst (by rw [hml]; exact hrt.2)
      simp [rawFits, Dblib.CodecCursor.leEncode_length]
  | decimal st i ht hi hst => exact roundTrips_decimal f _ st i rfl ht hi hst
  | date st t ht hml hr hz hst =>
    have hrt := c04_date_rt t hr hz
    rcases ht with ht | ht
    · exact roundTrips_fixed f _ 4 st _ ht (by decide) hst (by rw [hml]; exact hrt.1)
    · exact roundTrips_short f _ .len1 st _ ht (by decide) (Or.inl rfl) len8_DATEN hst (by rw [hml]; exact hrt.2)
  | datetime st d k ht hml hd hk hst =>
    have hrt := c04_datetime_tick d k hd hk
    rcases ht with ht | ht
    · exact roundTrips_fixed f _ 8 st _ ht (by decide) hst (by rw [hml]; exact hrt.1)
    · exact roundTrips_short f _ .len1 st _ ht (by decide) (Or.inl rfl)
        (fun b v h => len8_dateTimeArm b v (by rwa [goValue_DATETIMEN] at h)) hst (by rw [hml]; exact hrt.2)
  | smalldatetime st t ht hml hd h2 hmin hst =>
    have hrt := c04_shortdate_rt t hd h2
    rw [time_eta t t.day (t.ns / 60000000000 * 60000000000) rfl (by omega)] at hrt
    rcases ht with ht | ht
    · exact roundTrips_fixed f _ 4 st _ ht (by decide) hst (by rw [hml]; exact hrt.1)
    · exact roundTrips_short f _ .len1 st _ ht (by decide) (Or.inl rfl)
        (fun b v h => len8_dateTimeArm b v (by rwa [goValue_DATETIMEN] at h)) hst (by rw [hml]; exact hrt.2)
  | time st k ht hml hk hst =>
    have hrt := c04_time_rt k hk
    rcases ht with ht | ht
    · exact roundTrips_fixed f _ 4 st _ ht (by decide) hst (by rw [hml]; exact hrt.1)
    · exact roundTrips_short f _ .len1 st _ ht (by decide) (Or.inl rfl)
        (fun b v h => len8_timeArm b v (by rwa [goValue_TIMEN] at h)) hst (by rw [hml]; exact hrt.2)
  | bigtime st ns ht hml h2 hus hst =>
    have hrt := c04_bigtime_rt ⟨0, ns⟩ h2
    have he : (⟨0, ns / 1000 * 1000⟩ : Time) = ⟨0, ns⟩ := by congr 1; omega
    simp only [he] at hrt
    exact roundTrips_short f _ .scale st _ ht (by decide) (Or.inr rfl)
      (fun b v h => len8_timeArm b v (by rwa [goValue_BIGTIMEN] at h)) hst (by rw [hml]; exact hrt)
  | bigdatetime st t ht hml hr hus hst =>
    exact roundTrips_short f _ .scale st _ ht (by decide) (Or.inr rfl) len8_BIGDATETIMEN hst
      (by rw [hml]; exact c04_bigdatetime_rt_exact t hr hus)
  | null st ht hst =>
    simp only [nullTypes, List.mem_cons, List.not_mem_nil, or_false] at ht
    rcases ht with ht | ht | ht | ht | ht | ht | ht | ht | ht | ht | ht | ht | ht | ht
    all_goals exact roundTrips_null _ _ st ht (by decide) (by decide) hst
  | text st tp ts data hsh h1 h2 h3 hst =>
    refine ⟨{ status := st, raw := data, txtPtr := tp, timeStamp := ts }, ?_, ⟨hst.1, ?_⟩, ?_⟩
    · simp [datumRaw, hsh]
    · rw [hsh]; exact ⟨h1, h2, h3⟩
    · simp [datumResult, hsh, seen_ok hst]

theorem all2_roundTrips {fmts : List Fmt} {ds : List Data} (h : All2 ColumnOK fmts ds) :
    All2 DatumRoundTrips fmts ds := by
  induction fmts generalizing ds with
  | nil => cases ds <;> simp only [All2] at h ⊢
  | cons f fs ih =>
    cases ds with
    | nil => simp only [All2] at h
    | cons d ds =>
      simp only [All2] at h ⊢
      exact ⟨datumRoundTrips_of_columnOK h.1, ih h.2⟩

/-- **C04, package leg.** For every list of columns and every list of data that are `ColumnOK` position by
position — every data type of the domain with the values its value-level theorem covers — the Go writer
(`ParamsPackage.WriteTo` after `LastPkg` of the format) produces a PARAMS package, and the Go reader
(`LastPkg` of the same format, `ReadFrom`) decodes it, whatever follows, to exactly the same data, consuming
exactly what was written. -/
theorem c04_package_leg (fmts : List Fmt) (ds : List Data) (rest : Bytes) (h : All2 ColumnOK fmts ds) :
    ∃ body, Row.enc false fmts ds = .ok (UInt8.ofNat tokParams :: body) ∧
      Row.dec fmts (body ++ rest) = .ok ds body.length :=
  params_roundtrip_values fmts ds rest (all2_roundTrips h)

/-- the same for a ROW (the writer ROW shares with PARAMS; a server sends it, the reader is the same) -/
theorem c04_package_leg_row (fmts : List Fmt) (ds : List Data) (rest : Bytes) (h : All2 ColumnOK fmts ds) :
    ∃ body, Row.enc true fmts ds = .ok (UInt8.ofNat tokRow :: body) ∧
      Row.dec fmts (body ++ rest) = .ok ds body.length := by
  obtain ⟨raws, ha, hb⟩ := all3_of_roundTrips fmts ds (all2_roundTrips h)
  refine ⟨rowLayout fmts raws, ?_, Row.dec_encSpec fmts raws ds rest hb⟩
  rw [Row.enc_eq_encSpec true fmts ds raws ha]
  rfl

/-! ### non-vacuity: a two-column PARAMS, INT4 + VARCHAR (with a status byte) -/

def exInt4 : Fmt :=
  { name := [0x69], status := 0, userType := 0, dataType := Types.INT4, maxLength := 4, precision := 0, scale := 0,
    blobType := 0, classId := [], tableName := [], locale := [], label := [], catalogue := [], schema := [], table := [] }

def exVarchar : Fmt :=
  { name := [0x73], status := 8, userType := 0, dataType := Types.VARCHAR, maxLength := 255, precision := 0, scale := 0,
    blobType := 0, classId := [], tableName := [], locale := [], label := [], catalogue := [], schema := [], table := [] }

example : All2 ColumnOK [exInt4, exVarchar] [.base 0 (.i32 (-7)), .base 1 (.str [0x61, 0x62])] :=
  ⟨.int _ _ _ _ rfl (.int4 _ (by decide)) ⟨by decide, fun _ => rfl⟩,
   .char _ _ _ (Or.inr rfl) (by decide) (by decide) ⟨by decide, by decide⟩, trivial⟩

/-- … and what the theorem says about it, computed: the package `D7 | F9 FF FF FF | 01 02 61 62` -/
example : Row.enc false [exInt4, exVarchar] [.base 0 (.i32 (-7)), .base 1 (.str [0x61, 0x62])] =
      .ok [0xD7, 0xF9, 0xFF, 0xFF, 0xFF, 1, 2, 0x61, 0x62] ∧
    Row.dec [exInt4, exVarchar] [0xF9, 0xFF, 0xFF, 0xFF, 1, 2, 0x61, 0x62, 0xFD] =
      .ok [.base 0 (.i32 (-7)), .base 1 (.str [0x61, 0x62])] 8 := by decide

end Dblib.Props.C04
