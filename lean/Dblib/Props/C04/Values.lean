/-
C04 — Field values survive encoding and decoding unchanged (value leg: `DataType.Bytes` / `DataType.GoValue`).

Model: `Dblib/Model/Value.lean` (`bytes`, `goValue`, `roundTrip t v l = GoValue(Bytes(v, l))`) over the
regenerated tables `Dblib/Gen/Types.lean`, calendar `Dblib/Model/AseTime.lean`.  Lemmas:
`Lemmas/ValueBytes.lean` (little endian, two's complement, big-endian magnitude), `Lemmas/ValueArms.lean`
(arm equations, all `rfl`), `Lemmas/ValueCal.lean` + `ValueFliegel.lean` (calendar), `Lemmas/ValueTemporal.lean`
(closed forms of the temporal / money arms).

Every theorem is for the whole value domain of the type (all integers of the width, all bit patterns, every
`Int` decimal, every day 0001-01-01 … 9999-12-31 × every nanosecond of the day, all byte strings): proofs are
by induction on byte lists and by linear integer arithmetic (`omega`), nothing is sampled.

RESULT (code after the repairs c404295 floorDays, 20c1efa UNITEXT as UTF-16LE, 8cf068f XML, 7a20ae8 length checks).
Everything the property demands is proved at full strength: integers, floats, bit, money, decimal/numeric, binary
(incl. XML) and character strings, DATE (any time of day, the day comes back), DATETIME for every day 0001 … 9999
(exact on ticks, within one tick for any time — also before 1900), SHORTDATE, TIME, BIGTIME, BIGDATETIME, UNITEXT for
all Unicode scalar values (strings that do not end in U+0000: `GoValue` deliberately trims trailing NULs), NULL for
every type of the domain.  Nothing is partial.
-/
import Dblib.Model.Value
import Dblib.Lemmas.ValueBytes
import Dblib.Lemmas.ValueArms
import Dblib.Lemmas.ValueFliegel
import Dblib.Lemmas.ValueTemporal
import Dblib.Lemmas.ValueText

namespace Dblib.Props.C04
open Dblib Dblib.Value Dblib.AseTime Dblib.Gen
open Dblib.Lemmas.ValueBytes Dblib.Lemmas.ValueArms Dblib.Lemmas.ValueCal Dblib.Lemmas.ValueTemporal
open Dblib.Lemmas.ValueText

/-! ## helpers -/

theorem readAs_leEncode (w v : Nat) (mk : Nat → Val) : readAs w (leEncode w v) mk = .ok (mk (v % 256 ^ w)) := by
  simp only [readAs, readLE_leEncode]

theorem roundTrip_ok (t : Nat) (v : Val) (l : Int) (bs : Bytes) (h : bytes t v l = .ok bs) :
    roundTrip t v l = .dec (goValue t bs) := by
  simp only [roundTrip, h]

theorem enc_generic (t : Nat) (v : Val) (w n : Nat) (hv : v ≠ .null) (hw : binWrite v = some (leEncode w n))
    (hs : byteSize t = -1 ∨ byteSize t = (w : Int)) :
    (if v = .null then BOut.ok [] else genericBytes t v) = .ok (leEncode w n) := by
  rw [if_neg hv]; exact genericBytes_ok _ _ _ hw (by rw [leEncode_length]; exact hs)

theorem dec_INT1 (n : Nat) : goValue Types.INT1 (leEncode 1 n) = .ok (.u8 (n % 256 ^ 1)) := by
  simp [goValue_INT1, leEncode_length, readAs_leEncode]
theorem dec_INT2 (n : Nat) : goValue Types.INT2 (leEncode 2 n) = .ok (.i16 (toSigned 2 (n % 256 ^ 2))) := by
  simp [goValue_INT2, leEncode_length, readAs_leEncode]
theorem dec_INT4 (n : Nat) : goValue Types.INT4 (leEncode 4 n) = .ok (.i32 (toSigned 4 (n % 256 ^ 4))) := by
  simp [goValue_INT4, leEncode_length, readAs_leEncode]
theorem dec_INT8 (n : Nat) : goValue Types.INT8 (leEncode 8 n) = .ok (.i64 (toSigned 8 (n % 256 ^ 8))) := by
  simp [goValue_INT8, leEncode_length, readAs_leEncode]
theorem dec_UINT2 (n : Nat) : goValue Types.UINT2 (leEncode 2 n) = .ok (.u16 (n % 256 ^ 2)) := by
  simp [goValue_UINT2, leEncode_length, readAs_leEncode]
theorem dec_UINT4 (n : Nat) : goValue Types.UINT4 (leEncode 4 n) = .ok (.u32 (n % 256 ^ 4)) := by
  simp [goValue_UINT4, leEncode_length, readAs_leEncode]
theorem dec_UINT8 (n : Nat) : goValue Types.UINT8 (leEncode 8 n) = .ok (.u64 (n % 256 ^ 8)) := by
  simp [goValue_UINT8, leEncode_length, readAs_leEncode]
theorem dec_FLT4 (n : Nat) : goValue Types.FLT4 (leEncode 4 n) = .ok (.f32 (n % 256 ^ 4)) := by
  simp [goValue_FLT4, leEncode_length, readAs_leEncode]
theorem dec_FLT8 (n : Nat) : goValue Types.FLT8 (leEncode 8 n) = .ok (.f64 (n % 256 ^ 8)) := by
  simp [goValue_FLT8, leEncode_length, readAs_leEncode]
theorem dec_INTN_1 (n : Nat) : goValue Types.INTN (leEncode 1 n) = .ok (.u8 (n % 256 ^ 1)) := by
  simp [goValue_INTN, goValueBase_INT1, leEncode_length, readAs_leEncode]
theorem dec_INTN_2 (n : Nat) : goValue Types.INTN (leEncode 2 n) = .ok (.i16 (toSigned 2 (n % 256 ^ 2))) := by
  simp [goValue_INTN, goValueBase_INT2, leEncode_length, readAs_leEncode]
theorem dec_INTN_4 (n : Nat) : goValue Types.INTN (leEncode 4 n) = .ok (.i32 (toSigned 4 (n % 256 ^ 4))) := by
  simp [goValue_INTN, goValueBase_INT4, leEncode_length, readAs_leEncode]
theorem dec_INTN_8 (n : Nat) : goValue Types.INTN (leEncode 8 n) = .ok (.i64 (toSigned 8 (n % 256 ^ 8))) := by
  simp [goValue_INTN, goValueBase_INT8, leEncode_length, readAs_leEncode]
theorem dec_UINTN_1 (n : Nat) : goValue Types.UINTN (leEncode 1 n) = .ok (.u8 (n % 256 ^ 1)) := by
  simp [goValue_UINTN, goValueBase_INT1, leEncode_length, readAs_leEncode]
theorem dec_UINTN_2 (n : Nat) : goValue Types.UINTN (leEncode 2 n) = .ok (.u16 (n % 256 ^ 2)) := by
  simp [goValue_UINTN, goValueBase_UINT2, leEncode_length, readAs_leEncode]
theorem dec_UINTN_4 (n : Nat) : goValue Types.UINTN (leEncode 4 n) = .ok (.u32 (n % 256 ^ 4)) := by
  simp [goValue_UINTN, goValueBase_UINT4, leEncode_length, readAs_leEncode]
theorem dec_UINTN_8 (n : Nat) : goValue Types.UINTN (leEncode 8 n) = .ok (.u64 (n % 256 ^ 8)) := by
  simp [goValue_UINTN, goValueBase_UINT8, leEncode_length, readAs_leEncode]
theorem dec_FLTN_4 (n : Nat) : goValue Types.FLTN (leEncode 4 n) = .ok (.f32 (n % 256 ^ 4)) := by
  simp [goValue_FLTN, goValueBase_FLT4, leEncode_length, readAs_leEncode]
theorem dec_FLTN_8 (n : Nat) : goValue Types.FLTN (leEncode 8 n) = .ok (.f64 (n % 256 ^ 8)) := by
  simp [goValue_FLTN, goValueBase_FLT8, leEncode_length, readAs_leEncode]

/-! ## integers, floats, bit -/

/-- the integer data types with the values of the Go types they carry, each within the range of its Go type -/
inductive IntVal : Nat → Val → Prop
  | int1 (n : Nat) : n < 256 → IntVal Types.INT1 (.u8 n)
  | int2 (n : Int) : -32768 ≤ n ∧ n ≤ 32767 → IntVal Types.INT2 (.i16 n)
  | int4 (n : Int) : -2147483648 ≤ n ∧ n ≤ 2147483647 → IntVal Types.INT4 (.i32 n)
  | int8 (n : Int) : -9223372036854775808 ≤ n ∧ n ≤ 9223372036854775807 → IntVal Types.INT8 (.i64 n)
  | uint2 (n : Nat) : n < 65536 → IntVal Types.UINT2 (.u16 n)
  | uint4 (n : Nat) : n < 4294967296 → IntVal Types.UINT4 (.u32 n)
  | uint8 (n : Nat) : n < 18446744073709551616 → IntVal Types.UINT8 (.u64 n)
  | intn1 (n : Nat) : n < 256 → IntVal Types.INTN (.u8 n)
  | intn2 (n : Int) : -32768 ≤ n ∧ n ≤ 32767 → IntVal Types.INTN (.i16 n)
  | intn4 (n : Int) : -2147483648 ≤ n ∧ n ≤ 2147483647 → IntVal Types.INTN (.i32 n)
  | intn8 (n : Int) : -9223372036854775808 ≤ n ∧ n ≤ 9223372036854775807 → IntVal Types.INTN (.i64 n)
  | uintn1 (n : Nat) : n < 256 → IntVal Types.UINTN (.u8 n)
  | uintn2 (n : Nat) : n < 65536 → IntVal Types.UINTN (.u16 n)
  | uintn4 (n : Nat) : n < 4294967296 → IntVal Types.UINTN (.u32 n)
  | uintn8 (n : Nat) : n < 18446744073709551616 → IntVal Types.UINTN (.u64 n)

/-- **C04, integers.**  Every value of every integer width (signed and unsigned, fixed and nullable type)
survives `GoValue(Bytes(v))` unchanged — little-endian two's complement, from `leDecode (leEncode w x) = x % 256^w`. -/
theorem c04_int_rt (t : Nat) (v : Val) (l : Int) (h : IntVal t v) : roundTrip t v l = .dec (.ok v) := by
  cases h with
  | int1 n h =>
    rw [roundTrip, bytes_INT1, enc_generic _ _ 1 n (by simp) rfl (Or.inr rfl)]
    simp only [dec_INT1]
    rw [Nat.mod_eq_of_lt (by omega)]
  | int2 n h =>
    rw [roundTrip, bytes_INT2, enc_generic _ _ 2 _ (by simp) rfl (Or.inr rfl)]
    simp only [dec_INT2, toSigned2_toU n h]
  | int4 n h =>
    rw [roundTrip, bytes_INT4, enc_generic _ _ 4 _ (by simp) rfl (Or.inr rfl)]
    simp only [dec_INT4, toSigned4_toU n h]
  | int8 n h =>
    rw [roundTrip, bytes_INT8, enc_generic _ _ 8 _ (by simp) rfl (Or.inr rfl)]
    simp only [dec_INT8, toSigned8_toU n h]
  | uint2 n h =>
    rw [roundTrip, bytes_UINT2, enc_generic _ _ 2 n (by simp) rfl (Or.inr rfl)]
    simp only [dec_UINT2]
    rw [Nat.mod_eq_of_lt (by omega)]
  | uint4 n h =>
    rw [roundTrip, bytes_UINT4, enc_generic _ _ 4 n (by simp) rfl (Or.inr rfl)]
    simp only [dec_UINT4]
    rw [Nat.mod_eq_of_lt (by omega)]
  | uint8 n h =>
    rw [roundTrip, bytes_UINT8, enc_generic _ _ 8 n (by simp) rfl (Or.inr rfl)]
    simp only [dec_UINT8]
    rw [Nat.mod_eq_of_lt (by omega)]
  | intn1 n h =>
    rw [roundTrip, bytes_INTN, enc_generic _ _ 1 n (by simp) rfl (Or.inl rfl)]
    simp only [dec_INTN_1]
    rw [Nat.mod_eq_of_lt (by omega)]
  | intn2 n h =>
    rw [roundTrip, bytes_INTN, enc_generic _ _ 2 _ (by simp) rfl (Or.inl rfl)]
    simp only [dec_INTN_2, toSigned2_toU n h]
  | intn4 n h =>
    rw [roundTrip, bytes_INTN, enc_generic _ _ 4 _ (by simp) rfl (Or.inl rfl)]
    simp only [dec_INTN_4, toSigned4_toU n h]
  | intn8 n h =>
    rw [roundTrip, bytes_INTN, enc_generic _ _ 8 _ (by simp) rfl (Or.inl rfl)]
    simp only [dec_INTN_8, toSigned8_toU n h]
  | uintn1 n h =>
    rw [roundTrip, bytes_UINTN, enc_generic _ _ 1 n (by simp) rfl (Or.inl rfl)]
    simp only [dec_UINTN_1]
    rw [Nat.mod_eq_of_lt (by omega)]
  | uintn2 n h =>
    rw [roundTrip, bytes_UINTN, enc_generic _ _ 2 n (by simp) rfl (Or.inl rfl)]
    simp only [dec_UINTN_2]
    rw [Nat.mod_eq_of_lt (by omega)]
  | uintn4 n h =>
    rw [roundTrip, bytes_UINTN, enc_generic _ _ 4 n (by simp) rfl (Or.inl rfl)]
    simp only [dec_UINTN_4]
    rw [Nat.mod_eq_of_lt (by omega)]
  | uintn8 n h =>
    rw [roundTrip, bytes_UINTN, enc_generic _ _ 8 n (by simp) rfl (Or.inl rfl)]
    simp only [dec_UINTN_8]
    rw [Nat.mod_eq_of_lt (by omega)]

/-- float values as IEEE bit patterns (all of them: NaN payloads, ±0, ±Inf, denormals) -/
inductive FloatVal : Nat → Val → Prop
  | flt4 (b : Nat) : b < 4294967296 → FloatVal Types.FLT4 (.f32 b)
  | flt8 (b : Nat) : b < 18446744073709551616 → FloatVal Types.FLT8 (.f64 b)
  | fltn4 (b : Nat) : b < 4294967296 → FloatVal Types.FLTN (.f32 b)
  | fltn8 (b : Nat) : b < 18446744073709551616 → FloatVal Types.FLTN (.f64 b)

/-- **C04, floats**: every bit pattern survives unchanged. -/
theorem c04_float_rt (t : Nat) (v : Val) (l : Int) (h : FloatVal t v) : roundTrip t v l = .dec (.ok v) := by
  cases h with
  | flt4 n h =>
    rw [roundTrip, bytes_FLT4, enc_generic _ _ 4 n (by simp) rfl (Or.inr rfl)]
    simp only [dec_FLT4]
    rw [Nat.mod_eq_of_lt (by omega)]
  | flt8 n h =>
    rw [roundTrip, bytes_FLT8, enc_generic _ _ 8 n (by simp) rfl (Or.inr rfl)]
    simp only [dec_FLT8]
    rw [Nat.mod_eq_of_lt (by omega)]
  | fltn4 n h =>
    rw [roundTrip, bytes_FLTN, enc_generic _ _ 4 n (by simp) rfl (Or.inl rfl)]
    simp only [dec_FLTN_4]
    rw [Nat.mod_eq_of_lt (by omega)]
  | fltn8 n h =>
    rw [roundTrip, bytes_FLTN, enc_generic _ _ 8 n (by simp) rfl (Or.inl rfl)]
    simp only [dec_FLTN_8]
    rw [Nat.mod_eq_of_lt (by omega)]

example : FloatVal Types.FLTN (.f32 0x7fc00001) := .fltn4 _ (by decide)   -- a NaN with payload
example : IntVal Types.INTN (.i64 (-9223372036854775808)) := .intn8 _ (by decide)

/-- **C04, bit** -/
theorem c04_bit_rt (b : Bool) (l : Int) : roundTrip Types.BIT (.bool b) l = .dec (.ok (.bool b)) := by
  rw [roundTrip, bytes_BIT, if_neg (by simp), genericBytes_ok _ _ [if b then 1 else 0] rfl (Or.inr rfl)]
  cases b <;> rfl

/-! ## binary and character strings -/

/-- the binary family (`[]byte`) -/
def IsBinaryType (t : Nat) : Prop :=
  t = Types.BINARY ∨ t = Types.VARBINARY ∨ t = Types.LONGBINARY ∨ t = Types.IMAGE ∨ t = Types.XML
/-- the character family (`string`, any bytes) except UNITEXT -/
def IsCharType (t : Nat) : Prop :=
  t = Types.CHAR ∨ t = Types.VARCHAR ∨ t = Types.LONGCHAR ∨ t = Types.TEXT

/-- **C04, binary / character**: every non-empty byte string (of any length; a Go string need not be UTF-8)
survives unchanged.  (The empty string encodes to zero length, which is NULL.) -/
theorem c04_bytes_str_rt (t : Nat) (b : Bytes) (l : Int) (hb : b ≠ []) :
    (IsBinaryType t → roundTrip t (.bytes b) l = .dec (.ok (.bytes b))) ∧
    (IsCharType t → roundTrip t (.str b) l = .dec (.ok (.str b))) := by
  have hl : b.length ≠ 0 := by
    intro h; exact hb (List.length_eq_zero_iff.1 h)
  constructor
  · rintro (h | h | h | h | h) <;> subst h
    · rw [roundTrip, bytes_BINARY, if_neg (by simp), genericBytes_ok _ _ b rfl (Or.inl rfl)]
      simp only [goValue_BINARY, if_neg hl]
    · rw [roundTrip, bytes_VARBINARY, if_neg (by simp), genericBytes_ok _ _ b rfl (Or.inl rfl)]
      simp only [goValue_VARBINARY, if_neg hl]
    · rw [roundTrip, bytes_LONGBINARY, if_neg (by simp), genericBytes_ok _ _ b rfl (Or.inl rfl)]
      simp only [goValue_LONGBINARY, if_neg hl]
    · rw [roundTrip, bytes_IMAGE, if_neg (by simp), genericBytes_ok _ _ b rfl (Or.inl rfl)]
      simp only [goValue_IMAGE, if_neg hl]
    · rw [roundTrip, bytes_XML, if_neg (by simp), genericBytes_ok _ _ b rfl (Or.inl rfl)]
      simp only [goValue_XML, if_neg hl]
  · rintro (h | h | h | h) <;> subst h
    · rw [roundTrip, bytes_CHAR, if_neg (by simp), genericBytes_ok _ _ b rfl (Or.inl rfl)]
      simp only [goValue_CHAR, if_neg hl]
    · rw [roundTrip, bytes_VARCHAR, if_neg (by simp), genericBytes_ok _ _ b rfl (Or.inl rfl)]
      simp only [goValue_VARCHAR, if_neg hl]
    · rw [roundTrip, bytes_LONGCHAR, if_neg (by simp), genericBytes_ok _ _ b rfl (Or.inl rfl)]
      simp only [goValue_LONGCHAR, if_neg hl]
    · rw [roundTrip, bytes_TEXT, if_neg (by simp), genericBytes_ok _ _ b rfl (Or.inl rfl)]
      simp only [goValue_TEXT, if_neg hl]

example : IsCharType Types.VARCHAR ∧ ([0xff, 0x00] : Bytes) ≠ [] := ⟨Or.inr (Or.inl rfl), by decide⟩

/-- **C04, XML** (binary data since 8cf068f) -/
theorem c04_xml_rt (b : Bytes) (l : Int) (hb : b ≠ []) : roundTrip Types.XML (.bytes b) l = .dec (.ok (.bytes b)) :=
  (c04_bytes_str_rt Types.XML b l hb).1 (Or.inr (Or.inr (Or.inr (Or.inr rfl))))

/-! ## money -/

/-- **C04, money (8 bytes)**: every count of 1/10000 units in the `int64` range survives MONEY / MONEYN(8)
(high word then low word); precision and scale come back as the money constants. -/
theorem c04_money_rt (i : Int) (p s : Nat) (h : -9223372036854775808 ≤ i ∧ i ≤ 9223372036854775807) :
    roundTrip Types.MONEY (.dec i p s) 8 = .dec (.ok (.dec i Types.aseMoneyPrecision Types.aseMoneyScale)) ∧
    roundTrip Types.MONEYN (.dec i p s) 8 = .dec (.ok (.dec i Types.aseMoneyPrecision Types.aseMoneyScale)) := by
  have hw := wrap64_id i (by omega)
  have key : wrap64 (((toU 32 (i / 4294967296) % 4294967296 : Nat) : Int) * 4294967296 +
      ((toU 32 i % 4294967296 : Nat) : Int)) = i := by
    simp only [wrap64, toU, Nat.reducePow]; omega
  have hlen : (leEncode 4 (toU 32 (i / 4294967296)) ++ leEncode 4 (toU 32 i)).length = 8 := by
    simp [leEncode_length]
  constructor
  · rw [roundTrip_ok _ _ _ _ (by rw [bytes_MONEY, enc_money8, hw]), goValue_MONEY, hlen, dec_money8, key]; rfl
  · rw [roundTrip_ok _ _ _ _ (by rw [bytes_MONEYN, enc_money8, hw]), goValue_MONEYN, dec_money8, key]

/-- **C04, money (4 bytes)**: the `int32` range through SHORTMONEY / MONEYN(4). -/
theorem c04_shortmoney_rt (i : Int) (p s : Nat) (h : -2147483648 ≤ i ∧ i ≤ 2147483647) :
    roundTrip Types.SHORTMONEY (.dec i p s) 4
      = .dec (.ok (.dec i Types.aseShortMoneyPrecision Types.aseShortMoneyScale)) ∧
    roundTrip Types.MONEYN (.dec i p s) 4
      = .dec (.ok (.dec i Types.aseShortMoneyPrecision Types.aseShortMoneyScale)) := by
  have hw := wrap64_id i (by omega)
  have key := toI32_toU i h
  constructor
  · rw [roundTrip_ok _ _ _ _ (by rw [bytes_SHORTMONEY, enc_money4, hw]), goValue_SHORTMONEY, leEncode_length,
      dec_money4, key]; rfl
  · rw [roundTrip_ok _ _ _ _ (by rw [bytes_MONEYN, enc_money4, hw]), goValue_MONEYN, dec_money4, key]

example : (-9223372036854775808 : Int) ≤ -1 ∧ (-1 : Int) ≤ 9223372036854775807 := by decide

/-! ## decimal / numeric -/

/-- **C04, decimal / numeric**: every integer (any size, both signs) survives as the unscaled value: sign byte
plus minimal big-endian magnitude.  Precision and scale are not part of the value bytes (they travel in the
format); `GoValue` answers the defaults. -/
theorem c04_decimal_rt (i : Int) (p s : Nat) (l : Int) :
    roundTrip Types.DECN (.dec i p s) l
      = .dec (.ok (.dec i Types.aseDecimalDefaultPrecision Types.aseDecimalDefaultScale)) ∧
    roundTrip Types.NUMN (.dec i p s) l
      = .dec (.ok (.dec i Types.aseDecimalDefaultPrecision Types.aseDecimalDefaultScale)) := by
  have key : decArm ((if i < 0 then 1 else 0) :: natBytesBE i.natAbs)
      = .ok (.dec i Types.aseDecimalDefaultPrecision Types.aseDecimalDefaultScale) := by
    simp only [decArm, beNat_natBytesBE]
    by_cases h : i < 0
    · simp only [h, if_true]
      have : ((1 : UInt8) == 1) = true := by decide
      simp only [this, if_true, VOut.ok.injEq, Val.dec.injEq, and_true]; omega
    · simp only [h, if_false]
      have : ((0 : UInt8) == 1) = false := by decide
      simp only [this, Bool.false_eq_true, if_false, VOut.ok.injEq, Val.dec.injEq, and_true]; omega
  constructor
  · rw [roundTrip_ok _ _ _ _ (bytes_DECN i p s l), goValue_DECN, key]
  · rw [roundTrip_ok _ _ _ _ (bytes_NUMN i p s l), goValue_NUMN, key]


/-! ## temporal types -/

/-- the property's calendar domain: 0001-01-01 … 9999-12-31 (day 0 … 3 652 058), any nanosecond of the day -/
def InRange (t : Time) : Prop := 0 ≤ t.day ∧ t.day < 3652059 ∧ t.ns < nsPerDay

instance (t : Time) : Decidable (InRange t) := by unfold InRange; exact inferInstance

/-- the time of day `GoValue` produces for tick `k` of 1/300 s: `k/300 s` truncated to the millisecond -/
def tickNs (k : Nat) : Nat := 10 * k / 3 * 1000000

/-- the tick `Bytes` chooses for a time of day: the nearest tick of the microsecond value, ties up -/
def nearestTick (ns : Nat) : Nat := (3 * (ns / 1000) + 5000) / 10000

/-- absolute nanoseconds since 0001-01-01 -/
def absNs (t : Time) : Int := t.day * 86400000000000 + t.ns

theorem year_ok (t : Time) (h : InRange t) : -4000 ≤ t.year := by
  have := year_pos_of_day_nonneg t.day h.1; simp only [Time.year]; omega

theorem toU32_nat (n : Nat) (h : n < 4294967296) : toU 32 (n : Int) = n := by
  simp only [toU, Nat.reducePow]; omega

theorem time_eta (t : Time) (d : Int) (n : Nat) (h1 : t.day = d) (h2 : t.ns = n) : (⟨d, n⟩ : Time) = t := by
  cases t; simp only at h1 h2; subst h1; subst h2; rfl

/-- **C04, date**: every time value of every civil day 0001-01-01 … 9999-12-31 comes back from DATE / DATEN as
midnight of the same day, whatever its time of day — also before 1900 (`floorDays`). -/
theorem c04_date_day (t : Time) (h : InRange t) :
    roundTrip Types.DATE (.time t) 4 = .dec (.ok (.time ⟨t.day, 0⟩)) ∧
    roundTrip Types.DATEN (.time t) 4 = .dec (.ok (.time ⟨t.day, 0⟩)) := by
  obtain ⟨h0, h1, h2⟩ := h
  have hy := year_ok t ⟨h0, h1, h2⟩
  have hdec := dec_date (t.day - 693595) (by omega)
  rw [show 693595 + (t.day - 693595) = t.day by omega] at hdec
  constructor
  · rw [roundTrip_ok _ _ _ _ (by rw [bytes_DATE, enc_date t h2 hy]), goValue_DATE, leEncode_length, hdec]; rfl
  · rw [roundTrip_ok _ _ _ _ (by rw [bytes_DATEN, enc_date t h2 hy]), goValue_DATEN, hdec]

/-- pure dates survive unchanged -/
theorem c04_date_rt (t : Time) (h : InRange t) (hz : t.ns = 0) :
    roundTrip Types.DATE (.time t) 4 = .dec (.ok (.time t)) ∧
    roundTrip Types.DATEN (.time t) 4 = .dec (.ok (.time t)) := by
  have := c04_date_day t h
  rwa [time_eta t t.day 0 rfl hz] at this

example : InRange ⟨3652058, 0⟩ := by decide   -- 9999-12-31
example : InRange ⟨693594, 43200000000000⟩ := by decide   -- 1899-12-31 12:00, the former counterexample

theorem tick_cast (n : Nat) : (3 * ((n : Nat) : Int) + 5000) / 10000 = (((3 * n + 5000) / 10000 : Nat) : Int) := by
  omega

theorem nearestTick_le (ns : Nat) (h : ns < nsPerDay) : nearestTick ns ≤ 25920000 := by
  simp only [nearestTick, nsPerDay] at *; omega

/-- a tick is its own nearest tick: `(⌊10k/3⌋·3 + 5)/10 = k` -/
theorem nearestTick_tickNs (k : Nat) : nearestTick (tickNs k) = k := by
  simp only [nearestTick, tickNs]; omega

theorem tickNs_lt (k : Nat) (h : k < 25920000) : tickNs k < nsPerDay := by
  simp only [tickNs, nsPerDay]; omega

theorem absNs_add (d : Int) (x : Nat) : absNs (Time.add ⟨d, 0⟩ (x : Int)) = d * 86400000000000 + x := by
  simp only [absNs, Time.add, nsPerDay]; omega

/-- DATETIME / DATETIMEN(8) of any time value of the years 1 … 9999: the day and the nearest tick come back -/
theorem c04_datetime_rt (t : Time) (h : InRange t) :
    roundTrip Types.DATETIME (.time t) 8
      = .dec (.ok (.time (Time.add ⟨t.day, 0⟩ ((tickNs (nearestTick t.ns) : Nat) : Int)))) ∧
    roundTrip Types.DATETIMEN (.time t) 8
      = .dec (.ok (.time (Time.add ⟨t.day, 0⟩ ((tickNs (nearestTick t.ns) : Nat) : Int)))) := by
  obtain ⟨h0, h1, h2⟩ := h
  have hy := year_ok t ⟨h0, h1, h2⟩
  have hk := nearestTick_le t.ns h2
  have henc := enc_datetime t h2 hy
  rw [tick_cast, toU32_nat _ (by simp only [nearestTick] at hk; omega)] at henc
  replace henc : dtBytes t 8 = .ok (leEncode 4 (toU 32 (t.day - 693595)) ++ leEncode 4 (nearestTick t.ns)) := henc
  have hdec := dec_datetime (t.day - 693595) (nearestTick t.ns) (by omega) (by omega)
  rw [show 693595 + (t.day - 693595) = t.day by omega] at hdec
  have hlen : (leEncode 4 (toU 32 (t.day - 693595)) ++ leEncode 4 (nearestTick t.ns)).length = 8 := by
    simp [leEncode_length]
  constructor
  · rw [roundTrip_ok _ _ _ _ (by rw [bytes_DATETIME, henc]), goValue_DATETIME, hlen, hdec]; rfl
  · rw [roundTrip_ok _ _ _ _ (by rw [bytes_DATETIMEN, henc]), goValue_DATETIMEN, hdec]; rfl

/-- **C04, datetime on ticks**: every day 0001-01-01 … 9999-12-31 × every 1/300 s tick of the day survives exactly. -/
theorem c04_datetime_tick (d : Int) (k : Nat) (hd : 0 ≤ d ∧ d < 3652059) (hk : k < 25920000) :
    roundTrip Types.DATETIME (.time ⟨d, tickNs k⟩) 8 = .dec (.ok (.time ⟨d, tickNs k⟩)) ∧
    roundTrip Types.DATETIMEN (.time ⟨d, tickNs k⟩) 8 = .dec (.ok (.time ⟨d, tickNs k⟩)) := by
  have hlt := tickNs_lt k hk
  have := c04_datetime_rt ⟨d, tickNs k⟩ ⟨hd.1, hd.2, hlt⟩
  simp only [nearestTick_tickNs] at this
  rwa [add_small d 0 _ (by omega) (by simp only [nsPerDay] at hlt; omega),
    show ((0 : Nat) : Int) + ((tickNs k : Nat) : Int) = ((tickNs k : Nat) : Int) by omega, Int.toNat_natCast] at this

/-- **C04, datetime within a tick**: for any time of day of any day 0001 … 9999 the decoded instant differs from the
original by less than one tick of 1/300 s (|Δ|·300 < 1 s). -/
theorem c04_datetime_tolerance (t : Time) (h : InRange t) :
    ∃ r : Time, roundTrip Types.DATETIME (.time t) 8 = .dec (.ok (.time r)) ∧
      roundTrip Types.DATETIMEN (.time t) 8 = .dec (.ok (.time r)) ∧
      (absNs r - absNs t).natAbs * 300 < 1000000000 := by
  obtain ⟨p1, p2⟩ := c04_datetime_rt t h
  refine ⟨_, p1, p2, ?_⟩
  rw [absNs_add]
  have h2 := h.2.2
  simp only [absNs, tickNs, nearestTick, nsPerDay] at *
  omega

example : InRange ⟨693594, 43200000000000⟩ ∧ (43200000000000 : Nat) = tickNs 12960000 := by decide

/-- **C04, smalldatetime**: every day 1900-01-01 … 2079-06-06 with any time of day comes back truncated to the
minute (SHORTDATE and DATETIMEN(4)); exactly, if the time is a whole minute. -/
theorem c04_shortdate_rt (t : Time) (hd : 693595 ≤ t.day ∧ t.day < 693595 + 65536) (h2 : t.ns < nsPerDay) :
    roundTrip Types.SHORTDATE (.time t) 4 = .dec (.ok (.time ⟨t.day, t.ns / 60000000000 * 60000000000⟩)) ∧
    roundTrip Types.DATETIMEN (.time t) 4 = .dec (.ok (.time ⟨t.day, t.ns / 60000000000 * 60000000000⟩)) := by
  have hy := year_ok t ⟨by omega, by omega, h2⟩
  have hm : t.ns / 60000000000 < 1440 := by simp only [nsPerDay] at h2; omega
  have henc := enc_shortdate t h2 hy
  have e1 : toU 16 (t.day - 693595) = (t.day - 693595).toNat := by simp only [toU, Nat.reducePow]; omega
  have e2 : toU 16 ((t.ns / 60000000000 : Nat) : Int) = t.ns / 60000000000 := by
    simp only [toU, Nat.reducePow]; omega
  rw [e1, e2] at henc
  have hdec := dec_shortdate (t.day - 693595).toNat (t.ns / 60000000000) (by omega) (by omega)
  rw [show 693595 + (((t.day - 693595).toNat : Nat) : Int) = t.day by omega,
    add_small t.day 0 _ (by omega) (by omega)] at hdec
  have e3 : (((0 : Nat) : Int) + ((t.ns / 60000000000 : Nat) : Int) * 60000000000).toNat
      = t.ns / 60000000000 * 60000000000 := by omega
  rw [e3] at hdec
  have hlen : (leEncode 2 (t.day - 693595).toNat ++ leEncode 2 (t.ns / 60000000000)).length = 4 := by
    simp [leEncode_length]
  constructor
  · rw [roundTrip_ok _ _ _ _ (by rw [bytes_SHORTDATE, henc]), goValue_SHORTDATE, hlen, hdec]; rfl
  · rw [roundTrip_ok _ _ _ _ (by rw [bytes_DATETIMEN, henc]), goValue_DATETIMEN, hdec]

example : (693595 : Int) ≤ 759130 ∧ (759130 : Int) < 693595 + 65536 := by decide   -- 2079-06-06

/-- TIME / TIMEN of any time value: the date is not transmitted, the time of day comes back as its nearest tick -/
theorem c04_time_rt_general (t : Time) (h2 : t.ns < nsPerDay) :
    roundTrip Types.TIME (.time t) 4 = .dec (.ok (.time
      ⟨((tickNs (nearestTick t.ns) / nsPerDay : Nat) : Int), tickNs (nearestTick t.ns) % nsPerDay⟩)) ∧
    roundTrip Types.TIMEN (.time t) 4 = .dec (.ok (.time
      ⟨((tickNs (nearestTick t.ns) / nsPerDay : Nat) : Int), tickNs (nearestTick t.ns) % nsPerDay⟩)) := by
  have hk := nearestTick_le t.ns h2
  have henc := enc_time t h2
  rw [tick_cast, toU32_nat _ (by simp only [nearestTick] at hk; omega)] at henc
  replace henc : timeBytes t 4 = .ok (leEncode 4 (nearestTick t.ns)) := henc
  have hdec := dec_time (nearestTick t.ns) (by omega)
  constructor
  · rw [roundTrip_ok _ _ _ _ (by rw [bytes_TIME, henc]), goValue_TIME, leEncode_length, hdec]; rfl
  · rw [roundTrip_ok _ _ _ _ (by rw [bytes_TIMEN, henc]), goValue_TIMEN, hdec]; rfl

/-- **C04, time**: every tick 0 … 25 919 999 of a day survives TIME / TIMEN exactly. -/
theorem c04_time_rt (k : Nat) (hk : k < 25920000) :
    roundTrip Types.TIME (.time ⟨0, tickNs k⟩) 4 = .dec (.ok (.time ⟨0, tickNs k⟩)) ∧
    roundTrip Types.TIMEN (.time ⟨0, tickNs k⟩) 4 = .dec (.ok (.time ⟨0, tickNs k⟩)) := by
  have hlt := tickNs_lt k hk
  have := c04_time_rt_general ⟨0, tickNs k⟩ hlt
  simp only [nearestTick_tickNs] at this
  rwa [Nat.div_eq_of_lt hlt, Nat.mod_eq_of_lt hlt] at this

/-- **C04, bigtime**: the time of day comes back exactly to the microsecond (the date is not transmitted). -/
theorem c04_bigtime_rt (t : Time) (h2 : t.ns < nsPerDay) :
    roundTrip Types.BIGTIMEN (.time t) 8 = .dec (.ok (.time ⟨0, t.ns / 1000 * 1000⟩)) := by
  rw [roundTrip_ok _ _ _ _ (enc_bigtime t h2), goValue_BIGTIMEN, dec_bigtime _ (us_lt t h2)]

/-- **C04, bigdatetime**: every day 0001-01-01 … 9999-12-31 × every microsecond survives exactly. -/
theorem c04_bigdatetime_rt (t : Time) (h : InRange t) :
    roundTrip Types.BIGDATETIMEN (.time t) 8 = .dec (.ok (.time ⟨t.day, t.ns / 1000 * 1000⟩)) := by
  obtain ⟨h0, h1, h2⟩ := h
  rw [roundTrip_ok _ _ _ _ (enc_bigdatetime t h2 h0 (by omega)),
    dec_bigdatetime t.day (t.ns / 1000) (by omega) (us_lt t h2)]

/-- microsecond values come back unchanged -/
theorem c04_bigdatetime_rt_exact (t : Time) (h : InRange t) (hus : t.ns % 1000 = 0) :
    roundTrip Types.BIGDATETIMEN (.time t) 8 = .dec (.ok (.time t)) := by
  rw [c04_bigdatetime_rt t h, time_eta t t.day (t.ns / 1000 * 1000) rfl (by omega)]

/-! ## unitext -/

/-- **C04, unitext**: every non-empty string of Unicode scalar values (all planes; surrogate pairs on the wire) that
does not end in U+0000 survives UNITEXT unchanged.  (`GoValue` deliberately trims trailing NULs because the
server pads; such strings come back without them.) -/
theorem c04_unitext_rt (cps : List Nat) (l : Int) (hne : cps ≠ []) (h : ∀ c ∈ cps, IsScalar c)
    (hlast : cps.getLast? ≠ some 0) :
    roundTrip Types.UNITEXT (.str (utf8EncAll cps)) l = .dec (.ok (.str (utf8EncAll cps))) := by
  have hlen : 0 < cps.length := List.length_pos_iff.2 hne
  have hul : 0 < (utf16EncAll cps).length := by
    have := congrArg List.length (utf16Dec_encAll cps h)
    cases hu : utf16EncAll cps with
    | nil => rw [hu] at this; simp [utf16Dec] at this; omega
    | cons a r => simp
  rw [roundTrip_ok _ _ _ _ (bytes_UNITEXT _ l), utf8Dec_encAll cps h, unitextWrite_zeros, goValue_UNITEXT,
    unitsLE_length, if_neg (by omega), if_neg (by omega), unitsOfLE_unitsLE _ (utf16EncAll_lt cps),
    utf16Dec_encAll cps h, trimRightNul_id _ (utf8EncAll_last cps h hlast)]

-- hypotheses satisfiable: "日😀" (U+65E5 U+1F600)
example : ([0x65E5, 0x1F600] : List Nat) ≠ [] ∧ (∀ c ∈ ([0x65E5, 0x1F600] : List Nat), IsScalar c) ∧
    ([0x65E5, 0x1F600] : List Nat).getLast? ≠ some 0 := by decide

/-! ## NULL -/

/-- **C04, NULL encodes to zero length** — every data type, every length. -/
theorem c04_null_enc (t : Nat) (l : Int) : bytes t .null l = .ok [] := by
  simp [bytes]

/-- **C04, zero length decodes to NULL** for every data type of the property's domain (non-nil `ReflectTypes`
entry, not BLOB — read off the regenerated table) that can be NULL (no fixed `ByteSize`), without exception.
For the decimal types NULL is the library's NULL decimal `&Decimal{i: nil}`. -/
theorem c04_null : ∀ t ∈ Types.reflectNonNil, t ≠ Types.BLOB → byteSize t = -1 →
    (goValue t [] = .ok .null ∨ goValue t [] = .ok .decnull) := by
  decide +kernel

/-- the fixed-size types have no NULL: zero length is an error -/
theorem c04_null_fixed : ∀ t ∈ Types.reflectNonNil, byteSize t ≠ -1 → goValue t [] = .err := by
  decide +kernel

/-! ## the domain follows the source -/

/-- the data types treated by the theorems of this file (round trip proved, or violation exhibited) -/
def coveredTypes : List Nat :=
  [Types.INT1, Types.INT2, Types.INT4, Types.INT8, Types.INTN, Types.UINT2, Types.UINT4, Types.UINT8, Types.UINTN,
   Types.FLT4, Types.FLT8, Types.FLTN, Types.BIT, Types.MONEY, Types.SHORTMONEY, Types.MONEYN, Types.DECN, Types.NUMN,
   Types.DATE, Types.DATEN, Types.TIME, Types.TIMEN, Types.DATETIME, Types.SHORTDATE, Types.DATETIMEN,
   Types.BIGDATETIMEN, Types.BIGTIMEN, Types.BINARY, Types.VARBINARY, Types.LONGBINARY, Types.IMAGE, Types.XML,
   Types.CHAR, Types.VARCHAR, Types.LONGCHAR, Types.TEXT, Types.UNITEXT]

/-- every data type of the property's domain — non-nil entry in the regenerated `ReflectTypes` table, not BLOB —
is treated above; a type added to the Go table makes this fail until it is covered. -/
theorem c04_domain_covered : ∀ t ∈ Types.reflectNonNil, t ≠ Types.BLOB → t ∈ coveredTypes := by
  decide +kernel

end Dblib.Props.C04
