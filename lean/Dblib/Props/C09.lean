/-
C09 — Passwords never cross the wire in clear when encryption is negotiated (login record part),
and the login-record clauses of C06.

Stated over the regenerated step list `Gen.LoginLayout.layout` (extracted from `LoginConfig.pack`
on every run), so a change of the Go function changes what is proved about.
What stays outside a theorem: that RSA-OAEP hides its input and that crypto/rand is fresh
(cryptographic assumptions); the ciphertext messages are checked by the harness (decryption with
the peer's private key, byte search for the secrets in everything written and in error texts).
-/
import Dblib.Model.LoginRecord
import Dblib.Props.C09.Sources

namespace Dblib.Props.C09
open Dblib.LoginRecord Dblib.Gen.LoginLayout

/-- the encryption ids for which the password must not be in the record -/
def encIds : List Int := [1, 14, 30, 35]

/-- a step reads the password when executed with encryption id `enc` -/
def usesPassword (enc : Int) : Item → Bool
  | .str field _ => field == .password
  | .strEnc ids fe fl _ => (if ids.contains enc then fe else fl) == .password
  | _ => false

theorem fieldOf_password_irrelevant (f : Fields) (p : Bytes) (r : Ref)
    (h : (r == .password) = false) :
    fieldOf { f with password := p } r = fieldOf f r := by
  cases r <;> simp_all [fieldOf]

theorem stepOut_independent (little : Bool) (enc : Int) (f : Fields) (p : Bytes) (it : Item)
    (h : usesPassword enc it = false) :
    stepOut little enc { f with password := p } it = stepOut little enc f it := by
  cases it with
  | str field w => simp only [usesPassword] at h; simp only [stepOut, fieldOf_password_irrelevant f p field h]
  | strEnc ids fe fl w =>
    simp only [usesPassword] at h
    simp only [stepOut, fieldOf_password_irrelevant f p _ h]
  | endian l b => rfl
  | byte c => rfl
  | zeros n => rfl
  | lit bs => rfl
  | byteEnc cases dflt => rfl

theorem packItems_independent (little : Bool) (enc : Int) (f : Fields) (p : Bytes) (items : List Item)
    (h : ∀ it ∈ items, usesPassword enc it = false) :
    packItems little enc { f with password := p } items = packItems little enc f items := by
  induction items with
  | nil => rfl
  | cons it rest ih =>
    simp only [packItems, stepOut_independent little enc f p it (h it (by simp)),
      ih (fun x hx => h x (by simp [hx]))]

/-- no step of `pack` reads the password under any of the encrypted modes (evaluated on the
regenerated layout) -/
theorem layout_never_reads_password : ∀ enc ∈ encIds, ∀ it ∈ layout, usesPassword enc it = false := by
  decide

/-- **With password encryption negotiated the login record does not depend on the password**:
for any two passwords (any bytes, any length) the records are identical — in particular the
password is not in it, in any encoding. -/
theorem c09_record_independent_of_password (enc : Int) (henc : enc ∈ encIds) (f : Fields) (p1 p2 : Bytes) :
    pack enc { f with password := p1 } = pack enc { f with password := p2 } := by
  unfold pack
  have h := layout_never_reads_password enc henc
  rw [packItems_independent littleEndian enc f p1 layout h, packItems_independent littleEndian enc f p2 layout h]

/-! ### layout arithmetic -/

theorem packItems_append (little : Bool) (enc : Int) (f : Fields) (a b : List Item) :
    packItems little enc f (a ++ b) =
      match packItems little enc f a, packItems little enc f b with
      | some x, some y => some (x ++ y)
      | _, _ => none := by
  induction a with
  | nil => simp only [List.nil_append, packItems]; cases packItems little enc f b <;> simp
  | cons it rest ih =>
    simp only [List.cons_append, packItems, ih]
    cases stepOut little enc f it <;> cases packItems little enc f rest <;>
      cases packItems little enc f b <;> simp

theorem writeString_length (s : Bytes) (w : Nat) (bs : Bytes) (h : writeString s w = some bs) :
    bs.length = w + 1 := by
  unfold writeString at h
  split at h
  · simp at h
  · injection h with h; subst h; simp; omega

theorem stepOut_length (little : Bool) (enc : Int) (f : Fields) (it : Item) (bs : Bytes)
    (h : stepOut little enc f it = some bs) : bs.length = width it := by
  cases it with
  | str field w => exact writeString_length _ w bs h
  | strEnc ids fe fl w => exact writeString_length _ w bs h
  | endian l b => simp only [stepOut] at h; injection h with h; subst h; rfl
  | byte c => simp only [stepOut] at h; injection h with h; subst h; rfl
  | zeros n => simp only [stepOut] at h; injection h with h; subst h; simp [width]
  | lit bs' => simp only [stepOut] at h; injection h with h; subst h; simp [width]
  | byteEnc cases dflt =>
    simp only [stepOut] at h
    split at h <;> (injection h with h; subst h; rfl)

theorem packItems_length (little : Bool) (enc : Int) (f : Fields) (items : List Item) (bs : Bytes)
    (h : packItems little enc f items = some bs) : bs.length = (items.map width).sum := by
  induction items generalizing bs with
  | nil => simp only [packItems] at h; injection h with h; subst h; rfl
  | cons it rest ih =>
    simp only [packItems] at h
    cases hs : stepOut little enc f it with
    | none => simp [hs] at h
    | some a =>
      cases hr : packItems little enc f rest with
      | none => simp [hs, hr] at h
      | some b =>
        simp only [hs, hr] at h
        injection h with h; subst h
        simp [stepOut_length little enc f it a hs, ih b hr]

/-- **Size of the login record**: whenever `pack` succeeds the record has the fixed TDS size. -/
theorem c06_login_record_size (enc : Int) (f : Fields) (bs : Bytes) (h : pack enc f = some bs) :
    bs.length = 568 := by
  have := packItems_length littleEndian enc f layout bs h
  rw [this]; decide

/-- the steps before the password slot write 62 bytes (host name 30+1, user name 30+1) -/
theorem password_slot_offset : ((layout.take 2).map width).sum = 62 ∧
    layout.drop 2 = .strEnc [1, 14, 30, 35] (.const []) .password 30 :: layout.drop 3 := by decide

/-- **The password slot is empty under the encrypted modes**: bytes 62..92 of the record are 30
zero bytes followed by the length byte 0. -/
theorem c09_password_slot_empty (enc : Int) (henc : enc ∈ encIds) (f : Fields) (bs : Bytes)
    (h : pack enc f = some bs) : (bs.drop 62).take 31 = List.replicate 31 0 := by
  unfold pack at h
  rw [← List.take_append_drop 2 layout, packItems_append] at h
  cases ha : packItems littleEndian enc f (layout.take 2) with
  | none => simp [ha] at h
  | some a =>
    cases hb : packItems littleEndian enc f (layout.drop 2) with
    | none => simp [ha, hb] at h
    | some b =>
      simp only [ha, hb] at h
      injection h with h; subst h
      have hla : a.length = 62 := by
        rw [packItems_length littleEndian enc f _ a ha]; exact password_slot_offset.1
      rw [password_slot_offset.2, packItems] at hb
      have hstep : stepOut littleEndian enc f (.strEnc [1, 14, 30, 35] (.const []) .password 30)
          = some (List.replicate 31 0) := by
        have hc : ([1, 14, 30, 35] : List Int).contains enc = true := by
          simp only [encIds, List.mem_cons, List.not_mem_nil, or_false] at henc
          rcases henc with h | h | h | h <;> subst h <;> decide
        simp only [stepOut, hc, if_true]
        simp [fieldOf, writeString]
      rw [hstep] at hb
      cases hr : packItems littleEndian enc f (layout.drop 3) with
      | none => simp [hr] at hb
      | some r =>
        simp only [hr] at hb
        injection hb with hb; subst hb
        rw [List.drop_append_of_le_length (by omega), List.drop_of_length_le (by omega)]
        simp

/-- the login record announces the extended-plus password protocol for ENCRYPT3/ENCRYPT4
(`lseclogin` = 0x01|0x20|0x80) and nothing for the plain flow -/
theorem c09_seclogin_flags :
    layout.filterMap (fun it => match it with | .byteEnc cases dflt => some (cases, dflt) | _ => none)
      = [([([1], 1), ([14], 33), ([30, 35], 161)], 0)] := by decide

/-- **Control (non-vacuity): in the plain flow the password IS in its slot** — so the
independence theorem above is not true for trivial reasons. -/
theorem c09_plain_control :
    (pack 0 { password := [112, 119] }).map (fun bs => (bs.drop 62).take 31)
      = some ([112, 119] ++ List.replicate 28 0 ++ [2]) := by decide

/-- a step fails exactly when the text it writes is longer than its slot -/
theorem packItems_none_of_step (little : Bool) (enc : Int) (f : Fields) (items : List Item) (it : Item)
    (hm : it ∈ items) (h : stepOut little enc f it = none) : packItems little enc f items = none := by
  induction items with
  | nil => simp at hm
  | cons x rest ih =>
    rcases List.mem_cons.1 hm with rfl | hm
    · simp [packItems, h]
    · simp only [packItems, ih hm]
      cases stepOut little enc f x <;> rfl

theorem writeString_none (s : Bytes) (w : Nat) (h : w < s.length) : writeString s w = none := by
  simp [writeString, h]

/-- the slots of the configuration fields in the regenerated layout -/
theorem layout_slots :
    Item.str .hostname 30 ∈ layout ∧ Item.str .username 30 ∈ layout ∧ Item.str .hostproc 30 ∈ layout
    ∧ Item.str .appname 30 ∈ layout ∧ Item.str .servname 30 ∈ layout ∧ Item.str .language 30 ∈ layout
    ∧ Item.str .charset 30 ∈ layout ∧ Item.strEnc [1, 14, 30, 35] (.const []) .password 30 ∈ layout := by decide

/-- **Oversized login fields are rejected, never truncated or shifted**: if any field is longer
than its 30-byte slot (the clear text password only in the plain flow, where it is written),
`pack` fails. -/
theorem c06_login_oversize_rejected (enc : Int) (f : Fields)
    (h : 30 < f.hostname.length ∨ 30 < f.username.length ∨ 30 < f.hostproc.length ∨ 30 < f.appname.length
          ∨ 30 < f.servname.length ∨ 30 < f.language.length ∨ 30 < f.charset.length
          ∨ (enc ∉ encIds ∧ 30 < f.password.length)) :
    pack enc f = none := by
  obtain ⟨s1, s2, s3, s4, s5, s6, s7, s8⟩ := layout_slots
  unfold pack
  rcases h with h | h | h | h | h | h | h | ⟨hn, h⟩
  · exact packItems_none_of_step _ _ _ _ _ s1 (writeString_none _ _ h)
  · exact packItems_none_of_step _ _ _ _ _ s2 (writeString_none _ _ h)
  · exact packItems_none_of_step _ _ _ _ _ s3 (writeString_none _ _ h)
  · exact packItems_none_of_step _ _ _ _ _ s4 (writeString_none _ _ h)
  · exact packItems_none_of_step _ _ _ _ _ s5 (writeString_none _ _ h)
  · exact packItems_none_of_step _ _ _ _ _ s6 (writeString_none _ _ h)
  · exact packItems_none_of_step _ _ _ _ _ s7 (writeString_none _ _ h)
  · apply packItems_none_of_step _ _ _ _ _ s8
    have hc : ([1, 14, 30, 35] : List Int).contains enc = false := by
      simp only [encIds] at hn
      simpa using hn
    simp only [stepOut, hc, Bool.false_eq_true, if_false]
    exact writeString_none _ _ h

/-- a slot is wide enough for a constant, resp. has the 30 bytes a configuration field may use -/
def refFits (r : Ref) (w : Nat) : Bool :=
  match r with
  | .const bs => bs.length ≤ w
  | _ => 30 ≤ w

def itemFits : Item → Bool
  | .str r w => refFits r w
  | .strEnc _ r1 r2 w => refFits r1 w && refFits r2 w
  | _ => true

theorem layout_fits : ∀ it ∈ layout, itemFits it = true := by decide

theorem fieldOf_fits (f : Fields) (r : Ref) (w : Nat) (hr : refFits r w = true)
    (h : f.hostname.length ≤ 30 ∧ f.username.length ≤ 30 ∧ f.hostproc.length ≤ 30 ∧ f.appname.length ≤ 30
          ∧ f.servname.length ≤ 30 ∧ f.language.length ≤ 30 ∧ f.charset.length ≤ 30
          ∧ f.password.length ≤ 30) : (fieldOf f r).length ≤ w := by
  cases r <;> simp_all [refFits, fieldOf] <;> omega

/-- and when every field fits, `pack` succeeds -/
theorem c06_login_fits_accepted (enc : Int) (f : Fields)
    (h : f.hostname.length ≤ 30 ∧ f.username.length ≤ 30 ∧ f.hostproc.length ≤ 30 ∧ f.appname.length ≤ 30
          ∧ f.servname.length ≤ 30 ∧ f.language.length ≤ 30 ∧ f.charset.length ≤ 30
          ∧ f.password.length ≤ 30) :
    (pack enc f).isSome = true := by
  have hstep : ∀ it ∈ layout, (stepOut littleEndian enc f it).isSome = true := by
    intro it hit
    have hf := layout_fits it hit
    cases it with
    | str r w =>
      simp only [itemFits] at hf
      simp only [stepOut, writeString]
      have := fieldOf_fits f r w hf h
      simp [Nat.not_lt.2 this]
    | strEnc ids r1 r2 w =>
      simp only [itemFits, Bool.and_eq_true] at hf
      simp only [stepOut, writeString]
      split
      · have := fieldOf_fits f r1 w hf.1 h
        simp [Nat.not_lt.2 this]
      · have := fieldOf_fits f r2 w hf.2 h
        simp [Nat.not_lt.2 this]
    | endian l b => rfl
    | byte c => rfl
    | zeros n => rfl
    | lit bs => rfl
    | byteEnc cases dflt => simp only [stepOut]; split <;> rfl
  unfold pack
  generalize layout = items at hstep
  induction items with
  | nil => rfl
  | cons it rest ih =>
    have h1 := hstep it (by simp)
    have h2 := ih (fun x hx => hstep x (by simp [hx]))
    simp only [packItems]
    cases ha : stepOut littleEndian enc f it with
    | none => simp [ha] at h1
    | some a =>
      cases hb : packItems littleEndian enc f rest with
      | none => simp [hb] at h2
      | some b => rfl

end Dblib.Props.C09
