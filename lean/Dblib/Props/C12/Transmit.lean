/-
C12 / C01 — outgoing packets of several channels sharing one transport.

Every channel hands its packets to the connection's transport with ONE `Write` call per packet
(`Packet.WriteTo`; regenerated fact `Gen.Shape.packetWriteCalls = 1`), and a `Write` on the transport is
atomic with respect to other writers (net.Conn). The bytes on the transport are therefore the
concatenation of whole packets in some interleaving of the channels' own packet sequences. Whatever
that interleaving:

* the byte stream parses as consecutive packets — exactly the packets written (`c12_tx_wire_parses`);
* demultiplexing by the header's channel id gives every channel's own packet sequence, complete and in
  its order (`c12_tx_demux`) — so what C01 proves about one channel's packets (ids, consecutive
  numbers, lengths, EOM) holds for what the peer sees of that channel.

If a packet reached the transport in two writes (header, then body) an interleaving exists whose
bytes do not parse as the packets written (`c12_torn_write_counterexample`): the single write is what
the property rests on.
-/
import Dblib.Lemmas.Wire
import Dblib.Gen.Shape

namespace Dblib.Props.C12
open Dblib

/-- `Packet.WriteTo` hands the packet to the writer in one `Write`, and `sendPacket` is the only place
that writes to the connection's transport -/
theorem c12_tx_shape : Gen.Shape.packetWriteCalls = 1 ∧ Gen.Shape.sendPacketTransportWrites = 1 := by
  constructor <;> rfl

section
variable {α : Type}

/-- the transport log under a schedule: `sched` names the channel whose next write happens; a channel
with nothing left to write is skipped. Returns the log and what is still unwritten. -/
def interleave (qs : Nat → List α) : List Nat → List α × (Nat → List α)
  | [] => ([], qs)
  | c :: rest =>
    match qs c with
    | [] => interleave qs rest
    | x :: r =>
      let (out, qs') := interleave (fun k => if k = c then r else qs k) rest
      (x :: out, qs')

/-- everything in the log was written by some channel -/
theorem interleave_mem (sched : List Nat) : ∀ (qs : Nat → List α) (x : α),
    x ∈ (interleave qs sched).1 → ∃ c, x ∈ qs c := by
  induction sched with
  | nil => intro qs x h; simp [interleave] at h
  | cons c rest ih =>
    intro qs x h
    unfold interleave at h
    split at h
    · exact ih qs x h
    · rename_i y r hq
      simp only [List.mem_cons] at h
      rcases h with h | h
      · exact ⟨c, by rw [hq, h]; simp⟩
      · obtain ⟨k, hk⟩ := ih _ x h
        by_cases hkc : k = c
        · subst hkc; simp only [if_true] at hk; exact ⟨k, by rw [hq]; simp [hk]⟩
        · simp only [hkc, if_false] at hk; exact ⟨k, hk⟩

/-- **demultiplexing**: when every element a channel writes carries that channel's tag, the elements of
the log with tag `c`, followed by what channel `c` has not written yet, are channel `c`'s sequence -/
theorem interleave_filter (tag : α → Nat) (sched : List Nat) : ∀ (qs : Nat → List α),
    (∀ c x, x ∈ qs c → tag x = c) → ∀ c,
    (interleave qs sched).1.filter (fun x => tag x == c) ++ (interleave qs sched).2 c = qs c := by
  induction sched with
  | nil => intro qs _ c; simp [interleave]
  | cons d rest ih =>
    intro qs htag c
    unfold interleave
    split
    · exact ih qs htag c
    · rename_i y r hq
      have htag' : ∀ k x, x ∈ (fun k => if k = d then r else qs k) k → tag x = k := by
        intro k x hx
        by_cases hk : k = d
        · subst hk; simp only [if_true] at hx; exact htag k x (by rw [hq]; simp [hx])
        · simp only [hk, if_false] at hx; exact htag k x hx
      have := ih _ htag' c
      have hy : tag y = d := htag d y (by rw [hq]; simp)
      simp only
      by_cases hc : c = d
      · subst hc
        simp only [if_true] at this
        simp only [List.filter_cons, hy, beq_self_eq_true, if_true, List.cons_append, this, hq]
      · simp only [hc, if_false] at this
        have : (tag y == c) = false := by simp [hy]; exact fun h => hc h.symm
        simp only [List.filter_cons, this]
        assumption
end

/-- a complete schedule: nothing is left unwritten -/
def Complete {α : Type} (qs : Nat → List α) (sched : List Nat) : Prop := ∀ c, (interleave qs sched).2 c = []

/-- **what the peer sees of channel `c`** is exactly the packet sequence channel `c` wrote, in order,
whatever the interleaving of the channels' writes -/
theorem c12_tx_demux (qs : Nat → List Packet) (sched : List Nat)
    (hid : ∀ c p, p ∈ qs c → p.hdr.channel = c) (hc : Complete qs sched) (c : Nat) :
    (interleave qs sched).1.filter (fun p => p.hdr.channel == c) = qs c := by
  have := interleave_filter (fun p : Packet => p.hdr.channel) sched qs hid c
  rw [hc c, List.append_nil] at this
  exact this

/-- **the bytes on the shared transport parse as consecutive packets** — the packets written, in the
order of the writes — whatever the interleaving -/
theorem c12_tx_wire_parses (qs : Nat → List Packet) (sched : List Nat)
    (hok : ∀ c p, p ∈ qs c → HdrOK p) (fuel : Nat)
    (hf : (wireOf (interleave qs sched).1).length ≤ fuel) :
    parsePackets fuel (wireOf (interleave qs sched).1) = some (interleave qs sched).1 := by
  apply parse_wire _ fuel hf
  intro p hp
  obtain ⟨c, hc⟩ := interleave_mem sched qs p hp
  exact hok c p hc

/-! ### the counterexample for two writes per packet -/

/-- channel 1 and channel 2 each write one packet with a one-byte body -/
def pktA : Packet := { hdr := { msgType := 15, status := 1, length := 9, channel := 1, packetNr := 0, window := 0 }, data := [0xAA] }
def pktB : Packet := { hdr := { msgType := 15, status := 1, length := 9, channel := 2, packetNr := 0, window := 0 }, data := [0xBB] }

/-- header of A, header of B, body of A, body of B: an interleaving that two writes per packet allow -/
def tornBytes : Bytes := hdrBytes pktA.hdr ++ hdrBytes pktB.hdr ++ pktA.data ++ pktB.data

/-- with two writes per packet an interleaving exists whose bytes are not the packets written in
either order: the first "packet" swallows a byte of B's header and the rest is not a packet at all -/
theorem c12_torn_write_counterexample :
    parsePackets 100 tornBytes = none ∧
    tornBytes.length = (wireOf [pktA, pktB]).length ∧
    parsePackets 100 (wireOf [pktA, pktB]) = some [pktA, pktB] := by
  refine ⟨by decide, by decide, ?_⟩
  apply parse_wire
  · decide
  · intro p hp
    simp only [List.mem_cons, List.mem_nil_iff, or_false] at hp
    rcases hp with h | h <;> subst h <;> simp [HdrOK, pktA, pktB]

/-- non-vacuity: two channels, three packets, an interleaving that alternates -/
example : (interleave (fun c => if c = 1 then [pktA, pktA] else if c = 2 then [pktB] else ([] : List Packet)) [1, 2, 1]).1.length = 3 := by
  decide

end Dblib.Props.C12
