/-
C12 — routing while channels come and go.

`c12_routing` fixes the set of registered channels. Here channel creation (`NewChannel` registers the
id under the map's write lock) and `Close` (unregisters it under the write lock) are events of the same
history as the arriving packets — the reader looks the id up under the read lock for every packet, so
every packet sees the map as some prefix of the open/close events left it. For every such history:

* what is delivered into channel `c` is exactly the packets carrying id `c` that arrived while `c`
  was registered, in order (`c12_dynamic_routing`);
* every other packet — id never registered, not yet registered, or closed meanwhile — yields one
  connection error and changes no channel (`c12_dynamic_errors`).
-/
import Dblib.Model.Mux

namespace Dblib.Props.C12
open Dblib

/-- an event the channel map sees -/
inductive MapEv (P : Type) where
  | packet (c : Nat) (p : P)
  | open_ (c : Nat)      -- NewChannel registered id c
  | close (c : Nat)      -- Close removed id c

/-- the reader and the map: per-channel delivered packets (newest last), registered ids, error count -/
structure RouteSt (P : Type) where
  delivered : Nat → List P
  registered : Nat → Bool
  errs : Nat

def routeEv {P : Type} (s : RouteSt P) : MapEv P → RouteSt P
  | .packet c p =>
    if s.registered c then { s with delivered := fun k => if k = c then s.delivered c ++ [p] else s.delivered k }
    else { s with errs := s.errs + 1 }
  | .open_ c => { s with registered := fun k => if k = c then true else s.registered k }
  | .close c => { s with registered := fun k => if k = c then false else s.registered k }

def routeAll {P : Type} (s : RouteSt P) (evs : List (MapEv P)) : RouteSt P := evs.foldl routeEv s

/-- the packets for `c` that arrive while `c` is registered (specification, by one pass over the history) -/
def accepted {P : Type} (c : Nat) : Bool → List (MapEv P) → List P
  | _, [] => []
  | reg, .packet k p :: rest => if k = c ∧ reg = true then p :: accepted c reg rest else accepted c reg rest
  | reg, .open_ k :: rest => accepted c (if k = c then true else reg) rest
  | reg, .close k :: rest => accepted c (if k = c then false else reg) rest

/-- number of packets that find their id unregistered -/
def rejected {P : Type} : (Nat → Bool) → List (MapEv P) → Nat
  | _, [] => 0
  | reg, .packet k _ :: rest => (if reg k then 0 else 1) + rejected reg rest
  | reg, .open_ k :: rest => rejected (fun j => if j = k then true else reg j) rest
  | reg, .close k :: rest => rejected (fun j => if j = k then false else reg j) rest

theorem c12_dynamic_routing {P : Type} (evs : List (MapEv P)) : ∀ (s : RouteSt P) (c : Nat),
    (routeAll s evs).delivered c = s.delivered c ++ accepted c (s.registered c) evs := by
  induction evs with
  | nil => intro s c; simp [routeAll, accepted]
  | cons e rest ih =>
    intro s c
    simp only [routeAll, List.foldl_cons] at ih ⊢
    rw [ih]
    cases e with
    | packet k p =>
      simp only [routeEv, accepted]
      by_cases hr : s.registered k = true
      · simp only [hr, if_true]
        by_cases hk : k = c
        · subst hk; simp [hr]
        · have hck : ¬ c = k := fun h => hk h.symm
          simp [hk, hck]
      · have hf : s.registered k = false := by simpa using hr
        simp only [hf, Bool.false_eq_true, if_false]
        by_cases hk : k = c
        · subst hk; simp [hf]
        · simp [hk]
    | open_ k =>
      simp only [routeEv, accepted]
      by_cases hk : k = c
      · subst hk; simp
      · have hck : ¬ c = k := fun h => hk h.symm
        simp [hk, hck]
    | close k =>
      simp only [routeEv, accepted]
      by_cases hk : k = c
      · subst hk; simp
      · have hck : ¬ c = k := fun h => hk h.symm
        simp [hk, hck]

theorem c12_dynamic_errors {P : Type} (evs : List (MapEv P)) : ∀ (s : RouteSt P),
    (routeAll s evs).errs = s.errs + rejected s.registered evs := by
  induction evs with
  | nil => intro s; simp [routeAll, rejected]
  | cons e rest ih =>
    intro s
    simp only [routeAll, List.foldl_cons] at ih ⊢
    rw [ih]
    cases e with
    | packet k p =>
      simp only [routeEv, rejected]
      by_cases hr : s.registered k = true
      · simp [hr]
      · have hf : s.registered k = false := by simpa using hr
        simp [hf]; omega
    | open_ k => simp only [routeEv, rejected]
    | close k => simp only [routeEv, rejected]

/-- after `Close` nothing further is delivered into the channel: packets for its id are connection
errors until the id is registered again -/
theorem c12_nothing_after_close {P : Type} (c : Nat) (pkts : List P) (s : RouteSt P) :
    (routeAll s (.close c :: pkts.map (MapEv.packet c))).delivered c = s.delivered c ∧
    (routeAll s (.close c :: pkts.map (MapEv.packet c))).errs = s.errs + pkts.length := by
  constructor
  · rw [c12_dynamic_routing]
    suffices h : ∀ (l : List P), accepted c false (l.map (MapEv.packet c)) = [] by
      simp [accepted, h]
    intro l; induction l with
    | nil => rfl
    | cons p l ih => simp [accepted, ih]
  · rw [c12_dynamic_errors]
    suffices h : ∀ (l : List P) (reg : Nat → Bool), reg c = false →
        rejected reg (l.map (MapEv.packet c)) = l.length by
      simp [rejected, h]
    intro l; induction l with
    | nil => intro _ _; rfl
    | cons p l ih => intro reg hr; simp [rejected, hr, ih reg hr]; omega

/-- non-vacuity: channel 1 opened, gets a packet, is closed, its next packet is an error; channel 0
is served throughout -/
def demoHistory : List (MapEv Nat) :=
  [.packet 1 5, .open_ 1, .packet 1 6, .packet 0 7, .close 1, .packet 1 8, .packet 0 9]

def demoStart : RouteSt Nat := { delivered := fun _ => [], registered := fun c => c == 0, errs := 0 }

example : ((routeAll demoStart demoHistory).delivered 1, (routeAll demoStart demoHistory).delivered 0,
    (routeAll demoStart demoHistory).errs) = ([6], [7, 9], 2) := by decide

end Dblib.Props.C12
