-- C04: value level (Props/C04/Values.lean: every data type's round trip through Bytes / GoValue) and
-- package level (Props/C04/Package.lean: the same values inside a PARAMS package with their format)
import Dblib.Props.C04.Values
import Dblib.Props.C04.Package
import Dblib.Props.C05.ClockReading  -- a time is its clock reading (c05_clock_reading_only)
