/-
C19 — A version has a capability exactly inside the capability's ranges.

All theorems are about the model `Dblib.Capability` (transcription of /repo/capability) with the
comparer `cmp` ABSTRACT. Hypotheses on `cmp` are stated explicitly through `TotalPreorderOn cmp dom`
(`dom` = the strings the comparer can parse); each theorem uses only the fields it needs and says so.

* `c19_has_iff`            no error ⇒ answer i is true exactly when some range of capability i
                           contains the version (lower inclusive, upper exclusive, missing bound
                           unbounded, the both-bounds-empty range contains nothing). No law on `cmp`.
* `c19_no_range_never`     a capability without ranges (or with only both-empty ranges) answers false.
* `c19_errors_surface`     an evaluated range (no earlier range of its capability contains the
                           version) that is inverted / zero-width / has an unparsable bound, or whose
                           comparison meets an unparsable version, makes the whole result an error.
* `c19_errors_only`        converse: an error is always caused by such an evaluated range.
* `c19_wellformed_ok`, `c19_order_independent`
                           well-formed input ⇒ `ok`, equal to the order-free specification, invariant
                           under permutation of ranges and (up to the same permutation) capabilities.
* `c19_newCapability_pairs` (+ `_length`, `_getElem`) how `NewCapability` pairs its strings.
* `c19_inverted_is_empty`, `c19_equal_versions_agree`  consequences of the preorder laws.
* `intCmp_totalPreorder`   the integer comparer of the driver satisfies all hypotheses.
* `goVersionCycle_not_preorder`  the observed results of the DEFAULT comparer (hashicorp/go-version)
                           on 1.0.0-alpha / -alpha.1 / -alpha.beta are cyclic: no total preorder
                           (the laws are an assumption about the parameter, not a fact about it).
-/
import Dblib.Model.Capability

namespace Dblib.Props.C19
open Dblib.Capability

variable {E : Type}

deriving instance DecidableEq for Except

/-- `caps'` is `caps` with the ranges inside each capability permuted (capabilities in place) -/
inductive RangesPermuted : List (List Range) → List (List Range) → Prop
  | nil : RangesPermuted [] []
  | cons {c c' : List Range} {cs cs' : List (List Range)} :
      c.Perm c' → RangesPermuted cs cs' → RangesPermuted (c :: cs) (c' :: cs')

/-- The laws assumed of a comparer: on the strings it accepts (`dom`) it is a total preorder,
and it reports an error exactly when one of its arguments is outside `dom`. -/
structure TotalPreorderOn (cmp : String → String → Except E Int) (dom : String → Prop) : Prop where
  /-- total on the domain -/
  total : ∀ a b, dom a → dom b → ∃ i, cmp a b = .ok i
  /-- an answer is given only for strings of the domain (unparsable input is an error) -/
  strict : ∀ a b i, cmp a b = .ok i → dom a ∧ dom b
  refl : ∀ a, dom a → cmp a a = .ok 0
  /-- antisymmetric in sign -/
  antisymm : ∀ a b i j, cmp a b = .ok i → cmp b a = .ok j → (i ≤ 0 ↔ j ≥ 0)
  trans : ∀ a b c i j k, cmp a b = .ok i → cmp b c = .ok j → cmp a c = .ok k →
    i ≤ 0 → j ≤ 0 → k ≤ 0

/-- `v` lies in the range `r`: lower bound inclusive, upper bound exclusive, a missing bound
unbounded; the range without any bound contains nothing. (`cmp r.lo v ≤ 0`, `cmp v r.hi < 0`.) -/
def InRange (cmp : String → String → Except E Int) (r : Range) (v : String) : Prop :=
  ¬ (r.lo = "" ∧ r.hi = "") ∧
  (r.lo = "" ∨ ∃ i, cmp r.lo v = .ok i ∧ i ≤ 0) ∧
  (r.hi = "" ∨ ∃ j, cmp v r.hi = .ok j ∧ j < 0)

/-! ### `contains` against `InRange` -/

theorem contains_true_iff (cmp : String → String → Except E Int) (r : Range) (v : String) :
    contains cmp r v = .ok true ↔ InRange cmp r v := by
  unfold contains InRange
  by_cases hlo : r.lo = "" <;> by_cases hhi : r.hi = ""
  · simp [hlo, hhi]
  · simp only [hlo, hhi, and_false, if_false, ne_eq, not_true_eq_false, not_false_eq_true,
      true_or, true_and, false_or]
    cases h : cmp v r.hi with
    | error e => simp
    | ok j => simp
  · simp only [hlo, hhi, if_false, ne_eq, not_false_eq_true, if_true,
      and_true, true_and, false_or]
    cases h : cmp r.lo v with
    | error e => simp
    | ok i => simp
  · simp only [hlo, hhi, and_false, if_false, ne_eq, not_false_eq_true, if_true,
      true_and, false_or]
    cases h : cmp r.lo v with
    | error e => simp
    | ok i =>
      cases h2 : cmp v r.hi with
      | error e => simp
      | ok j => simp

/-- `contains` answers (does not fail) iff every comparison it makes is answered -/
theorem contains_ok_false_not (cmp : String → String → Except E Int) (r : Range) (v : String)
    (h : contains cmp r v = .ok false) : ¬ InRange cmp r v := by
  intro hin
  rw [← contains_true_iff] at hin
  rw [h] at hin
  cases hin

/-! ### c19_has_iff -/

theorem evalRanges_true_iff (cmp : String → String → Except E Int) (v : String) (rs : List Range)
    (b : Bool) (h : evalRanges cmp v rs = .ok b) : b = true ↔ ∃ r ∈ rs, InRange cmp r v := by
  induction rs with
  | nil =>
    simp only [evalRanges, Except.ok.injEq] at h
    subst h
    simp
  | cons r rs ih =>
    simp only [evalRanges] at h
    split at h
    · cases h
    · split at h
      · cases h
      · rename_i hc
        simp only [Except.ok.injEq] at h
        subst h
        simp only [List.mem_cons, exists_eq_or_imp, true_iff]
        exact Or.inl ((contains_true_iff cmp r v).1 hc)
      · rename_i hc
        rw [ih h]
        simp only [List.mem_cons, exists_eq_or_imp]
        constructor
        · exact Or.inr
        · rintro (h1 | h1)
          · exact absurd h1 (contains_ok_false_not cmp r v hc)
          · exact h1

theorem setCapabilities_length (cmp : String → String → Except E Int) (caps : List (List Range))
    (v : String) (hs : List Bool) (h : setCapabilities cmp caps v = .ok hs) :
    hs.length = caps.length := by
  induction caps generalizing hs with
  | nil => simp only [setCapabilities, Except.ok.injEq] at h; subst h; rfl
  | cons c cs ih =>
    simp only [setCapabilities] at h
    split at h
    · cases h
    · split at h
      · cases h
      · rename_i hs' hcs
        simp only [Except.ok.injEq] at h
        subst h
        simp [ih hs' hcs]

/-- **C19, main clause.** If `SetCapabilities` succeeds, capability `i` is reported exactly when
the version lies in at least one of its ranges. Holds for EVERY comparer (no law needed). -/
theorem c19_has_iff (cmp : String → String → Except E Int) (caps : List (List Range)) (v : String)
    (hs : List Bool) (h : setCapabilities cmp caps v = .ok hs) :
    ∃ hl : hs.length = caps.length, ∀ (i : Nat) (hi : i < caps.length),
      (hs[i]'(hl ▸ hi) = true ↔ ∃ r ∈ caps[i], InRange cmp r v) := by
  refine ⟨setCapabilities_length cmp caps v hs h, ?_⟩
  induction caps generalizing hs with
  | nil => intro i hi; simp at hi
  | cons c cs ih =>
    simp only [setCapabilities] at h
    split at h
    · cases h
    · rename_i b hb
      split at h
      · cases h
      · rename_i hs' hcs
        simp only [Except.ok.injEq] at h
        subst h
        intro i hi
        cases i with
        | zero => simpa using evalRanges_true_iff cmp v c b hb
        | succ n =>
          simp only [List.getElem_cons_succ]
          exact ih hs' hcs n (by simpa using hi)

example : setCapabilities intCmp [newCapability ["1", "5"], newCapability [], newCapability ["", "3", "4"]] "4"
    = .ok [true, false, true] := by decide

/-! ### c19_no_range_never -/

/-- **C19, no-range clause.** A capability without any range is never reported; neither is one
whose ranges all lack both bounds (e.g. `NewCapability("d", "", "")`). -/
theorem c19_no_range_never (cmp : String → String → Except E Int) (caps : List (List Range))
    (v : String) (hs : List Bool) (h : setCapabilities cmp caps v = .ok hs)
    (i : Nat) (hi : i < caps.length)
    (hno : caps[i] = [] ∨ ∀ r ∈ caps[i], r.lo = "" ∧ r.hi = "") :
    hs[i]'((setCapabilities_length cmp caps v hs h) ▸ hi) = false := by
  obtain ⟨_, hiff⟩ := c19_has_iff cmp caps v hs h
  have := hiff i hi
  cases hb : hs[i]'((setCapabilities_length cmp caps v hs h) ▸ hi) with
  | false => rfl
  | true =>
    obtain ⟨r, hr, hin⟩ := this.1 hb
    rcases hno with hno | hno
    · rw [hno] at hr; cases hr
    · exact absurd (hno r hr) hin.1

/-- a capability without ranges does not even look at the version: no error can come from it -/
theorem evalRanges_nil (cmp : String → String → Except E Int) (v : String) :
    evalRanges cmp v [] = .ok false := rfl

example : setCapabilities intCmp [newCapability [], newCapability ["", ""]] "not a number"
    = .ok [false, false] := by decide

/-! ### c19_errors_surface -/

/-- A range that must not be answered silently (relative to version `v`):
inverted or zero-width, or (having at least one bound) a bound or the version is unparsable. -/
def Bad (cmp : String → String → Except E Int) (dom : String → Prop) (r : Range) (v : String) : Prop :=
  (r.lo ≠ "" ∧ r.hi ≠ "" ∧ ∃ i, cmp r.lo r.hi = .ok i ∧ i ≥ 0) ∨
  (¬ (r.lo = "" ∧ r.hi = "") ∧
    ((r.lo ≠ "" ∧ ¬ dom r.lo) ∨ (r.hi ≠ "" ∧ ¬ dom r.hi) ∨ ¬ dom v))

/-- `r` is evaluated within its capability `c`: `c = pre ++ r :: post` and no range of `pre`
contains the version (the loop did not `break` before reaching `r`). -/
def Evaluated (cmp : String → String → Except E Int) (c : List Range) (r : Range) (v : String) : Prop :=
  ∃ pre post, c = pre ++ r :: post ∧ ∀ r' ∈ pre, ¬ InRange cmp r' v

theorem cmp_error_of_not_dom {cmp : String → String → Except E Int} {dom : String → Prop}
    (hs : ∀ a b i, cmp a b = .ok i → dom a ∧ dom b) (a b : String) (h : ¬ dom a ∨ ¬ dom b) :
    ∃ e, cmp a b = .error e := by
  cases hc : cmp a b with
  | error e => exact ⟨e, rfl⟩
  | ok i =>
    have := hs a b i hc
    rcases h with h | h
    · exact absurd this.1 h
    · exact absurd this.2 h

theorem bad_head_errors {cmp : String → String → Except E Int} {dom : String → Prop}
    (hs : ∀ a b i, cmp a b = .ok i → dom a ∧ dom b) (r : Range) (v : String) (rs : List Range)
    (hb : Bad cmp dom r v) : ∃ e, evalRanges cmp v (r :: rs) = .error e := by
  simp only [evalRanges]
  rcases hb with ⟨hlo, hhi, i, hi, hge⟩ | ⟨hne, hbad⟩
  · simp only [checkRange, hlo, hhi, ne_eq, not_false_eq_true, and_self, if_true, hi, hge]
    exact ⟨_, rfl⟩
  · -- some argument of a comparison that is made is outside the domain
    by_cases hlo : r.lo = ""
    · have hhi : r.hi ≠ "" := fun h => hne ⟨hlo, h⟩
      have hcr : checkRange cmp r = .ok () := by simp [checkRange, hlo]
      have hbad' : ¬ dom v ∨ ¬ dom r.hi := by
        rcases hbad with h | h | h
        · exact absurd hlo h.1
        · exact Or.inr h.2
        · exact Or.inl h
      obtain ⟨e, he⟩ := cmp_error_of_not_dom hs v r.hi hbad'
      simp only [hcr, contains, hlo, hhi, and_false, if_false, ne_eq,
        not_true_eq_false, he]
      exact ⟨_, rfl⟩
    · by_cases hhi : r.hi = ""
      · have hcr : checkRange cmp r = .ok () := by simp [checkRange, hhi]
        have hbad' : ¬ dom r.lo ∨ ¬ dom v := by
          rcases hbad with h | h | h
          · exact Or.inl h.2
          · exact absurd hhi h.1
          · exact Or.inr h
        obtain ⟨e, he⟩ := cmp_error_of_not_dom hs r.lo v hbad'
        simp only [hcr, contains, hlo, hhi, false_and, if_false, ne_eq, not_false_eq_true,
          if_true, he]
        exact ⟨_, rfl⟩
      · -- two-sided: the guard compares lo with hi, `contains` compares lo with v
        cases hg : cmp r.lo r.hi with
        | error e =>
          simp only [checkRange, hlo, hhi, ne_eq, not_false_eq_true, and_self, if_true, hg]
          exact ⟨_, rfl⟩
        | ok i =>
          have hd := hs _ _ _ hg
          have hv : ¬ dom v := by
            rcases hbad with h | h | h
            · exact absurd hd.1 h.2
            · exact absurd hd.2 h.2
            · exact h
          obtain ⟨e, he⟩ := cmp_error_of_not_dom hs r.lo v (Or.inr hv)
          simp only [checkRange, hlo, hhi, ne_eq, not_false_eq_true, and_self, if_true, hg]
          by_cases hge : i ≥ 0
          · simp only [hge, if_true]; exact ⟨_, rfl⟩
          · simp only [hge, if_false, contains, hlo, hhi, false_and, ne_eq, not_false_eq_true,
              if_true, he]
            exact ⟨_, rfl⟩

theorem evalRanges_errors_of_evaluated_bad {cmp : String → String → Except E Int}
    {dom : String → Prop} (hs : ∀ a b i, cmp a b = .ok i → dom a ∧ dom b)
    (c : List Range) (r : Range) (v : String)
    (hev : Evaluated cmp c r v) (hb : Bad cmp dom r v) : ∃ e, evalRanges cmp v c = .error e := by
  obtain ⟨pre, post, hc, hpre⟩ := hev
  subst hc
  induction pre with
  | nil => exact bad_head_errors hs r v post hb
  | cons p pre ih =>
    have ih := ih (fun r' hr' => hpre r' (List.mem_cons_of_mem _ hr'))
    simp only [List.cons_append, evalRanges]
    split
    · exact ⟨_, rfl⟩
    · split
      · exact ⟨_, rfl⟩
      · rename_i hc
        exact absurd ((contains_true_iff cmp p v).1 hc) (hpre p (List.mem_cons_self ..))
      · exact ih

theorem setCapabilities_errors_of_mem (cmp : String → String → Except E Int)
    (caps : List (List Range)) (v : String) (c : List Range) (hc : c ∈ caps)
    (he : ∃ e, evalRanges cmp v c = .error e) : ∃ e, setCapabilities cmp caps v = .error e := by
  induction caps with
  | nil => cases hc
  | cons d ds ih =>
    simp only [setCapabilities]
    rcases List.mem_cons.1 hc with h | h
    · subst h
      obtain ⟨e, he⟩ := he
      rw [he]
      exact ⟨_, rfl⟩
    · split
      · exact ⟨_, rfl⟩
      · obtain ⟨e, he'⟩ := ih h
        rw [he']
        exact ⟨_, rfl⟩

/-- **C19, error clause.** If some capability has an *evaluated* range that is inverted,
zero-width, has an unparsable bound, or is compared with an unparsable version, the result of
`SetCapabilities` is an error — never a silent answer. Uses only `strict` of the comparer laws
(an unparsable argument is an error). -/
theorem c19_errors_surface {cmp : String → String → Except E Int} {dom : String → Prop}
    (hcmp : TotalPreorderOn cmp dom) (caps : List (List Range)) (v : String)
    (c : List Range) (hc : c ∈ caps) (r : Range)
    (hev : Evaluated cmp c r v) (hb : Bad cmp dom r v) :
    ∃ e, setCapabilities cmp caps v = .error e :=
  setCapabilities_errors_of_mem cmp caps v c hc
    (evalRanges_errors_of_evaluated_bad hcmp.strict c r v hev hb)

/-! ### Well-formed input: ok, specification, order independence -/

/-- well-formed: the version and all bounds are accepted by the comparer and every two-sided
range has lower < upper -/
def WellFormed (cmp : String → String → Except E Int) (dom : String → Prop)
    (caps : List (List Range)) (v : String) : Prop :=
  dom v ∧ ∀ c ∈ caps, ∀ r ∈ c,
    (r.lo ≠ "" → dom r.lo) ∧ (r.hi ≠ "" → dom r.hi) ∧
    (r.lo ≠ "" → r.hi ≠ "" → ∃ i, cmp r.lo r.hi = .ok i ∧ i < 0)

/-- executable, order-free specification of one range -/
def inRangeB (cmp : String → String → Except E Int) (v : String) (r : Range) : Bool :=
  !(r.lo = "" && r.hi = "") &&
  (r.lo = "" || match cmp r.lo v with | .ok i => decide (i ≤ 0) | .error _ => false) &&
  (r.hi = "" || match cmp v r.hi with | .ok j => decide (j < 0) | .error _ => false)

theorem inRangeB_iff (cmp : String → String → Except E Int) (v : String) (r : Range) :
    inRangeB cmp v r = true ↔ InRange cmp r v := by
  unfold inRangeB InRange
  simp only [Bool.and_eq_true, Bool.not_eq_true', Bool.and_eq_false_imp, Bool.or_eq_true,
    decide_eq_true_eq, decide_eq_false_iff_not, not_and]
  constructor
  · rintro ⟨⟨h1, h2⟩, h3⟩
    refine ⟨h1, ?_, ?_⟩
    · rcases h2 with h | h
      · exact Or.inl h
      · right
        split at h
        · exact ⟨_, ‹_›, of_decide_eq_true h⟩
        · cases h
    · rcases h3 with h | h
      · exact Or.inl h
      · right
        split at h
        · exact ⟨_, ‹_›, of_decide_eq_true h⟩
        · cases h
  · rintro ⟨h1, h2, h3⟩
    refine ⟨⟨h1, ?_⟩, ?_⟩
    · rcases h2 with h | ⟨i, hi, hle⟩
      · exact Or.inl h
      · right; rw [hi]; exact decide_eq_true hle
    · rcases h3 with h | ⟨j, hj, hlt⟩
      · exact Or.inl h
      · right; rw [hj]; exact decide_eq_true hlt

/-- the order-free specification of a capability: some range contains the version -/
def hasSpec (cmp : String → String → Except E Int) (v : String) (c : List Range) : Bool :=
  c.any (inRangeB cmp v)

theorem contains_ok_of_wf {cmp : String → String → Except E Int} {dom : String → Prop}
    (ht : ∀ a b, dom a → dom b → ∃ i, cmp a b = .ok i) (r : Range) (v : String) (hv : dom v)
    (hlo : r.lo ≠ "" → dom r.lo) (hhi : r.hi ≠ "" → dom r.hi) :
    contains cmp r v = .ok (inRangeB cmp v r) := by
  unfold contains inRangeB
  by_cases h1 : r.lo = "" <;> by_cases h2 : r.hi = ""
  · simp [h1, h2]
  · obtain ⟨j, hj⟩ := ht v r.hi hv (hhi h2)
    simp [h1, h2, hj]
  · obtain ⟨i, hi⟩ := ht r.lo v (hlo h1) hv
    simp [h1, h2, hi]
  · obtain ⟨i, hi⟩ := ht r.lo v (hlo h1) hv
    obtain ⟨j, hj⟩ := ht v r.hi hv (hhi h2)
    simp [h1, h2, hi, hj]

theorem evalRanges_ok_of_wf {cmp : String → String → Except E Int} {dom : String → Prop}
    (ht : ∀ a b, dom a → dom b → ∃ i, cmp a b = .ok i) (c : List Range) (v : String) (hv : dom v)
    (hw : ∀ r ∈ c, (r.lo ≠ "" → dom r.lo) ∧ (r.hi ≠ "" → dom r.hi) ∧
      (r.lo ≠ "" → r.hi ≠ "" → ∃ i, cmp r.lo r.hi = .ok i ∧ i < 0)) :
    evalRanges cmp v c = .ok (hasSpec cmp v c) := by
  induction c with
  | nil => rfl
  | cons r rs ih =>
    have hr := hw r (List.mem_cons_self ..)
    have ih := ih (fun r' hr' => hw r' (List.mem_cons_of_mem _ hr'))
    have hcr : checkRange cmp r = .ok () := by
      unfold checkRange
      by_cases h : r.lo ≠ "" ∧ r.hi ≠ ""
      · obtain ⟨i, hi, hlt⟩ := hr.2.2 h.1 h.2
        have : ¬ i ≥ 0 := by omega
        simp [h, hi, this]
      · simp [h]
    simp only [evalRanges, hcr, contains_ok_of_wf ht r v hv hr.1 hr.2.1, hasSpec, List.any_cons]
    cases hb : inRangeB cmp v r with
    | true => simp
    | false => simpa [hasSpec] using ih

/-- **C19, well-formed input succeeds** and the answers are the order-free specification.
Uses only `total` of the comparer laws. -/
theorem c19_wellformed_ok {cmp : String → String → Except E Int} {dom : String → Prop}
    (hcmp : TotalPreorderOn cmp dom) (caps : List (List Range)) (v : String)
    (hw : WellFormed cmp dom caps v) :
    setCapabilities cmp caps v = .ok (caps.map (hasSpec cmp v)) := by
  obtain ⟨hv, hw⟩ := hw
  induction caps with
  | nil => rfl
  | cons c cs ih =>
    have ih := ih (fun c' hc' => hw c' (List.mem_cons_of_mem _ hc'))
    simp only [setCapabilities, evalRanges_ok_of_wf hcmp.total c v hv (hw c (List.mem_cons_self ..)),
      ih, List.map_cons]

theorem hasSpec_perm (cmp : String → String → Except E Int) (v : String) {c c' : List Range}
    (h : c.Perm c') : hasSpec cmp v c = hasSpec cmp v c' := by
  unfold hasSpec
  rw [Bool.eq_iff_iff]
  simp only [List.any_eq_true]
  constructor
  · rintro ⟨r, hr, h2⟩; exact ⟨r, h.mem_iff.1 hr, h2⟩
  · rintro ⟨r, hr, h2⟩; exact ⟨r, h.mem_iff.2 hr, h2⟩

theorem wellFormed_perm_caps {cmp : String → String → Except E Int} {dom : String → Prop}
    {caps caps' : List (List Range)} {v : String} (hp : caps.Perm caps')
    (hw : WellFormed cmp dom caps v) : WellFormed cmp dom caps' v :=
  ⟨hw.1, fun c hc => hw.2 c (hp.mem_iff.2 hc)⟩

theorem wellFormed_perm_ranges {cmp : String → String → Except E Int} {dom : String → Prop}
    {caps caps' : List (List Range)} {v : String} (hp : RangesPermuted caps caps')
    (hw : WellFormed cmp dom caps v) : WellFormed cmp dom caps' v := by
  refine ⟨hw.1, ?_⟩
  have hw2 := hw.2
  clear hw
  induction hp with
  | nil => intro c hc; cases hc
  | cons hcc _ ih =>
    intro c hc r hr
    rcases List.mem_cons.1 hc with h | h
    · subst h
      exact hw2 _ (List.mem_cons_self ..) r (hcc.mem_iff.2 hr)
    · exact ih (fun c' hc' => hw2 c' (List.mem_cons_of_mem _ hc')) c h r hr

theorem map_hasSpec_perm_ranges (cmp : String → String → Except E Int) (v : String)
    {caps caps' : List (List Range)} (hp : RangesPermuted caps caps') :
    caps.map (hasSpec cmp v) = caps'.map (hasSpec cmp v) := by
  induction hp with
  | nil => rfl
  | cons hcc _ ih => simp only [List.map_cons, hasSpec_perm cmp v hcc, ih]

/-- **C19, order independence.** For well-formed input the result is `ok hs`, and
(1) permuting the ranges inside the capabilities does not change `hs`;
(2) permuting the capabilities permutes `hs` in the same way (the answer stays attached to its
    capability: the lists of (capability, answer) pairs are permutations of each other);
(3) both at once: any `caps'` obtained by permuting capabilities and then ranges. -/
theorem c19_order_independent {cmp : String → String → Except E Int} {dom : String → Prop}
    (hcmp : TotalPreorderOn cmp dom) (caps : List (List Range)) (v : String)
    (hw : WellFormed cmp dom caps v) :
    ∃ hs, setCapabilities cmp caps v = .ok hs ∧
      (∀ caps', RangesPermuted caps caps' → setCapabilities cmp caps' v = .ok hs) ∧
      (∀ caps', caps.Perm caps' →
        ∃ hs', setCapabilities cmp caps' v = .ok hs' ∧ (caps.zip hs).Perm (caps'.zip hs')) ∧
      (∀ mid caps', caps.Perm mid → RangesPermuted mid caps' →
        ∃ hs', setCapabilities cmp caps' v = .ok hs' ∧ (caps.zip hs).Perm (mid.zip hs')) := by
  have zipmap : ∀ l : List (List Range), l.zip (l.map (hasSpec cmp v))
      = l.map (fun c => (c, hasSpec cmp v c)) := by
    intro l; induction l with
    | nil => rfl
    | cons a l ih => simp only [List.map_cons, List.zip_cons_cons, ih]
  refine ⟨_, c19_wellformed_ok hcmp caps v hw, ?_, ?_, ?_⟩
  · intro caps' hp
    rw [c19_wellformed_ok hcmp caps' v (wellFormed_perm_ranges hp hw),
      map_hasSpec_perm_ranges cmp v hp]
  · intro caps' hp
    refine ⟨_, c19_wellformed_ok hcmp caps' v (wellFormed_perm_caps hp hw), ?_⟩
    rw [zipmap, zipmap]
    exact hp.map _
  · intro mid caps' hp hp2
    have hwm := wellFormed_perm_caps hp hw
    refine ⟨_, c19_wellformed_ok hcmp caps' v (wellFormed_perm_ranges hp2 hwm), ?_⟩
    rw [← map_hasSpec_perm_ranges cmp v hp2, zipmap, zipmap]
    exact hp.map _

/-! ### c19_errors_only: an error always has an evaluated bad range as its cause -/

theorem evalRanges_error_cause {cmp : String → String → Except E Int} {dom : String → Prop}
    (ht : ∀ a b, dom a → dom b → ∃ i, cmp a b = .ok i) (c : List Range) (v : String) (e : Err E)
    (h : evalRanges cmp v c = .error e) : ∃ r, Evaluated cmp c r v ∧ Bad cmp dom r v := by
  induction c with
  | nil => cases h
  | cons r rs ih =>
    -- either the head is bad, or it is fine, does not contain v, and the cause is in the tail
    by_cases hb : Bad cmp dom r v
    · exact ⟨r, ⟨[], rs, rfl, fun _ h => by cases h⟩, hb⟩
    · have hnb := hb
      unfold Bad at hb
      simp only [not_or, not_and, not_exists, Classical.not_not] at hb
      obtain ⟨hb1, hb2⟩ := hb
      -- domain facts for the comparisons that are made
      have hdom : ¬ (r.lo = "" ∧ r.hi = "") → (r.lo ≠ "" → dom r.lo) ∧ (r.hi ≠ "" → dom r.hi) ∧ dom v := by
        intro hne
        have := hb2 (fun a b => hne ⟨a, b⟩)
        exact ⟨this.1, this.2.1, this.2.2⟩
      have hcr : checkRange cmp r = .ok () := by
        unfold checkRange
        by_cases h2 : r.lo ≠ "" ∧ r.hi ≠ ""
        · have hd := hdom (fun a => h2.1 a.1)
          obtain ⟨i, hi⟩ := ht r.lo r.hi (hd.1 h2.1) (hd.2.1 h2.2)
          have : ¬ i ≥ 0 := fun hge => hb1 h2.1 h2.2 i hi hge
          simp [h2, hi, this]
        · simp [h2]
      have hco : contains cmp r v = .ok (inRangeB cmp v r) := by
        by_cases hne : r.lo = "" ∧ r.hi = ""
        · simp [contains, inRangeB, hne.1, hne.2]
        · have hd := hdom hne
          exact contains_ok_of_wf ht r v hd.2.2 hd.1 hd.2.1
      simp only [evalRanges, hcr, hco] at h
      cases hin : inRangeB cmp v r with
      | true => rw [hin] at h; cases h
      | false =>
        rw [hin] at h
        obtain ⟨r', ⟨pre, post, hc, hpre⟩, hbad⟩ := ih h
        refine ⟨r', ⟨r :: pre, post, by rw [hc]; rfl, ?_⟩, hbad⟩
        intro r'' hr''
        rcases List.mem_cons.1 hr'' with h1 | h1
        · subst h1
          intro hI
          rw [← inRangeB_iff, hin] at hI
          cases hI
        · exact hpre r'' h1

/-- **Converse of the error clause**: `SetCapabilities` fails only because of an evaluated range
that is inverted / zero-width / unparsable (so well-formed prefixes never produce an error).
Uses only `total`. -/
theorem c19_errors_only {cmp : String → String → Except E Int} {dom : String → Prop}
    (hcmp : TotalPreorderOn cmp dom) (caps : List (List Range)) (v : String) (e : Err E)
    (h : setCapabilities cmp caps v = .error e) :
    ∃ c ∈ caps, ∃ r, Evaluated cmp c r v ∧ Bad cmp dom r v := by
  induction caps generalizing e with
  | nil => cases h
  | cons c cs ih =>
    simp only [setCapabilities] at h
    split at h
    · rename_i e' he
      obtain ⟨r, hr⟩ := evalRanges_error_cause (dom := dom) hcmp.total c v e' he
      exact ⟨c, List.mem_cons_self .., r, hr⟩
    · split at h
      · rename_i e' he
        obtain ⟨c', hc', hr⟩ := ih e' he
        exact ⟨c', List.mem_cons_of_mem _ hc', hr⟩
      · cases h

/-! ### NewCapability -/

/-- specification of the pairing: strings are read in pairs (lower, upper); a last string without
partner opens a range without upper bound — unless it is empty, then it is dropped -/
def pairUp : List String → List Range
  | [] => []
  | [a] => if a ≠ "" then [⟨a, ""⟩] else []
  | a :: b :: rest => ⟨a, b⟩ :: pairUp rest

theorem ncLoop_even (i : Nat) (hi : i % 2 = 0) (ss : List String) (out : List Range) :
    (let st := ncLoop i ss ⟨⟨"", ""⟩, out⟩
     if st.cur.lo ≠ "" then st.out ++ [st.cur] else st.out) = out ++ pairUp ss := by
  induction ss using pairUp.induct generalizing i out with
  | case1 => simp [ncLoop, pairUp]
  | case2 a h => simp [ncLoop, ncStep, hi, pairUp, h]
  | case3 a h => simp [ncLoop, ncStep, hi, pairUp, h]
  | case4 a b rest ih =>
    have h1 : ¬ (i + 1) % 2 = 0 := by omega
    have h2 : (i + 1 + 1) % 2 = 0 := by omega
    simp only [ncLoop, ncStep, hi, if_true, h1, if_false, pairUp]
    rw [ih (i + 1 + 1) h2]
    simp

/-- **NewCapability pairs its strings** exactly as `pairUp` says. -/
theorem c19_newCapability_pairs (ss : List String) : newCapability ss = pairUp ss := by
  have := ncLoop_even 0 rfl ss []
  simpa [newCapability] using this

/-- number of ranges: one per complete pair, plus one for a non-empty unpaired last string -/
theorem c19_newCapability_length (ss : List String) :
    (newCapability ss).length =
      ss.length / 2 + (if ss.length % 2 = 1 ∧ ss.getLast? ≠ some "" then 1 else 0) := by
  rw [c19_newCapability_pairs]
  induction ss using pairUp.induct with
  | case1 => simp [pairUp]
  | case2 a h => simp [pairUp, h]
  | case3 a h => simp [pairUp, h]
  | case4 a b rest ih =>
    simp only [pairUp, List.length_cons, ih]
    have h1 : (rest.length + 1 + 1) / 2 = rest.length / 2 + 1 := by omega
    have h2 : (rest.length + 1 + 1) % 2 = rest.length % 2 := by omega
    simp only [h1, h2]
    cases rest with
    | nil => simp
    | cons x xs => simp only [List.getLast?_cons_cons]; omega

/-- the `k`-th complete pair becomes the `k`-th range -/
theorem c19_newCapability_getElem (ss : List String) (k : Nat) (hk : 2 * k + 1 < ss.length) :
    (newCapability ss)[k]? = some ⟨ss[2 * k]'(by omega), ss[2 * k + 1]⟩ := by
  rw [c19_newCapability_pairs]
  induction ss using pairUp.induct generalizing k with
  | case1 => simp at hk
  | case2 a h => simp at hk
  | case3 a h => simp at hk
  | case4 a b rest ih =>
    cases k with
    | zero => simp [pairUp]
    | succ n =>
      simp only [pairUp, List.getElem?_cons_succ]
      have hk' : 2 * n + 1 < rest.length := by simp only [List.length_cons] at hk; omega
      rw [ih n hk']
      have e1 : 2 * (n + 1) = (2 * n) + 1 + 1 := by omega
      simp only [e1, List.getElem_cons_succ]

/-- a range list from `NewCapability` never has a both-empty range at the end coming from an
unpaired string; the documented examples: -/
example : newCapability ["0.1.0", "0.2.0", "0.5.0", "1.0.0"] = [⟨"0.1.0", "0.2.0"⟩, ⟨"0.5.0", "1.0.0"⟩] := by decide
example : newCapability ["1.0.0"] = [⟨"1.0.0", ""⟩] := by decide
example : newCapability ["1.0.0", ""] = [⟨"1.0.0", ""⟩] := by decide
example : newCapability ["", "5.1.0", "1.0.0", "2.0.0", "3.5.0"]
    = [⟨"", "5.1.0"⟩, ⟨"1.0.0", "2.0.0"⟩, ⟨"3.5.0", ""⟩] := by decide
example : newCapability ["1.0.0", "2.0.0", ""] = [⟨"1.0.0", "2.0.0"⟩] := by decide
example : newCapability ["", ""] = [⟨"", ""⟩] := by decide

/-! ### Consequences of the preorder laws -/

section preorder
variable {cmp : String → String → Except E Int} {dom : String → Prop}

/-- strict version of antisymmetry -/
theorem TotalPreorderOn.lt_iff_gt (h : TotalPreorderOn cmp dom) {a b : String} {i j : Int}
    (hi : cmp a b = .ok i) (hj : cmp b a = .ok j) : i < 0 ↔ j > 0 := by
  have h1 := h.antisymm a b i j hi hj
  have h2 := h.antisymm b a j i hj hi
  omega

/-- `a ≤ b`, `b < c` ⇒ `a < c` -/
theorem TotalPreorderOn.le_lt_trans (h : TotalPreorderOn cmp dom) {a b c : String} {i j k : Int}
    (hi : cmp a b = .ok i) (hj : cmp b c = .ok j) (hk : cmp a c = .ok k)
    (h1 : i ≤ 0) (h2 : j < 0) : k < 0 := by
  have da := (h.strict _ _ _ hi).1
  have db := (h.strict _ _ _ hi).2
  have dc := (h.strict _ _ _ hj).2
  obtain ⟨k', hk'⟩ := h.total c a dc da
  obtain ⟨j', hj'⟩ := h.total c b dc db
  by_cases hge : k < 0
  · exact hge
  · -- c ≤ a ≤ b, so c ≤ b, contradicting b < c
    have hca : k' ≤ 0 := by have := h.antisymm c a k' k hk' hk; omega
    have hcb : j' ≤ 0 := h.trans c a b k' i j' hk' hi hj' hca h1
    have := h.antisymm c b j' j hj' hj
    omega

/-- `a < b`, `b ≤ c` ⇒ `a < c` -/
theorem TotalPreorderOn.lt_le_trans (h : TotalPreorderOn cmp dom) {a b c : String} {i j k : Int}
    (hi : cmp a b = .ok i) (hj : cmp b c = .ok j) (hk : cmp a c = .ok k)
    (h1 : i < 0) (h2 : j ≤ 0) : k < 0 := by
  have da := (h.strict _ _ _ hi).1
  have db := (h.strict _ _ _ hi).2
  have dc := (h.strict _ _ _ hj).2
  obtain ⟨k', hk'⟩ := h.total c a dc da
  obtain ⟨i', hi'⟩ := h.total b a db da
  by_cases hge : k < 0
  · exact hge
  · -- b ≤ c ≤ a, so b ≤ a, contradicting a < b
    have hca : k' ≤ 0 := by have := h.antisymm c a k' k hk' hk; omega
    have hba : i' ≤ 0 := h.trans b c a j k' i' hj hk' hi' h2 hca
    have := h.antisymm b a i' i hi' hi
    omega

/-- Why inverted and zero-width ranges are errors rather than answers: under a total preorder
they are empty intervals — no version lies in them. -/
theorem c19_inverted_is_empty (h : TotalPreorderOn cmp dom) (r : Range) (v : String) (i : Int)
    (hlo : r.lo ≠ "") (hhi : r.hi ≠ "") (hi : cmp r.lo r.hi = .ok i) (hge : i ≥ 0) :
    ¬ InRange cmp r v := by
  rintro ⟨_, h2, h3⟩
  rcases h2 with h2 | ⟨a, ha, hale⟩
  · exact hlo h2
  rcases h3 with h3 | ⟨b, hb, hblt⟩
  · exact hhi h3
  have := h.le_lt_trans ha hb hi hale hblt
  omega

/-- Versions the comparer considers equal (e.g. differing in build metadata only) lie in the
same ranges, hence get the same capabilities on well-formed targets. -/
theorem inRange_congr (h : TotalPreorderOn cmp dom) (r : Range) (v w : String)
    (hvw : cmp v w = .ok 0) (hin : InRange cmp r v) : InRange cmp r w := by
  obtain ⟨h1, h2, h3⟩ := hin
  have dv := (h.strict _ _ _ hvw).1
  have dw := (h.strict _ _ _ hvw).2
  obtain ⟨z, hz⟩ := h.total w v dw dv
  have hz0 : z ≤ 0 := by have := h.antisymm v w 0 z hvw hz; have := h.antisymm w v z 0 hz hvw; omega
  refine ⟨h1, ?_, ?_⟩
  · rcases h2 with h2 | ⟨i, hi, hle⟩
    · exact Or.inl h2
    · right
      obtain ⟨k, hk⟩ := h.total r.lo w (h.strict _ _ _ hi).1 dw
      exact ⟨k, hk, h.trans r.lo v w i 0 k hi hvw hk hle (by omega)⟩
  · rcases h3 with h3 | ⟨j, hj, hlt⟩
    · exact Or.inl h3
    · right
      obtain ⟨k, hk⟩ := h.total w r.hi dw (h.strict _ _ _ hj).2
      exact ⟨k, hk, h.le_lt_trans hz hj hk hz0 hlt⟩

theorem c19_equal_versions_agree (h : TotalPreorderOn cmp dom) (caps : List (List Range))
    (v w : String) (hvw : cmp v w = .ok 0) (hw : WellFormed cmp dom caps v) :
    setCapabilities cmp caps w = setCapabilities cmp caps v := by
  have dv := (h.strict _ _ _ hvw).1
  have dw := (h.strict _ _ _ hvw).2
  obtain ⟨z, hz⟩ := h.total w v dw dv
  have hz0 : z = 0 := by
    have := h.antisymm v w 0 z hvw hz; have := h.antisymm w v z 0 hz hvw; omega
  subst hz0
  have hw' : WellFormed cmp dom caps w := ⟨dw, hw.2⟩
  rw [c19_wellformed_ok h caps v hw, c19_wellformed_ok h caps w hw']
  congr 1
  apply List.map_congr_left
  intro c _
  unfold hasSpec
  rw [Bool.eq_iff_iff]
  simp only [List.any_eq_true, inRangeB_iff]
  constructor
  · rintro ⟨r, hr, hin⟩; exact ⟨r, hr, inRange_congr h r w v hz hin⟩
  · rintro ⟨r, hr, hin⟩; exact ⟨r, hr, inRange_congr h r v w hvw hin⟩

end preorder

/-! ### The hypotheses are satisfiable: the integer comparer of the driver -/

theorem intCmp_ok_iff (a b : String) (i : Int) :
    intCmp a b = .ok i ↔ ∃ x y, parseDec a = some x ∧ parseDec b = some y ∧ i = sign3 x y := by
  unfold intCmp
  cases ha : parseDec a <;> cases hb : parseDec b <;> simp [eq_comm]

/-- the decimal comparer is a total preorder on the strings `parseDec` accepts -/
theorem intCmp_totalPreorder : TotalPreorderOn intCmp (fun s => (parseDec s).isSome) where
  total a b ha hb := by
    obtain ⟨x, hx⟩ := Option.isSome_iff_exists.1 ha
    obtain ⟨y, hy⟩ := Option.isSome_iff_exists.1 hb
    exact ⟨sign3 x y, (intCmp_ok_iff a b _).2 ⟨x, y, hx, hy, rfl⟩⟩
  strict a b i h := by
    obtain ⟨x, y, hx, hy, _⟩ := (intCmp_ok_iff a b i).1 h
    simp [hx, hy]
  refl a ha := by
    obtain ⟨x, hx⟩ := Option.isSome_iff_exists.1 ha
    exact (intCmp_ok_iff a a 0).2 ⟨x, x, hx, hx, by simp [sign3]⟩
  antisymm a b i j hi hj := by
    obtain ⟨x, y, hx, hy, rfl⟩ := (intCmp_ok_iff a b i).1 hi
    obtain ⟨y', x', hy', hx', rfl⟩ := (intCmp_ok_iff b a j).1 hj
    rw [hx] at hx'; rw [hy] at hy'
    cases hx'; cases hy'
    unfold sign3
    split <;> split <;> (try split) <;> (try split) <;> omega
  trans a b c i j k hi hj hk h1 h2 := by
    obtain ⟨x, y, hx, hy, rfl⟩ := (intCmp_ok_iff a b i).1 hi
    obtain ⟨y', z, hy', hz, rfl⟩ := (intCmp_ok_iff b c j).1 hj
    obtain ⟨x', z', hx', hz', rfl⟩ := (intCmp_ok_iff a c k).1 hk
    rw [hx] at hx'; rw [hy] at hy'; rw [hz] at hz'
    cases hx'; cases hy'; cases hz'
    unfold sign3 at *
    split at h1 <;> split at h2 <;> (try split at h1) <;> (try split at h2) <;>
      split <;> (try split) <;> omega

/-- a well-formed input for the integer comparer (hypothesis of `c19_order_independent`) -/
example : WellFormed intCmp (fun s => (parseDec s).isSome)
    [[⟨"1", "5"⟩, ⟨"9", ""⟩], [], [⟨"", "3"⟩, ⟨"", ""⟩]] "4" := by
  refine ⟨by decide, ?_⟩
  intro c hc r hr
  simp only [List.mem_cons, List.not_mem_nil, or_false] at hc
  rcases hc with rfl | rfl | rfl
  · simp only [List.mem_cons, List.not_mem_nil, or_false] at hr
    rcases hr with rfl | rfl
    · exact ⟨fun _ => by decide, fun _ => by decide, fun _ _ => ⟨-1, by decide, by decide⟩⟩
    · exact ⟨fun _ => by decide, fun h => absurd rfl h, fun _ h => absurd rfl h⟩
  · cases hr
  · simp only [List.mem_cons, List.not_mem_nil, or_false] at hr
    rcases hr with rfl | rfl
    · exact ⟨fun h => absurd rfl h, fun _ => by decide, fun h => absurd rfl h⟩
    · exact ⟨fun h => absurd rfl h, fun h => absurd rfl h, fun h => absurd rfl h⟩

/-- hypotheses of `c19_errors_surface`: the second range is evaluated (the first does not contain
9) and zero-width ⇒ error -/
example : Evaluated intCmp [⟨"1", "5"⟩, ⟨"7", "7"⟩] ⟨"7", "7"⟩ "9" ∧
    Bad intCmp (fun s => (parseDec s).isSome) ⟨"7", "7"⟩ "9" ∧
    setCapabilities intCmp [[⟨"1", "5"⟩, ⟨"7", "7"⟩]] "9" = .error .invalid := by
  refine ⟨⟨[⟨"1", "5"⟩], [], rfl, ?_⟩, Or.inl ⟨by decide, by decide, 0, by decide, by decide⟩, by decide⟩
  intro r hr
  simp only [List.mem_cons, List.not_mem_nil, or_false] at hr
  subst hr
  rw [← inRangeB_iff]
  decide

/-- … and a later invalid range is NOT evaluated when an earlier one contains the version -/
example : setCapabilities intCmp [[⟨"1", "5"⟩, ⟨"7", "7"⟩]] "3" = .ok [true] := by decide

/-- hypothesis of `c19_errors_only` / unparsable version -/
example : setCapabilities intCmp [[⟨"1", ""⟩]] "x" = .error (.compare ()) := by decide

/-- hypotheses of `c19_equal_versions_agree` / `c19_inverted_is_empty` -/
example : intCmp "007" "7" = .ok 0 := by decide
example : setCapabilities intCmp [[⟨"5", "9"⟩]] "007" = setCapabilities intCmp [[⟨"5", "9"⟩]] "7" := by decide
example : intCmp "9" "5" = .ok 1 ∧ ¬ InRange intCmp ⟨"9", "5"⟩ "7" :=
  ⟨by decide, c19_inverted_is_empty intCmp_totalPreorder _ _ 1 (by decide) (by decide) (by decide) (by decide)⟩

/-! ### The default comparer is a parameter — and does not always satisfy the laws

Observed results of `VersionCompareSemantic` (hashicorp/go-version 1.7.0) on three semantic versions
(semver.org §11 orders them alpha < alpha.1 < alpha.beta): a cycle. The theorems above therefore say
nothing wrong about such inputs — `WellFormed` is stated with the comparer's own answers, and by
those `[alpha, alpha.beta)` is an inverted range — but the outcome then depends on the order of the
ranges, which the correspondence harness reports as a finding against the property. -/

def goVersionCycle : Table :=
  [(("1.0.0-alpha", "1.0.0-alpha.1"), some (-1)), (("1.0.0-alpha.1", "1.0.0-alpha.beta"), some (-1)),
   (("1.0.0-alpha", "1.0.0-alpha.beta"), some 1), (("1.0.0-alpha.beta", "1.0.0-alpha"), some (-1)),
   (("1.0.0-alpha.beta", "3.0"), some (-1)), (("1.0.0-alpha", "3.0"), some (-1)),
   (("1.0.0-alpha", "1.0.0-alpha"), some 0)]

/-- no domain makes the observed comparison results a total preorder (transitivity fails) -/
theorem goVersionCycle_not_preorder : ¬ ∃ dom, TotalPreorderOn (tblCmp goVersionCycle) dom := by
  rintro ⟨dom, h⟩
  have := h.trans "1.0.0-alpha" "1.0.0-alpha.1" "1.0.0-alpha.beta" (-1) (-1) 1
    (by decide) (by decide) (by decide) (by decide) (by decide)
  omega

/-- with these comparison results the model (as the code) answers differently for the two orders of
the same two ranges -/
example :
    setCapabilities (tblCmp goVersionCycle)
      [[⟨"1.0.0-alpha.beta", "3.0"⟩, ⟨"1.0.0-alpha", "1.0.0-alpha.beta"⟩]] "1.0.0-alpha" = .ok [true] ∧
    setCapabilities (tblCmp goVersionCycle)
      [[⟨"1.0.0-alpha", "1.0.0-alpha.beta"⟩, ⟨"1.0.0-alpha.beta", "3.0"⟩]] "1.0.0-alpha" = .error .invalid := by
  decide

end Dblib.Props.C19
