/-
C17 — Connection descriptions round-trip and never crash the parser (simple form).

Model: `Dblib/Model/Dsn.lean` (`ParseSimple`, `FormatSimple`, `setValue`, `tagToField` of
/repo/dsn as of the repaired code: closing quotation mark searched after the opening one,
unterminated quotation = error, strip only when len >= 2, empty multiref names skipped).
Lemma development: `Dblib/Lemmas/C17.lean`.

The URI form (`FormatURI` / `ParseURI` over net/url) is NOT modelled; it is covered by the Go
oracle of the harness only (`dsn rturi`, `dsn uriq`, `dsn puri`, `dsn pany`).

Text is `List UInt8`, the bytes of the Go string, so "all strings" below includes strings that are
not valid UTF-8.
-/
import Dblib.Lemmas.C17

namespace Dblib.Props.C17
open Dblib Dblib.Dsn Dblib.Lemmas.C17

/-! ## no input string makes ParseSimple panic -/

/-- For every struct shape, every state of the target and EVERY byte string, `ParseSimple` does
not panic: no index / slice expression of the loop goes out of range (and the fuel of the model's
loop suffices). -/
theorem c17_simple_total (specs : List Spec) (st : Fields) (s : Str) :
    parseSimple specs st s ≠ .panic := by
  rw [parseSimple_eq_P]; exact P_ne_panic _ _ _

/-- the cases that panicked before the repair are errors / successes now -/
example : parseSimple specsT (zeroFields specsT) (b "a=\"b") = .err := by decide
example : parseSimple specsT (zeroFields specsT) (b "host=\"") = .err := by decide
example : (parseSimple specsT (zeroFields specsT) (b "host=\" x\"")) =
    .ok ((zeroFields specsT).set 0 (.str (b " x"))) := by decide
example : parseSimple specsT (zeroFields specsT) (b "host=''") = .ok (zeroFields specsT) := by decide

/-! ## later occurrences override earlier ones -/

/-- Sequential composition: when the description `d1` parses, parsing `d1 ++ " " ++ d2` is
parsing `d2` into the target as `d1` left it. So whatever `d1` assigned to a field — under any
of its keys — is overridden by an assignment in `d2`, and fields `d2` does not mention keep the
value from `d1`. -/
theorem c17_later_wins (specs : List Spec) (st st1 : Fields) (d1 d2 : Str)
    (h : parseSimple specs st d1 = .ok st1) :
    parseSimple specs st (d1 ++ SP :: d2) = parseSimple specs st1 d2 := by
  rw [parseSimple_eq_P] at h
  rw [parseSimple_eq_P, splitOn_append, P_append _ _ _ _ _ h]; rfl

/-- one well-formed entry `key=value` (string values written with `%q`) assigns the value to
the field the key resolves to -/
theorem parse_entry (specs : List Spec) (st : Fields) (k : Str) (v : Val) (i : Nat)
    (hk : KeyOK k) (hv : GoodVal v) (hl : (mkTable specs).lookup k = some i)
    (hi : (st[i]?).map Val.kind = some v.kind) :
    parseSimple specs st (entryText (k, v)) = .ok (st.set i v) := by
  have := P_entry (mkTable specs) st k v i [] hk hv hl hi
  rw [List.append_nil, P_nil] at this
  exact this

/-- The last occurrence wins, explicitly: after any successfully parsed prefix `d1`, an entry for
key `k` (json name or alias of field `i`) sets field `i` to its value, whatever `d1` had put there. -/
theorem c17_later_wins_entry (specs : List Spec) (st st1 : Fields) (d1 k : Str) (v : Val) (i : Nat)
    (h : parseSimple specs st d1 = .ok st1)
    (hk : KeyOK k) (hv : GoodVal v) (hl : (mkTable specs).lookup k = some i)
    (hi : (st1[i]?).map Val.kind = some v.kind) :
    parseSimple specs st (d1 ++ SP :: entryText (k, v)) = .ok (st1.set i v) ∧
      (st1.set i v)[i]? = some v := by
  refine ⟨by rw [c17_later_wins _ _ _ _ _ h]; exact parse_entry _ _ _ _ _ hk hv hl hi, ?_⟩
  cases hs : st1[i]? with
  | none => simp [hs] at hi
  | some old =>
    have : i < st1.length := by
      rcases Nat.lt_or_ge i st1.length with h' | h'
      · exact h'
      · rw [List.getElem?_eq_none h'] at hs; simp at hs
    simp [this]

/-- non-vacuity: `host="a" hostname="b c"` — the alias given later wins -/
example : parseSimple specsT (zeroFields specsT) (b "host=\"a\" hostname=\"b c\" user=u") =
    .ok (((zeroFields specsT).set 0 (.str (b "b c"))).set 2 (.str (b "u"))) := by decide

/-! ## aliases -/

/-- Every name of a field — its json name and each non-empty entry of its multiref tag — resolves
to that field, unless a later field of the struct claims the same name. -/
theorem c17_alias_same_field (specs : List Spec) (i : Nat) (hi : i < specs.length) (a : Str)
    (ha : a ∈ specs[i].names)
    (hlater : ∀ j, i < j → ∀ hj : j < specs.length, a ∉ specs[j].names) :
    (mkTable specs).lookup a = some i := by
  have := mkTableFrom_lookup specs 0 i hi a ha hlater
  simpa [mkTable] using this

/-- Two keys of the same field are interchangeable in an entry. -/
theorem c17_alias_entry (specs : List Spec) (st : Fields) (k1 k2 : Str) (v : Val) (i : Nat)
    (hk1 : KeyOK k1) (hk2 : KeyOK k2) (hv : GoodVal v)
    (hl1 : (mkTable specs).lookup k1 = some i) (hl2 : (mkTable specs).lookup k2 = some i)
    (hi : (st[i]?).map Val.kind = some v.kind) :
    parseSimple specs st (entryText (k1, v)) = parseSimple specs st (entryText (k2, v)) := by
  rw [parse_entry _ _ _ _ _ hk1 hv hl1 hi, parse_entry _ _ _ _ _ hk2 hv hl2 hi]

/-- the aliases of the harness struct (dsn.Info embedded) -/
example : (mkTable specsT).lookup (b "hostname") = (mkTable specsT).lookup (b "host") ∧
    (mkTable specsT).lookup (b "pass") = (mkTable specsT).lookup (b "password") ∧
    (mkTable specsT).lookup (b "passwd") = (mkTable specsT).lookup (b "password") ∧
    (mkTable specsT).lookup (b "cnt") = (mkTable specsT).lookup (b "count") ∧
    (mkTable specsT).lookup (b "n") = some 6 := by decide

/-! ## unknown keys -/

/-- A key matches a field when it is non-empty and is the field's json name or one of the comma
separated names of its multiref tag (fields without json name have no keys). Written from the
property text / the documentation of `TagToField`, not from the model's table. -/
def Matches (specs : List Spec) (k : Str) : Prop :=
  k ≠ [] ∧ ∃ s ∈ specs, s.json ≠ [] ∧ (k = s.json ∨ k ∈ splitOn COMMA s.multiref)

theorem mem_names_iff (s : Spec) (k : Str) :
    k ∈ s.names ↔ k ≠ [] ∧ s.json ≠ [] ∧ (k = s.json ∨ k ∈ splitOn COMMA s.multiref) := by
  unfold Spec.names
  split
  · rename_i h; simp [h]
  · rename_i h
    simp only [List.mem_filter, List.mem_cons, decide_eq_true_eq, ne_eq]
    constructor
    · rintro ⟨h1, h2⟩; exact ⟨h2, h, h1⟩
    · rintro ⟨h1, _, h3⟩; exact ⟨h3, h1⟩

/-- the table holds exactly the keys that match a field (in particular not the empty key) -/
theorem table_keys (specs : List Spec) (k : Str) :
    ((mkTable specs).lookup k).isSome = true ↔ Matches specs k := by
  constructor
  · intro h
    by_cases hm : ∃ s ∈ specs, k ∈ s.names
    · obtain ⟨s, hs, hk⟩ := hm
      rw [mem_names_iff] at hk
      exact ⟨hk.1, s, hs, hk.2⟩
    · have : (mkTable specs).lookup k = none :=
        mkTableFrom_lookup_none 0 specs k (fun s hs hk => hm ⟨s, hs, hk⟩)
      rw [this] at h; simp at h
  · rintro ⟨h1, s, hs, h2⟩
    exact mkTableFrom_lookup_isSome 0 specs k ⟨s, hs, (mem_names_iff s k).2 ⟨h1, h2⟩⟩

/-- A `key=…` part whose key matches no field makes `ParseSimple` fail — whatever follows the
`=` (quoted or not, closed or not, further parts included) and, by `c17_later_wins`, after any
prefix that parsed. The empty key is included. (A key of the simple form cannot contain `=` or a
space: the text before the first `=` of a part is the key.) -/
theorem c17_unknown_key_rejected (specs : List Spec) (st : Fields) (k value : Str)
    (hk : EQ ∉ k) (hs : SP ∉ k) (hm : ¬ Matches specs k) :
    parseSimple specs st (k ++ EQ :: value) = .err := by
  rw [parseSimple_eq_P]
  apply P_unknown _ _ _ _ hk hs
  cases hl : (mkTable specs).lookup k with
  | none => rfl
  | some i => exact absurd ((table_keys specs k).1 (by rw [hl]; rfl)) hm

theorem c17_unknown_key_rejected_after (specs : List Spec) (st st1 : Fields) (d1 k value : Str)
    (h : parseSimple specs st d1 = .ok st1)
    (hk : EQ ∉ k) (hs : SP ∉ k) (hm : ¬ Matches specs k) :
    parseSimple specs st (d1 ++ SP :: (k ++ EQ :: value)) = .err := by
  rw [c17_later_wins _ _ _ _ _ h]; exact c17_unknown_key_rejected _ _ _ _ hk hs hm

/-- non-vacuity: the empty key and a misspelt key match no field of the harness struct -/
example : ¬ Matches specsT [] := fun h => h.1 rfl
example : (mkTable specsT).lookup (b "hos") = none ∧ (mkTable specsT).lookup [] = none := by decide
example : parseSimple specsT (zeroFields specsT) (b "=x") = .err := by decide

/-! ## round trip -/

/-- Shape conditions on a struct for the simple form to be usable at all; decidable, discharged
by `decide` for the concrete structs below. `table` says that the json name of the i-th tagged
field resolves to field i (json names pairwise different, no alias of a later field shadows it). -/
def WFSpecs (specs : List Spec) : Prop :=
  specs ≠ [] ∧ (∀ s ∈ specs, s.json ≠ [] ∧ KeyOK s.json) ∧
  specs.map (fun s => (mkTable specs).lookup s.json) = (List.range specs.length).map some

instance (specs : List Spec) : Decidable (WFSpecs specs) := by unfold WFSpecs; exact inferInstance

theorem zero_kinds (specs : List Spec) : (zeroFields specs).map Val.kind = specs.map (·.kind) := by
  unfold zeroFields
  rw [List.map_map]
  apply List.map_congr_left
  intro s _
  show (s.kind.zero).kind = s.kind
  cases s.kind <;> rfl

/--
**Round trip of the simple form.** For every well-formed struct shape and every assignment `m`
of its tagged fields — text over the documented alphabet (`plainByte`: no `'`, `"`, `\`, no
control byte; spaces anywhere, leading, trailing, multiple; `=` anywhere), any boolean, any
64-bit integer — parsing what `FormatSimple` wrote into a zero target gives exactly `m`.
(`FormatSimple` sorts the entries; the proof goes through for any order of the entries.)
-/
theorem c17_simple_roundtrip (specs : List Spec) (hw : WFSpecs specs) (m : Fields)
    (hk : m.map Val.kind = specs.map (·.kind)) (hg : ∀ v ∈ m, GoodVal v) :
    parseSimple specs (zeroFields specs) (formatSimple specs m) = .ok m := by
  obtain ⟨hne, hkeys, htbl⟩ := hw
  have hlen : m.length = specs.length := by simpa using congrArg List.length hk
  -- the entries, unsorted
  have hE : entries specs m = (specs.zip m).map (fun sv => (sv.1.json, sv.2)) := by
    unfold entries
    apply filterMap_eq_map_of
    intro sv hsv
    have := (hkeys sv.1 (List.of_mem_zip hsv).1).1
    simp [this]
  have hlookup : ∀ i (hi : i < specs.length), (mkTable specs).lookup specs[i].json = some i := by
    intro i hi
    have := congrArg (fun l => l[i]?) htbl
    simpa [hi] using this
  -- every entry is good and resolves to its own index
  have hmemE : ∀ e ∈ entries specs m, ∃ i, ∃ hi : i < specs.length, ∃ hi' : i < m.length,
      e = (specs[i].json, m[i]) := by
    intro e he
    rw [hE, List.mem_map] at he
    obtain ⟨sv, hsv, rfl⟩ := he
    obtain ⟨i, hi, hsvi⟩ := List.mem_iff_getElem.1 hsv
    simp only [List.length_zip] at hi
    refine ⟨i, by omega, by omega, ?_⟩
    rw [← hsvi]; simp
  let le := fun (x y : Str × Val) => leStr (entryText x) (entryText y)
  have hperm : ((entries specs m).mergeSort le).Perm (entries specs m) := List.mergeSort_perm _ _
  have hEne : entries specs m ≠ [] := by
    rw [hE]
    cases specs with
    | nil => exact absurd rfl hne
    | cons s ss =>
      cases m with
      | nil => simp at hlen
      | cons v vs => simp
  have hSne : (entries specs m).mergeSort le ≠ [] := by
    intro h; rw [h] at hperm; exact hEne (List.Perm.nil_eq hperm).symm
  have hgood : ∀ e ∈ (entries specs m).mergeSort le,
      GoodEntry (mkTable specs) (specs.map (·.kind)) e := by
    intro e he
    obtain ⟨i, hi, hi', rfl⟩ := hmemE e ((hperm.mem_iff).1 he)
    refine ⟨(hkeys _ (List.getElem_mem hi)).2, hg _ (List.getElem_mem hi'), i, hlookup i hi, ?_⟩
    have := congrArg (fun l => l[i]?) hk
    simp only [List.getElem?_map, List.getElem?_eq_getElem hi, List.getElem?_eq_getElem hi',
      Option.map_some] at this
    simp only [List.getElem?_map, List.getElem?_eq_getElem hi, Option.map_some]
    exact this.symm
  have hparse := P_entries (mkTable specs) (specs.map (·.kind)) _ (zeroFields specs) hSne
    (zero_kinds specs) hgood
  unfold formatSimple
  rw [parseSimple_eq_P, hparse]
  congr 1
  -- the final state is `m`
  have hidx : (entries specs m).map (fun x => idxOf (mkTable specs) x.1) = List.range specs.length := by
    rw [hE, List.map_map]
    have h1 : (List.map ((fun x => idxOf (mkTable specs) x.1) ∘ fun sv : Spec × Val => (sv.1.json, sv.2)) (specs.zip m))
        = ((specs.zip m).map Prod.fst).map (fun s => idxOf (mkTable specs) s.json) := by
      rw [List.map_map]; rfl
    rw [h1, List.map_fst_zip (by omega)]
    have h2 := congrArg (List.map (fun o : Option Nat => o.getD 0)) htbl
    simp only [List.map_map] at h2
    rw [show ((fun o : Option Nat => o.getD 0) ∘ some) = id from rfl, List.map_id] at h2
    exact h2
  have hnodup : (((entries specs m).mergeSort le).map (fun x => idxOf (mkTable specs) x.1)).Nodup := by
    rw [(hperm.map _).nodup_iff, hidx]; exact List.nodup_range
  apply List.ext_getElem?
  intro j
  rcases Nat.lt_or_ge j specs.length with hj | hj
  · have hj' : j < m.length := by omega
    have hmem : (specs[j].json, m[j]) ∈ (entries specs m).mergeSort le := by
      rw [hperm.mem_iff, hE, List.mem_map]
      refine ⟨(specs[j], m[j]), ?_, rfl⟩
      rw [List.mem_iff_getElem]
      exact ⟨j, by simp only [List.length_zip]; omega, by simp⟩
    rw [applyAll_get _ _ _ j _ hnodup hmem (by simp [idxOf, hlookup j hj])
      (by simp [zeroFields, hj])]
    simp [hj']
  · rw [List.getElem?_eq_none (by rw [applyAll_length]; simp [zeroFields, hj]),
      List.getElem?_eq_none (by omega)]

/-- the structs used by the harness are well formed -/
theorem wf_specsT : WFSpecs specsT := by decide
theorem wf_specsAB : WFSpecs specsAB := by decide
theorem wf_specsInfo : WFSpecs specsInfo := by decide
theorem wf_specsTds : WFSpecs specsTds := by decide

/-- non-vacuity: values with leading, trailing and double spaces and `=`, a negative integer
satisfy the hypotheses (and the instance of the theorem) -/
example : parseSimple specsT (zeroFields specsT)
      (formatSimple specsT [.str (b " a = b  "), .str [], .str (b "u"), .str (b "=="), .str (b " "),
        .bool true, .int (-7), .str (b "x  y ")]) =
    .ok [.str (b " a = b  "), .str [], .str (b "u"), .str (b "=="), .str (b " "),
        .bool true, .int (-7), .str (b "x  y ")] :=
  c17_simple_roundtrip specsT wf_specsT _ (by decide) (by decide)

/-- A struct without tagged fields does NOT round-trip: `FormatSimple` gives the empty string,
which `ParseSimple` rejects (hence `specs ≠ []` in `WFSpecs`). -/
example : formatSimple [] [] = [] ∧ parseSimple [] [] [] = .err := by
  constructor
  · simp [formatSimple, entries, joinSp]
  · decide

end Dblib.Props.C17
