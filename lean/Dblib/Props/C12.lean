/-
C12 — Logical channels are isolated and correctly routed under concurrency.

Partial by nature: data-race freedom is a property of the Go memory model and the scheduler; the
theorems assume the atomicity / locking that `Gen/Shape.lean` extracts from the source on every run
(one atomic fetch-and-add for the id, every access of the channel map under its lock), and the
harness runs the real code concurrently (with the race detector in the thorough tier).
Outgoing headers (channel id, consecutive packet numbers) are C01's `stamp` theorems.
-/
import Dblib.Model.Mux
import Dblib.Props.C12.Transmit
import Dblib.Props.C12.Dynamic

namespace Dblib.Props.C12
open Dblib.Mux Dblib.Gen.Shape

/-- the structural facts the model rests on hold for the current source -/
theorem c12_shape : idFetchIsAtomicRMW = true ∧ channelMapLocked = true ∧ headerOnlyTypeMatches = true := by
  decide

/-- invariant of the atomic allocation: every id handed out is below the counter, no two are equal,
and no thread is in the middle of a non-atomic read-modify-write -/
def Inv (s : Sys) : Prop :=
  (∀ p ∈ s.threads, ∀ v, p ≠ .loaded v) ∧ (∀ id ∈ ids s, id < s.counter) ∧ (ids s).Nodup

theorem ids_set_done (threads : List Pc) (i : Nat) (c : Nat) (h : threads[i]? = some .start) :
    (ids ⟨0, threads.set i (.done c)⟩).Perm (c :: ids ⟨0, threads⟩) := by
  induction threads generalizing i with
  | nil => simp at h
  | cons p ps ih =>
    cases i with
    | zero =>
      simp only [List.getElem?_cons_zero, Option.some.injEq] at h
      subst h
      simp [ids, List.set]
    | succ i =>
      simp only [List.getElem?_cons_succ] at h
      have := ih i h
      simp only [ids, List.set_cons_succ, List.filterMap_cons] at this ⊢
      cases p with
      | done id => exact (List.Perm.cons id this).trans (List.Perm.swap _ _ _)
      | start => exact this
      | loaded v => exact this

theorem step_inv (s : Sys) (i : Nat) (h : Inv s) : Inv (stepThread true s i) := by
  obtain ⟨h1, h2, h3⟩ := h
  unfold stepThread
  cases hp : s.threads[i]? with
  | none => exact ⟨h1, h2, h3⟩
  | some p =>
    cases p with
    | done id => exact ⟨h1, h2, h3⟩
    | loaded v =>
      have hm : Pc.loaded v ∈ s.threads := List.mem_of_getElem? hp
      exact absurd rfl (h1 _ hm v)
    | start =>
      simp only [if_true]
      have hperm := ids_set_done s.threads i s.counter hp
      have hids : ∀ (c : Nat) (t : List Pc), ids ⟨c, t⟩ = ids ⟨0, t⟩ := fun _ _ => rfl
      refine ⟨?_, ?_, ?_⟩
      · intro p hp' v hv
        subst hv
        rcases List.mem_or_eq_of_mem_set hp' with h | h
        · exact h1 _ h v rfl
        · simp at h
      · intro id hid
        rw [hids] at hid
        rcases List.mem_cons.1 (hperm.mem_iff.1 hid) with rfl | hm
        · simp
        · have := h2 id (by rw [hids]; exact hm)
          simp only; omega
      · rw [hids]
        apply (hperm.nodup_iff).2
        refine List.nodup_cons.2 ⟨?_, by rw [← hids s.counter]; exact h3⟩
        intro hm
        have := h2 s.counter (by rw [hids]; exact hm)
        omega

/-- **Channel ids are distinct under every interleaving** of any number of concurrent
`NewChannel` calls: for every schedule of the threads' shared-memory accesses, the ids handed out
are pairwise different (and lie below the counter). -/
theorem c12_ids_distinct (n : Nat) (sched : List Nat) :
    (ids (runSchedule idFetchIsAtomicRMW { threads := List.replicate n .start } sched)).Nodup := by
  have ha : idFetchIsAtomicRMW = true := by decide
  rw [ha]
  have hinit : Inv { threads := List.replicate n .start } := by
    refine ⟨?_, ?_, ?_⟩
    · intro p hp v hv
      have := List.eq_of_mem_replicate hp
      rw [this] at hv; cases hv
    · intro id hid
      have : ids { threads := List.replicate n Pc.start } = [] := by
        simp only [ids]
        induction n with
        | zero => rfl
        | succ n ih => simp [List.replicate_succ, ih]
      rw [this] at hid; simp at hid
    · have : ids { threads := List.replicate n Pc.start } = [] := by
        simp only [ids]
        induction n with
        | zero => rfl
        | succ n ih => simp [List.replicate_succ, ih]
      rw [this]; exact List.nodup_nil
  suffices h : ∀ s, Inv s → Inv (runSchedule true s sched) from (h _ hinit).2.2
  induction sched with
  | nil => intro s h; exact h
  | cons i rest ih => intro s h; exact ih _ (step_inv s i h)

/-- what the repair was needed for: with a separate load and increment (the code before fix
ab106bf) the schedule load₀, load₁, add₀, add₁ hands the same id to two threads -/
theorem c12_nonatomic_duplicate :
    ids (runSchedule false { threads := [.start, .start] } [0, 1, 0, 1]) = [0, 0] := by decide

/-! ### routing -/

/-- **Each package reaches exactly the channel named in its packet header, in order**: after the
reader has routed any list of packets, the state of a registered channel `c` is what processing
exactly the sub-sequence of packets with header channel `c`, in order, gives — independently of
how the other channels' packets are interleaved with them. -/
theorem c12_routing {S P : Type} (registered : Nat → Bool) (f : S → P → S) (pkts : List (Nat × P)) :
    ∀ (states : Nat → S) (errs : Nat) (c : Nat), registered c = true →
      (route registered f (states, errs) pkts).1 c
        = ((pkts.filter (fun x => x.1 == c)).map (·.2)).foldl f (states c) := by
  induction pkts with
  | nil => intro states errs c _; rfl
  | cons x rest ih =>
    intro states errs c hc
    obtain ⟨k, p⟩ := x
    simp only [route]
    by_cases hr : registered k = true
    · simp only [hr, if_true]
      rw [ih _ _ c hc]
      by_cases hk : k = c
      · subst hk; simp
      · have : (k == c) = false := by simpa using hk
        have hck : ¬ c = k := fun h => hk h.symm
        simp [List.filter_cons, this, hck]
    · simp only [hr, Bool.false_eq_true, if_false]
      rw [ih _ _ c hc]
      have : (k == c) = false := by
        cases h : (k == c)
        · rfl
        · have : k = c := by simpa using h
          subst this; exact absurd hc hr
      simp [List.filter_cons, this]

/-- **Packets for a channel that does not exist are reported, one connection error each, and
otherwise ignored** (no channel's state changes because of them). -/
theorem c12_unknown_channel {S P : Type} (registered : Nat → Bool) (f : S → P → S) (pkts : List (Nat × P)) :
    ∀ (states : Nat → S) (errs : Nat),
      (route registered f (states, errs) pkts).2 = errs + (pkts.filter (fun x => !registered x.1)).length := by
  induction pkts with
  | nil => intro states errs; rfl
  | cons x rest ih =>
    intro states errs
    obtain ⟨k, p⟩ := x
    simp only [route]
    by_cases hr : registered k = true
    · simp only [hr, if_true]
      rw [ih]; simp [List.filter_cons, hr]
    · simp only [hr, Bool.false_eq_true, if_false]
      rw [ih]
      have : registered k = false := by simpa using hr
      simp [List.filter_cons, this]; omega

/-- non-vacuity: three interleaved channels, one unknown -/
example : (route (fun c => c < 2) (fun (s : List Nat) (p : Nat) => s ++ [p]) (fun _ => [], 0)
    [(0, 1), (1, 10), (7, 99), (0, 2), (1, 20)]).1 0 = [1, 2] := by decide

end Dblib.Props.C12
