/-
C11 over histories: for every sequence of responses on one channel, each cut into packets in any way,
the events (hook calls, packet size changes, deliveries, in order) are the concatenation of the events
of each response taken on its own — every message and every environment change of every response
reaches every hook exactly once, whatever happened in earlier responses and wherever the packet
boundaries fall.
-/
import Dblib.Props.C03.Abstract

namespace Dblib.Props.C11
open Dblib Dblib.Rx Dblib.Props.C02 Dblib.Props.C03
variable {Pkg : Type}

/-- the events of one response with `nEed` / `nEnv` hooks registered -/
def respEvents (ops : Ops Pkg) (nEed nEnv : Nat) (r : Resp Pkg) : List (Ev Pkg) :=
  r.pkgs.flatMap (acceptEv ops nEed nEnv) ++ synthDone ops (r.pkgs.foldl (lastAfter ops) none)

theorem c11_history_events (ops : Ops Pkg)
    (hI : ∀ tok last p, ops.select tok last = .parser p → Incr p) :
    ∀ (rs : List (Resp Pkg)) (rx : Rx Pkg),
      (∀ r ∈ rs, WholeP ops none r.T r.pkgs ∧ r.cs ≠ [] ∧ r.cs.flatten = r.T) →
      rx.buf = [] → rx.eom = false → rx.closed = false → rx.last = none →
      ∃ rx', feed ops rx (rs.flatMap (fun r => markLast r.cs))
          = some (rx', rs.flatMap (respEvents ops rx.nEed rx.nEnv))
        ∧ rx'.buf = [] ∧ rx'.eom = false ∧ rx'.last = none ∧ rx'.closed = false
        ∧ rx'.nEed = rx.nEed ∧ rx'.nEnv = rx.nEnv := by
  intro rs
  induction rs with
  | nil => intro rx _ hb he hc hl; exact ⟨rx, by simp [feed], hb, he, hl, hc, rfl, rfl⟩
  | cons r rs ih =>
    intro rx hall hb he hc hl
    obtain ⟨hW, hne, hcs⟩ := hall r (by simp)
    have h1 := c11_events_of_any_cut ops hI rx r.T r.pkgs r.cs hb he hc (by rw [hl]; exact hW) hne hcs
    obtain ⟨rx2, hf2, hrest⟩ := ih (withBuf rx none [] false) (fun x hx => hall x (by simp [hx]))
      rfl rfl hc rfl
    refine ⟨rx2, ?_, ?_⟩
    · simp only [List.flatMap_cons, feed_append, h1, hf2, Option.map_some, respEvents, hl]
      rfl
    · obtain ⟨a, b, c, d, e, f⟩ := hrest
      exact ⟨a, b, c, d, e, f⟩

end Dblib.Props.C11
