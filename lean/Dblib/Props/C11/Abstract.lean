/-
C11 — Server messages and environment changes are surfaced exactly once.

Channel layer (`Model/ChanRx.lean`): the events of a response are, for each package in arrival
order, its hook calls / packet size change / delivery — whatever the packetisation (C02).
Consumer layer (`Model/Consume.lean`): a failing callback returns the EED packages received so
far, in order.
-/
import Dblib.Props.C02.Abstract
import Dblib.Model.Consume

namespace Dblib.Props.C11
open Dblib Dblib.Rx Dblib.Props.C02
variable {Pkg : Type}

/-- **Explicit form of what any packetisation delivers**: for every parser family with the
incremental law, every response parsing whole into `pkgs`, every cut of it into packets: the events
are those of the packages in order, then the synthetic final DONE. -/
theorem c11_events_of_any_cut (ops : Ops Pkg)
    (hI : ∀ tok last p, ops.select tok last = .parser p → Incr p)
    (rx : Rx Pkg) (T : Bytes) (pkgs : List Pkg) (cs : List Bytes)
    (hbuf : rx.buf = []) (heom : rx.eom = false) (hc : rx.closed = false)
    (hW : WholeP ops rx.last T pkgs) (hne : cs ≠ []) (hcs : cs.flatten = T) :
    feed ops rx (markLast cs) =
      some (withBuf rx none [] false,
        pkgs.flatMap (acceptEv ops rx.nEed rx.nEnv) ++ synthDone ops (pkgs.foldl (lastAfter ops) rx.last)) := by
  rw [c02_cuts_irrelevant ops hI rx T cs hbuf heom hc hW.whole hne hcs]
  have hrx : rx = withBuf rx rx.last [] false := by cases rx; simp_all [withBuf]
  have hfl : (run ops (withBuf rx rx.last ([] ++ T) true)).2.2 = true := by
    rw [List.nil_append, run_whole ops rx.last T pkgs hW rx]
  simp only [markLast, feed]
  conv => lhs; rw [hrx]
  rw [writeBody_eq ops rx rx.last [] T true hfl hc]
  simp only [List.nil_append, run_whole ops rx.last T pkgs hW rx, Option.map_some, List.append_nil]

/-- a non-informational EED: every registered hook is called exactly once, in registration order,
with this package, and then the package is delivered -/
theorem c11_eed_events (ops : Ops Pkg) (nEed nEnv : Nat) (pkg : Pkg) (h : ops.special pkg = .eed) :
    acceptEv ops nEed nEnv pkg = (List.range nEed).map (fun i => Ev.eedHook i pkg) ++ [.deliver pkg] := by
  simp [acceptEv, accept, h]

/-- an informational EED is never delivered and calls no hook -/
theorem c11_eed_info_silent (ops : Ops Pkg) (nEed nEnv : Nat) (pkg : Pkg) (h : ops.special pkg = .eedInfo) :
    acceptEv ops nEed nEnv pkg = [] := by
  simp [acceptEv, accept, h]

/-- the events of an environment change with well-formed members: for each member in order the
packet size update (for PACKSIZE) and one call of every registered hook with (type, old, new) -/
def envSpec (ops : Ops Pkg) (nEnv : Nat) : List (Nat × Bytes × Bytes) → List (Ev Pkg)
  | [] => []
  | (t, old, new) :: rest =>
    (if t == ops.envPackSize then
      match ops.atoi new with
      | some n => [Ev.packSize n]
      | none => []
     else []) ++ (List.range nEnv).map (fun i => Ev.envHook i t old new) ++ envSpec ops nEnv rest

theorem envMembers_spec (ops : Ops Pkg) (nEnv : Nat) (ms : List (Nat × Bytes × Bytes))
    (hwf : ∀ m ∈ ms, m.1 = ops.envPackSize → ∃ n, ops.atoi m.2.2 = some n ∧ 8 < n ∧ n ≤ 65535) :
    envMembers ops nEnv ms = (envSpec ops nEnv ms, true) := by
  induction ms with
  | nil => rfl
  | cons m ms ih =>
    obtain ⟨t, old, new⟩ := m
    have ih' := ih (fun x hx => hwf x (by simp [hx]))
    unfold envMembers envSpec
    by_cases ht : (t == ops.envPackSize) = true
    · obtain ⟨n, ha, h1, h2⟩ := hwf (t, old, new) (by simp) (by simpa using ht)
      simp only at ha
      have hr : ¬ (n ≤ 8 ∨ n > 65535) := by omega
      simp [ht, ha, hr, ih']
    · simp only [Bool.not_eq_true] at ht
      simp [ht, ih']

/-- an environment change is never delivered; every member is applied / reported exactly once -/
theorem c11_env_events (ops : Ops Pkg) (nEed nEnv : Nat) (pkg : Pkg) (ms : List (Nat × Bytes × Bytes))
    (h : ops.special pkg = .env ms)
    (hwf : ∀ m ∈ ms, m.1 = ops.envPackSize → ∃ n, ops.atoi m.2.2 = some n ∧ 8 < n ∧ n ≤ 65535) :
    acceptEv ops nEed nEnv pkg = envSpec ops nEnv ms := by
  simp [acceptEv, accept, h, envMembers_spec ops nEnv ms hwf]

/-- an ordinary package is delivered, nothing else -/
theorem c11_plain_events (ops : Ops Pkg) (nEed nEnv : Nat) (pkg : Pkg) (h : ops.special pkg = .none) :
    acceptEv ops nEed nEnv pkg = [.deliver pkg] := by
  simp [acceptEv, accept, h]

/-- **Before any later package**: in the events of a response, everything caused by an earlier
package precedes everything caused by a later one. -/
theorem c11_order (ops : Ops Pkg) (nEed nEnv : Nat) (pre mid post : List Pkg) (a b : Pkg) :
    (pre ++ a :: mid ++ b :: post).flatMap (acceptEv ops nEed nEnv) =
      pre.flatMap (acceptEv ops nEed nEnv) ++ acceptEv ops nEed nEnv a ++
        mid.flatMap (acceptEv ops nEed nEnv) ++ acceptEv ops nEed nEnv b ++
        post.flatMap (acceptEv ops nEed nEnv) := by
  simp [List.flatMap_append, List.flatMap_cons, List.append_assoc]

/-! ## consumer layer: the error of a failing callback carries the messages received so far -/

open Dblib.Consume in
/-- the messages in the rest of a response after the package the callback failed on: the EED
packages up to the response's final DONE -/
def restMessages (ops : Consume.Ops Pkg) (p : Pkg) (post : List Pkg) : List Pkg :=
  if ops.isDoneFinal p then [] else (Consume.drainCollect ops post).1

/-- what `drainCollect` collects: exactly the EED packages in front of the first final DONE -/
theorem drainCollect_spec (ops : Consume.Ops Pkg) (A : List Pkg) (f : Pkg) (R : List Pkg)
    (hf : ops.isDoneFinal f = true) (hfe : ops.isEED f = false)
    (hA : ∀ a ∈ A, ops.isEED a = true ∨ ops.isDoneFinal a = false) :
    Consume.drainCollect ops (A ++ f :: R) = (A.filter ops.isEED, R) := by
  induction A with
  | nil => simp [Consume.drainCollect, hf, hfe]
  | cons a A ih =>
    have ih' := ih (fun x hx => hA x (by simp [hx]))
    simp only [List.cons_append, Consume.drainCollect]
    by_cases he : ops.isEED a = true
    · simp [he, ih']
    · have hd : ops.isDoneFinal a = false := by
        rcases hA a (by simp) with h | h
        · exact absurd h he
        · exact h
      simp only [Bool.not_eq_true] at he
      simp [he, hd, ih']

/-- **When the callback fails, the error carries every message of the response received by the
call, in order**: the EED packages seen before the failing package, then those in the rest of the
response, which the call consumes up to the final DONE (none if the failing package is the final
DONE itself). `cbErr e` is rendered as an `EEDError` wrapping the callback's error iff `e ≠ []`
(`errors.Is` with the callback's error holds either way — checked on the real code by the harness). -/
theorem c11_error_carries_messages (ops : Consume.Ops Pkg) (cb : Pkg → Consume.Cb) :
    ∀ (q eeds e q' : List Pkg), Consume.untilCb ops cb q eeds = (.cbErr e, q') →
      ∃ pre p post, q = pre ++ p :: post ∧ cb p = .fail ∧ ops.isEED p = false
        ∧ (∀ x ∈ pre, ops.isEED x = true ∨ cb x = .cont)
        ∧ e = eeds ++ pre.filter ops.isEED ++ restMessages ops p post := by
  intro q
  induction q with
  | nil => intro eeds e q' h; simp [Consume.untilCb] at h
  | cons x q ih =>
    intro eeds e q' h
    unfold Consume.untilCb at h
    by_cases hx : ops.isEED x = true
    · simp only [hx, if_true] at h
      obtain ⟨pre, p, post, h1, h2, h3, h4, h5⟩ := ih _ _ _ h
      refine ⟨x :: pre, p, post, by simp [h1], h2, h3, ?_, ?_⟩
      · intro y hy
        rcases List.mem_cons.1 hy with rfl | hy
        · exact Or.inl hx
        · exact h4 y hy
      · simp [h5, hx, List.append_assoc]
    · simp only [Bool.not_eq_true] at hx
      simp only [hx, Bool.false_eq_true, if_false] at h
      cases hc : cb x with
      | eof => simp [hc] at h
      | stop => simp [hc] at h
      | fail =>
        simp only [hc] at h
        injection h with h1 h2
        injection h1 with h1
        refine ⟨[], x, q, rfl, hc, hx, by simp, ?_⟩
        rw [← h1]
        simp only [List.filter_nil, List.append_nil, restMessages]
        split <;> rfl
      | cont =>
        simp only [hc] at h
        obtain ⟨pre, p, post, h1, h2, h3, h4, h5⟩ := ih _ _ _ h
        refine ⟨x :: pre, p, post, by simp [h1], h2, h3, ?_, ?_⟩
        · intro y hy
          rcases List.mem_cons.1 hy with rfl | hy
          · exact Or.inr hc
          · exact h4 y hy
        · simp [h5, hx]

end Dblib.Props.C11
