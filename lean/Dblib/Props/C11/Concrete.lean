/-
C11 instantiated with the transcribed package decoders (`Codec.ops`, Model/Codec/Pkg.lean).
-/
import Dblib.Props.C11.Abstract
import Dblib.Props.C02.Concrete
import Dblib.Props.C11.History

namespace Dblib.Props.C11
open Dblib Dblib.Rx Dblib.Codec Dblib.Props.C02

/-- the events of any packetisation of a response, for the real decoders -/
theorem c11_concrete_events (rx : Rx Pkg) (T : Bytes) (pkgs : List Pkg) (cs : List Bytes)
    (hbuf : rx.buf = []) (heom : rx.eom = false) (hc : rx.closed = false)
    (hW : WholeP Codec.ops rx.last T pkgs) (hne : cs ≠ []) (hcs : cs.flatten = T) :
    feed Codec.ops rx (markLast cs) =
      some (withBuf rx none [] false,
        pkgs.flatMap (acceptEv Codec.ops rx.nEed rx.nEnv) ++ synthDone Codec.ops (pkgs.foldl (lastAfter Codec.ops) rx.last)) :=
  c11_events_of_any_cut Codec.ops select_incr rx T pkgs cs hbuf heom hc hW hne hcs

/-- histories of responses of real packages: the events are those of each response on its own -/
theorem c11_concrete_history_events (rs : List (Dblib.Props.C03.Resp Pkg)) (rx : Rx Pkg)
    (hall : ∀ r ∈ rs, WholeP Codec.ops none r.T r.pkgs ∧ r.cs ≠ [] ∧ r.cs.flatten = r.T)
    (hb : rx.buf = []) (he : rx.eom = false) (hc : rx.closed = false) (hl : rx.last = none) :
    ∃ rx', feed Codec.ops rx (rs.flatMap (fun r => markLast r.cs))
        = some (rx', rs.flatMap (respEvents Codec.ops rx.nEed rx.nEnv))
      ∧ rx'.buf = [] ∧ rx'.eom = false ∧ rx'.last = none ∧ rx'.closed = false
      ∧ rx'.nEed = rx.nEed ∧ rx'.nEnv = rx.nEnv :=
  c11_history_events Codec.ops select_incr rs rx hall hb he hc hl

/-- an EED package without the TDS_EED_INFO status bit: every hook once, in order, then delivery -/
theorem c11_concrete_eed (nEed nEnv : Nat) (e : Basic.EED) (h : e.status % 4 / 2 ≠ 1) :
    acceptEv Codec.ops nEed nEnv (.eed e) = (List.range nEed).map (fun i => Ev.eedHook i (.eed e)) ++ [.deliver (.eed e)] :=
  c11_eed_events Codec.ops nEed nEnv (.eed e) (by simp [Codec.ops, special, h])

/-- an EED package with the TDS_EED_INFO status bit: silent -/
theorem c11_concrete_eed_info (nEed nEnv : Nat) (e : Basic.EED) (h : e.status % 4 / 2 = 1) :
    acceptEv Codec.ops nEed nEnv (.eed e) = [] :=
  c11_eed_info_silent Codec.ops nEed nEnv (.eed e) (by simp [Codec.ops, special, h])

/-- an ENVCHANGE package: per member, in order, the PACKSIZE update then every hook once -/
theorem c11_concrete_env (nEed nEnv : Nat) (e : Basic.EnvChange)
    (hwf : ∀ m ∈ e.members, m.typ = 4 → ∃ n, atoi m.new = some n ∧ 8 < n ∧ n ≤ 65535) :
    acceptEv Codec.ops nEed nEnv (.envChange e) =
      envSpec Codec.ops nEnv (e.members.map (fun m => (m.typ, m.old, m.new))) := by
  refine c11_env_events Codec.ops nEed nEnv (.envChange e) _ (by simp [Codec.ops, special]) ?_
  intro m hm hps
  simp only [List.mem_map] at hm
  obtain ⟨m', hm', rfl⟩ := hm
  exact hwf m' hm' hps

/-- every other package kind is delivered and nothing else happens -/
theorem c11_concrete_plain (nEed nEnv : Nat) (p : Pkg) (h1 : ∀ e, p ≠ .eed e) (h2 : ∀ e, p ≠ .envChange e) :
    acceptEv Codec.ops nEed nEnv p = [.deliver p] := by
  refine c11_plain_events Codec.ops nEed nEnv p ?_
  cases p <;> simp_all [Codec.ops, special]

/-- non-vacuity: ENVCHANGE(PACKSIZE 512→2048) with two hooks (the package itself is consumed by the channel) -/
example : acceptEv Codec.ops 0 2 (.envChange ⟨[{ typ := 4, old := [0x35,0x31,0x32], new := [0x32,0x30,0x34,0x38] }]⟩) =
    [.packSize 2048, .envHook 0 4 [0x35,0x31,0x32] [0x32,0x30,0x34,0x38], .envHook 1 4 [0x35,0x31,0x32] [0x32,0x30,0x34,0x38]] := by rfl

end Dblib.Props.C11
