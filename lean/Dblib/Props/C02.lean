-- C02: abstract theorems (any parser family with the incremental law) and their instantiation
-- with the transcribed package decoders (Model/Codec/Pkg.lean)
import Dblib.Props.C02.Abstract
import Dblib.Props.C02.Concrete
import Dblib.Props.C02.EndToEnd
import Dblib.Props.C03.Duplex  -- the sending side does not touch the receive state
