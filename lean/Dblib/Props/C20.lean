/-
C20 — Isolation level mapping is a deterministic, consistent function.

Stated over the regenerated `Gen/Isolation.lean` (the `sql2ase` literal, the shape of
`ASEIsolationLevelFromGo`, the shape and table of `ToGo`, the shape of `String`), so the kernel
re-checks them against what `isolationlevels.go` says now. The proofs evaluate the tables
(`decide`) and lift to all integers by lemmas, so reordering a table re-checks instead of breaking.

sql.IsolationLevel: 0 Default, 1 ReadUncommitted, 2 ReadCommitted, 3 WriteCommitted,
4 RepeatableRead, 5 Snapshot, 6 Serializable, 7 Linearizable.
-/
import Dblib.Model.Isolation

namespace Dblib.Props.C20
open Dblib.Isolation Dblib.Gen.Isolation

/-- the specification of the forward direction, written from the property statement -/
def specFromGo (l : Int) : Option Int :=
  if l = 0 ∨ l = 2 then some 2       -- default and read committed ↦ read committed
  else if l = 1 then some 1          -- read uncommitted
  else if l = 4 then some 3          -- repeatable read
  else if l = 6 then some 4          -- serializable
  else none                          -- every other or unknown level: error

theorem forward_on_keys : ∀ k ∈ sql2ase.map Prod.fst, fromGo k = specFromGo k := by decide
theorem supported_are_keys : ∀ k ∈ [0, 1, 2, 4, 6], k ∈ sql2ase.map Prod.fst := by decide

/-- Forward translation: the four ASE levels for the supported levels (default ↦ read committed),
an error for every other `sql.IsolationLevel` — for all integers, not only −8..64. -/
theorem c20_forward (l : Int) : fromGo l = specFromGo l := by
  by_cases h : l ∈ sql2ase.map Prod.fst
  · exact forward_on_keys l h
  · have hn : sql2ase.lookup l = none := by
      rw [List.lookup_eq_none_iff]
      intro p hp
      simp only [bne_iff_ne, ne_eq]
      intro heq
      exact h (List.mem_map.2 ⟨p, hp, heq.symm⟩)
    have h0 : l ∉ [0, 1, 2, 4, 6] := fun hm => h (supported_are_keys l hm)
    simp at h0
    have hs : fromGoShape = .lookupRejectInvalid := by decide
    simp only [fromGo, fromGoWith, hs, hn, specFromGo]
    simp [h0]

/-- every value of the table has exactly one key (needed only when `ToGo` ranges over a map) -/
def valuesUnique (tbl : List (Int × Int)) : Bool :=
  tbl.all (fun kv => (tbl.filter (fun x => x.2 == kv.2)).length == 1)

theorem toGoWith_det (kind : ToGoKind) (tbl : List (Int × Int)) (dflt : Int)
    (hk : kind ≠ .unknown) (hu : kind = .rangeOverMap → valuesUnique tbl = true) (lvl : Int) :
    (toGoWith kind tbl dflt lvl).length = 1 := by
  cases kind with
  | unknown => exact absurd rfl hk
  | lookupMap => simp only [toGoWith]; split <;> rfl
  | rangeOverMap =>
    simp only [toGoWith]
    split
    · rfl
    · rename_i hne
      have hu := hu rfl
      simp only [List.isEmpty_iff, List.map_eq_nil_iff] at hne
      obtain ⟨kv, hkv⟩ := List.exists_mem_of_ne_nil _ hne
      rw [List.mem_filter] at hkv
      have hv : kv.2 = lvl := by simpa using hkv.2
      have := (List.all_eq_true.1 hu) kv hkv.1
      simp only [hv, beq_iff_eq] at this
      simp [this]

/-- `ToGo` is a function: exactly one possible answer for every level (all integers). -/
theorem c20_deterministic (lvl : Int) : (toGo lvl).length = 1 :=
  toGoWith_det _ _ _ (by decide) (by decide) lvl

/-- Supported, non-default level: there and back returns it unchanged. -/
theorem c20_there_and_back (l : Int) (hl : l = 1 ∨ l = 2 ∨ l = 4 ∨ l = 6) :
    ∃ a, fromGo l = some a ∧ toGo a = [l] := by
  rcases hl with h | h | h | h <;> subst h <;> decide

/-- Printing goes through `ToGo`, so it is deterministic as well. -/
theorem c20_string_via_togo : stringShape = .viaToGo := by decide

/-- non-vacuity of `c20_there_and_back`'s hypothesis and a concrete instance of determinism -/
example : fromGo 6 = some 4 ∧ toGo 4 = [6] := by decide

end Dblib.Props.C20
