/-
C18 — Pooled names are unique among concurrent holders.

All theorems are about `Dblib.NamePool` (the nondeterministic pool state machine whose choices are
explicit arguments of the ops, the format `pre ++ decimal id ++ suf`, the history validator `validate`
that the driver runs on recorded histories). They hold for EVERY op sequence and EVERY resolution of
the nondeterminism (which pooled id `sync.Pool.Get` returns, when it reports empty and mints, which
pooled ids a garbage collection forgets), by induction over the op list.

Assumption that connects a concurrent execution to an op sequence (not provable here, exercised by
the harness): `sync.Pool` and `atomic.AddUint64` are linearizable, and a `Name` is not copied by value.
-/
import Dblib.Model.NamePool
import Dblib.Lemmas.C18Basic
import Dblib.Gen.Pool

namespace Dblib.Props.C18
open Dblib Dblib.NamePool Dblib.Lemmas.C18

/-! ## the invariant -/

structure Inv (s : State) : Prop where
  nodup : (heldIds s ++ s.pool).Nodup
  range : ∀ id ∈ heldIds s ++ s.pool, 1 ≤ id ∧ id ≤ s.counter
  handles : (s.held.map (·.1)).Nodup

theorem inv_init : Inv init := ⟨by simp [heldIds, init], by simp [heldIds, init], by simp [init]⟩

theorem not_isHeld_not_mem {s : State} {h : Handle} (hh : ¬ isHeld s h = true) :
    h ∉ s.held.map (·.1) := by
  intro hm
  obtain ⟨p, hp, hph⟩ := List.mem_map.1 hm
  have hnone : s.held.lookup h = none := by
    simp only [isHeld, Option.isSome_iff_ne_none, ne_eq, Decidable.not_not] at hh
    exact hh
  exact lookup_none_not_mem hnone p.2 (by rw [← hph]; exact hp)

theorem inv_acquire {s : State} (hi : Inv s) (h : Handle) (c : Choice) : Inv (acquire s h c) := by
  cases c with
  | mint =>
    simp only [acquire]
    split
    · exact hi
    · rename_i hh
      refine ⟨?_, ?_, ?_⟩
      · simp only [heldIds, List.map_cons, List.cons_append, List.nodup_cons]
        refine ⟨fun hm => ?_, hi.nodup⟩
        have := (hi.range _ hm).2
        omega
      · intro id hm
        simp only [heldIds, List.map_cons, List.cons_append, List.mem_cons] at hm
        show 1 ≤ id ∧ id ≤ s.counter + 1
        rcases hm with rfl | hm
        · omega
        · have := hi.range id hm
          omega
      · simp only [List.map_cons, List.nodup_cons]
        exact ⟨not_isHeld_not_mem hh, hi.handles⟩
  | pop id =>
    simp only [acquire]
    split
    · exact hi
    · rename_i hh
      split
      · rename_i hc
        have hmem : id ∈ s.pool := by simpa using hc
        have hnd := hi.nodup
        rw [List.nodup_append] at hnd
        obtain ⟨hn1, hn2, hdisj⟩ := hnd
        refine ⟨?_, ?_, ?_⟩
        · simp only [heldIds, List.map_cons, List.cons_append, List.nodup_cons]
          refine ⟨fun hm => ?_, ?_⟩
          · rcases List.mem_append.1 hm with hm | hm
            · exact hdisj id hm id hmem rfl
            · exact (List.Nodup.mem_erase_iff hn2).1 hm |>.1 rfl
          · exact List.Nodup.sublist (List.Sublist.append_left List.erase_sublist _) hi.nodup
        · intro x hm
          simp only [heldIds, List.map_cons, List.cons_append, List.mem_cons] at hm
          rcases hm with rfl | hm
          · exact hi.range _ (List.mem_append_right _ hmem)
          · refine hi.range x ?_
            rcases List.mem_append.1 hm with hm | hm
            · exact List.mem_append_left _ hm
            · exact List.mem_append_right _ (List.mem_of_mem_erase hm)
        · simp only [List.map_cons, List.nodup_cons]
          exact ⟨not_isHeld_not_mem hh, hi.handles⟩
      · exact hi

theorem inv_release {s : State} (hi : Inv s) (h : Handle) : Inv (release s h) := by
  simp only [release]
  split
  · exact hi
  · rename_i id hl
    have hnd := hi.nodup
    rw [List.nodup_append] at hnd
    obtain ⟨hn1, hn2, hdisj⟩ := hnd
    have hidmem : id ∈ heldIds s := List.mem_map.2 ⟨(h, id), lookup_some_mem hl, rfl⟩
    refine ⟨?_, ?_, ?_⟩
    · simp only [heldIds]
      rw [List.nodup_append]
      refine ⟨List.Nodup.sublist (filter_ids_sublist h s.held) hn1, ?_, ?_⟩
      · simp only [List.nodup_cons]
        exact ⟨fun hm => hdisj id hidmem id hm rfl, hn2⟩
      · intro a ha b hb hab
        subst hab
        rcases List.mem_cons.1 hb with rfl | hb
        · exact id_not_in_filter hn1 hl ha
        · exact hdisj a ((filter_ids_sublist h s.held).subset ha) a hb rfl
    · intro x hm
      refine hi.range x ?_
      simp only [heldIds] at hm
      rcases List.mem_append.1 hm with hm | hm
      · exact List.mem_append_left _ ((filter_ids_sublist h s.held).subset hm)
      · rcases List.mem_cons.1 hm with rfl | hm
        · exact List.mem_append_left _ hidmem
        · exact List.mem_append_right _ hm
    · exact List.Nodup.sublist (filter_handles_sublist h s.held) hi.handles

theorem inv_gc {s : State} (hi : Inv s) (drop : List Nat) : Inv (gc s drop) := by
  refine ⟨?_, ?_, hi.handles⟩
  · exact List.Nodup.sublist (List.Sublist.append_left List.filter_sublist _) hi.nodup
  · intro x hm
    refine hi.range x ?_
    simp only [gc, heldIds] at hm
    rcases List.mem_append.1 hm with hm | hm
    · exact List.mem_append_left _ hm
    · exact List.mem_append_right _ (List.mem_filter.1 hm).1

theorem inv_step {s : State} (hi : Inv s) (op : Op) : Inv (step s op) := by
  cases op with
  | acquire h c => exact inv_acquire hi h c
  | release h => exact inv_release hi h
  | releaseNil => exact hi
  | gc drop => exact inv_gc hi drop

theorem inv_exec {s : State} (hi : Inv s) (ops : List Op) : Inv (exec s ops) := by
  induction ops generalizing s with
  | nil => exact hi
  | cons op ops ih => exact ih (inv_step hi op)

/-! ## c18_unique -/

/-- For every op sequence from the initial state and every resolution of the nondeterminism:
pooled ids and held ids are pairwise distinct (no id is at two places at once), every id is
between 1 and the counter (never zero), and no Name object is held twice. -/
theorem c18_unique (ops : List Op) :
    let s := exec init ops
    (s.pool ++ heldIds s).Nodup ∧ (∀ id ∈ s.pool ++ heldIds s, 1 ≤ id ∧ id ≤ s.counter) ∧
      (s.held.map (·.1)).Nodup := by
  have hi := inv_exec inv_init ops
  refine ⟨?_, ?_, hi.handles⟩
  · have := hi.nodup
    rw [List.nodup_append] at this ⊢
    exact ⟨this.2.1, this.1, fun a ha b hb hab => this.2.2 b hb a ha hab.symm⟩
  · intro id hm
    exact hi.range id (by
      rcases List.mem_append.1 hm with hm | hm
      · exact List.mem_append_right _ hm
      · exact List.mem_append_left _ hm)

/-- hence: two different live Names never carry the same id … -/
theorem c18_unique_ids (ops : List Op) (h₁ h₂ : Handle) (id₁ id₂ : Nat)
    (m₁ : (h₁, id₁) ∈ (exec init ops).held) (m₂ : (h₂, id₂) ∈ (exec init ops).held)
    (hne : h₁ ≠ h₂) : id₁ ≠ id₂ := by
  intro e
  subst e
  have hi := inv_exec inv_init ops
  have hn : ((exec init ops).held.map (·.2)).Nodup := (List.nodup_append.1 hi.nodup).1
  exact hne (same_id_same_handle hn m₁ m₂)

/-- … ids are never zero … -/
theorem c18_id_nonzero (ops : List Op) (h : Handle) (id : Nat)
    (m : (h, id) ∈ (exec init ops).held) : id ≠ 0 := by
  have hi := inv_exec inv_init ops
  have := hi.range id (List.mem_append_left _ (List.mem_map.2 ⟨(h, id), m, rfl⟩))
  omega

/-- … a held id is not offered by the pool at the same time (it cannot be handed out again) … -/
theorem c18_held_not_pooled (ops : List Op) (h : Handle) (id : Nat)
    (m : (h, id) ∈ (exec init ops).held) : id ∉ (exec init ops).pool := by
  have hi := inv_exec inv_init ops
  intro hp
  exact (List.nodup_append.1 hi.nodup).2.2 id (List.mem_map.2 ⟨(h, id), m, rfl⟩) id hp rfl

/-- … every live Name's text is the format applied to its id, and the id/pool fields are set. -/
theorem c18_text_is_format (f : Fmt) (s : State) (h : Handle) (id : Nat)
    (hl : s.held.lookup h = some id) : nameOf f s h = ⟨f.render id, some id, true⟩ := by
  simp only [nameOf, hl]

-- the hypotheses of `c18_unique_ids` are satisfiable with two live names (ids 1 and 2)
example : (0, 1) ∈ (exec init [.acquire 0 .mint, .acquire 1 .mint]).held ∧
    (1, 2) ∈ (exec init [.acquire 0 .mint, .acquire 1 .mint]).held := by decide

-- a released id is really handed out again (the pool recycles): pop after release
example : (exec init [.acquire 0 .mint, .release 0, .acquire 1 (.pop 1)]).held = [(1, 1)] := by decide

/-! ## c18_text_injective -/

/-- Distinct ids give distinct texts, for every supported format (literal bytes, `%%`, `%d`;
also a format without `%d`, where Go appends `%!(EXTRA uint64=<id>)`): the text is
`pre ++ decimal id ++ suf` and the decimal representation is injective. -/
theorem c18_text_injective (f : Fmt) (a b : Nat) (hab : a ≠ b) : f.render a ≠ f.render b :=
  fun h => hab (render_injective f h)

/-- the same for the parsed format string -/
theorem c18_text_injective_format (format : Bytes) (f : Fmt) (_hf : parseFmt format = some f)
    (a b : Nat) (hab : a ≠ b) : f.render a ≠ f.render b :=
  c18_text_injective f a b hab

-- "name_%d" parses to prefix "name_", empty suffix; id 10 renders as "name_10"
example : parseFmt [110, 97, 109, 101, 95, 37, 100] = some ⟨[110, 97, 109, 101, 95], []⟩ := by decide
example : (⟨[110, 97, 109, 101, 95], []⟩ : Fmt).render 10 = [110, 97, 109, 101, 95, 49, 48] := by
  decide
-- "a" (no verb) renders id 7 as "a%!(EXTRA uint64=7)"
example : (parseFmt [97]).map (·.render 7) =
    some [97, 37, 33, 40, 69, 88, 84, 82, 65, 32, 117, 105, 110, 116, 54, 52, 61, 55, 41] := by decide

/-- two different live Names never carry the same text -/
theorem c18_unique_texts (f : Fmt) (ops : List Op) (h₁ h₂ : Handle) (id₁ id₂ : Nat)
    (m₁ : (h₁, id₁) ∈ (exec init ops).held) (m₂ : (h₂, id₂) ∈ (exec init ops).held)
    (hne : h₁ ≠ h₂) : f.render id₁ ≠ f.render id₂ :=
  c18_text_injective f _ _ (c18_unique_ids ops h₁ h₂ id₁ id₂ m₁ m₂ hne)

/-- the text is never empty, so `Name() == ""` identifies a cleared Name -/
theorem c18_text_nonempty (f : Fmt) (id : Nat) : f.render id ≠ [] := by
  simp only [Fmt.render, ne_eq, List.append_eq_nil_iff, not_and]
  intro h
  exact absurd h.2 (decimal_ne_nil id)

/-! ## release -/

/-- Releasing a Name clears it (all three fields zero) … -/
theorem c18_release_clears (f : Fmt) (s : State) (h : Handle) :
    nameOf f (release s h) h = Name.zero := by
  have : (release s h).held.lookup h = none := by
    simp only [release]
    split
    · assumption
    · exact lookup_filter_self h s.held
  simp only [nameOf, this]

/-- … and makes its id available again: the id moves from the live set into the pool (exactly once:
the pool stays duplicate free by `inv_release`) -/
theorem c18_release_returns_id (s : State) (hi : Inv s) (h : Handle) (id : Nat)
    (hl : s.held.lookup h = some id) :
    (release s h).pool = id :: s.pool ∧ id ∉ heldIds (release s h) := by
  have hn : (heldIds s).Nodup := (List.nodup_append.1 hi.nodup).1
  simp only [release, hl, heldIds, true_and]
  exact id_not_in_filter hn hl

-- hypotheses satisfiable: a reachable state in which handle 0 holds id 1
example : Inv (exec init [.acquire 0 .mint]) ∧ (exec init [.acquire 0 .mint]).held.lookup 0 = some 1 :=
  ⟨inv_exec inv_init _, by decide⟩

/-- … other Names are untouched by the release -/
theorem c18_release_other (f : Fmt) (s : State) (h h' : Handle) (hne : h' ≠ h) :
    nameOf f (release s h) h' = nameOf f s h' := by
  have key : (release s h).held.lookup h' = s.held.lookup h' := by
    simp only [release]
    split
    · rfl
    · exact lookup_filter_ne h h' hne s.held
  simp only [nameOf, key]

/-- releasing a cleared Name object (any time later: a cleared object is never filled again)
changes nothing -/
theorem c18_release_cleared_noop (s : State) (h : Handle) (hl : s.held.lookup h = none) :
    step s (.release h) = s := by
  simp only [step, release, hl]

/-- Releasing twice is the same as releasing once (state equality: nothing is put back twice). -/
theorem c18_double_release_noop (s : State) (h : Handle) :
    release (release s h) h = release s h := by
  have hnone : (release s h).held.lookup h = none := by
    simp only [release]
    split
    · assumption
    · exact lookup_filter_self h s.held
  exact c18_release_cleared_noop (release s h) h hnone

/-- Releasing nil changes nothing. -/
theorem c18_release_nil_noop (s : State) : step s .releaseNil = s := rfl

/-- the script interpreter: `pool.Release(v)` on a nil variable is a no-op and does not panic -/
theorem c18_script_release_nil (sc : Script) (h : Handle) (hn : sc.objs.contains h = false) :
    scriptStep sc (.poolRel h) = .ok (sc, "p:nil") := by
  have hn' : h ∉ sc.objs := by simpa using hn
  simp [scriptStep, obs, hn']

/-- `pool.Release(v)` never panics, whatever `v` is (nil, zero Name, cleared Name, live Name) … -/
theorem c18_pool_release_never_panics (sc : Script) (h : Handle) :
    ∃ r, scriptStep sc (.poolRel h) = .ok r := ⟨_, rfl⟩

/-- … and `v.Release()` never panics for a non-nil `v` (zero, cleared — i.e. second release — or live) -/
theorem c18_method_release_never_panics (sc : Script) (h : Handle) (hn : sc.objs.contains h = true) :
    ∃ r, scriptStep sc (.methRel h) = .ok r := by
  have hn' : h ∈ sc.objs := by simpa using hn
  simp [scriptStep, hn']

-- hypothesis satisfiable: after `A0 P0` variable 0 points to a (cleared) object
example : ((runScript Script.init [.acq 0, .poolRel 0, .methRel 0, .poolRel 0]) =
    ["a", "p:cleared", "m:cleared", "p:cleared"]) := by decide

/-- `(*Name)(nil).Release()` — the method form on a nil pointer — is a no-op as well (guarded since
the repo fix; the script protocol ends with the token `ok-nilrecv`, never with a panic token). -/
theorem c18_nil_receiver_release_noop (sc : Script) (h : Handle) (hn : sc.objs.contains h = false) :
    scriptStep sc (.methRel h) = .error "ok-nilrecv" := by
  have hn' : h ∉ sc.objs := by simpa using hn
  simp [scriptStep, hn']

/-! ## the validator is sound -/

/-- the live Names of a history, written from the meaning of the events only (no checks):
an `acq` makes the Name live, a `rel` ends it -/
def liveStep (l : List (Handle × Nat × Bytes)) : Ev → List (Handle × Nat × Bytes)
  | .acq h id t => (h, id, t) :: l
  | .rel h => l.filter (fun p => p.1 != h)
  | _ => l

def liveAfter (evs : List Ev) : List (Handle × Nat × Bytes) := evs.foldl liveStep []

/-- what the property demands of the set of simultaneously live Names -/
structure GoodLive (f : Fmt) (l : List (Handle × Nat × Bytes)) : Prop where
  ids : (l.map (·.2.1)).Nodup
  ok : ∀ p ∈ l, p.2.1 ≠ 0 ∧ p.2.2 = f.render p.2.1

def proj (l : List (Handle × Nat × Bytes)) : List (Handle × Nat) := l.map (fun p => (p.1, p.2.1))

theorem proj_filter (h : Handle) (l : List (Handle × Nat × Bytes)) :
    proj (l.filter (fun p => p.1 != h)) = (proj l).filter (fun p => p.1 != h) := by
  induction l with
  | nil => rfl
  | cons p t ih =>
    by_cases hp : p.1 = h
    · simp [proj, hp] at ih ⊢; exact ih
    · simp [proj, hp] at ih ⊢; exact ih

theorem good_step {f : Fmt} {v v' : V} {l : List (Handle × Nat × Bytes)} {e : Ev}
    (hv : v.held = proj l) (hg : GoodLive f l) (hc : checkEv f v e = .ok v') :
    v'.held = proj (liveStep l e) ∧ GoodLive f (liveStep l e) := by
  cases e with
  | acq h id t =>
    simp only [checkEv] at hc
    split at hc; · cases hc
    split at hc; · cases hc
    split at hc; · cases hc
    split at hc; · cases hc
    rename_i hz _ hdup ht
    simp only [Except.ok.injEq] at hc
    subst hc
    refine ⟨by simp [liveStep, proj, hv], ?_, ?_⟩
    · simp only [liveStep, List.map_cons, List.nodup_cons]
      refine ⟨?_, hg.ids⟩
      have : id ∉ v.held.map (·.2) := by simpa using hdup
      rw [hv] at this
      simpa [proj] using this
    · intro p hp
      rcases List.mem_cons.1 hp with rfl | hp
      · exact ⟨hz, by simpa using ht⟩
      · exact hg.ok p hp
  | rel h =>
    simp only [checkEv, Except.ok.injEq] at hc
    subst hc
    refine ⟨by simp only [liveStep, hv, proj_filter], ?_, ?_⟩
    · exact List.Nodup.sublist (List.Sublist.map _ List.filter_sublist) hg.ids
    · intro p hp
      exact hg.ok p (List.mem_filter.1 hp).1
  | clr h t =>
    simp only [checkEv] at hc
    split at hc; · cases hc
    split at hc; · cases hc
    simp only [Except.ok.injEq] at hc
    subst hc
    exact ⟨hv, hg⟩
  | relNil =>
    simp only [checkEv, Except.ok.injEq] at hc
    subst hc
    exact ⟨hv, hg⟩
  | gc =>
    simp only [checkEv, Except.ok.injEq] at hc
    subst hc
    exact ⟨hv, hg⟩
  | crash => simp only [checkEv] at hc; cases hc

theorem sound_from {f : Fmt} :
    ∀ (evs : List Ev) (i : Nat) (v v' : V) (l : List (Handle × Nat × Bytes)),
      v.held = proj l → GoodLive f l → validateFrom f i v evs = .ok v' →
      ∀ k, GoodLive f ((evs.take k).foldl liveStep l)
  | [], _, _, _, _, _, hg, _, k => by simpa using hg
  | e :: es, i, v, v', l, hv, hg, hok, k => by
    cases k with
    | zero => simpa using hg
    | succ k =>
      simp only [validateFrom] at hok
      split at hok
      · cases hok
      · rename_i v1 hc
        obtain ⟨hv1, hg1⟩ := good_step hv hg hc
        simpa using sound_from es (i + 1) v1 v' _ hv1 hg1 hok k

/-- If the validator accepts a history, then at every point of it (after every prefix) the live
Names have pairwise distinct ids, no id is zero and every text is the format applied to the id. -/
theorem c18_validator_sound (f : Fmt) (evs : List Ev) (v : V) (hok : validate f evs = .ok v)
    (k : Nat) : GoodLive f (liveAfter (evs.take k)) :=
  sound_from evs 0 V.init v [] rfl ⟨by simp, by simp⟩ hok k

/-- spelled out: in an accepted history two different handles never hold the same id or the same
text at the same time -/
theorem c18_validator_sound_pairs (f : Fmt) (evs : List Ev) (v : V)
    (hok : validate f evs = .ok v) (k : Nat) (h₁ h₂ : Handle) (id₁ id₂ : Nat) (t₁ t₂ : Bytes)
    (m₁ : (h₁, id₁, t₁) ∈ liveAfter (evs.take k)) (m₂ : (h₂, id₂, t₂) ∈ liveAfter (evs.take k))
    (hne : h₁ ≠ h₂) : id₁ ≠ id₂ ∧ t₁ ≠ t₂ ∧ id₁ ≠ 0 := by
  have hg := c18_validator_sound f evs v hok k
  have hid : id₁ ≠ id₂ := by
    intro e
    subst e
    have hn : ((proj (liveAfter (evs.take k))).map (·.2)).Nodup := by
      simpa [proj, List.map_map, Function.comp_def] using hg.ids
    have a₁ : (h₁, id₁) ∈ proj (liveAfter (evs.take k)) := List.mem_map.2 ⟨_, m₁, rfl⟩
    have a₂ : (h₂, id₁) ∈ proj (liveAfter (evs.take k)) := List.mem_map.2 ⟨_, m₂, rfl⟩
    exact hne (same_id_same_handle hn a₁ a₂)
  refine ⟨hid, ?_, (hg.ok _ m₁).1⟩
  have e₁ := (hg.ok _ m₁).2
  have e₂ := (hg.ok _ m₂).2
  simp only at e₁ e₂
  rw [e₁, e₂]
  exact c18_text_injective f _ _ hid

-- an accepted history with two simultaneously live names and a recycled id
example : validate ⟨[], []⟩ [.acq 0 1 ([49]), .acq 1 2 ([50]), .rel 0, .clr 0 [],
    .rel 0, .acq 2 1 ([49])] = .ok ⟨[(2, 1), (1, 2)], [2, 1], 2, 1⟩ := by decide
-- the negative controls are rejected
example : validate ⟨[], []⟩ [.acq 0 1 ([49]), .acq 1 1 ([49])] =
    .violation 1 "dup-id" := by decide
example : validate ⟨[], []⟩ [.acq 0 0 ([48])] = .violation 0 "zero-id" := by decide
example : validate ⟨[], []⟩ [.acq 0 1 ([50])] = .violation 0 "bad-text" := by decide

/-! ## the validator accepts every behaviour of the model (it is not vacuous) -/

/-- the history the model emits for an op (a stuttering acquire emits nothing) -/
def emit (f : Fmt) (s : State) : Op → List Ev
  | .acquire h c =>
    if isHeld s h then []
    else
      match c with
      | .pop id => if s.pool.contains id then [.acq h id (f.render id)] else []
      | .mint => [.acq h (s.counter + 1) (f.render (s.counter + 1))]
  | .release h => [.rel h, .clr h (nameOf f (release s h) h).text]
  | .releaseNil => [.relNil]
  | .gc _ => [.gc]

def history (f : Fmt) : State → List Op → List Ev
  | _, [] => []
  | s, op :: ops => emit f s op ++ history f (step s op) ops

theorem validateFrom_append (f : Fmt) :
    ∀ (a b : List Ev) (i : Nat) (v v1 : V), validateFrom f i v a = .ok v1 →
      validateFrom f i v (a ++ b) = validateFrom f (i + a.length) v1 b
  | [], b, i, v, v1, h => by simp only [validateFrom, Verdict.ok.injEq] at h; subst h; simp
  | e :: es, b, i, v, v1, h => by
    simp only [validateFrom, List.cons_append] at h ⊢
    split
    · rename_i r hc; rw [hc] at h; cases h
    · rename_i v' hc
      rw [hc] at h
      rw [validateFrom_append f es b (i + 1) v' v1 h]
      simp only [List.length_cons]
      congr 1
      omega

/-- the validator's state after an accepted `acq` -/
def vAcq (v : V) (h : Handle) (id : Nat) : V :=
  { held := (h, id) :: v.held,
    seen := if v.seen.contains id then v.seen else id :: v.seen,
    maxLive := max v.maxLive ((h, id) :: v.held).length,
    reused := if v.seen.contains id then v.reused + 1 else v.reused }

theorem checkEv_acq_ok (f : Fmt) (v : V) (h : Handle) (id : Nat) (hz : id ≠ 0)
    (hl : (v.held.lookup h).isSome = false) (hf : (v.held.map (·.2)).contains id = false) :
    checkEv f v (.acq h id (f.render id)) = .ok (vAcq v h id) := by
  simp only [checkEv, hz, hl, hf, if_false, Bool.false_eq_true, ne_eq, not_true_eq_false, vAcq]

theorem emit_mint (f : Fmt) (s : State) (h : Handle) (hh : ¬ isHeld s h = true) :
    emit f s (.acquire h .mint) = [.acq h (s.counter + 1) (f.render (s.counter + 1))] := by
  simp [emit, hh]

theorem emit_pop (f : Fmt) (s : State) (h : Handle) (id : Nat) (hh : ¬ isHeld s h = true)
    (hm : id ∈ s.pool) : emit f s (.acquire h (.pop id)) = [.acq h id (f.render id)] := by
  simp [emit, hh, hm]

/-- one model step is accepted by the validator and keeps validator and model in step -/
theorem complete_step (f : Fmt) (s : State) (hi : Inv s) (v : V) (hv : v.held = s.held) (op : Op)
    (i : Nat) : ∃ v1, validateFrom f i v (emit f s op) = .ok v1 ∧ v1.held = (step s op).held := by
  cases op with
  | releaseNil => exact ⟨v, rfl, hv⟩
  | gc drop => exact ⟨v, rfl, hv⟩
  | release h =>
    have hclr : (nameOf f (release s h) h).text = [] := by rw [c18_release_clears]; rfl
    have hn : ((v.held.filter (fun p => p.1 != h)).lookup h).isSome = false := by
      rw [lookup_filter_self]; rfl
    refine ⟨{ v with held := v.held.filter (fun p => p.1 != h) }, ?_, ?_⟩
    · simp [emit, validateFrom, checkEv, hclr, hn]
    · simp only [step, release, hv]
      split
      · rename_i hl
        -- nothing to remove: the filter is the identity
        have : ∀ l : List (Handle × Nat), l.lookup h = none → l.filter (fun p => p.1 != h) = l := by
          intro l hl
          apply List.filter_eq_self.2
          intro p hp
          simp only [bne_iff_ne, ne_eq]
          intro e
          exact lookup_none_not_mem hl p.2 (by rw [← e]; exact hp)
        exact this _ hl
      · rfl
  | acquire h c =>
    have hrange := hi.range
    have hnd := List.nodup_append.1 hi.nodup
    by_cases hh : isHeld s h = true
    · refine ⟨v, ?_, ?_⟩
      · have : emit f s (.acquire h c) = [] := by simp [emit, hh]
        rw [this]; rfl
      · cases c <;> simp [step, acquire, hh, hv]
    · have hlook : (v.held.lookup h).isSome = false := by
        rw [hv]; exact Bool.eq_false_iff.2 hh
      cases c with
      | mint =>
        have hfresh : (v.held.map (·.2)).contains (s.counter + 1) = false := by
          rw [hv]
          apply Bool.eq_false_iff.2
          intro hc
          have hm : s.counter + 1 ∈ heldIds s := by simpa [heldIds] using hc
          have := (hrange _ (List.mem_append_left _ hm)).2
          omega
        refine ⟨vAcq v h (s.counter + 1), ?_, ?_⟩
        · rw [emit_mint f s h hh]
          simp only [validateFrom, checkEv_acq_ok f v h _ (by omega) hlook hfresh]
        · simp [step, acquire, hh, hv, vAcq]
      | pop id =>
        by_cases hc : s.pool.contains id = true
        · have hmem : id ∈ s.pool := by simpa using hc
          have hpos := (hrange id (List.mem_append_right _ hmem)).1
          have hfresh : (v.held.map (·.2)).contains id = false := by
            rw [hv]
            apply Bool.eq_false_iff.2
            intro hc'
            have hm : id ∈ heldIds s := by simpa [heldIds] using hc'
            exact hnd.2.2 id hm id hmem rfl
          have hz : ¬ id = 0 := by omega
          refine ⟨vAcq v h id, ?_, ?_⟩
          · rw [emit_pop f s h id hh hmem]
            simp only [validateFrom, checkEv_acq_ok f v h id hz hlook hfresh]
          · simp [step, acquire, hh, hmem, hv, vAcq]
        · have hc' : id ∉ s.pool := by simpa using hc
          refine ⟨v, ?_, ?_⟩
          · have : emit f s (.acquire h (.pop id)) = [] := by simp [emit, hh, hc']
            rw [this]; rfl
          · simp [step, acquire, hh, hc', hv]

theorem complete_from (f : Fmt) :
    ∀ (ops : List Op) (s : State) (v : V) (i : Nat), Inv s → v.held = s.held →
      ∃ v', validateFrom f i v (history f s ops) = .ok v' ∧ v'.held = (exec s ops).held
  | [], s, v, i, _, hv => ⟨v, rfl, hv⟩
  | op :: ops, s, v, i, hi, hv => by
    obtain ⟨v1, h1, hv1⟩ := complete_step f s hi v hv op i
    obtain ⟨v', h2, hv2⟩ := complete_from f ops (step s op) v1 (i + (emit f s op).length)
      (inv_step hi op) hv1
    refine ⟨v', ?_, ?_⟩
    · simp only [history]
      rw [validateFrom_append f _ _ i v v1 h1]
      exact h2
    · simpa [exec] using hv2

/-- Every history the model can produce — any op sequence, any resolution of the nondeterminism —
is accepted by the validator, and the validator's live set is the model's `held`. So a rejection by
the validator means that the recorded behaviour is not a behaviour of the model. -/
theorem c18_validator_complete (f : Fmt) (ops : List Op) :
    ∃ v, validate f (history f init ops) = .ok v ∧ v.held = (exec init ops).held :=
  complete_from f ops init V.init 0 inv_init rfl

/-! ## tie of the model's structural assumptions to namepool/pool.go (regenerated on every run) -/

/-- the id counter is initialised to 0 and touched by exactly one other expression in the whole
package: the atomic add of 1 that mints an id. No function reads it, stores to it or decrements it —
the model's "minted ids are fresh because the counter only grows, one atomic step per mint". -/
theorem c18_counter_only_minted :
    Gen.Pool.counterAccesses.all (fun a => a.2 == "atomic-add-1" || a.2 == "init:0") = true ∧
    Gen.Pool.counterAccesses.any (fun a => a.2 == "atomic-add-1") = true := by decide

/-- ids travel through the sync.Pool only by `Get` and `Put` (and the pool is set up by one assignment) -/
theorem c18_idpool_get_put :
    Gen.Pool.idPoolAccesses.all (fun a => a.2 == "assign" || a.2 == "call:Get" || a.2 == "call:Put") = true ∧
    Gen.Pool.idPoolAccesses.any (fun a => a.2 == "call:Get") = true ∧
    Gen.Pool.idPoolAccesses.any (fun a => a.2 == "call:Put") = true := by decide

end Dblib.Props.C18
