/-
C09 — where the secrets of the encrypted login come from.

That a session key or an OAEP padding is fresh is a property of the random source and cannot be a
theorem. What is structure, and is regenerated from tds/crypto.go on every run (`Gen/Crypto.lean`):
the session key is read from crypto/rand into a buffer allocated by that very call (no login can see
or overwrite another login's key), RSA-OAEP draws from crypto/rand, and crypto.go keeps no
package-level byte buffer. The harness decrypts what was sent (sequential and concurrent logins).
-/
import Dblib.Gen.Crypto

namespace Dblib.Props.C09
open Dblib

theorem c09_secret_sources :
    Gen.Crypto.symKeyBuffer = "make([]byte, keyByteLength)" ∧
    Gen.Crypto.symKeyFill = "crypto/rand.Read" ∧
    Gen.Crypto.oaepRandom = "crypto/rand.Reader" ∧
    Gen.Crypto.packageLevelByteBuffers = [] := by
  refine ⟨rfl, rfl, rfl, rfl⟩

end Dblib.Props.C09
