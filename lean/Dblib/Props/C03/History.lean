/-
C03 end to end: the receive path composed with the consumer. For every history of well-formed
responses (a DONE with final status only as the last package of its response), every packetisation
of each: what the channel queues for a response is a `Round` (packages without final status, then
exactly one final DONE — the server's or the library's), hence reading to the final DONE — with a
nil callback, or after a callback error — consumes exactly that response and leaves exactly the
following responses' packages, round after round.
-/
import Dblib.Props.C03.Abstract

namespace Dblib.Props.C03
open Dblib Dblib.Rx Dblib.Consume Dblib.Props.C02 Dblib.Props.C11
variable {Pkg : Type}

/-- the consumer's view of a package family -/
def consOf (ops : Dblib.Ops Pkg) : Consume.Ops Pkg :=
  { isEED := fun p => ops.special p == Special.eed, isDoneFinal := ops.isDoneFinal }

/-- a well-formed response: only its last package may be a DONE with final status -/
def FinalOnlyLast (ops : Dblib.Ops Pkg) : List Pkg → Prop
  | [] => True
  | p :: rest => (rest ≠ [] → ops.isDoneFinal p = false) ∧ FinalOnlyLast ops rest

/-- what the theorems need of the package family (true of `Codec.ops`, see `Concrete.lean`): a
final DONE is an ordinary package, and the DONE the library supplies is final -/
structure FamilyOK (ops : Dblib.Ops Pkg) : Prop where
  finalPlain : ∀ p, ops.isDoneFinal p = true → ops.special p = Special.none
  synthFinal : ops.isDoneFinal ops.doneFinal = true

theorem final_not_eed (ops : Dblib.Ops Pkg) (hF : FamilyOK ops) (p : Pkg) (h : ops.isDoneFinal p = true) :
    (consOf ops).isEED p = false := by
  simp [consOf, hF.finalPlain p h]

theorem lastAfter_nonfinal (ops : Dblib.Ops Pkg) (last : Option Pkg) (p : Pkg)
    (hl : ∀ l, last = some l → ops.isDoneFinal l = false) (hp : ops.isDoneFinal p = false) :
    ∀ l, lastAfter ops last p = some l → ops.isDoneFinal l = false := by
  intro l h
  unfold lastAfter at h
  split at h
  · exact hl l h
  · exact hl l h
  · exact hl l h
  · cases h; exact hp

/-- what a response puts on the consumer's queue, starting from any remembered package that is not a
final DONE, is a round -/
theorem round_general (ops : Dblib.Ops Pkg) (hF : FamilyOK ops) :
    ∀ (pkgs : List Pkg) (last : Option Pkg), FinalOnlyLast ops pkgs →
      (∀ l, last = some l → ops.isDoneFinal l = false) →
      Round (consOf ops) (passed ops pkgs ++ delivered (synthDone ops (pkgs.foldl (lastAfter ops) last))) := by
  intro pkgs
  induction pkgs with
  | nil =>
    intro last _ hl
    refine ⟨[], ops.doneFinal, ?_, hF.synthFinal, final_not_eed ops hF _ hF.synthFinal, by simp⟩
    simp only [passed, List.filter_nil, List.foldl_nil, List.nil_append, synthDone]
    cases last with
    | none => simp [delivered]
    | some l => simp [hl l rfl, delivered]
  | cons p rest ih =>
    intro last hwf hl
    obtain ⟨hp, hrest⟩ := hwf
    by_cases hfin : ops.isDoneFinal p = true
    · -- a final DONE: it is the last package of the response
      have hr : rest = [] := by
        cases rest with
        | nil => rfl
        | cons q r => have := hp (by simp); rw [this] at hfin; cases hfin
      subst hr
      have hs := hF.finalPlain p hfin
      refine ⟨[], p, ?_, hfin, final_not_eed ops hF p hfin, by simp⟩
      simp [passed, passes, hs, lastAfter, synthDone, hfin, delivered]
    · have hpf : ops.isDoneFinal p = false := by simpa using hfin
      obtain ⟨A, f, hD, hf, hfe, hA⟩ := ih (lastAfter ops last p) hrest (lastAfter_nonfinal ops last p hl hpf)
      by_cases hpass : passes ops p = true
      · refine ⟨p :: A, f, ?_, hf, hfe, ?_⟩
        · simp only [passed, List.filter_cons, hpass, if_true, List.foldl_cons, List.cons_append]
          simp only [passed] at hD
          rw [hD]
        · intro a ha
          cases ha with
          | head => exact hpf
          | tail _ h => exact hA a h
      · refine ⟨A, f, ?_, hf, hfe, hA⟩
        simp only [passed, List.filter_cons, hpass, List.foldl_cons]
        simp only [passed] at hD
        simpa using hD

/-- **Every well-formed response reaches the consumer as a round.** -/
theorem c03_response_is_round (ops : Dblib.Ops Pkg) (hF : FamilyOK ops) (r : Resp Pkg)
    (hwf : FinalOnlyLast ops r.pkgs) : Round (consOf ops) (respDelivered ops r) :=
  round_general ops hF r.pkgs none hwf (by simp)

/-- read `k` responses to their final DONE with a nil callback -/
def drainRounds (ops : Consume.Ops Pkg) : Nat → List Pkg → List Pkg
  | 0, q => q
  | k + 1, q => drainRounds ops k (untilNil ops q).2

/-- **Histories, consumer side.** After the channel has queued any history of well-formed responses
(each in any packetisation, by `c03_responses_isolated`), reading `k` of them to the final DONE
leaves exactly what the remaining responses delivered: nothing of a read response is left, nothing of
an unread one is touched. -/
theorem c03_history_drained (ops : Dblib.Ops Pkg) (hF : FamilyOK ops) :
    ∀ (k : Nat) (rs : List (Resp Pkg)), (∀ r ∈ rs, FinalOnlyLast ops r.pkgs) → k ≤ rs.length →
      drainRounds (consOf ops) k (rs.flatMap (respDelivered ops)) = (rs.drop k).flatMap (respDelivered ops) := by
  intro k
  induction k with
  | zero => intro rs _ _; rfl
  | succ k ih =>
    intro rs hwf hk
    cases rs with
    | nil => simp at hk
    | cons r rs =>
      have hround := c03_response_is_round ops hF r (hwf r (by simp))
      have := (c03_drain_exact (consOf ops) (respDelivered ops r) (rs.flatMap (respDelivered ops)) hround).1
      simp only [drainRounds, List.flatMap_cons, this, List.drop_succ_cons]
      exact ih rs (fun x hx => hwf x (by simp [hx])) (by simpa using hk)

/-- the same when the consumer's callback fails somewhere in the response (or stops at the final
DONE): the failing call consumes the rest of the response -/
theorem c03_history_callback_error (ops : Dblib.Ops Pkg) (hF : FamilyOK ops) (cb : Pkg → Cb)
    (hcb : ∀ p, ops.isDoneFinal p = true → cb p ≠ .cont)
    (r : Resp Pkg) (rs : List (Resp Pkg)) (hwf : FinalOnlyLast ops r.pkgs) (e : List Pkg)
    (herr : (untilCb (consOf ops) cb ((r :: rs).flatMap (respDelivered ops)) []).1 = .cbErr e) :
    (untilCb (consOf ops) cb ((r :: rs).flatMap (respDelivered ops)) []).2 = rs.flatMap (respDelivered ops) := by
  obtain ⟨A, f, hD, hf, hfe, hA⟩ := c03_response_is_round ops hF r hwf
  have := c03_rounds_isolated (consOf ops) cb (rs.flatMap (respDelivered ops)) hcb A f [] hf hfe hA
  simp only [List.flatMap_cons, hD] at herr ⊢
  rcases this with ⟨e', _, h2⟩ | ⟨p, hp, _⟩
  · exact h2
  · rcases hp with hp | hp <;> rw [hp] at herr <;> cases herr

end Dblib.Props.C03
