/-
C03 instantiated with the transcribed package decoders (`Codec.ops`, Model/Codec/Pkg.lean).
-/
import Dblib.Props.C03.Abstract
import Dblib.Props.C03.History
import Dblib.Props.C02.Concrete

namespace Dblib.Props.C03
open Dblib Dblib.Rx Dblib.Codec Dblib.Props.C02

/-- what the consumer's queue receives for one response of real packages, for every packetisation -/
theorem c03_concrete_one_final_done (rx : Rx Pkg) (T : Bytes) (pkgs : List Pkg) (cs : List Bytes)
    (hbuf : rx.buf = []) (heom : rx.eom = false) (hc : rx.closed = false)
    (hW : WholeP Codec.ops rx.last T pkgs) (hne : cs ≠ []) (hcs : cs.flatten = T) :
    ∃ rx' ev, feed Codec.ops rx (markLast cs) = some (rx', ev)
      ∧ delivered ev = passed Codec.ops pkgs ++ delivered (synthDone Codec.ops (pkgs.foldl (lastAfter Codec.ops) rx.last))
      ∧ rx'.buf = [] ∧ rx'.eom = false ∧ rx'.last = none ∧ rx'.closed = false :=
  c03_one_final_done Codec.ops select_incr rx T pkgs cs hbuf heom hc hW hne hcs

/-- histories of responses of real packages: each response is delimited on its own -/
theorem c03_concrete_responses_isolated (rs : List (Resp Pkg)) (rx : Rx Pkg)
    (hall : ∀ r ∈ rs, WholeP Codec.ops none r.T r.pkgs ∧ r.cs ≠ [] ∧ r.cs.flatten = r.T)
    (hbuf : rx.buf = []) (heom : rx.eom = false) (hc : rx.closed = false) (hl : rx.last = none) :
    ∃ rx' ev, feed Codec.ops rx (rs.flatMap (fun r => markLast r.cs)) = some (rx', ev)
      ∧ delivered ev = rs.flatMap (respDelivered Codec.ops)
      ∧ rx'.buf = [] ∧ rx'.eom = false ∧ rx'.last = none ∧ rx'.closed = false :=
  c03_responses_isolated Codec.ops select_incr rs rx hall hbuf heom hc hl

/-- non-vacuity of the history theorem and the case the repo fix is about: DONE(FINAL), then a
response without any DONE still gets its own final DONE -/
example : respDelivered Codec.ops ⟨[], [.msg ⟨1, 7⟩], []⟩ = [.msg ⟨1, 7⟩, .done "done" ⟨0, 0, 0⟩] := by rfl

/-- "final DONE" for the real packages: a DONE / DONEPROC / DONEINPROC whose status is TDS_DONE_FINAL (0) -/
theorem c03_concrete_isDoneFinal (p : Pkg) :
    Codec.ops.isDoneFinal p = true ↔ ∃ k d, p = .done k d ∧ d.status = 0 := by
  cases p with
  | done k d => simp only [Codec.ops, beq_iff_eq]; exact ⟨fun h => ⟨k, d, rfl, h⟩, fun ⟨_, _, h, h0⟩ => by cases h; exact h0⟩
  | _ => simp [Codec.ops]

/-- the synthetic package the channel appends is itself a final DONE: the consumer's drain loop stops on it -/
theorem c03_concrete_synth_final : Codec.ops.isDoneFinal Codec.ops.doneFinal = true := by rfl

/-- non-vacuity: a response ending in DONE(MORE) gets exactly one synthetic DONE(FINAL) -/
example : delivered (synthDone Codec.ops (some (.done "done" ⟨1, 0, 5⟩))) = [.done "done" ⟨0, 0, 0⟩] := by rfl
example : delivered (synthDone Codec.ops (some (.done "done" ⟨0, 0, 5⟩))) = [] := by rfl

/-- the transcribed package family meets the assumptions of the history theorems -/
theorem c03_concrete_family_ok : FamilyOK Codec.ops := by
  constructor
  · intro p h
    cases p <;> simp_all [Codec.ops, special]
  · rfl

/-- histories of real packages, consumer side: reading `k` well-formed responses to their final DONE
leaves exactly what the remaining responses delivered -/
theorem c03_concrete_history_drained (k : Nat) (rs : List (Resp Pkg))
    (hwf : ∀ r ∈ rs, FinalOnlyLast Codec.ops r.pkgs) (hk : k ≤ rs.length) :
    drainRounds (consOf Codec.ops) k (rs.flatMap (respDelivered Codec.ops)) =
      (rs.drop k).flatMap (respDelivered Codec.ops) :=
  c03_history_drained Codec.ops c03_concrete_family_ok k rs hwf hk

/-- non-vacuity: EED, DONE(MORE), MSG and no final DONE is a well-formed response; it reaches the
consumer as a round closed by the library's DONE -/
example : FinalOnlyLast Codec.ops [.done "done" ⟨1, 0, 5⟩, .msg ⟨1, 7⟩] := by
  simp [FinalOnlyLast, Codec.ops]

end Dblib.Props.C03
