/-
C03 — Each response is delimited by exactly one final DONE and fully drained.

Channel layer: what a response delivers (from `run_whole` / `c11_events_of_any_cut`).
Consumer layer (`Model/Consume.lean`): reading up to the final DONE consumes exactly one response
of the package queue, whatever the callback does.
-/
import Dblib.Props.C11.Abstract

namespace Dblib.Props.C03
open Dblib Dblib.Rx Dblib.Props.C02 Dblib.Props.C11
variable {Pkg : Type}

/-- the packages put on the package queue by a list of events -/
def delivered : List (Ev Pkg) → List Pkg
  | [] => []
  | .deliver p :: rest => p :: delivered rest
  | _ :: rest => delivered rest

theorem delivered_append (a b : List (Ev Pkg)) : delivered (a ++ b) = delivered a ++ delivered b := by
  induction a with
  | nil => rfl
  | cons e a ih => cases e <;> simp [delivered, ih]

/-- does a package reach the consumer? environment changes and informational messages do not -/
def passes (ops : Ops Pkg) (p : Pkg) : Bool :=
  match ops.special p with
  | .env _ => false
  | .eedInfo => false
  | .eed => true
  | .none => true

/-- the packages of a response that reach the consumer -/
def passed (ops : Ops Pkg) (pkgs : List Pkg) : List Pkg := pkgs.filter (passes ops)

theorem delivered_hooks (pkg : Pkg) : ∀ (l : List Nat),
    delivered (l.map (fun i => Ev.eedHook i pkg)) = ([] : List Pkg) := by
  intro l; induction l with
  | nil => rfl
  | cons a l ih => simp [delivered, ih]

theorem delivered_envHooks (t : Nat) (old new : Bytes) : ∀ (l : List Nat),
    delivered (l.map (fun i => (Ev.envHook i t old new : Ev Pkg))) = ([] : List Pkg) := by
  intro l; induction l with
  | nil => rfl
  | cons a l ih => simp [delivered, ih]

theorem delivered_envMembers (ops : Ops Pkg) (nEnv : Nat) : ∀ (ms : List (Nat × Bytes × Bytes)),
    delivered (envMembers ops nEnv ms).1 = ([] : List Pkg) := by
  intro ms
  induction ms with
  | nil => rfl
  | cons m ms ih =>
    obtain ⟨t, old, new⟩ := m
    unfold envMembers
    split
    · split
      · rfl
      · split
        · rfl
        · simp [delivered, delivered_append, delivered_envHooks, ih]
    · simp [delivered_append, delivered_envHooks, ih]

theorem delivered_acceptEv (ops : Ops Pkg) (nEed nEnv : Nat) (pkg : Pkg) :
    delivered (acceptEv ops nEed nEnv pkg) = if passes ops pkg then [pkg] else [] := by
  unfold acceptEv accept passes
  cases hs : ops.special pkg with
  | none => simp [delivered]
  | eedInfo => simp [delivered]
  | eed => simp [delivered_append, delivered_hooks, delivered]
  | env ms =>
    simp only
    split
    · simp [delivered_envMembers]
    · simp [delivered_append, delivered_envMembers, delivered]

theorem delivered_flatMap (ops : Ops Pkg) (nEed nEnv : Nat) (pkgs : List Pkg) :
    delivered (pkgs.flatMap (acceptEv ops nEed nEnv)) = passed ops pkgs := by
  induction pkgs with
  | nil => rfl
  | cons p ps ih =>
    rw [List.flatMap_cons, delivered_append, delivered_acceptEv, ih]
    simp only [passed, List.filter_cons]
    split <;> simp

/-- **What the consumer's queue receives for one response, for every packetisation**: the
response's pass-through packages in order, followed by the synthetic DONE(FINAL) unless the last
recorded package already is one. Nothing else is delivered, nothing is delivered twice. -/
theorem c03_one_final_done (ops : Ops Pkg)
    (hI : ∀ tok last p, ops.select tok last = .parser p → Incr p)
    (rx : Rx Pkg) (T : Bytes) (pkgs : List Pkg) (cs : List Bytes)
    (hbuf : rx.buf = []) (heom : rx.eom = false) (hc : rx.closed = false)
    (hW : WholeP ops rx.last T pkgs) (hne : cs ≠ []) (hcs : cs.flatten = T) :
    ∃ rx' ev, feed ops rx (markLast cs) = some (rx', ev)
      ∧ delivered ev = passed ops pkgs ++ delivered (synthDone ops (pkgs.foldl (lastAfter ops) rx.last))
      ∧ rx'.buf = [] ∧ rx'.eom = false ∧ rx'.last = none ∧ rx'.closed = false := by
  refine ⟨_, _, c11_events_of_any_cut ops hI rx T pkgs cs hbuf heom hc hW hne hcs, ?_, rfl, rfl, rfl, hc⟩
  rw [delivered_append, delivered_flatMap]

/-- the synthetic DONE is exactly one package, a final DONE, and only when needed -/
theorem c03_synth (ops : Ops Pkg) (last : Option Pkg) :
    (delivered (synthDone ops last) = [] ∧ ∃ l, last = some l ∧ ops.isDoneFinal l = true) ∨
    (delivered (synthDone ops last) = [ops.doneFinal] ∧ ∀ l, last = some l → ops.isDoneFinal l = false) := by
  unfold synthDone
  cases last with
  | none => right; simp [delivered]
  | some l =>
    by_cases h : ops.isDoneFinal l = true
    · left; simp [h, delivered]
    · right; simp only [Bool.not_eq_true] at h; simp [h, delivered]

/-- a header-only packet (whatever its status bits, the end-of-message bit included) is handed on as
a package of its own and leaves the receive state untouched: it cannot end, start or disturb a
response (seeded change C03-4 put it through the packet queue) -/
theorem c03_header_only_transparent (ops : Ops Pkg) (rx : Rx Pkg) (h : Header) :
    (rx.writeHeaderOnly ops h).1 = rx := by
  unfold Rx.writeHeaderOnly; split <;> rfl

/-! ## sequences of responses -/

theorem feed_append (ops : Ops Pkg) : ∀ (a b : List (Bytes × Bool)) (rx : Rx Pkg),
    feed ops rx (a ++ b) =
      match feed ops rx a with
      | none => none
      | some (rx', ev) => (feed ops rx' b).map (fun r => (r.1, ev ++ r.2)) := by
  intro a
  induction a with
  | nil => intro b rx; simp [feed]
  | cons x a ih =>
    intro b rx
    obtain ⟨body, e⟩ := x
    simp only [List.cons_append, feed]
    cases hw : writeBody ops rx body e with
    | none => rfl
    | some r =>
      obtain ⟨rx1, ev1⟩ := r
      simp only [ih b rx1]
      cases hf : feed ops rx1 a with
      | none => rfl
      | some r2 =>
        obtain ⟨rx2, ev2⟩ := r2
        simp only [Option.map_some]
        cases feed ops rx2 b with
        | none => rfl
        | some r3 => simp [List.append_assoc]

/-- one response of a history: its bytes, the packages they parse into, and a packetisation -/
structure Resp (Pkg : Type) where
  T : Bytes
  pkgs : List Pkg
  cs : List Bytes

/-- what the consumer's queue receives for one response: its pass-through packages, then the
synthetic final DONE unless the response's own last recorded package is a final DONE -/
def respDelivered (ops : Ops Pkg) (r : Resp Pkg) : List Pkg :=
  passed ops r.pkgs ++ delivered (synthDone ops (r.pkgs.foldl (lastAfter ops) none))

/-- **Histories: every response is delimited on its own.** For every sequence of responses, each
parsing whole and each cut into packets in any way, the packages delivered are the concatenation of
what each response delivers by itself — whether a final DONE is supplied depends on that response
only, never on an earlier one. -/
theorem c03_responses_isolated (ops : Ops Pkg)
    (hI : ∀ tok last p, ops.select tok last = .parser p → Incr p) :
    ∀ (rs : List (Resp Pkg)) (rx : Rx Pkg),
      (∀ r ∈ rs, WholeP ops none r.T r.pkgs ∧ r.cs ≠ [] ∧ r.cs.flatten = r.T) →
      rx.buf = [] → rx.eom = false → rx.closed = false → rx.last = none →
      ∃ rx' ev, feed ops rx (rs.flatMap (fun r => markLast r.cs)) = some (rx', ev)
        ∧ delivered ev = rs.flatMap (respDelivered ops)
        ∧ rx'.buf = [] ∧ rx'.eom = false ∧ rx'.last = none ∧ rx'.closed = false := by
  intro rs
  induction rs with
  | nil => intro rx _ hb he hc hl; exact ⟨rx, [], by simp [feed], by simp [delivered], hb, he, hl, hc⟩
  | cons r rs ih =>
    intro rx hall hb he hc hl
    obtain ⟨hW, hne, hcs⟩ := hall r (by simp)
    obtain ⟨rx1, ev1, hf1, hd1, hb1, he1, hl1, hc1⟩ :=
      c03_one_final_done ops hI rx r.T r.pkgs r.cs hb he hc (by rw [hl]; exact hW) hne hcs
    obtain ⟨rx2, ev2, hf2, hd2, hrest⟩ := ih rx1 (fun x hx => hall x (by simp [hx])) hb1 he1 hc1 hl1
    refine ⟨rx2, ev1 ++ ev2, ?_, ?_, hrest⟩
    · simp only [List.flatMap_cons, feed_append, hf1, hf2, Option.map_some]
    · rw [delivered_append, hd1, hd2, hl]
      simp [respDelivered]

/-! ## consumer layer -/

open Dblib.Consume

/-- one response as the consumer's queue holds it: packages none of which is a final DONE,
then exactly one final DONE -/
def Round (ops : Consume.Ops Pkg) (D : List Pkg) : Prop :=
  ∃ A f, D = A ++ [f] ∧ ops.isDoneFinal f = true ∧ ops.isEED f = false ∧ ∀ a ∈ A, ops.isDoneFinal a = false

theorem drain_round (ops : Consume.Ops Pkg) (A : List Pkg) (f : Pkg) (R : List Pkg)
    (hf : ops.isDoneFinal f = true) (hfe : ops.isEED f = false) (hA : ∀ a ∈ A, ops.isDoneFinal a = false) :
    drainToFinal ops (A ++ [f] ++ R) = some R := by
  induction A with
  | nil => simp [drainToFinal, hf, hfe]
  | cons a A ih =>
    have ha := hA a (by simp)
    simp only [List.cons_append, drainToFinal, ha, Bool.false_eq_true, if_false]
    have := ih (fun x hx => hA x (by simp [hx]))
    simp only [List.append_assoc] at this ⊢
    split <;> exact this

/-- **Draining consumes exactly one response**: with a nil callback the rest of the current
response is consumed up to and including its final DONE; the next response is untouched. -/
theorem c03_drain_exact (ops : Consume.Ops Pkg) (D R : List Pkg) (h : Round ops D) :
    (untilNil ops (D ++ R)).2 = R ∧
      ((untilNil ops (D ++ R)).1 = .eof ∨ (untilNil ops (D ++ R)).1 = .nilOk) := by
  obtain ⟨A, f, rfl, hf, hfe, hA⟩ := h
  induction A with
  | nil => simp [untilNil, hf, hfe]
  | cons a A ih =>
    have ha := hA a (by simp)
    have hA' : ∀ x ∈ A, ops.isDoneFinal x = false := fun x hx => hA x (by simp [hx])
    simp only [List.cons_append, untilNil, ha, Bool.false_eq_true, if_false]
    by_cases he : ops.isEED a = true
    · simp only [he, if_true]
      exact ih hA'
    · simp only [he, Bool.false_eq_true, if_false]
      have := drain_round ops A f R hf hfe hA'
      simp only [List.append_assoc] at this ⊢
      rw [this]; simp

/-- **Reading a response with a callback leaves nothing of it behind**, provided the consumer does
not continue past a final DONE: whether the callback stops at the final DONE, fails at any package
(then the rest is drained), the remaining queue is exactly the next response's. If it stops or
reports io.EOF at an earlier package, it has consumed a prefix and the rest (incl. `R`) remains. -/
theorem c03_rounds_isolated (ops : Consume.Ops Pkg) (cb : Pkg → Cb) (R : List Pkg)
    (hcb : ∀ p, ops.isDoneFinal p = true → cb p ≠ .cont) :
    ∀ (A : List Pkg) (f : Pkg) (eeds : List Pkg), ops.isDoneFinal f = true → ops.isEED f = false →
      (∀ a ∈ A, ops.isDoneFinal a = false) →
      let r := untilCb ops cb (A ++ [f] ++ R) eeds
      (∃ e, r.1 = .cbErr e ∧ r.2 = R) ∨
      (∃ p, (r.1 = .pkg p ∨ r.1 = .eofPkg p) ∧ ∃ pre, A ++ [f] ++ R = pre ++ p :: r.2) := by
  intro A
  induction A with
  | nil =>
    intro f eeds hf hfe _
    simp only [List.nil_append, List.cons_append, untilCb, hfe, Bool.false_eq_true, if_false]
    cases hc : cb f with
    | cont => exact absurd hc (hcb f hf)
    | stop => right; exact ⟨f, Or.inl rfl, [], rfl⟩
    | eof => right; exact ⟨f, Or.inr rfl, [], rfl⟩
    | fail => left; simp [hf]
  | cons a A ih =>
    intro f eeds hf hfe hA
    have ha := hA a (by simp)
    have hA' : ∀ x ∈ A, ops.isDoneFinal x = false := fun x hx => hA x (by simp [hx])
    simp only [List.cons_append, untilCb]
    by_cases he : ops.isEED a = true
    · simp only [he, if_true]
      rcases ih f (eeds ++ [a]) hf hfe hA' with h | ⟨p, hp, pre, hpre⟩
      · exact Or.inl h
      · right
        refine ⟨p, hp, a :: pre, ?_⟩
        simp only [List.cons_append]
        exact congrArg (List.cons a) hpre
    · simp only [he, Bool.false_eq_true, if_false]
      cases hc : cb a with
      | cont =>
        simp only
        rcases ih f eeds hf hfe hA' with h | ⟨p, hp, pre, hpre⟩
        · exact Or.inl h
        · right
          refine ⟨p, hp, a :: pre, ?_⟩
          simp only [List.cons_append]
          exact congrArg (List.cons a) hpre
      | stop => right; exact ⟨a, Or.inl rfl, [], rfl⟩
      | eof => right; exact ⟨a, Or.inr rfl, [], rfl⟩
      | fail =>
        left
        simp only [ha, Bool.false_eq_true, if_false]
        have hspec := Dblib.Props.C11.drainCollect_spec ops A f R hf hfe (fun x hx => Or.inr (hA' x hx))
        have happ : A ++ [f] ++ R = A ++ f :: R := by simp
        rw [happ, hspec]
        exact ⟨_, rfl, rfl⟩

end Dblib.Props.C03
