/-
C01 / C02 / C03 / C11 — the two directions of a channel do not disturb each other.

Whatever the interleaving of arriving packets with `QueuePackage` / `SendRemainingPackets` /
`SendPackage` / `Reset` calls (a server may start to answer before the send call has returned, and
every send ends in `Reset`), the receive side ends in the state and shows the events it would without
any of the calls, and the packets handed to the transport are those of the calls alone. All
receive-side theorems (C02, C03, C11, C14) and transmit-side theorems (C01) therefore apply to a
channel used in both directions at once.

The premise of the model — the two directions share no state — is tied to the source by the
regenerated lists of functions that mention each side's fields.
-/
import Dblib.Model.Chan
import Dblib.Gen.Shape

namespace Dblib.Props.C03
open Dblib Dblib.Chan

/-- nothing reachable from the calls of the sending side (`QueuePackage`, `SendRemainingPackets`,
`SendPackage`, `Reset` and whatever helpers they call) mentions `queueRx` / `lastPkgRx`, and nobody in
the library calls the exported setter of `lastPkgRx` -/
theorem c03_receive_state_private :
    Gen.Shape.sendSideTouchesRxState = [] ∧ Gen.Shape.setLastPkgRxCallers = [] ∧
    Gen.Shape.duplexEntriesFound = true := by
  refine ⟨rfl, rfl, rfl⟩

/-- nothing reachable from the reader's entry point `WritePacket` mentions a transmit-side field -/
theorem c01_transmit_state_private :
    Gen.Shape.receiveSideTouchesTxState = [] ∧ Gen.Shape.duplexEntriesFound = true := by
  refine ⟨rfl, rfl⟩

variable {Pkg : Type}

/-- the receive side of any interleaving is the receive side of its arriving packets alone -/
theorem c03_duplex_receive (ops : Ops Pkg) : ∀ (l : List ChanOp) (c : Chan Pkg),
    (run ops c l).map (fun r => (r.1.rx, r.2.events)) = runRx ops c.rx l := by
  intro l
  induction l with
  | nil => intro c; rfl
  | cons o rest ih =>
    intro c
    cases o with
    | body b eom =>
      simp only [run, step, runRx]
      cases h : c.rx.writeBody ops b eom with
      | none => rfl
      | some r =>
        obtain ⟨rx', ev⟩ := r
        have := ih { c with rx := rx' }
        simp only at this ⊢
        rw [← this]
        cases run ops { c with rx := rx' } rest <;> rfl
    | headerOnly h =>
      simp only [run, step, runRx]
      have := ih { c with rx := (c.rx.writeHeaderOnly ops h).1 }
      simp only at this ⊢
      rw [← this]
      cases run ops { c with rx := (c.rx.writeHeaderOnly ops h).1 } rest <;> rfl
    | queue enc =>
      simp only [run, step, runRx]
      have := ih { c with tx := (c.tx.queuePackage enc).1 }
      simp only at this ⊢
      rw [← this]
      cases run ops { c with tx := (c.tx.queuePackage enc).1 } rest <;> simp
    | flush =>
      simp only [run, step, runRx]
      have := ih { c with tx := c.tx.sendRemaining.1 }
      simp only at this ⊢
      rw [← this]
      cases run ops { c with tx := c.tx.sendRemaining.1 } rest <;> simp
    | send enc =>
      simp only [run, step, runRx]
      have := ih { c with tx := (c.tx.sendPackage enc).1 }
      simp only at this ⊢
      rw [← this]
      cases run ops { c with tx := (c.tx.sendPackage enc).1 } rest <;> simp
    | reset =>
      simp only [run, step, runRx]
      have := ih { c with tx := c.tx.reset }
      simp only at this ⊢
      rw [← this]
      cases run ops { c with tx := c.tx.reset } rest <;> simp

/-- the packets handed to the transport are those of the calls alone, whatever arrives meanwhile -/
theorem c01_duplex_transmit (ops : Ops Pkg) : ∀ (l : List ChanOp) (c : Chan Pkg) (r : Chan Pkg × ChanOut Pkg),
    run ops c l = some r → (r.1.tx, r.2.wire) = runTx c.tx l := by
  intro l
  induction l with
  | nil => intro c r h; simp only [run, Option.some.injEq] at h; subst h; rfl
  | cons o rest ih =>
    intro c r h
    simp only [run] at h
    cases hs : step ops c o with
    | none => simp [hs] at h
    | some s =>
      obtain ⟨c', out⟩ := s
      simp only [hs] at h
      cases hr : run ops c' rest with
      | none => simp [hr] at h
      | some r' =>
        simp only [hr, Option.some.injEq] at h
        subst h
        have := ih c' r' hr
        cases o <;> simp only [step] at hs
        · -- body
          split at hs
          · simp only [Option.some.injEq, Prod.mk.injEq] at hs
            obtain ⟨h1, h2⟩ := hs
            subst h1 h2
            simpa [runTx] using this
          · cases hs
        · simp only [Option.some.injEq, Prod.mk.injEq] at hs
          obtain ⟨h1, h2⟩ := hs
          subst h1 h2
          simpa [runTx] using this
        all_goals
          simp only [Option.some.injEq, Prod.mk.injEq] at hs
          obtain ⟨h1, h2⟩ := hs
          subst h1 h2
          simp only [runTx]
          rw [← this]
          simp

/-- a non-trivial instance: a send between the two packets of a response leaves two arriving packets -/
example : ([ChanOp.body [1] false, .send [2, 3], .body [4] true].filter ChanOp.isRecv).length = 2 := by decide

end Dblib.Props.C03
