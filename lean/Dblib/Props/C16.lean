/-
C16 — Decimal text conversion preserves the numeric value.

Model: `Dblib/Model/Decimal.lean` (`sanity`/`newOk`, `format` = `Decimal.String`, `setString` =
`Decimal.SetString`, `cmp`), transcribing `asetypes/decimal.go` as it is now; text is `List Char`.
Specification vocabulary (defined in `Dblib/Lemmas/C16Parse.lean`, digit theory in `Dblib/Lemmas/C16.lean`):

* `AllDig l`            every character is an ASCII digit;  `ofDigits l` its value (most significant first);
* `natDigits n`         decimal digits of `n` without leading zeros (`"0"` for 0) — also what Go prints;
* `fixed w n`           the `w` least significant digits of `n`, zero padded;
* `fracText s n`        `fixed s n` without trailing zeros, `"0"` if nothing is left;
* `negText i`           `"-"` for `i < 0`, else empty;
* `IsSign sg`           `sg` is empty, `"+"` or `"-"`;  `signVal sg` = −1 for `"-"`, else 1;
* `numeralText sg I fr` `sg ++ I` followed by `"." ++ F` when `fr = some F`;  `fracOf fr` = `F` or empty;
* `ExcessZero s F`      every fraction digit beyond the `s`-th is `0` (the numeral is representable at scale `s`);
* `HasDigit I F`        `I` is non-empty or `F` has a non-zero digit (what `SetString` needs: `".0"` is rejected);
* `scaledValue s sg I F`= `signVal sg * ofDigits (I ++ F.take s) * 10^(s − |F.take s|)`; by `scaledValue_exact` this
                        is exactly value × 10^s (`|scaledValue|·10^|F| = ofDigits (I ++ F)·10^s`) under `ExcessZero s F`;
* `CanonInt`, `CanonFrac` digits, non-empty, no leading (resp. trailing) zero unless exactly `"0"`;
* `FitsNumeral p s u`   `u` is a numeral with `HasDigit`, `ExcessZero s F`, `|scaledValue| < 10^p`.

All theorems hold for every natural `p`, `s` (the bound 38 only matters for `c16_sanity`), every integer
`i` and every text: they are proved by arithmetic on digit lists, nothing is enumerated.

RESULT.  Everything the property demands is proved for the model, including the round trip at every scale
(`SetString` drops trailing zeros of the fraction, so the `<int>.0` printed at scale 0 parses).
-/
import Dblib.Model.Decimal
import Dblib.Lemmas.C16
import Dblib.Lemmas.C16Parse

namespace Dblib.Props.C16
open Dblib.Decimal Dblib.Lemmas.C16

/-- **C16, parsing is exact.**  A numeral — optional white space, optional sign `+`/`-`, integer digits,
optionally a point and fraction digits, optional white space — that has a digit to read (`HasDigit`) and
no non-zero digit beyond the `s`-th fraction digit parses to exactly `value × 10^s` (`scaledValue`, exact by
`scaledValue_exact`) if that has at most `p` digits, and is rejected otherwise (more digits than the
precision).  In particular every numeral with at most `s` fraction digits (`c16_parse_exact_short`). -/
theorem c16_parse_exact (p s : Nat) (ws1 ws2 sg I : Text) (frac : Option Text)
    (h1 : ∀ c ∈ ws1, isSpace c = true) (h2 : ∀ c ∈ ws2, isSpace c = true)
    (hsg : IsSign sg) (hI : AllDig I) (hF : AllDig (fracOf frac))
    (hne : HasDigit I (fracOf frac)) (hz : ExcessZero s (fracOf frac)) :
    setString p s (ws1 ++ numeralText sg I frac ++ ws2) =
      if (scaledValue s sg I (fracOf frac)).natAbs < 10 ^ p
      then .ok (scaledValue s sg I (fracOf frac)) else .err := by
  rw [setString_numeral p s hsg hI hF
    (trimSpace_sandwich h1 h2 (fun c hc => numeral_nonspace (numeral_chars hsg hI hF hc)))]
  exact setParts_complete p s hsg hI hF hne hz

-- hypotheses satisfiable: " -012.5000\t" at precision 5, scale 3 is -12500 (two fraction digits beyond the scale are zeros)
example : setString 5 3 ([' '] ++ numeralText ['-'] ['0', '1', '2'] (some ['5', '0', '0', '0', '0']) ++ ['\t']) = .ok (-12500) := by
  rw [c16_parse_exact 5 3 [' '] ['\t'] ['-'] ['0', '1', '2'] (some ['5', '0', '0', '0', '0']) (by decide) (by decide)
    (by decide) (by decide) (by decide) (by decide) (by decide)]
  decide

/-- the property's clause literally: a numeral with an integer digit and no more fraction digits than the
scale parses to `± ofDigits (I ++ F) × 10^(s − |F|)`, i.e. exactly that number, if it fits the precision -/
theorem c16_parse_exact_short (p s : Nat) (ws1 ws2 sg I : Text) (frac : Option Text)
    (h1 : ∀ c ∈ ws1, isSpace c = true) (h2 : ∀ c ∈ ws2, isSpace c = true)
    (hsg : IsSign sg) (hI : AllDig I) (hF : AllDig (fracOf frac))
    (hne : I ≠ []) (hlen : (fracOf frac).length ≤ s)
    (hfit : ofDigits (I ++ fracOf frac) * 10 ^ (s - (fracOf frac).length) < 10 ^ p) :
    setString p s (ws1 ++ numeralText sg I frac ++ ws2) =
      .ok (signVal sg * ((ofDigits (I ++ fracOf frac) * 10 ^ (s - (fracOf frac).length) : Nat) : Int)) := by
  rw [c16_parse_exact p s ws1 ws2 sg I frac h1 h2 hsg hI hF (Or.inl hne) (excessZero_short s _ hlen),
    scaledValue_short s sg I _ hlen, signVal_natAbs, if_pos hfit]

example : setString 5 2 ([] ++ numeralText [] ['7'] (some ['5']) ++ [' ']) = .ok 750 := by
  rw [c16_parse_exact_short 5 2 [] [' '] [] ['7'] (some ['5']) (by decide) (by decide) (by decide) (by decide)
    (by decide) (by decide) (by decide) (by decide)]
  decide

/-- **C16, only numerals are accepted and never with a different value.**  If `SetString` succeeds, the
trimmed input is a numeral `[+-] digits [. digits]` with a digit to read and only zeros beyond the `s`-th
fraction digit, the stored integer is exactly `value × 10^s`, and it has at most `p` digits. -/
theorem c16_parse_sound (p s : Nat) (t : Text) (v : Int) (h : setString p s t = .ok v) :
    ∃ sg I frac, IsSign sg ∧ AllDig I ∧ AllDig (fracOf frac) ∧ HasDigit I (fracOf frac) ∧
      trimSpace t = numeralText sg I frac ∧ ExcessZero s (fracOf frac) ∧
      v = scaledValue s sg I (fracOf frac) ∧
      v.natAbs * 10 ^ (fracOf frac).length = ofDigits (I ++ fracOf frac) * 10 ^ s ∧
      v.natAbs < 10 ^ p := by
  unfold setString at h
  rcases splitOn_cases (trimSpace t) with ⟨_, hsp⟩ | ⟨a, b, _, _, hab, hsp⟩ | ⟨x, y, z, r, hsp⟩
  · rw [hsp] at h
    obtain ⟨hR, hz, sg, I, hsg, hl, hI, hne, hv, hfit⟩ := setParts_sound h
    exact ⟨sg, I, none, hsg, hI, hR, hne, by simp [numeralText, hl], hz, hv,
      hv ▸ scaledValue_exact s sg I [] hz, hfit⟩
  · rw [hsp] at h
    obtain ⟨hR, hz, sg, I, hsg, hl, hI, hne, hv, hfit⟩ := setParts_sound h
    exact ⟨sg, I, some b, hsg, hI, hR, hne, by simp [numeralText, hab, hl], hz, hv,
      hv ▸ scaledValue_exact s sg I b hz, hfit⟩
  · rw [hsp] at h; simp at h

/-- `Cmp` is equality of precision, scale and value -/
theorem cmp_iff (p1 s1 p2 s2 : Nat) (i1 i2 : Int) :
    cmp p1 s1 i1 p2 s2 i2 = true ↔ p1 = p2 ∧ s1 = s2 ∧ i1 = i2 := by
  simp [cmp, and_assoc]

/-- **C16 round trip**: for every precision, every scale `0 ≤ s ≤ p` and every value with at most `p`
digits, `String` does not panic and `SetString` of its text gives back exactly the value, so the parsed
decimal is `Cmp`-equal to the original.  (No bound on `p` is needed; the property's domain
`1 ≤ p ≤ 38` is the instance `c16_roundtrip_domain`.) -/
theorem c16_roundtrip (p s : Nat) (i : Int) (hs : s ≤ p) (hi : i.natAbs < 10 ^ p) :
    ∃ t, format p s i = some t ∧ setString p s t = .ok i ∧ cmp p s i p s i = true := by
  refine ⟨_, format_eq p s i hs hi, ?_, (cmp_iff ..).2 ⟨rfl, rfl, rfl⟩⟩
  have hI := natDigits_allDig (i.natAbs / 10 ^ s)
  have hF : AllDig (fracOf (some (fracText s i.natAbs))) := fracText_allDig s i.natAbs
  have hsg := negText_sign i
  have htext : negText i ++ natDigits (i.natAbs / 10 ^ s) ++ '.' :: fracText s i.natAbs =
      numeralText (negText i) (natDigits (i.natAbs / 10 ^ s)) (some (fracText s i.natAbs)) := rfl
  have hval : scaledValue s (negText i) (natDigits (i.natAbs / 10 ^ s)) (fracText s i.natAbs) = i := by
    rw [scaledValue, reassemble s _, negText_val]
  rw [htext, setString_numeral p s hsg hI hF
      (trimSpace_id (fun c hc => numeral_nonspace (numeral_chars hsg hI hF hc)))]
  simp only [fracOf]
  rw [setParts_complete p s hsg hI (fracText_allDig s i.natAbs) (Or.inl (natDigits_ne_nil _))
    (fracText_excessZero s _)]
  simp only [hval, hi, if_true]

/-- the round trip on the property's domain, as stated there -/
theorem c16_roundtrip_domain (p s : Nat) (i : Int) (_hp : 1 ≤ p) (_hp' : p ≤ 38) (hs : s ≤ p)
    (hi : i.natAbs < 10 ^ p) : ∃ t, format p s i = some t ∧ setString p s t = .ok i :=
  let ⟨t, h1, h2, _⟩ := c16_roundtrip p s i hs hi
  ⟨t, h1, h2⟩

example : ∃ t, format 5 2 (-12345) = some t ∧ setString 5 2 t = .ok (-12345) ∧ cmp 5 2 (-12345) 5 2 (-12345) = true :=
  c16_roundtrip 5 2 (-12345) (by decide) (by decide)

-- scale 0 (the former defect): "7.0" parses back to 7
example : format 5 0 7 = some ['7', '.', '0'] ∧ setString 5 0 ['7', '.', '0'] = .ok 7 := by
  constructor
  · rw [format_eq 5 0 7 (by decide) (by decide)]; simp [negText, natDigits_lt, fracText, fixed, trimRight0, orZero, digChar]
  · decide

/-- **C16, the text is the exact decimal expansion.**  For every value with at most `p` digits (any
`s ≤ p`, also `p = 0`) `String` does not panic and prints `[-] I . F` where the minus sign is there exactly
for negative values, `I` are the decimal digits of `⌊|i| / 10^s⌋` without leading zeros, `F` is the
`s`-digit expansion of `|i| mod 10^s` without trailing zeros (`"0"` if nothing remains), both non-empty,
and the number `I.F` — the integer `ofDigits (I ++ F)` divided by `10^|F|` — equals `|i| / 10^s` exactly
(stated cross-multiplied in ℕ). -/
theorem c16_format_exact (p s : Nat) (i : Int) (hs : s ≤ p) (hi : i.natAbs < 10 ^ p) :
    ∃ I F, format p s i = some ((if i < 0 then ['-'] else []) ++ I ++ '.' :: F) ∧
      CanonInt I ∧ CanonFrac F ∧ F.length ≤ max s 1 ∧
      I = natDigits (i.natAbs / 10 ^ s) ∧ ofDigits I = i.natAbs / 10 ^ s ∧
      F = fracText s i.natAbs ∧ ofDigits F * 10 ^ s = i.natAbs % 10 ^ s * 10 ^ F.length ∧
      ofDigits (I ++ F) * 10 ^ s = i.natAbs * 10 ^ F.length := by
  refine ⟨natDigits (i.natAbs / 10 ^ s), fracText s i.natAbs, format_eq p s i hs hi,
    canonInt_natDigits _, canonFrac_fracText _ _, ?_, rfl, ofDigits_natDigits _, rfl, fracText_cross _ _, ?_⟩
  · rcases fracText_cases s i.natAbs with ⟨h, _⟩ | ⟨_, _, _, k, hk, _⟩
    · rw [h]; simp; omega
    · omega
  · rw [ofDigits_append, ofDigits_natDigits, Nat.add_mul, fracText_cross, Nat.mul_right_comm, ← Nat.add_mul,
      Nat.div_add_mod']

example : format 5 2 (-1050) = some ['-', '1', '0', '.', '5'] := by
  rw [format_eq 5 2 (-1050) (by decide) (by decide)]
  simp [negText, natDigits_ge, natDigits_lt, fracText, fixed, trimRight0, orZero, digChar]

/-- `String` panics exactly when Scale > Precision (impossible after `sanity`) -/
theorem c16_format_total (p s : Nat) (i : Int) : (format p s i).isSome = true ↔ s ≤ p := by
  unfold format
  by_cases h : s > p
  · simp [h]
  · simp [h, Nat.not_lt.1 h]

/-- **C16, everything else is rejected**: if the trimmed input is not such a numeral the answer is the error
(never a changed value). -/
theorem c16_rejects_unrepresentable (p s : Nat) (t : Text) (h : ¬ FitsNumeral p s (trimSpace t)) :
    setString p s t = .err := by
  cases hr : setString p s t with
  | err => rfl
  | ok v =>
    obtain ⟨sg, I, frac, h1, h2, h3, h4, h5, h6, h7, _, h9⟩ := c16_parse_sound p s t v hr
    exact absurd ⟨sg, I, frac, h1, h2, h3, h4, h5, h6, h7 ▸ h9⟩ h

/-- a second decimal point ⇒ error -/
theorem c16_rejects_second_point (p s : Nat) (t x y z : Text)
    (h : trimSpace t = x ++ '.' :: y ++ '.' :: z) : setString p s t = .err := by
  have hl := splitOn_length (trimSpace t)
  have hc : 2 ≤ (trimSpace t).count '.' := by
    rw [h]; simp [List.count_append]; omega
  unfold setString
  split
  · rename_i e; rw [e] at hl; simp at hl; omega
  · rename_i e; rw [e] at hl; simp at hl; omega
  · rfl

example : setString 5 2 ['1', '.', '2', '.', '3'] = .err :=
  c16_rejects_second_point 5 2 _ ['1'] ['2'] ['3'] (by decide)

/-- a non-zero digit beyond the `s`-th fraction digit ⇒ error (the value is not representable at scale
`s`); by `c16_parse_exact` this is the only way a long fraction of digits is rejected -/
theorem c16_rejects_long_fraction (p s : Nat) (t L F : Text) (h : trimSpace t = L ++ '.' :: F)
    (hL : NoDot L) (hF : NoDot F) (hex : ¬ ExcessZero s F) : setString p s t = .err := by
  unfold setString
  rw [h, splitOn_append _ hL, splitOn_noDot hF]
  simp only [setParts]
  by_cases hany : (F.any fun c => !isDig c) = true
  · rw [if_pos hany]
  · have hlen : s < (trimRight0 F).length :=
      Nat.not_le.1 (fun hle => hex ((trimRight0_len_iff s F).1 hle))
    rw [if_neg hany, if_pos hlen]

example : setString 5 2 ['1', '.', '2', '3', '4'] = .err :=
  c16_rejects_long_fraction 5 2 _ ['1'] ['2', '3', '4'] (by decide) (by decide) (by decide) (by decide)

-- ... while zeros beyond the scale are accepted: "1.2300" at scale 2 is 1.23
example : setString 5 2 ['1', '.', '2', '3', '0', '0'] = .ok 123 := by decide

/-- a fraction that contains anything but digits (a sign, a letter, a space) ⇒ error -/
theorem c16_rejects_bad_fraction (p s : Nat) (t L F : Text) (c : Char) (h : trimSpace t = L ++ '.' :: F)
    (hL : NoDot L) (hc : c ∈ F) (hd : isDig c = false) : setString p s t = .err := by
  rcases dot_cases F with hF | ⟨a, b, _, e⟩
  · unfold setString
    rw [h, splitOn_append _ hL, splitOn_noDot hF]
    have : F.any (fun c => !isDig c) = true := List.any_eq_true.2 ⟨c, hc, by simp [hd]⟩
    simp [setParts, this]
  · exact c16_rejects_second_point p s t L a b (by rw [h, e]; simp)

example : setString 5 2 ['1', '.', '-', '2'] = .err :=
  c16_rejects_bad_fraction 5 2 _ ['1'] ['-', '2'] '-' (by decide) (by decide) (by decide) (by decide)

/-- any character other than digits, `+`, `-`, `.` left after trimming ⇒ error -/
theorem c16_rejects_garbage (p s : Nat) (t : Text) (c : Char) (hc : c ∈ trimSpace t)
    (hd : isDig c = false) (h1 : c ≠ '+') (h2 : c ≠ '-') (h3 : c ≠ '.') : setString p s t = .err := by
  cases hr : setString p s t with
  | err => rfl
  | ok v =>
    obtain ⟨sg, I, frac, hsg, hI, hF, _, ht, _⟩ := c16_parse_sound p s t v hr
    rw [ht] at hc
    rcases numeral_chars hsg hI hF hc with h | h | h | h
    · rw [h] at hd; exact absurd hd (by simp)
    · exact absurd h h1
    · exact absurd h h2
    · exact absurd h h3

example : setString 5 2 [' ', '1', 'e', '2'] = .err :=
  c16_rejects_garbage 5 2 _ 'e' (by decide) (by decide) (by decide) (by decide) (by decide)

/-- more digits than the precision ⇒ error -/
theorem c16_rejects_too_many_digits (p s : Nat) (ws1 ws2 sg I : Text) (frac : Option Text)
    (h1 : ∀ c ∈ ws1, isSpace c = true) (h2 : ∀ c ∈ ws2, isSpace c = true)
    (hsg : IsSign sg) (hI : AllDig I) (hF : AllDig (fracOf frac))
    (hne : HasDigit I (fracOf frac)) (hz : ExcessZero s (fracOf frac))
    (hbig : 10 ^ p ≤ (scaledValue s sg I (fracOf frac)).natAbs) :
    setString p s (ws1 ++ numeralText sg I frac ++ ws2) = .err := by
  rw [c16_parse_exact p s ws1 ws2 sg I frac h1 h2 hsg hI hF hne hz, if_neg (Nat.not_lt.2 hbig)]

example : setString 3 2 ([] ++ numeralText [] ['1', '0'] (some ['0']) ++ []) = .err :=
  c16_rejects_too_many_digits 3 2 [] [] [] ['1', '0'] (some ['0']) (by decide) (by decide) (by decide)
    (by decide) (by decide) (by decide) (by decide) (by decide)

-- no digit to read: the empty text, a lone point, a lone sign, and ".0" (the fraction is trimmed to nothing)
example : setString 5 2 [] = .err ∧ setString 5 2 ['.'] = .err ∧ setString 5 2 ['-'] = .err ∧
    setString 5 2 [' ', '+', '.', ' '] = .err ∧ setString 5 2 ['.', '0'] = .err := by decide

/-- **C16, sanity**: `NewDecimal` accepts exactly `0 ≤ s ≤ p ≤ 38` (all integers `p`, `s`). -/
theorem c16_sanity (p s : Int) : newOk p s = true ↔ (0 ≤ s ∧ s ≤ p ∧ p ≤ 38) := by
  unfold newOk sanity
  split
  · simp; omega
  split
  · simp; omega
  split
  · simp; omega
  split
  · simp; omega
  split
  · simp; omega
  · simp; omega

/-- every pair of the property's domain (precision 1..38, scale 0..precision) is accepted -/
theorem c16_sanity_domain (p s : Int) (_h1 : 1 ≤ p) (h2 : p ≤ 38) (h3 : 0 ≤ s) (h4 : s ≤ p) : newOk p s = true :=
  (c16_sanity p s).2 ⟨h3, h4, h2⟩

/-- the only accepted pair outside the property's domain is precision 0, scale 0, whose only value within
the precision is 0 (printed `0.0`) -/
theorem c16_sanity_outside (p s : Int) (h : newOk p s = true) (hp : ¬ (1 ≤ p ∧ p ≤ 38 ∧ 0 ≤ s ∧ s ≤ p)) :
    p = 0 ∧ s = 0 := by
  have := (c16_sanity p s).1 h
  omega

example : newOk 38 38 = true ∧ newOk 0 0 = true ∧ newOk 5 (-1) = false ∧ newOk 39 0 = false ∧
    newOk 3 4 = false ∧ newOk (-1) (-1) = false := by decide

end Dblib.Props.C16
