/-
C01 ∘ C02: what the transmit path of one side writes, the receive path of the other side turns back
into the same packages — for every packet size, every split over QueuePackage calls on the sending
side; the receiving channel sees exactly the events of the message delivered in one piece.
(Both directions of a connection use the same packet format; this composes `c01_message_wellformed`
with `c02_cuts_irrelevant`, so it holds for every parser family with the incremental law and in
particular for the transcribed decoders.)
-/
import Dblib.Props.C01
import Dblib.Props.C02.Concrete

namespace Dblib.Props.C02
open Dblib Dblib.Rx Dblib.Tx Dblib.Props.C01

/-- how the receiving side sees a packet: its body and whether the EOM status bit is set -/
def asReceived (p : Packet) : Bytes × Bool := (p.data, p.hdr.status % 2 == 1)

theorem asReceived_stampAll (tx : Tx) (L : Nat) (bs : List Bytes) :
    ∀ k, (stampAll tx L k bs).map asReceived = bs.map (fun b => (b, false)) := by
  induction bs with
  | nil => intro k; rfl
  | cons b bs ih => intro k; simp [stampAll, ih, asReceived, stamp]

theorem markLast_snoc (bs : List Bytes) (l : Bytes) :
    markLast (bs ++ [l]) = bs.map (fun b => (b, false)) ++ [(l, true)] := by
  induction bs with
  | nil => rfl
  | cons b bs ih =>
    cases hbs : bs ++ [l] with
    | nil => simp at hbs
    | cons x xs =>
      rw [List.cons_append, hbs, markLast, ← hbs, ih]
      · simp
      · simp

/-- **End to end.** Every non-empty message sent by the transmit path (any packet size 9..65535, any
list of package encodings) and received by a channel whose parsers obey the incremental law yields
exactly what the message's bytes yield when delivered in a single packet. -/
theorem c01_c02_end_to_end {Pkg : Type} (ops : Ops Pkg)
    (hI : ∀ tok last p, ops.select tok last = .parser p → Incr p)
    (tx0 : Tx) (es : List Bytes)
    (hs : 9 ≤ tx0.psize) (hs2 : tx0.psize ≤ 65535) (hn : tx0.pktNr < 256) (hq : EmptyQ tx0)
    (hne : es.flatten ≠ [])
    (rx : Rx Pkg) (hbuf : rx.buf = []) (heom : rx.eom = false) (hc : rx.closed = false)
    (hW : Whole ops rx.last es.flatten) :
    ∃ tx1 ps, sendMessage tx0 es = some (tx1, ps) ∧
      feed ops rx (ps.map asReceived) = feed ops rx (markLast [es.flatten]) := by
  obtain ⟨ps, hsend, hwf⟩ := c01_message_wellformed tx0 es hs hs2 hn hq
  refine ⟨_, ps, hsend, ?_⟩
  rcases hwf with ⟨he, _⟩ | ⟨bodies, lastBody, hps, hcat, _, _, _⟩
  · exact absurd he hne
  · have hmap : ps.map asReceived = markLast (bodies ++ [lastBody]) := by
      rw [hps, List.map_append, asReceived_stampAll, markLast_snoc]
      simp [asReceived, stamp]
    rw [hmap]
    refine c02_cuts_irrelevant ops hI rx es.flatten (bodies ++ [lastBody]) hbuf heom hc hW (by simp) ?_
    rw [List.flatten_append]; simpa using hcat

/-- the same for the transcribed package decoders -/
theorem c01_c02_end_to_end_concrete (tx0 : Tx) (es : List Bytes)
    (hs : 9 ≤ tx0.psize) (hs2 : tx0.psize ≤ 65535) (hn : tx0.pktNr < 256) (hq : EmptyQ tx0)
    (hne : es.flatten ≠ [])
    (rx : Rx Codec.Pkg) (hbuf : rx.buf = []) (heom : rx.eom = false) (hc : rx.closed = false)
    (hW : Whole Codec.ops rx.last es.flatten) :
    ∃ tx1 ps, sendMessage tx0 es = some (tx1, ps) ∧
      feed Codec.ops rx (ps.map asReceived) = feed Codec.ops rx (markLast [es.flatten]) :=
  c01_c02_end_to_end Codec.ops select_incr tx0 es hs hs2 hn hq hne rx hbuf heom hc hW

end Dblib.Props.C02
