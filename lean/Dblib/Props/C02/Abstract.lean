/-
C02 — Received package stream does not depend on fragmentation (channel layer).

Model: `Model/ChanRx.lean` (transcription of `WritePacket` / `tryParsePackage` /
`handleSpecialPackage`), abstract in the package family `Ops`. The theorems hold for EVERY parser
family whose parsers satisfy the incremental law `Incr` (C07: `Props/C07*.lean` prove it for the
transcribed decoders); `Whole ops last T` says that the response bytes `T` parse without error
into packages when delivered whole.
-/
import Dblib.Lemmas.ChanRx

namespace Dblib.Props.C02
open Dblib Dblib.Rx
variable {Pkg : Type}

/-- a response as a list of packet bodies: end-of-message on the last one only -/
def markLast : List Bytes → List (Bytes × Bool)
  | [] => []
  | [c] => [(c, true)]
  | c :: cs => (c, false) :: markLast cs

/-- feed packets (body, EOM flag) to the channel one after the other; `none` = a parser panicked -/
def feed (ops : Ops Pkg) : Rx Pkg → List (Bytes × Bool) → Option (Rx Pkg × List (Ev Pkg))
  | rx, [] => some (rx, [])
  | rx, (b, e) :: rest =>
    match writeBody ops rx b e with
    | none => none
    | some (rx', ev) => (feed ops rx' rest).map (fun r => (r.1, ev ++ r.2))

theorem writeBody_eq (ops : Ops Pkg) (rx : Rx Pkg) (last : Option Pkg) (buf body : Bytes) (e : Bool)
    (hflag : (run ops (withBuf rx last (buf ++ body) e)).2.2 = true) (hc : rx.closed = false) :
    writeBody ops (withBuf rx last buf false) body e
      = some ((run ops (withBuf rx last (buf ++ body) e)).1, (run ops (withBuf rx last (buf ++ body) e)).2.1) := by
  unfold writeBody
  have hn : ¬ ((withBuf rx last buf false).closed = true) := by simp [withBuf, hc]
  rw [if_neg hn]
  change (match run ops (withBuf rx last (buf ++ body) e) with
    | (rx2, ev, true) => some (rx2, ev)
    | (_, _, false) => none) = _
  cases hr : run ops (withBuf rx last (buf ++ body) e) with
  | mk a b =>
    obtain ⟨ev, fl⟩ := b
    rw [hr] at hflag
    simp only at hflag
    subst hflag
    rfl

/-- generalised statement: after the first `k` bytes of `T` have been fed (in any chunking — the
state depends on `k` only), feeding the rest in chunks ends like the whole run, and the events
emitted so far followed by the events still to come are the events of the whole run -/
theorem feed_rest (ops : Ops Pkg)
    (hI : ∀ tok last p, ops.select tok last = .parser p → Incr p)
    (rx : Rx Pkg) (last : Option Pkg) (T : Bytes) (hW : Whole ops last T) (hc : rx.closed = false) :
    ∀ (cs : List Bytes) (k : Nat), cs ≠ [] → k ≤ T.length → T.drop k = cs.flatten →
      ∃ evs, feed ops (run ops (withBuf rx last (T.take k) false)).1 (markLast cs)
          = some ((run ops (withBuf rx last T true)).1, evs)
        ∧ (run ops (withBuf rx last (T.take k) false)).2.1 ++ evs
            = (run ops (withBuf rx last T true)).2.1 := by
  intro cs
  induction cs with
  | nil => intro k h; exact absurd rfl h
  | cons c cs ih =>
    intro k _ hk hT
    have hc1 : (T.drop k).take c.length = c := by rw [hT]; simp
    have hsp := fun e => run_split ops hI last T hW rx k c.length e
    rw [run_withBuf_eq ops rx last (T.take k)]
    cases cs with
    | nil =>
      have hkc : T.take (k + c.length) = T := by
        apply List.take_of_length_le
        have := congrArg List.length hT
        simp at this; omega
      have h := hsp true
      rw [hkc, hc1] at h
      have hfl := run_flag ops hI last T hW rx (k + c.length) true
      rw [hkc] at hfl
      have hfl2 : (run ops (withBuf rx (run ops (withBuf rx last (T.take k) false)).1.last
          ((run ops (withBuf rx last (T.take k) false)).1.buf ++ c) true)).2.2 = true := by
        rw [h] at hfl; exact hfl
      refine ⟨(run ops (withBuf rx (run ops (withBuf rx last (T.take k) false)).1.last
          ((run ops (withBuf rx last (T.take k) false)).1.buf ++ c) true)).2.1, ?_, ?_⟩
      · simp only [markLast, feed]
        rw [writeBody_eq ops rx _ _ c true hfl2 hc]
        rw [h]
        simp
      · rw [h]
    | cons c2 cs2 =>
      have h := hsp false
      rw [hc1] at h
      have hfl := run_flag ops hI last T hW rx (k + c.length) false
      have hfl2 : (run ops (withBuf rx (run ops (withBuf rx last (T.take k) false)).1.last
          ((run ops (withBuf rx last (T.take k) false)).1.buf ++ c) false)).2.2 = true := by
        rw [h] at hfl; exact hfl
      have hk2 : k + c.length ≤ T.length := by
        have := congrArg List.length hT
        simp at this; omega
      have hT2 : T.drop (k + c.length) = (c2 :: cs2).flatten := by
        rw [← List.drop_drop, hT]; simp
      obtain ⟨evs', ih1, ih2⟩ := ih (k + c.length) (by simp) hk2 hT2
      have hstate : (run ops (withBuf rx (run ops (withBuf rx last (T.take k) false)).1.last
          ((run ops (withBuf rx last (T.take k) false)).1.buf ++ c) false)).1
            = (run ops (withBuf rx last (T.take (k + c.length)) false)).1 := by rw [h]
      have hev : (run ops (withBuf rx last (T.take (k + c.length)) false)).2.1
          = (run ops (withBuf rx last (T.take k) false)).2.1 ++
            (run ops (withBuf rx (run ops (withBuf rx last (T.take k) false)).1.last
              ((run ops (withBuf rx last (T.take k) false)).1.buf ++ c) false)).2.1 := by rw [h]
      refine ⟨(run ops (withBuf rx (run ops (withBuf rx last (T.take k) false)).1.last
              ((run ops (withBuf rx last (T.take k) false)).1.buf ++ c) false)).2.1 ++ evs', ?_, ?_⟩
      · simp only [markLast, feed]
        rw [writeBody_eq ops rx _ _ c false hfl2 hc]
        simp only
        rw [hstate, ih1]
        simp
      · rw [← List.append_assoc, ← hev, ih2]

/-- **C02 (channel layer): the delivered packages, errors and hook calls do not depend on how the
response is cut into packets.** For every parser family obeying the incremental law, every response
`T` that parses when delivered whole, and every way of cutting `T` into packet bodies (any number of
cuts, any positions, empty bodies allowed; EOM on the last), the channel ends in the same state and
emits the same events in the same order as for the single packet `[T]`. -/
theorem c02_cuts_irrelevant (ops : Ops Pkg)
    (hI : ∀ tok last p, ops.select tok last = .parser p → Incr p)
    (rx : Rx Pkg) (T : Bytes) (cs : List Bytes)
    (hbuf : rx.buf = []) (heom : rx.eom = false) (hc : rx.closed = false)
    (hW : Whole ops rx.last T) (hne : cs ≠ []) (hcs : cs.flatten = T) :
    feed ops rx (markLast cs) = feed ops rx (markLast [T]) := by
  have hrx : rx = (run ops (withBuf rx rx.last (T.take 0) false)).1 := by
    simp only [List.take_zero]
    rw [run_nil ops _ rfl]
    simp only [withBuf, Bool.false_eq_true, if_false]
    cases rx; simp_all
  have hev0 : (run ops (withBuf rx rx.last (T.take 0) false)).2.1 = [] := by
    simp only [List.take_zero]
    rw [run_nil ops _ rfl]
    simp [withBuf]
  obtain ⟨e1, h1, h1'⟩ := feed_rest ops hI rx rx.last T hW hc cs 0 hne (Nat.zero_le _) (by simpa using hcs.symm)
  obtain ⟨e2, h2, h2'⟩ := feed_rest ops hI rx rx.last T hW hc [T] 0 (by simp) (Nat.zero_le _) (by simp)
  rw [← hrx] at h1 h2
  rw [hev0] at h1' h2'
  simp only [List.nil_append] at h1' h2'
  rw [h1, h2, h1', h2']

end Dblib.Props.C02
