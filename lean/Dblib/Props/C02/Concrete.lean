/-
Instantiation of the channel-layer theorems (C02, C03, C11, C14) with the concrete package
family `Codec.ops` (`Model/Codec/Pkg.lean`): every parser the channel can select satisfies the
incremental law (from the per-kind theorems of `Props/C07/*`).
-/
import Dblib.Props.C02.Abstract
import Dblib.Props.C07
import Dblib.Model.Codec.Pkg

namespace Dblib.Props.C02
open Dblib Dblib.Rx Dblib.Codec

theorem lift_incr {α : Type} {p : P α} (f : α → Pkg) (h : Incr p) : Incr (lift p f) :=
  incr_bind h (fun a => incr_pure (f a))

theorem tokenless_incr : Incr tokenless := by
  intro s a n h; simp [tokenless] at h

theorem findParser_incr (t : Nat) (tbl : List (Nat × P Pkg)) (h : ∀ e ∈ tbl, Incr e.2) :
    Incr (findParser t tbl) := by
  induction tbl with
  | nil => exact tokenless_incr
  | cons e rest ih =>
    obtain ⟨k, p⟩ := e
    simp only [findParser]
    split
    · exact h (k, p) (by simp)
    · exact ih (fun x hx => h x (by simp [hx]))

open Dblib.Props.C07.Basic Dblib.Props.C07.Cursor in
/-- every decoder in the token table obeys the incremental law (per-kind theorems of Props/C07) -/
theorem parsers_incr : ∀ e ∈ parsers, Incr e.2 := by
  intro e he
  simp only [parsers, List.mem_cons, List.not_mem_nil, or_false] at he
  rcases he with h | h | h | h | h | h | h | h | h | h | h | h | h | h | h | h | h | h | h | h | h | h | h | h | h | h
  all_goals subst h
  · exact lift_incr _ Dblib.Props.C07.Basic.Done.dec_incr
  · exact lift_incr _ Dblib.Props.C07.Basic.Done.dec_incr
  · exact lift_incr _ Dblib.Props.C07.Basic.Done.dec_incr
  · exact lift_incr _ Dblib.Props.C07.Basic.EED.dec_incr
  · exact lift_incr _ Dblib.Props.C07.Basic.Error.dec_incr
  · exact lift_incr _ Dblib.Props.C07.Basic.LoginAck.dec_incr
  · exact lift_incr _ Dblib.Props.C07.Basic.Msg.dec_incr
  · exact lift_incr _ Dblib.Props.C07.Basic.EnvChange.dec_incr
  · exact lift_incr _ Dblib.Props.C07.Basic.Capability.dec_incr
  · exact lift_incr _ Dblib.Props.C07.Basic.Language.dec_incr
  · exact lift_incr _ Dblib.Props.C07.Basic.ReturnStatus.dec_incr
  · exact lift_incr _ Dblib.Props.C07.Basic.Logout.dec_incr
  · exact lift_incr _ (Dblib.Props.C07.Cursor.Dyn.dec_incr _)
  · exact lift_incr _ (Dblib.Props.C07.Cursor.Dyn.dec_incr _)
  · exact lift_incr _ (Dblib.Props.C07.Cursor.CurDeclare.dec_incr _)
  · exact lift_incr _ (Dblib.Props.C07.Cursor.CurDeclare.dec_incr _)
  · exact lift_incr _ (Dblib.Props.C07.Cursor.CurInfo.dec_incr _)
  · exact lift_incr _ (Dblib.Props.C07.Cursor.CurInfo.dec_incr _)
  · exact lift_incr _ Dblib.Props.C07.Cursor.CurOpen.dec_incr
  · exact lift_incr _ Dblib.Props.C07.Cursor.CurFetch.dec_incr
  · exact lift_incr _ Dblib.Props.C07.Cursor.CurUpdate.dec_incr
  · exact lift_incr _ Dblib.Props.C07.Cursor.CurDelete.dec_incr
  · exact lift_incr _ (Dblib.Props.C07.Fields.ParamFmt.dec_incr _)
  · exact lift_incr _ (Dblib.Props.C07.Fields.ParamFmt.dec_incr _)
  · exact lift_incr _ (Dblib.Props.C07.Fields.RowFmt.dec_incr _)
  · exact lift_incr _ (Dblib.Props.C07.Fields.RowFmt.dec_incr _)

/-- every parser `LookupPackage` can hand to the channel obeys the incremental law -/
theorem select_incr : ∀ tok last p, Codec.ops.select tok last = .parser p → Incr p := by
  intro tok last p h
  simp only [Codec.ops, select] at h
  split at h
  · split at h
    · split at h
      · injection h with h; subst h
        exact lift_incr _ (Dblib.Props.C07.Fields.Row.dec_incr _)
      · simp at h
    · simp at h
  · split at h
    · split at h
      · injection h with h; subst h
        exact lift_incr _ Dblib.Props.C07.Fields.OrderBy.dec_incr
      · simp at h
    · split at h
      · split at h
        · injection h with h; subst h
          exact lift_incr _ Dblib.Props.C07.Fields.OrderBy2.dec_incr
        · simp at h
      · injection h with h; subst h
        exact findParser_incr _ _ parsers_incr

/-- **C02 for the concrete parsers**: for every response that parses whole, every cut of it into
packets yields the same deliveries, errors and hook calls as the single packet. -/
theorem c02_concrete (rx : Rx Pkg) (T : Bytes) (cs : List Bytes)
    (hbuf : rx.buf = []) (heom : rx.eom = false) (hc : rx.closed = false)
    (hW : Whole Codec.ops rx.last T) (hne : cs ≠ []) (hcs : cs.flatten = T) :
    feed Codec.ops rx (markLast cs) = feed Codec.ops rx (markLast [T]) :=
  c02_cuts_irrelevant Codec.ops select_incr rx T cs hbuf heom hc hW hne hcs

/-- non-vacuity: a response DONE(MORE) DONE(FINAL) parses whole -/
example : Whole Codec.ops none ([0xFD, 1, 0, 0, 0, 5, 0, 0, 0] ++ [0xFD, 0, 0, 0, 0, 7, 0, 0, 0]) := by
  refine .cons none 0xFD _ (lift Basic.Done.dec (.done "done")) (.done "done" ⟨1, 0, 5⟩) 8 rfl (by rfl) ?_
  refine .cons _ 0xFD _ (lift Basic.Done.dec (.done "done")) (.done "done" ⟨0, 0, 7⟩) 8 rfl (by rfl) ?_
  exact .nil _

end Dblib.Props.C02
