/-
C04 / C05 — a date/time value is encoded by its clock reading.

The value model (`Model/Value.lean`, `Model/AseTime.lean`) represents a `time.Time` by its date and
time-of-day fields; ASE's date/time types carry no zone. That is what the code encodes as long as the
codecs only ask a value for its fields. `Gen/TimeUse.lean` lists, regenerated on every run, every
method the packages asetime and asetypes call on a `time.Time` and every location they construct
times in. The harness runs every temporal case in six further locations (fixed offsets and zones with
daylight saving) and demands the same bytes.
-/
import Dblib.Gen.TimeUse

namespace Dblib.Props.C05
open Dblib

/-- the accessors of the clock reading, and the two constructors the decoders use on UTC values -/
def fieldAccessors : List String :=
  ["Add", "AddDate", "Day", "Hour", "Minute", "Month", "Nanosecond", "Second", "Year",
   -- the same fields several at a time, or derived from them alone
   "Date", "Clock", "YearDay", "Weekday"]

/-- the codecs look at a time only through the fields of its clock reading — nothing that depends on
its location or on the instant it denotes (`Sub`, `Unix…`, `In`, `Location`, `Truncate`, `Equal`, …) —
and construct times in UTC only -/
theorem c05_clock_reading_only :
    Gen.TimeUse.timeMethods.all (fun m => fieldAccessors.contains m) = true ∧
    Gen.TimeUse.dateLocations.all (fun l => l == "time.UTC") = true := by
  constructor <;> decide

end Dblib.Props.C05
