/-
C08 — Login succeeds exactly when the server accepted it.

Model: `Model/Login.lean` (transcription of `Channel.Login` over the delivered packages; the
delivery itself is C02/C03's business, cryptography is a parameter). Constants come from the
regenerated `Gen/TdsConsts.lean`.
-/
import Dblib.Model.Login

namespace Dblib.Props.C08
open Dblib.Login Dblib.Gen.Tds Dblib.Consume

def isLoginAck : Reply → Bool
  | .loginAck _ => true
  | _ => false

/-- **The acceptance specification**, written from the property statement. -/
def Accepts (cfg : Cfg) (q : List Reply) : Prop :=
  cfg.encrypt ≠ TDS_MSG_SEC_ENCRYPT ∧ cfg.encrypt ≠ TDS_MSG_SEC_ENCRYPT2 ∧ cfg.encrypt ≠ TDS_MSG_SEC_ENCRYPT3 ∧
  cfg.packOK = true ∧
  ((cfg.encrypt ≠ TDS_MSG_SEC_ENCRYPT4 ∧
      -- plain flow: success acknowledgement, final DONE
      ∃ rest, q = .loginAck TDS_LOG_SUCCEED :: .done TDS_DONE_FINAL :: rest) ∨
   (cfg.encrypt = TDS_MSG_SEC_ENCRYPT4 ∧
      -- encrypted flow: negotiation acknowledgement, encryption message, three key parameters
      -- (cipher suite 1, usable public key, nonce), DONE; then — possibly after packages that are
      -- no login acknowledgement — success acknowledgement, capabilities (no requested type all
      -- zero), final DONE
      ∃ pem nonce st mid rest,
        q = .loginAck TDS_LOG_NEGOTIATE :: .msg TDS_MSG_SEC_ENCRYPT4 :: .paramFmt 3 ::
              .params [.int4 (some 1), .longBinary (some pem), .longBinary (some nonce)] :: .done st ::
              (mid ++ .loginAck TDS_LOG_SUCCEED :: .capability false :: .done TDS_DONE_FINAL :: rest)
        ∧ cfg.keyOK pem nonce = true ∧ ∀ x ∈ mid, isLoginAck x = false))

theorem ackCb_cont (x : Reply) (h : isLoginAck x = false) : ackCb x = .cont := by
  cases x <;> simp_all [ackCb, isLoginAck]

theorem isEED_eq (x : Reply) : consumeOps.isEED x = true ↔ x = .eed := by
  cases x <;> simp [consumeOps]

/-- waiting for the second acknowledgement: stops exactly at the first login acknowledgement,
provided it reports success -/
theorem until_ack (q : List Reply) : ∀ (eeds : List Reply) (p : Reply) (q1 : List Reply),
    untilCb consumeOps ackCb q eeds = (.pkg p, q1) ↔
      ∃ mid, q = mid ++ .loginAck TDS_LOG_SUCCEED :: q1 ∧ p = .loginAck TDS_LOG_SUCCEED
        ∧ ∀ x ∈ mid, isLoginAck x = false := by
  induction q with
  | nil =>
    intro eeds p q1
    simp [untilCb]
  | cons x q ih =>
    intro eeds p q1
    unfold untilCb
    by_cases he : consumeOps.isEED x = true
    · have hx : x = .eed := (isEED_eq x).1 he
      subst hx
      simp only [he, if_true]
      rw [ih]
      constructor
      · rintro ⟨mid, h1, h2, h3⟩
        refine ⟨.eed :: mid, by simp [h1], h2, ?_⟩
        intro y hy
        rcases List.mem_cons.1 hy with rfl | hy
        · rfl
        · exact h3 y hy
      · rintro ⟨mid, h1, h2, h3⟩
        cases mid with
        | nil => simp at h1
        | cons m mid =>
          simp only [List.cons_append, List.cons.injEq] at h1
          exact ⟨mid, h1.2, h2, fun y hy => h3 y (by simp [hy])⟩
    · simp only [Bool.not_eq_true] at he
      simp only [he, Bool.false_eq_true, if_false]
      cases hx : isLoginAck x with
      | false =>
        rw [ackCb_cont x hx]
        simp only
        rw [ih]
        constructor
        · rintro ⟨mid, h1, h2, h3⟩
          refine ⟨x :: mid, by simp [h1], h2, ?_⟩
          intro y hy
          rcases List.mem_cons.1 hy with rfl | hy
          · exact hx
          · exact h3 y hy
        · rintro ⟨mid, h1, h2, h3⟩
          cases mid with
          | nil =>
            simp only [List.nil_append, List.cons.injEq] at h1
            rw [h1.1] at hx; simp [isLoginAck] at hx
          | cons m mid =>
            simp only [List.cons_append, List.cons.injEq] at h1
            exact ⟨mid, h1.2, h2, fun y hy => h3 y (by simp [hy])⟩
      | true =>
        cases x with
        | loginAck s =>
          by_cases hs : s = TDS_LOG_SUCCEED
          · subst hs
            simp only [ackCb, beq_self_eq_true, if_true]
            constructor
            · intro h
              injection h with h1 h2
              injection h1 with h1
              exact ⟨[], by simp [h2], h1.symm, by simp⟩
            · rintro ⟨mid, h1, h2, h3⟩
              cases mid with
              | nil =>
                simp only [List.nil_append, List.cons.injEq, true_and] at h1
                rw [h1, h2]
              | cons m mid =>
                simp only [List.cons_append, List.cons.injEq] at h1
                have := h3 m (by simp)
                rw [← h1.1] at this; simp [isLoginAck] at this
          · have hb : (s == TDS_LOG_SUCCEED) = false := by simpa using hs
            simp only [ackCb, hb, Bool.false_eq_true, if_false]
            constructor
            · intro h; simp at h
            · rintro ⟨mid, h1, h2, h3⟩
              cases mid with
              | nil =>
                simp only [List.nil_append, List.cons.injEq, Reply.loginAck.injEq] at h1
                exact absurd h1.1 hs
              | cons m mid =>
                simp only [List.cons_append, List.cons.injEq] at h1
                have := h3 m (by simp)
                rw [← h1.1] at this; simp [isLoginAck] at this
        | _ => simp [isLoginAck] at hx

/-- the tail of the encrypted flow succeeds exactly on `… loginAck(SUCCEED), capability, DONE(FINAL) …` -/
theorem finish_success (q : List Reply) :
    finish q = .success ↔
      ∃ mid rest, q = mid ++ .loginAck TDS_LOG_SUCCEED :: .capability false :: .done TDS_DONE_FINAL :: rest
        ∧ ∀ x ∈ mid, isLoginAck x = false := by
  unfold finish
  constructor
  · intro h
    cases hr : untilCb consumeOps ackCb q [] with
    | mk r q1 =>
      rw [hr] at h
      cases r with
      | pkg p =>
        obtain ⟨mid, h1, _, h3⟩ := (until_ack q [] p q1).1 hr
        simp only at h
        cases q1 with
        | nil => simp at h
        | cons c q2 =>
          cases c with
          | capability zero =>
            simp only at h
            cases zero with
            | true => simp at h
            | false =>
              simp only [Bool.false_eq_true, if_false] at h
              cases q2 with
              | nil => simp at h
              | cons d q3 =>
                cases d with
                | done s =>
                  simp only at h
                  by_cases hs : s = TDS_DONE_FINAL
                  · subst hs; exact ⟨mid, q3, h1, h3⟩
                  · have : (s == TDS_DONE_FINAL) = false := by simpa using hs
                    simp [this] at h
                | _ => simp at h
          | _ => simp at h
      | _ => simp at h
  · rintro ⟨mid, rest, h1, h3⟩
    have := (until_ack q [] (.loginAck TDS_LOG_SUCCEED) (.capability false :: .done TDS_DONE_FINAL :: rest)).2
      ⟨mid, h1, rfl, h3⟩
    rw [this]
    simp

/-- **C08: Login reports success exactly when the replies form a valid acceptance.** -/
theorem c08_success_iff (cfg : Cfg) (q : List Reply) : (login cfg q).1 = .success ↔ Accepts cfg q := by
  unfold login Accepts
  by_cases h1 : cfg.encrypt = TDS_MSG_SEC_ENCRYPT
  · simp [h1]
  by_cases h2 : cfg.encrypt = TDS_MSG_SEC_ENCRYPT2
  · simp [h2]
  by_cases h3 : cfg.encrypt = TDS_MSG_SEC_ENCRYPT3
  · simp [h3]
  have hn : ¬ (cfg.encrypt == TDS_MSG_SEC_ENCRYPT ∨ cfg.encrypt == TDS_MSG_SEC_ENCRYPT2 ∨ cfg.encrypt == TDS_MSG_SEC_ENCRYPT3) := by
    simp [h1, h2, h3]
  rw [if_neg hn]
  cases hp : cfg.packOK with
  | false => simp [h1, h2, h3]
  | true =>
    simp only [Bool.not_true, Bool.false_eq_true, if_false, h1, h2, h3, ne_eq, not_false_eq_true, true_and]
    by_cases h4 : cfg.encrypt = TDS_MSG_SEC_ENCRYPT4
    · -- encrypted flow
      have hpl : (cfg.encrypt != TDS_MSG_SEC_ENCRYPT4) = false := by simp [h4]
      simp only [hpl, h4, not_true_eq_false, false_and, false_or, true_and, Bool.false_eq_true, if_false]
      constructor
      · intro h
        -- peel the expected packages one by one
        cases q with
        | nil => simp at h
        | cons a q =>
          cases a with
          | loginAck st =>
            simp only at h
            by_cases hst : st = TDS_LOG_NEGOTIATE
            · subst hst
              simp only [bne_self_eq_false, Bool.false_eq_true, if_false] at h
              cases q with
              | nil => simp at h
              | cons b q =>
                cases b with
                | msg id =>
                  simp only at h
                  by_cases hid : id = TDS_MSG_SEC_ENCRYPT4
                  · subst hid
                    simp only [bne_self_eq_false, Bool.false_eq_true, if_false] at h
                    cases q with
                    | nil => simp at h
                    | cons c q =>
                      cases c with
                      | paramFmt n =>
                        simp only at h
                        by_cases hn3 : n = 3
                        · subst hn3
                          simp only [bne_self_eq_false, Bool.false_eq_true, if_false] at h
                          cases q with
                          | nil => simp at h
                          | cons d q =>
                            cases d with
                            | params fields =>
                              simp only at h
                              by_cases hl : fields.length = 3
                              · have hlb : (fields.length != 3) = false := by simp [hl]
                                simp only [hlb, Bool.false_eq_true, if_false] at h
                                cases q with
                                | nil => simp at h
                                | cons e q =>
                                  cases e with
                                  | done sd =>
                                    simp only at h
                                    match fields, h with
                                    | [.int4 (some v), .longBinary (some pem), .longBinary (some nonce)], h =>
                                      simp only at h
                                      by_cases hv : v = 1
                                      · subst hv
                                        simp only [bne_self_eq_false, Bool.false_eq_true, if_false] at h
                                        cases hk : cfg.keyOK pem nonce with
                                        | false => simp [hk] at h
                                        | true =>
                                          simp only [hk, Bool.not_true, Bool.false_eq_true, if_false] at h
                                          obtain ⟨mid, rest, hq, hm⟩ := (finish_success q).1 h
                                          exact ⟨pem, nonce, sd, mid, rest, by rw [hq], hk, hm⟩
                                      · have : (v != 1) = true := by simpa using hv
                                        simp [this] at h
                                  | _ => simp at h
                              · have hlb : (fields.length != 3) = true := by simpa using hl
                                simp [hlb] at h
                            | _ => simp at h
                        · have : (n != 3) = true := by simpa using hn3
                          simp [this] at h
                      | _ => simp at h
                  · have : (id != TDS_MSG_SEC_ENCRYPT4) = true := by simpa using hid
                    simp [this] at h
                | _ => simp at h
            · have : (st != TDS_LOG_NEGOTIATE) = true := by simpa using hst
              simp [this] at h
          | _ => simp at h
      · rintro ⟨pem, nonce, st, mid, rest, hq, hk, hm⟩
        subst hq
        simp only [bne_self_eq_false, Bool.false_eq_true, if_false, List.length_cons, List.length_nil,
          hk, Bool.not_true]
        exact (finish_success _).2 ⟨mid, rest, rfl, hm⟩
    · -- plain flow
      have hpl : (cfg.encrypt != TDS_MSG_SEC_ENCRYPT4) = true := by simp [h4]
      simp only [hpl, h4, not_false_eq_true, true_and, false_and, or_false, if_true]
      constructor
      · intro h
        cases q with
        | nil => simp at h
        | cons a q =>
          cases a with
          | loginAck st =>
            simp only at h
            by_cases hst : st = TDS_LOG_SUCCEED
            · subst hst
              simp only [bne_self_eq_false, Bool.false_eq_true, if_false] at h
              cases q with
              | nil => simp at h
              | cons b q =>
                cases b with
                | done s =>
                  simp only at h
                  by_cases hs : s = TDS_DONE_FINAL
                  · subst hs; exact ⟨q, rfl⟩
                  · have : (s == TDS_DONE_FINAL) = false := by simpa using hs
                    simp [this] at h
                | _ => simp at h
            · have : (st != TDS_LOG_SUCCEED) = true := by simpa using hst
              simp [this] at h
          | _ => simp at h
      · rintro ⟨rest, hq⟩
        subst hq
        simp

/-- no reply sequence makes the model of Login crash: its outcome is success, an error, or a wait
that ends with the context (every type assertion in login.go is checked, every index follows a
length check) -/
theorem c08_total (cfg : Cfg) (q : List Reply) :
    (login cfg q).1 = .success ∨ (login cfg q).1 = .error ∨ (login cfg q).1 = .blocked := by
  cases (login cfg q).1 <;> simp

/-- non-vacuity: both flows have accepting scripts -/
example : (login { encrypt := 0, packOK := true, keyOK := fun _ _ => true }
    [.loginAck TDS_LOG_SUCCEED, .done TDS_DONE_FINAL]).1 = .success := by decide

example : (login { encrypt := TDS_MSG_SEC_ENCRYPT4, packOK := true, keyOK := fun _ _ => true }
    [.loginAck TDS_LOG_NEGOTIATE, .msg TDS_MSG_SEC_ENCRYPT4, .paramFmt 3,
     .params [.int4 (some 1), .longBinary (some [1]), .longBinary (some [2])], .done 0,
     .eed, .loginAck TDS_LOG_SUCCEED, .capability false, .done TDS_DONE_FINAL]) = (.success, 2) := by decide

/-- a DONE with error status after the acknowledgement is not a success (the defect repaired by
fix commit fc85caa) -/
example : (login { encrypt := 0, packOK := true, keyOK := fun _ _ => true }
    [.loginAck TDS_LOG_SUCCEED, .done 2]).1 = .error := by decide

end Dblib.Props.C08
