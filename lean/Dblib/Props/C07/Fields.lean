/-
C07 for the Fields codec group: every decoder of the group satisfies the incremental-parsing law
`Incr` (Model/Parser.lean) — a successful parse consumes a prefix of its input, is unaffected by
what follows, and on every proper prefix of what it consumed the answer is `notEnough`: never
`ok`, never another error, never a panic. Proved along the decoders' syntax with the closure
lemmas of Lemmas/Parser.lean.

Why it holds:
* formats (PARAMFMT/2, ROWFMT/2), ORDERBY/2: every read site returns the sentinel
  `ErrNotEnoughBytes` (or wraps it with `%w`); the other errors — unknown data type, PARAMFMT's
  per-field byte count, the final length comparisons — are evaluated on bytes already read.
* ROW / PARAMS, for EVERY list of formats: `readLengthBytes` maps every short read of the length
  prefix to the sentinel; `ch.Bytes(length)` is wrapped with `%w`; `DataType.GoValue` — the only
  source of other errors and of panics — is applied after the field's bytes have been read
  completely, so its outcome does not depend on what follows and cannot be triggered by a
  truncation: in the model, `liftVal` of a value that does not depend on the remaining input.
  (A GoValue *panic* on a complete field is a C10 matter: Props/C10/Fields.lean.)
* BLOB data: the chunk loop is a recursion with fuel (number of remaining bytes + 1, never
  exhausted: every iteration consumes ≥ 4 bytes); `blobChunks_fuel` (Lemmas/CodecFields.lean) shows the result does not
  depend on the fuel once it is enough, which makes the loop `Incr`.
-/
import Dblib.Model.Codec.Fields
import Dblib.Lemmas.Parser
import Dblib.Lemmas.CodecFields
import Dblib.Gen.FieldTypes

namespace Dblib.Props.C07.Fields
open Dblib Dblib.P Dblib.Codec.Fields Dblib.CodecFields

/-- apply the closure lemmas along the syntax of a `do` block -/
macro "incr_steps" : tactic => `(tactic| repeat (first
  | exact incr_pure _ | exact incr_u8 | exact incr_u16 | exact incr_u32
  | exact incr_uintLE _ | exact incr_intLE _ | exact incr_take _ | exact incr_takeInt _ | exact incr_guard _
  | exact incr_fail | exact incr_crash | assumption
  | refine incr_bind ?_ (fun _ => ?_) | refine incr_replicateM _ ?_ | split))

/-! ## tie of the model's `fmtTable` to the regenerated switches of `LookupFieldFmt` / `LookupFieldData`

`Gen/FieldTypes.lean` is regenerated from tds/field.go on every run: per data type the struct the
switch constructs, the struct family it embeds (which decides `ReadFrom` / `WriteTo` /
`FormatByteLength`) and the preset maximum length. A data type added to, removed from or re-filed
in either switch breaks one of these theorems. -/

def goFamily : FmtClass → String
  | .length => "fieldFmtLength"
  | .lengthScale => "fieldFmtLengthScale"
  | .lengthPrecisionScale => "fieldFmtLengthPrecisionScale"
  | .blob => "fieldFmtBlob"
  | .txtPtr => "fieldFmtTxtPtr"

/-- the `FieldData` family `dataField` dispatches to -/
def goDataFamily : FmtClass → String
  | .length | .lengthScale => "fieldData"
  | .lengthPrecisionScale => "fieldDataPrecisionScale"
  | .blob => "fieldDataBlob"
  | .txtPtr => "fieldDataTxtPtr"

/-- `fmtTable` is the switch of `LookupFieldFmt`: same data types in the same order, same struct
family, same preset -/
theorem c07_fmtTable_tie :
    fmtTable.map (fun e => (e.1, goFamily e.2.1, e.2.2)) =
      Gen.FieldTypes.fmtSwitch.map (fun e => (e.1, e.2.2.1, e.2.2.2)) := by decide

/-- `LookupFieldData` knows exactly the data types of `LookupFieldFmt` and files each under the data
family the model's `dataField` uses for its format family -/
theorem c07_dataSwitch_tie :
    fmtTable.map (fun e => (e.1, goDataFamily e.2.1)) =
      Gen.FieldTypes.dataSwitch.map (fun e => (e.1, e.2.2)) := by decide

/-! ## formats -/

theorem readLengthBytes_incr (n : Int) : Incr (readLengthBytes n) := incr_uintLE _

theorem readFromBase_incr (t : Nat) (preset : Int) : Incr (readFromBase t preset) := by
  unfold readFromBase
  have := readLengthBytes_incr (fmtLengthBytes t)
  incr_steps

theorem fmtTail_incr (cls : FmtClass) (t : Nat) (preset : Int) : Incr (fmtTail cls t preset) := by
  unfold fmtTail
  have := readFromBase_incr t preset
  incr_steps

theorem str8_incr : Incr str8 := by unfold str8; incr_steps

theorem readFromField_incr (names wide : Bool) : Incr (readFromField names wide) := by
  unfold readFromField
  have h := fmtTail_incr
  have hs := str8_incr
  refine incr_bind ?_ (fun _ => incr_bind hs (fun _ => incr_bind (incr_uintLE _) (fun _ =>
    incr_bind (incr_intLE _) (fun _ => incr_bind incr_u8 (fun token => ?_)))))
  · incr_steps
  · split
    · exact incr_fail
    · exact incr_bind (h _ _ _) (fun _ => incr_bind hs (fun _ => incr_pure _))

theorem ParamFmt.field_incr (wide : Bool) : Incr (ParamFmt.field wide) := by
  unfold ParamFmt.field
  exact incr_bind (readFromField_incr _ _) (fun _ => incr_bind (incr_guard _) (fun _ => incr_pure _))

theorem ParamFmt.dec_incr (wide : Bool) : Incr (ParamFmt.dec wide) := by
  unfold ParamFmt.dec
  have := ParamFmt.field_incr wide
  incr_steps

theorem RowFmt.field_incr (wide : Bool) : Incr (RowFmt.field wide) := readFromField_incr wide wide

theorem RowFmt.dec_incr (wide : Bool) : Incr (RowFmt.dec wide) := by
  unfold RowFmt.dec
  have := RowFmt.field_incr wide
  incr_steps

theorem OrderBy.dec_incr : Incr OrderBy.dec := by
  unfold OrderBy.dec
  exact incr_bind incr_u16 (fun _ => incr_replicateM _ incr_u8)

theorem OrderBy2.dec_incr : Incr OrderBy2.dec := by
  unfold OrderBy2.dec; incr_steps

/-! ## field data -/

theorem liftVal_incr (o : Value.VOut) : Incr (liftVal o) := by
  cases o with
  | ok v => exact incr_pure v
  | err => exact incr_fail
  | panic => exact incr_crash

theorem readStatus_incr (f : Fmt) : Incr (readStatus f) := by
  unfold readStatus; incr_steps

theorem rawBytes_incr (t : Nat) : Incr (rawBytes t) := by
  unfold rawBytes
  have := readLengthBytes_incr (fmtLengthBytes t)
  incr_steps

/-- the value conversion happens on the completely read bytes `bs`: whatever `GoValue` answers, the
step consumes nothing and does not look at the rest of the input -/
theorem baseData_incr (f : Fmt) : Incr (baseData f) := by
  unfold baseData
  exact incr_bind (readStatus_incr f) (fun _ => incr_bind (rawBytes_incr _) (fun bs =>
    incr_bind (liftVal_incr _) (fun _ => incr_pure _)))

theorem withPrecisionScale_incr (f : Fmt) (v : Value.Val) : Incr (withPrecisionScale f v) := by
  unfold withPrecisionScale; incr_steps

theorem txtData_incr (f : Fmt) : Incr (txtData f) := by
  unfold txtData
  have := readStatus_incr f
  incr_steps

theorem blobData_incr (f : Fmt) : Incr (blobData f) := by
  unfold blobData
  have := readStatus_incr f
  have := blobLoop_incr
  incr_steps

theorem dataField_incr (f : Fmt) : Incr (dataField f) := by
  unfold dataField
  have h1 := baseData_incr f
  have h2 := withPrecisionScale_incr f
  have h3 := blobData_incr f
  have h4 := txtData_incr f
  split
  · exact incr_bind h1 (fun _ => incr_pure _)
  · exact incr_bind h1 (fun _ => incr_pure _)
  · exact incr_bind h1 (fun _ => incr_bind (h2 _) (fun _ => incr_pure _))
  · exact h3
  · exact h4
  · exact incr_fail

/-- **ROW / PARAMS**: for every list of formats the row decoder is incremental -/
theorem Row.dec_incr (fmts : List Fmt) : Incr (Row.dec fmts) := by
  unfold Row.dec
  refine incr_sequence _ ?_
  intro p hp
  obtain ⟨f, _, rfl⟩ := List.mem_map.mp hp
  exact dataField_incr f

/-! ### C07 proper: truncated encodings -/

theorem ParamFmt.prefix_not_enough (wide : Bool) (enc rest : Bytes) (k : List Fmt)
    (h : ParamFmt.dec wide (enc ++ rest) = .ok k enc.length) :
    (∀ j, j < enc.length → ParamFmt.dec wide (enc.take j) = .notEnough) ∧
      ParamFmt.dec wide enc = .ok k enc.length :=
  incr_prefix_not_enough (ParamFmt.dec_incr wide) enc rest k h

theorem RowFmt.prefix_not_enough (wide : Bool) (enc rest : Bytes) (k : List Fmt)
    (h : RowFmt.dec wide (enc ++ rest) = .ok k enc.length) :
    (∀ j, j < enc.length → RowFmt.dec wide (enc.take j) = .notEnough) ∧
      RowFmt.dec wide enc = .ok k enc.length :=
  incr_prefix_not_enough (RowFmt.dec_incr wide) enc rest k h

theorem Row.prefix_not_enough (fmts : List Fmt) (enc rest : Bytes) (k : List Data)
    (h : Row.dec fmts (enc ++ rest) = .ok k enc.length) :
    (∀ j, j < enc.length → Row.dec fmts (enc.take j) = .notEnough) ∧
      Row.dec fmts enc = .ok k enc.length :=
  incr_prefix_not_enough (Row.dec_incr fmts) enc rest k h

theorem OrderBy.prefix_not_enough (enc rest : Bytes) (k : List Nat)
    (h : OrderBy.dec (enc ++ rest) = .ok k enc.length) :
    (∀ j, j < enc.length → OrderBy.dec (enc.take j) = .notEnough) ∧ OrderBy.dec enc = .ok k enc.length :=
  incr_prefix_not_enough OrderBy.dec_incr enc rest k h

theorem OrderBy2.prefix_not_enough (enc rest : Bytes) (k : List Nat)
    (h : OrderBy2.dec (enc ++ rest) = .ok k enc.length) :
    (∀ j, j < enc.length → OrderBy2.dec (enc.take j) = .notEnough) ∧ OrderBy2.dec enc = .ok k enc.length :=
  incr_prefix_not_enough OrderBy2.dec_incr enc rest k h

end Dblib.Props.C07.Fields
