/-
C07/C02 tie of the token table: the tokens the receive model dispatches on (`Codec.parsers`) against
the switch of `LookupPackage` regenerated from tds/package.go on every run (`Gen/Lookup.lean`).
A token added to, removed from or re-typed in `LookupPackage` breaks one of these theorems.
-/
import Dblib.Model.Codec.Pkg
import Dblib.Gen.Lookup
import Dblib.Gen.TdsConsts

namespace Dblib.Props.C07
open Dblib Dblib.Codec

/-- the annotation lists exactly the tokens of the parser table, in order -/
theorem c07_meta_matches_parsers : parsers.map (·.1) = parsersMeta.map (·.1) := by decide

/-- every modelled token is a case of `LookupPackage` with the same package type and width flag -/
theorem c07_modelled_tokens_in_lookup : ∀ e ∈ parsersMeta, e ∈ Gen.Lookup.table := by decide

/-- the `LastPkgAcceptor`s of `select` are cases of `LookupPackage` too -/
theorem c07_acceptor_tokens_in_lookup : ∀ e ∈ acceptorsMeta, e ∈ Gen.Lookup.table := by decide

/-- every case of `LookupPackage` is modelled: by the parser table or as an acceptor; every other
token is a `TokenlessPackage` in both -/
theorem c07_tokens_covered :
    Gen.Lookup.table.filter (fun e => !(parsersMeta.contains e) && !(acceptorsMeta.contains e)) = [] := by decide

theorem c07_default_is_tokenless : Gen.Lookup.defaultType = "TokenlessPackage" := by decide

/-- constants the receive models use literally, against the regenerated constants of package tds -/
theorem c07_constants :
    Gen.Tds.TDS_EED_INFO = 2 ∧ Gen.Tds.TDS_ENV_PACKSIZE = 4 ∧ Gen.Tds.TDS_DONE_FINAL = 0
    ∧ Gen.Tds.PacketHeaderSize = 8 ∧ Gen.Tds.TDS_BUF_CLOSE = 9 ∧ Gen.Tds.TDS_BUFSTAT_EOM = 1 := by decide

end Dblib.Props.C07
