/-
C07 for the Cursor codec group: every decoder of the group satisfies the incremental-parsing law
`Incr` (Model/Parser.lean) — a successful parse consumes a prefix of its input, is unaffected by
what follows, and on every proper prefix of what it consumed the answer is `notEnough`: never
`ok`, never another error, never a panic. Proved along the decoders' syntax with the closure
lemmas of Lemmas/Parser.lean.

Why it holds for these ten `ReadFrom`s: every read site returns the sentinel `ErrNotEnoughBytes`
(`CurFetchPackage.ReadFrom` passes the queue's sentinel through at one site), and the only other
error, `if n != totalLength`, is evaluated after the last read.
-/
import Dblib.Model.Codec.Cursor
import Dblib.Lemmas.Parser

namespace Dblib.Props.C07.Cursor
open Dblib Dblib.P Dblib.Codec.Cursor

/-- apply the closure lemmas along the syntax of a `do` block -/
macro "incr_steps" : tactic => `(tactic| repeat (first
  | exact incr_pure _ | exact incr_u8 | exact incr_u16 | exact incr_u32
  | exact incr_uintLE _ | exact incr_intLE _ | exact incr_take _ | exact incr_guard _
  | exact incr_fail | exact incr_crash
  | refine incr_bind ?_ (fun _ => ?_) | refine incr_replicateM _ ?_ | split))

theorem cursorRef_incr : Incr cursorRef := by
  unfold cursorRef; incr_steps

theorem colName_incr : Incr colName := by
  unfold colName; incr_steps

theorem Dyn.dec_incr (wide : Bool) : Incr (Dyn.dec wide) := by
  unfold Dyn.dec; incr_steps

theorem CurDeclare.dec_incr (wide : Bool) : Incr (CurDeclare.dec wide) := by
  unfold CurDeclare.dec
  have := colName_incr
  incr_steps

theorem CurInfo.dec_incr (wide : Bool) : Incr (CurInfo.dec wide) := by
  unfold CurInfo.dec
  have := cursorRef_incr
  incr_steps

theorem CurOpen.dec_incr : Incr CurOpen.dec := by
  unfold CurOpen.dec
  have := cursorRef_incr
  incr_steps

theorem CurFetch.dec_incr : Incr CurFetch.dec := by
  unfold CurFetch.dec
  have := cursorRef_incr
  incr_steps

theorem CurUpdate.dec_incr : Incr CurUpdate.dec := by
  unfold CurUpdate.dec
  have := cursorRef_incr
  incr_steps

theorem CurDelete.dec_incr : Incr CurDelete.dec := by
  unfold CurDelete.dec
  have := cursorRef_incr
  incr_steps

/-! ### C07 proper: truncated encodings

For every kind: if the decoder accepts `enc ++ rest` consuming exactly `enc` (which C06 proves for
the writer's encodings), then every proper prefix of `enc` is `notEnough` and decoding `enc` alone
gives the same package. Instances of `incr_prefix_not_enough`. -/

theorem Dyn.prefix_not_enough (wide : Bool) (enc rest : Bytes) (k : Dyn)
    (h : Dyn.dec wide (enc ++ rest) = .ok k enc.length) :
    (∀ j, j < enc.length → Dyn.dec wide (enc.take j) = .notEnough) ∧
      Dyn.dec wide enc = .ok k enc.length :=
  incr_prefix_not_enough (Dyn.dec_incr wide) enc rest k h

theorem CurDeclare.prefix_not_enough (wide : Bool) (enc rest : Bytes) (k : CurDeclare)
    (h : CurDeclare.dec wide (enc ++ rest) = .ok k enc.length) :
    (∀ j, j < enc.length → CurDeclare.dec wide (enc.take j) = .notEnough) ∧
      CurDeclare.dec wide enc = .ok k enc.length :=
  incr_prefix_not_enough (CurDeclare.dec_incr wide) enc rest k h

theorem CurInfo.prefix_not_enough (wide : Bool) (enc rest : Bytes) (k : CurInfo)
    (h : CurInfo.dec wide (enc ++ rest) = .ok k enc.length) :
    (∀ j, j < enc.length → CurInfo.dec wide (enc.take j) = .notEnough) ∧
      CurInfo.dec wide enc = .ok k enc.length :=
  incr_prefix_not_enough (CurInfo.dec_incr wide) enc rest k h

theorem CurOpen.prefix_not_enough (enc rest : Bytes) (k : CurOpen)
    (h : CurOpen.dec (enc ++ rest) = .ok k enc.length) :
    (∀ j, j < enc.length → CurOpen.dec (enc.take j) = .notEnough) ∧
      CurOpen.dec enc = .ok k enc.length :=
  incr_prefix_not_enough CurOpen.dec_incr enc rest k h

theorem CurFetch.prefix_not_enough (enc rest : Bytes) (k : CurFetch)
    (h : CurFetch.dec (enc ++ rest) = .ok k enc.length) :
    (∀ j, j < enc.length → CurFetch.dec (enc.take j) = .notEnough) ∧
      CurFetch.dec enc = .ok k enc.length :=
  incr_prefix_not_enough CurFetch.dec_incr enc rest k h

theorem CurUpdate.prefix_not_enough (enc rest : Bytes) (k : CurUpdate)
    (h : CurUpdate.dec (enc ++ rest) = .ok k enc.length) :
    (∀ j, j < enc.length → CurUpdate.dec (enc.take j) = .notEnough) ∧
      CurUpdate.dec enc = .ok k enc.length :=
  incr_prefix_not_enough CurUpdate.dec_incr enc rest k h

theorem CurDelete.prefix_not_enough (enc rest : Bytes) (k : CurDelete)
    (h : CurDelete.dec (enc ++ rest) = .ok k enc.length) :
    (∀ j, j < enc.length → CurDelete.dec (enc.take j) = .notEnough) ∧
      CurDelete.dec enc = .ok k enc.length :=
  incr_prefix_not_enough CurDelete.dec_incr enc rest k h

end Dblib.Props.C07.Cursor
