/-
C07 (incomplete package data is always "not enough bytes"), codec group Basic.

For every decoder `K.dec` of `Model/Codec/Basic.lean` the incremental-parsing law `Incr K.dec`
(`Model/Parser.lean`): a successful parse consumes a prefix of its input, is unaffected by what
follows, and EVERY shorter input is `notEnough` — never ok, never another error, never a panic.
The proofs apply the closure lemmas of `Lemmas/Parser.lean` along the decoder's syntax; the two loops
(ENVCHANGE, CAPABILITY) use `incr_loop`; `envLoop_fuel` / `capLoop_fuel` show that their fuel (the
declared length) is never exhausted.

All twelve decoders of the group satisfy the law (the length checks of EED, ERROR, ENVCHANGE and
CAPABILITY and the option check of LOGOUT come after all reads of the bytes they talk about; every
read site returns `ErrNotEnoughBytes` or wraps with `%w`).
`incr_prefixes` is the corollary for encodings: what parses completely is `notEnough` on every
proper prefix (used with the round-trip theorems of `Props/C06/Basic.lean`).
-/
import Dblib.Lemmas.CodecBasic
import Dblib.Props.C06.Basic

namespace Dblib.Props.C07.Basic
open Dblib Dblib.Codec.Basic

/-- one step along the syntax of a decoder -/
macro "incr_step" : tactic => `(tactic| first
  | exact incr_pure _ | exact incr_fail | exact incr_crash | exact incr_u8 | exact incr_u16
  | exact incr_u32 | exact incr_take _ | exact incr_takeInt _ | exact incr_intLE _
  | exact incr_uintLE _ | exact incr_guard _ | exact incr_short
  | apply incr_bind | apply incr_ite | intro _)

macro "incr_auto" : tactic => `(tactic| repeat incr_step)

theorem Done.dec_incr : Incr Done.dec := by unfold Done.dec; incr_auto
theorem EED.dec_incr : Incr EED.dec := by unfold EED.dec; incr_auto
theorem Error.dec_incr : Incr Error.dec := by unfold Error.dec; incr_auto
theorem LoginAck.dec_incr : Incr LoginAck.dec := by unfold LoginAck.dec; incr_auto
theorem Msg.dec_incr : Incr Msg.dec := by unfold Msg.dec; incr_auto
theorem Language.dec_incr : Incr Language.dec := by unfold Language.dec; incr_auto
theorem ReturnStatus.dec_incr : Incr ReturnStatus.dec := by unfold ReturnStatus.dec; incr_auto
theorem Logout.dec_incr : Incr Logout.dec := by unfold Logout.dec; incr_auto

theorem Member.dec_incr : Incr Member.dec := by unfold Member.dec; incr_auto

theorem envStep_incr (st : EnvState) : Incr (envStep st) := by
  unfold envStep
  exact incr_bind Member.dec_incr (fun x => by cases x; exact incr_pure _)

theorem capStep_incr (st : CapState) : Incr (capStep st) := by unfold capStep; incr_auto

theorem Capability.dec_incr : Incr Capability.dec := by
  unfold Capability.dec
  refine incr_bind incr_u16 (fun total => incr_bind (incr_loop _ _ capStep_incr _ _) (fun st => ?_))
  incr_auto

theorem EnvChange.dec_incr : Incr EnvChange.dec := by
  unfold EnvChange.dec
  refine incr_bind incr_u16 (fun length => incr_bind (incr_loop _ _ envStep_incr _ _) (fun st => ?_))
  incr_auto

/-! ### the fuel of the two loops is never exhausted

`loop` answers `short` when it runs out of fuel; the Go loops have no such exit. With the declared
length as fuel that exit is unreachable: once the fuel covers `length - n`, more fuel changes nothing. -/

theorem Member.dec_count {s : Bytes} {m : Member} {i n : Nat} (h : Member.dec s = .ok (m, i) n) :
    3 ≤ i := by
  unfold Member.dec at h
  obtain ⟨_, _, _, _, h, _⟩ := bind_ok_inv h
  obtain ⟨_, _, _, _, h, _⟩ := bind_ok_inv h
  obtain ⟨_, _, _, _, h, _⟩ := bind_ok_inv h
  obtain ⟨_, _, _, _, h, _⟩ := bind_ok_inv h
  obtain ⟨_, _, _, _, h, _⟩ := bind_ok_inv h
  simp only [Pure.pure, P.pure] at h
  injection h with h
  injection h with _ h
  omega

theorem envLoop_fuel (L f : Nat) (st : EnvState) (s : Bytes) (hf : L - st.1 ≤ f) :
    loop (fun st : EnvState => decide (st.1 < L)) envStep (f + 1) st s =
      loop (fun st : EnvState => decide (st.1 < L)) envStep f st s := by
  refine loop_fuel_enough _ envStep (fun st => L - st.1) ?_ ?_ f st s hf
  · intro st hc; simp at hc; omega
  · intro st s st' k hc h
    simp at hc
    unfold envStep at h
    obtain ⟨⟨m, i⟩, _, _, h1, h2, _⟩ := bind_ok_inv h
    have := Member.dec_count h1
    simp only [Pure.pure, P.pure] at h2
    injection h2 with h2
    subst h2
    show L - (st.1 + i) < L - st.1
    omega

theorem capLoop_fuel (L f : Nat) (st : CapState) (s : Bytes) (hf : L - st.1 ≤ f) :
    loop (fun st : CapState => decide (st.1 < L)) capStep (f + 1) st s =
      loop (fun st : CapState => decide (st.1 < L)) capStep f st s := by
  refine loop_fuel_enough _ capStep (fun st => L - st.1) ?_ ?_ f st s hf
  · intro st hc; simp at hc; omega
  · intro st s st' k hc h
    simp at hc
    unfold capStep at h
    obtain ⟨_, _, _, _, h, _⟩ := bind_ok_inv h
    obtain ⟨capLen, _, _, _, h, _⟩ := bind_ok_inv h
    obtain ⟨_, _, _, _, h, _⟩ := bind_ok_inv h
    simp only [Pure.pure, P.pure] at h
    injection h with h
    subst h
    show L - (st.1 + 2 + capLen) < L - st.1
    omega

/-- C07 on encodings: whatever a decoder with the law parses completely is "not enough bytes" on
every proper prefix, and parsing the complete bytes afterwards gives the same result. -/
theorem incr_prefixes {α : Type} {p : P α} (hp : Incr p) {enc : Bytes} {a : α}
    (h : Parses p enc a) :
    (∀ k, k < enc.length → p (enc.take k) = .notEnough) ∧ p enc = .ok a enc.length :=
  incr_prefix_not_enough hp enc [] a (h [])

/- the hypotheses are satisfiable by non-trivial values: successful parses of each shape -/
example : Done.dec [16, 0, 0, 0, 5, 0, 0, 0, 99] = .ok ⟨16, 0, 5⟩ 8 := by decide
example : EnvChange.dec [8, 0, 1, 1, 109, 1, 116, 4, 0, 0] = .ok ⟨[⟨1, [109], [116]⟩, ⟨4, [], []⟩]⟩ 10 := by decide
example : Done.dec [16, 0, 0, 0, 5, 0, 0] = .notEnough := by decide
example : Logout.dec [5] = .err 1 := by decide

/-! ### C07 on the encodings of C06: every proper prefix of a valid encoding is "not enough bytes"

(the layout of the TDS specification for the server-to-client kinds; the encoding the writer produces
for the client-to-server kinds) -/

theorem Done.prefix_not_enough (k : Done) (h : C06.Basic.Done.WF k) (j : Nat)
    (hj : j < (Done.encBody k).length) : Done.dec ((Done.encBody k).take j) = .notEnough :=
  (incr_prefixes Done.dec_incr (C06.Basic.Done.roundtrip k h)).1 j hj

theorem EED.prefix_not_enough (k : EED) (h : C06.Basic.EED.WF k) (j : Nat)
    (hj : j < (EED.encSpecBody k).length) : EED.dec ((EED.encSpecBody k).take j) = .notEnough :=
  (incr_prefixes EED.dec_incr (C06.Basic.EED.spec_roundtrip k h)).1 j hj

theorem Error.prefix_not_enough (k : Error) (h : C06.Basic.Error.WF k) (j : Nat)
    (hj : j < (Error.encSpecBody k).length) : Error.dec ((Error.encSpecBody k).take j) = .notEnough :=
  (incr_prefixes Error.dec_incr (C06.Basic.Error.spec_roundtrip k h)).1 j hj

theorem LoginAck.prefix_not_enough (k : LoginAck) (h : C06.Basic.LoginAck.WF k) (j : Nat)
    (hj : j < (LoginAck.encSpecBody k).length) :
    LoginAck.dec ((LoginAck.encSpecBody k).take j) = .notEnough :=
  (incr_prefixes LoginAck.dec_incr (C06.Basic.LoginAck.spec_roundtrip k h)).1 j hj

theorem Msg.prefix_not_enough (k : Msg) (h : C06.Basic.Msg.WF k) (j : Nat)
    (hj : j < (Msg.encBody k).length) : Msg.dec ((Msg.encBody k).take j) = .notEnough :=
  (incr_prefixes Msg.dec_incr (C06.Basic.Msg.roundtrip k h)).1 j hj

theorem EnvChange.prefix_not_enough (k : EnvChange) (h : C06.Basic.EnvChange.WF k) (j : Nat)
    (hj : j < (EnvChange.encBody k).length) :
    EnvChange.dec ((EnvChange.encBody k).take j) = .notEnough :=
  (incr_prefixes EnvChange.dec_incr (C06.Basic.EnvChange.roundtrip k h)).1 j hj

theorem Capability.prefix_not_enough (k : Capability) (h : C06.Basic.Capability.WF k) (j : Nat)
    (hj : j < (Capability.encBody k).length) :
    Capability.dec ((Capability.encBody k).take j) = .notEnough :=
  (incr_prefixes Capability.dec_incr (C06.Basic.Capability.roundtrip k h)).1 j hj

theorem Language.prefix_not_enough (k : Language) (h : C06.Basic.Language.WF k) (j : Nat)
    (hj : j < (Language.encBody k).length) :
    Language.dec ((Language.encBody k).take j) = .notEnough :=
  (incr_prefixes Language.dec_incr (C06.Basic.Language.roundtrip k h)).1 j hj

theorem ReturnStatus.prefix_not_enough (k : ReturnStatus) (h : C06.Basic.ReturnStatus.WF k) (j : Nat)
    (hj : j < (ReturnStatus.encBody k).length) :
    ReturnStatus.dec ((ReturnStatus.encBody k).take j) = .notEnough :=
  (incr_prefixes ReturnStatus.dec_incr (C06.Basic.ReturnStatus.roundtrip k h)).1 j hj

theorem Logout.prefix_not_enough : Logout.dec [] = .notEnough := rfl

end Dblib.Props.C07.Basic
