/-
C13 — closing the connection closes all its channels and the transport and ends the reader.

`Conn.Close` (tds/conn.go): collect the channels of the id → channel map under its read lock, `Close`
each of them, cancel the connection context (which ends the reader loop, `readerErrSendsGuarded`),
close the transport. The ids of a connection's channels are arbitrary: logical channels are created
and closed independently, so the set of ids may have gaps. The shape of the function is regenerated
from the source (`Gen/Shape.lean`: `connCloseCollectsAll`, `connCloseClosesEach`,
`connCloseCancelsAndClosesTransport`); the model is parameterised by those facts.
-/
import Dblib.Gen.Shape

namespace Dblib.Props.C13
open Dblib

/-- the part of a connection `Close` is about: its channels (id, closed?), context, transport -/
structure ConnState where
  chans : List (Nat × Bool) := []
  ctxCancelled : Bool := false
  transportClosed : Bool := false

/-- `Channel.Close` of the channel with this id -/
def closeChan (s : ConnState) (id : Nat) : ConnState :=
  { s with chans := s.chans.map (fun e => if e.1 = id then (e.1, true) else e) }

/-- `Conn.Close` as the regenerated facts describe it -/
def connClose (s : ConnState) : ConnState :=
  let ids := if Gen.Shape.connCloseCollectsAll then s.chans.map (·.1) else []
  let s1 := if Gen.Shape.connCloseClosesEach then ids.foldl closeChan s else s
  if Gen.Shape.connCloseCancelsAndClosesTransport then { s1 with ctxCancelled := true, transportClosed := true }
  else s1

theorem foldl_closeChan (ids : List Nat) : ∀ (s : ConnState),
    (ids.foldl closeChan s).chans = s.chans.map (fun e => (e.1, e.2 || ids.contains e.1)) ∧
    (ids.foldl closeChan s).ctxCancelled = s.ctxCancelled ∧
    (ids.foldl closeChan s).transportClosed = s.transportClosed := by
  induction ids with
  | nil => intro s; simp
  | cons i rest ih =>
    intro s
    obtain ⟨h1, h2, h3⟩ := ih (closeChan s i)
    refine ⟨?_, by simpa [closeChan] using h2, by simpa [closeChan] using h3⟩
    rw [List.foldl_cons, h1]
    show (s.chans.map (fun e => if e.1 = i then (e.1, true) else e)).map _ = _
    rw [List.map_map]
    apply List.map_congr_left
    intro e _
    simp only [Function.comp]
    by_cases h : e.1 = i
    · simp [h]
    · have hne : (e.1 == i) = false := by simpa using h
      simp [h, List.contains_cons, hne]

/-- **closing the connection closes all its channels** — whatever ids they have — **cancels the
context and closes the transport**; the channels are the same ones as before -/
theorem c13_conn_close_all (s : ConnState) :
    (∀ e ∈ (connClose s).chans, e.2 = true) ∧
    (connClose s).chans.map (·.1) = s.chans.map (·.1) ∧
    (connClose s).ctxCancelled = true ∧ (connClose s).transportClosed = true := by
  obtain ⟨h1, _, _⟩ := foldl_closeChan (s.chans.map (·.1)) s
  have hc : (connClose s).chans = s.chans.map (fun e => (e.1, e.2 || (s.chans.map (·.1)).contains e.1)) := by
    simp only [connClose, Gen.Shape.connCloseCollectsAll, Gen.Shape.connCloseClosesEach,
      Gen.Shape.connCloseCancelsAndClosesTransport, if_true]
    exact h1
  refine ⟨?_, ?_, ?_, ?_⟩
  · intro e he
    rw [hc, List.mem_map] at he
    obtain ⟨a, ha, rfl⟩ := he
    have : (s.chans.map (·.1)).contains a.1 = true := by
      rw [List.contains_iff_mem, List.mem_map]
      exact ⟨a, ha, rfl⟩
    show (a.2 || (s.chans.map (·.1)).contains a.1) = true
    rw [this, Bool.or_true]
  · rw [hc, List.map_map]
    apply List.map_congr_left
    intro e _
    rfl
  · simp only [connClose, Gen.Shape.connCloseCancelsAndClosesTransport, if_true]
  · simp only [connClose, Gen.Shape.connCloseCancelsAndClosesTransport, if_true]

/-- non-vacuity: ids with a gap (channel 1 was closed and removed earlier) -/
example : (connClose { chans := [(0, false), (2, false), (3, false)] }).chans = [(0, true), (2, true), (3, true)] := by
  decide

/-! ### Close of a logical channel whose teardown packet cannot be written -/

/-- what `Channel.Close` of a logical channel leaves behind -/
structure CloseOutcome where
  reported : Bool       -- Close returned an error
  closed : Bool         -- the channel answers ErrChannelClosed from now on
  registered : Bool     -- the id is still in the connection's table (packets for it are still routed)
deriving Repr, DecidableEq

/-- `Channel.Close` (logical channel) as the regenerated fact describes it: the teardown packet is written
— the transport may refuse it — and unless that error ends the call the client-side teardown follows -/
def closeLogical (tearsDownAfterError writeOk : Bool) : CloseOutcome :=
  if writeOk then ⟨false, true, false⟩
  else if tearsDownAfterError then ⟨true, true, false⟩
  else ⟨true, false, true⟩

/-- **a refused teardown packet does not keep the channel alive**: whether or not the transport takes the
teardown packet, after `Close` the channel is closed and its id is no longer routed; the refusal is
reported. (Tied to the code by the regenerated fact `closeTearsDownAfterWriteError` and by the
`mux closefail` lines of the C12 harness.) -/
theorem c13_close_after_refused_teardown (writeOk : Bool) :
    (closeLogical Gen.Shape.closeTearsDownAfterWriteError writeOk).closed = true ∧
    (closeLogical Gen.Shape.closeTearsDownAfterWriteError writeOk).registered = false ∧
    ((closeLogical Gen.Shape.closeTearsDownAfterWriteError writeOk).reported = !writeOk) := by
  cases writeOk <;> simp [closeLogical, Gen.Shape.closeTearsDownAfterWriteError]

/-- the statement is about the fact: without it a refused teardown leaves the channel open and routed -/
example : (closeLogical false false).closed = false ∧ (closeLogical false false).registered = true := by decide

end Dblib.Props.C13
