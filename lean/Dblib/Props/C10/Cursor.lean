/-
C10 for the Cursor codec group: no input makes a decoder of the group panic
(`K.dec_total : ∀ s, K.dec s ≠ .panic`), proved along the decoders' syntax.

Why it holds for these ten `ReadFrom`s: every wire length is an unsigned 8/16/32-bit value
converted to a 64-bit `int`, so no `Bytes(n)` / `String(n)` gets a negative length; the decoders
contain no subtraction on lengths, no indexing, no slicing and no type assertion. The model has
therefore no `crash` site and the theorem is the statement that composition cannot create one.
(What is NOT covered here: the amount of memory `PacketQueue.Bytes` allocates for a declared
length — up to 4 GiB for the statement of `dynamic2` / `curdeclare3` — see the report.)
-/
import Dblib.Lemmas.CodecCursor

namespace Dblib.Props.C10.Cursor
open Dblib Dblib.P Dblib.Codec.Cursor Dblib.CodecCursor

theorem cursorRef_total : Total cursorRef := by
  unfold cursorRef; total_steps

theorem colName_total : Total colName := by
  unfold colName; total_steps

theorem Dyn.dec_total (wide : Bool) : ∀ s, Dyn.dec wide s ≠ .panic := by
  show Total _
  unfold Dyn.dec; total_steps

theorem CurDeclare.dec_total (wide : Bool) : ∀ s, CurDeclare.dec wide s ≠ .panic := by
  show Total _
  unfold CurDeclare.dec
  have := colName_total
  total_steps

theorem CurInfo.dec_total (wide : Bool) : ∀ s, CurInfo.dec wide s ≠ .panic := by
  show Total _
  unfold CurInfo.dec
  have := cursorRef_total
  total_steps

theorem CurOpen.dec_total : ∀ s, CurOpen.dec s ≠ .panic := by
  show Total _
  unfold CurOpen.dec
  have := cursorRef_total
  total_steps

theorem CurFetch.dec_total : ∀ s, CurFetch.dec s ≠ .panic := by
  show Total _
  unfold CurFetch.dec
  have := cursorRef_total
  total_steps

theorem CurUpdate.dec_total : ∀ s, CurUpdate.dec s ≠ .panic := by
  show Total _
  unfold CurUpdate.dec
  have := cursorRef_total
  total_steps

theorem CurDelete.dec_total : ∀ s, CurDelete.dec s ≠ .panic := by
  show Total _
  unfold CurDelete.dec
  have := cursorRef_total
  total_steps

end Dblib.Props.C10.Cursor
