/-
C10 (no server input can crash the client), codec group Basic.

`K.dec_total : ∀ s, K.dec s ≠ .panic` for every decoder of `Model/Codec/Basic.lean`, by the
closure lemmas of `NoPanic` (`Lemmas/CodecBasic.lean`) along the decoder's syntax.

C10 holds for every decoder of the group. LANGUAGE was the exception (declared length 0 →
`Bytes(-1)` → `makeslice` panic); since commit c622599 `ReadFrom` rejects the length 0 right after the
length field: `Language.dec_len0` (`pkg dec 21 - 0000000000` and `pkg dec 21 - 00000000` answer `err`),
and `int(totalLength) - 1` is never negative at the read (`Language.dec_total`).

Not covered here (noted for C10's allocation bound): the declared lengths that `PacketQueue.Bytes`
allocates before it checks availability. In this group only LANGUAGE can declare more than 64 KiB
(a 4-byte length: up to 4 GiB, allocated by `make` and copied once more by `string(bs)`); EED and
ERROR messages are bounded by their 2-byte lengths (≤ 65535), all other strings by 1-byte lengths.
-/
import Dblib.Lemmas.CodecBasic

namespace Dblib.Props.C10.Basic
open Dblib Dblib.Codec.Basic

macro "np_step" : tactic => `(tactic| first
  | exact np_pure _ | exact np_fail | exact np_u8 | exact np_u16 | exact np_u32 | exact np_take _
  | exact np_intLE _ | exact np_uintLE _ | exact np_guard _ | exact np_short
  | apply np_bind | apply np_ite | intro _)

macro "np_auto" : tactic => `(tactic| repeat np_step)

theorem Done.dec_total : ∀ s, Done.dec s ≠ .panic := by
  show NoPanic Done.dec; unfold Done.dec; np_auto
theorem EED.dec_total : ∀ s, EED.dec s ≠ .panic := by
  show NoPanic EED.dec; unfold EED.dec; np_auto
theorem Error.dec_total : ∀ s, Error.dec s ≠ .panic := by
  show NoPanic Error.dec; unfold Error.dec; np_auto
theorem LoginAck.dec_total : ∀ s, LoginAck.dec s ≠ .panic := by
  show NoPanic LoginAck.dec; unfold LoginAck.dec; np_auto
theorem Msg.dec_total : ∀ s, Msg.dec s ≠ .panic := by
  show NoPanic Msg.dec; unfold Msg.dec; np_auto
theorem ReturnStatus.dec_total : ∀ s, ReturnStatus.dec s ≠ .panic := by
  show NoPanic ReturnStatus.dec; unfold ReturnStatus.dec; np_auto
theorem Logout.dec_total : ∀ s, Logout.dec s ≠ .panic := by
  show NoPanic Logout.dec; unfold Logout.dec; np_auto

theorem Member.dec_np : NoPanic Member.dec := by unfold Member.dec; np_auto

theorem envStep_np (st : EnvState) : NoPanic (envStep st) := by
  unfold envStep
  exact np_bind Member.dec_np (fun x => by cases x; exact np_pure _)

theorem capStep_np (st : CapState) : NoPanic (capStep st) := by unfold capStep; np_auto

theorem EnvChange.dec_total : ∀ s, EnvChange.dec s ≠ .panic := by
  show NoPanic EnvChange.dec
  unfold EnvChange.dec
  refine np_bind np_u16 (fun length => np_bind (np_loop _ _ envStep_np _ _) (fun st => ?_))
  np_auto

theorem Capability.dec_total : ∀ s, Capability.dec s ≠ .panic := by
  show NoPanic Capability.dec
  unfold Capability.dec
  refine np_bind np_u16 (fun total => np_bind (np_loop _ _ capStep_np _ _) (fun st => ?_))
  np_auto

theorem Language.dec_total : ∀ s, Language.dec s ≠ .panic := by
  show NoPanic Language.dec
  unfold Language.dec
  refine np_bind np_u32 (fun total => ?_)
  by_cases ht : total = 0
  · rw [if_pos ht]; exact np_fail
  · rw [if_neg ht]
    exact np_bind np_u8 (fun _ => np_bind (np_takeInt_nonneg (by omega)) (fun _ => np_pure _))

/-- what LANGUAGE answers for the declared length 0: an error as soon as the four length bytes are
there, whatever follows (before the repair: a panic once the status byte was there) -/
theorem Language.dec_len0 (rest : Bytes) : Language.dec (0 :: 0 :: 0 :: 0 :: rest) = .err 4 := by
  have h : P.u32 (0 :: 0 :: 0 :: 0 :: rest) = .ok 0 4 := parses_u32 0 (by decide) rest
  unfold Language.dec
  simp only [Bind.bind, P.bind, h]
  rfl

/- declared lengths ≥ 1 parse as before -/
example : Language.dec [4, 0, 0, 0, 0, 115, 101, 108] = .ok ⟨0, [115, 101, 108]⟩ 8 := by decide
example : Language.dec [1, 0, 0, 0, 7] = .ok ⟨7, []⟩ 5 := by decide
example : Language.dec [0, 0, 0, 0] = .err 4 := by decide
example : Language.dec [0, 0, 0] = .notEnough := by decide

end Dblib.Props.C10.Basic
