/-
C10 (no server input can crash the client), codec group Basic.

`K.dec_total : ∀ s, K.dec s ≠ .panic` for every decoder of `Model/Codec/Basic.lean`, by the
closure lemmas of `NoPanic` (`Lemmas/CodecBasic.lean`) along the decoder's syntax.

One decoder can panic: LANGUAGE. `LanguagePackage.ReadFrom` computes `int(totalLength) - 1` and hands
it to `ch.String`, i.e. `make([]byte, -1)` for a declared length 0 (`Language.dec_panic_witness`;
real code: `pkg dec 21 - 0000000000` answers `panic`). `Language.dec_panic_only_len0` shows that
this is the only way: with any other declared length the decoder does not panic.
(LANGUAGE is a client-to-server package; the client's reader only meets it if a server sends the
token 0x21.)

Not covered here (noted for C10's allocation bound): the declared lengths that `PacketQueue.Bytes`
allocates before it checks availability. In this group only LANGUAGE can declare more than 64 KiB
(a 4-byte length: up to 4 GiB, allocated by `make` and copied once more by `string(bs)`); EED and
ERROR messages are bounded by their 2-byte lengths (≤ 65535), all other strings by 1-byte lengths.
-/
import Dblib.Lemmas.CodecBasic

namespace Dblib.Props.C10.Basic
open Dblib Dblib.Codec.Basic

macro "np_step" : tactic => `(tactic| first
  | exact np_pure _ | exact np_fail | exact np_u8 | exact np_u16 | exact np_u32 | exact np_take _
  | exact np_intLE _ | exact np_uintLE _ | exact np_guard _ | exact np_short
  | apply np_bind | apply np_ite | intro _)

macro "np_auto" : tactic => `(tactic| repeat np_step)

theorem Done.dec_total : ∀ s, Done.dec s ≠ .panic := by
  show NoPanic Done.dec; unfold Done.dec; np_auto
theorem EED.dec_total : ∀ s, EED.dec s ≠ .panic := by
  show NoPanic EED.dec; unfold EED.dec; np_auto
theorem Error.dec_total : ∀ s, Error.dec s ≠ .panic := by
  show NoPanic Error.dec; unfold Error.dec; np_auto
theorem LoginAck.dec_total : ∀ s, LoginAck.dec s ≠ .panic := by
  show NoPanic LoginAck.dec; unfold LoginAck.dec; np_auto
theorem Msg.dec_total : ∀ s, Msg.dec s ≠ .panic := by
  show NoPanic Msg.dec; unfold Msg.dec; np_auto
theorem ReturnStatus.dec_total : ∀ s, ReturnStatus.dec s ≠ .panic := by
  show NoPanic ReturnStatus.dec; unfold ReturnStatus.dec; np_auto
theorem Logout.dec_total : ∀ s, Logout.dec s ≠ .panic := by
  show NoPanic Logout.dec; unfold Logout.dec; np_auto

theorem Member.dec_np : NoPanic Member.dec := by unfold Member.dec; np_auto

theorem envStep_np (st : EnvState) : NoPanic (envStep st) := by
  unfold envStep
  exact np_bind Member.dec_np (fun x => by cases x; exact np_pure _)

theorem capStep_np (st : CapState) : NoPanic (capStep st) := by unfold capStep; np_auto

theorem EnvChange.dec_total : ∀ s, EnvChange.dec s ≠ .panic := by
  refine np_of_fuel EnvChange.decFuel (fun f => ?_)
  unfold EnvChange.decFuel
  refine np_bind np_u16 (fun length => np_bind (np_loop _ _ envStep_np _ _) (fun st => ?_))
  np_auto

theorem Capability.dec_total : ∀ s, Capability.dec s ≠ .panic := by
  show NoPanic Capability.dec
  unfold Capability.dec
  refine np_bind np_u16 (fun total => np_bind (np_loop _ _ capStep_np _ _) (fun st => ?_))
  np_auto

/-- FALSE for LANGUAGE: `∀ s, Language.dec s ≠ .panic`. Witness: declared length 0 followed by a
status byte (`pkg dec 21 - 0000000000`). -/
theorem Language.dec_panic_witness : Language.dec [0, 0, 0, 0, 0] = .panic := by decide

/-- the panic needs the declared length 0 (and the status byte to be there) -/
theorem Language.dec_panic_only_len0 (s : Bytes) (h : Language.dec s = .panic) :
    P.u32 s = .ok 0 4 ∧ 5 ≤ s.length := by
  unfold Language.dec at h
  rcases bind_panic_inv h with h1 | ⟨total, n, h1, h2⟩
  · exact absurd h1 (np_u32 s)
  · obtain ⟨hn, hlen⟩ := uintLE_ok_inv h1
    subst hn
    rcases bind_panic_inv h2 with h3 | ⟨status, m, h3, h4⟩
    · exact absurd h3 (np_u8 _)
    · have hm := u8_ok_len h3
      simp only [List.length_drop] at hm
      by_cases ht : total = 0
      · subst ht; exact ⟨h1, by omega⟩
      · have : NoPanic (P.takeInt ((total : Int) - 1) >>= fun cmd =>
            (Pure.pure ({ status, cmd } : Language) : P Language)) :=
          np_bind (np_takeInt_nonneg (by omega)) (fun _ => np_pure _)
        exact absurd h4 (this _)

/-- with a declared length of at least 1 LANGUAGE does not panic -/
example : Language.dec [4, 0, 0, 0, 0, 115, 101, 108] = .ok ⟨0, [115, 101, 108]⟩ 8 := by decide
example : Language.dec [1, 0, 0, 0, 7] = .ok ⟨7, []⟩ 5 := by decide
example : Language.dec [0, 0, 0, 0] = .notEnough := by decide

end Dblib.Props.C10.Basic
