/-
C10, value leg — no server data makes `DataType.GoValue` panic.

`c10_govalue_total`: for EVERY data type byte `t` (indeed every natural number) and EVERY byte string `bs`,
`goValue t bs ≠ .panic`.  The model (`Dblib/Model/Value.lean`) has an explicit `.panic` outcome at every place where
the Go code indexes or slices without a check of its own (`bs[0]` for BIT, `endian.Uint32(bs)` / `Uint64(bs)` for
DATE / DATEN / BIGDATETIMEN); the theorem shows each is unreachable: BIT by the `ByteSize` check of `GoValue` (read
off the regenerated `ByteSizes` table), the temporal ones by the length checks added in 7a20ae8 (before that commit
`val dec 7b 00` … `val dec bb 00000000000000` panicked).
-/
import Dblib.Model.Value
import Dblib.Lemmas.ValueArms

namespace Dblib.Props.C10.Values
open Dblib Dblib.Value Dblib.AseTime Dblib.Gen Dblib.Lemmas.ValueArms

theorem readAs_ne_panic (w : Nat) (bs : Bytes) (mk : Nat → Val) : readAs w bs mk ≠ .panic := by
  unfold readAs; split <;> simp

theorem ite_ne_panic (c : Prop) [Decidable c] (a b : VOut) (ha : c → a ≠ .panic) (hb : ¬ c → b ≠ .panic) :
    (if c then a else b) ≠ .panic := by
  split
  · exact ha ‹_›
  · exact hb ‹_›

/-- the arms of `goValue` never panic once the `ByteSize` check of `GoValue` has passed -/
theorem goValueArm_ne_panic (t : Nat) (bs : Bytes) (h : sizeBad t bs = false) : goValueArm t bs ≠ .panic := by
  unfold goValueArm
  repeat' (first
    | (apply ite_ne_panic <;> intro)
    | exact readAs_ne_panic _ _ _
    | (intro hc; exact VOut.noConfusion hc))
  · -- BIT: `bs[0]` is guarded by the ByteSize check (ByteSizes[BIT] = 1)
    rename_i hb; subst hb
    cases bs with
    | nil => exact absurd h (by decide)
    | cons b tl => intro hc; exact VOut.noConfusion hc
  · -- DECN / NUMN: `bs[1:]`, `bs[0]` after the `len(bs) == 0` check
    cases bs <;> (intro hc; exact VOut.noConfusion hc)
  · -- DATE / DATEN: `endian.Uint32(bs)` after `len(bs) != 4` has been rejected
    rename_i h0 h4
    have hl : bs.length = 4 := by omega
    have : getLE 4 bs = some (leDecode (bs.take 4)) := by simp [getLE, hl]
    rw [this]; intro hc; exact VOut.noConfusion hc
  · -- BIGDATETIMEN: `endian.Uint64(bs)` after `len(bs) != 8` has been rejected
    rename_i h0 h8
    have hl : bs.length = 8 := by omega
    have : getLE 8 bs = some (leDecode (bs.take 8)) := by simp [getLE, hl]
    rw [this]; intro hc; exact VOut.noConfusion hc

theorem goValueBase_ne_panic (t : Nat) (bs : Bytes) : goValueBase t bs ≠ .panic := by
  unfold goValueBase
  cases h : sizeBad t bs
  · simpa using goValueArm_ne_panic t bs h
  · simp

/-- **C10, value leg: `GoValue` never panics** — every data type (every `t`, in particular all 256 byte values),
every byte string. -/
theorem c10_govalue_total (t : Nat) (bs : Bytes) : goValue t bs ≠ .panic := by
  unfold goValue
  cases h : sizeBad t bs
  · simp only [Bool.false_eq_true, if_false]
    unfold goValueSwitch
    repeat' (first
      | exact goValueBase_ne_panic _ _
      | exact goValueArm_ne_panic t bs h
      | (apply ite_ne_panic <;> intro)
      | (intro hc; exact VOut.noConfusion hc))
  · simp

example : goValue Types.DATEN [0] = .err ∧ goValue Types.BIGDATETIMEN [0, 0, 0, 0, 0, 0, 0] = .err := by decide +kernel

end Dblib.Props.C10.Values
