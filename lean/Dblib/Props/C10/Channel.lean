/-
C10 at the channel: whatever packet size a server announces, the size the channel puts in force is one
the transmit path can use (room for data after the 8-byte header, fits the 16-bit length field) —
the next send can neither loop on empty packets nor slice with a negative bound (C01's theorems hold for
every size 9..65535). Model: `Rx.envMembers` (transcription of `handleSpecialPackage`); seeded change
C10-4 stored the size before checking it.
-/
import Dblib.Model.ChanRx

namespace Dblib.Props.C10.Channel
open Dblib Dblib.Rx
variable {Pkg : Type}

theorem packSize_events_usable (ops : Ops Pkg) (nEnv : Nat) :
    ∀ (ms : List (Nat × Bytes × Bytes)) (n : Int),
      Ev.packSize n ∈ (envMembers ops nEnv ms).1 → 8 < n ∧ n ≤ 65535 := by
  intro ms
  induction ms with
  | nil => intro n h; simp [envMembers] at h
  | cons m ms ih =>
    intro n h
    obtain ⟨t, old, new⟩ := m
    simp only [envMembers] at h
    split at h
    · split at h
      · simp at h
      · rename_i v _
        split at h
        · simp at h
        · rename_i hv
          simp only [List.mem_cons, List.mem_append, List.mem_map, Ev.packSize.injEq] at h
          rcases h with (h | h) | h
          · subst h; omega
          · obtain ⟨_, _, h⟩ := h; cases h
          · exact ih n h
    · simp only [List.mem_append, List.mem_map] at h
      rcases h with ⟨_, _, h⟩ | h
      · cases h
      · exact ih n h

/-- no package makes the channel put an unusable packet size in force -/
theorem c10_packsize_in_force_usable (ops : Ops Pkg) (rx : Rx Pkg) (pkg : Pkg) (n : Int)
    (h : Ev.packSize n ∈ (accept ops rx pkg).2) : 8 < n ∧ n ≤ 65535 := by
  unfold accept at h
  split at h
  · rename_i ms _
    have hm : Ev.packSize n ∈ (envMembers ops rx.nEnv ms).1 := by
      simp only at h
      by_cases hr : (envMembers ops rx.nEnv ms).2 = true
      · simpa [hr] using h
      · simp only [hr, Bool.false_eq_true, if_false, List.mem_append, List.mem_singleton] at h
        rcases h with h | h
        · exact h
        · cases h
    exact packSize_events_usable ops rx.nEnv ms n hm
  · simp at h
  · simp only [List.mem_append, List.mem_map, List.mem_singleton] at h
    rcases h with ⟨_, _, h⟩ | h <;> cases h
  · simp at h

end Dblib.Props.C10.Channel
