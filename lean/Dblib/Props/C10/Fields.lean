/-
C10 for the Fields codec group: which inputs can make a decoder of the group panic.

* Formats (PARAMFMT/2, ROWFMT/2) and ORDERBY/2: `K.dec_total : ∀ s, K.dec s ≠ .panic` — for every
  data type byte, known or not (an unknown byte is the error `unhandled datatype`, BLOB's missing
  `LengthBytes` entry makes a byte counter negative, not a length): the decoders have no `crash` site.
* ROW / PARAMS: the row decoder itself has no panic site either (a fixed size is never negative:
  `byteSize_ge`; wire lengths are unsigned; the BLOB chunk loop and the text-pointer reader only
  read). The only way to a panic is `DataType.GoValue` on a completely received datum, which the
  reader does not recover from. Hence `Row.dec_total_of`: for every list of formats, the row decoder
  is total provided `Value.goValue` is total on the data types of its value columns (nothing is
  required of text-pointer and BLOB columns: `Row.dec_total_of_cols`).
  With `c10_govalue_total` (Props/C10/Values.lean: `GoValue` never panics) this gives the
  unconditional `Row.dec_total`: for every list of formats, no byte string makes the row decoder panic.
  History: up to /repo 58e2a2c `GoValue` did panic on a DATEN datum of 1..3 bytes and a BIGDATETIMEN
  datum of 1..7 bytes (`endian.Uint32` / `Uint64` on a short slice; `pkg dec d1 <ROWFMT2 with a DATEN
  column> 01aa` → panic); fixed at the value level by /repo 7a20ae8.
-/
import Dblib.Lemmas.CodecFields
import Dblib.Props.C10.Values

namespace Dblib.Props.C10.Fields
open Dblib Dblib.P Dblib.Codec.Fields Dblib.CodecCursor Dblib.CodecFields

/-! ## formats -/

theorem readFromBase_total (t : Nat) (preset : Int) : Total (readFromBase t preset) := by
  unfold readFromBase readLengthBytes; total_steps

theorem fmtTail_total (cls : FmtClass) (t : Nat) (preset : Int) : Total (fmtTail cls t preset) := by
  unfold fmtTail
  have := readFromBase_total t preset
  total_steps

theorem str8_total : Total str8 := by unfold str8; total_steps

theorem readFromField_total (names wide : Bool) : Total (readFromField names wide) := by
  unfold readFromField
  have h := fmtTail_total
  have hs := str8_total
  refine total_bind ?_ (fun _ => total_bind hs (fun _ => total_bind (total_uintLE _) (fun _ =>
    total_bind (total_intLE _) (fun _ => total_bind total_u8 (fun token => ?_)))))
  · total_steps
  · split
    · exact total_fail
    · exact total_bind (h _ _ _) (fun _ => total_bind hs (fun _ => total_pure _))

theorem ParamFmt.field_total (wide : Bool) : Total (ParamFmt.field wide) := by
  unfold ParamFmt.field
  exact total_bind (readFromField_total _ _) (fun _ => total_bind (total_guard _) (fun _ => total_pure _))

/-- no byte string makes the PARAMFMT / PARAMFMT2 reader panic -/
theorem ParamFmt.dec_total (wide : Bool) : ∀ s, ParamFmt.dec wide s ≠ .panic := by
  show Total _
  unfold ParamFmt.dec
  have := ParamFmt.field_total wide
  total_steps

theorem RowFmt.field_total (wide : Bool) : Total (RowFmt.field wide) := readFromField_total wide wide

/-- no byte string makes the ROWFMT / ROWFMT2 reader panic -/
theorem RowFmt.dec_total (wide : Bool) : ∀ s, RowFmt.dec wide s ≠ .panic := by
  show Total _
  unfold RowFmt.dec
  have := RowFmt.field_total wide
  total_steps

theorem OrderBy.dec_total : ∀ s, OrderBy.dec s ≠ .panic := by
  show Total _
  unfold OrderBy.dec
  exact total_bind total_u16 (fun _ => total_replicateM _ total_u8)

theorem OrderBy2.dec_total : ∀ s, OrderBy2.dec s ≠ .panic := by
  show Total _
  unfold OrderBy2.dec; total_steps

/-! ## field data -/

theorem readStatus_total (f : Fmt) : Total (readStatus f) := by
  unfold readStatus; total_steps

/-- reading the raw bytes of a datum never panics: a fixed size is never negative -/
theorem rawBytes_total (t : Nat) : Total (rawBytes t) := by
  unfold rawBytes
  split
  · rename_i hfix
    apply total_crash_free_takeInt
    have := byteSize_ge t
    simp only [fmtLengthBytes, hfix, if_true]
    simp only [isFixed, bne_iff_ne, ne_eq] at hfix
    omega
  · unfold readLengthBytes; total_steps

theorem liftVal_total (o : Value.VOut) (h : o ≠ .panic) : Total (liftVal o) := by
  cases o with
  | ok v => exact total_pure v
  | err => exact total_fail
  | panic => exact absurd rfl h

theorem baseData_total (f : Fmt) (h : ∀ bs, Value.goValue f.dataType bs ≠ .panic) : Total (baseData f) := by
  unfold baseData
  exact total_bind (readStatus_total f) (fun _ => total_bind (rawBytes_total _) (fun bs =>
    total_bind (liftVal_total _ (h bs)) (fun _ => total_pure _)))

theorem withPrecisionScale_total (f : Fmt) (v : Value.Val) : Total (withPrecisionScale f v) := by
  unfold withPrecisionScale; total_steps

theorem txtData_total (f : Fmt) : Total (txtData f) := by
  unfold txtData
  have := readStatus_total f
  total_steps

theorem blobData_total (f : Fmt) : Total (blobData f) := by
  unfold blobData
  have := readStatus_total f
  have := blobLoop_total
  total_steps

theorem dataField_total (f : Fmt) (h : ∀ bs, Value.goValue f.dataType bs ≠ .panic) : Total (dataField f) := by
  unfold dataField
  have h1 := baseData_total f h
  have h2 := withPrecisionScale_total f
  split
  · exact total_bind h1 (fun _ => total_pure _)
  · exact total_bind h1 (fun _ => total_pure _)
  · exact total_bind h1 (fun _ => total_bind (h2 _) (fun _ => total_pure _))
  · exact blobData_total f
  · exact txtData_total f
  · exact total_fail

/-- the row decoder panics only where `GoValue` panics on a completely received datum -/
theorem Row.dec_total_of (fmts : List Fmt)
    (h : ∀ f ∈ fmts, ∀ bs, Value.goValue f.dataType bs ≠ .panic) : ∀ s, Row.dec fmts s ≠ .panic := by
  show Total _
  unfold Row.dec
  refine total_sequence _ ?_
  intro p hp
  obtain ⟨f, hf, rfl⟩ := List.mem_map.mp hp
  exact dataField_total f (h f hf)

/-- text-pointer and BLOB columns never panic, whatever `GoValue` does (it is not called for them) -/
theorem dataField_total_txt_blob (f : Fmt) (h : f.cls = some .txtPtr ∨ f.cls = some .blob) : Total (dataField f) := by
  unfold dataField
  rcases h with h | h <;> rw [h]
  · exact txtData_total f
  · exact blobData_total f

/-- a format list whose value columns are all of types on which `GoValue` is total has a total row decoder;
text-pointer and BLOB columns need no hypothesis -/
theorem Row.dec_total_of_cols (fmts : List Fmt)
    (h : ∀ f ∈ fmts, f.cls = some .txtPtr ∨ f.cls = some .blob ∨ ∀ bs, Value.goValue f.dataType bs ≠ .panic) :
    ∀ s, Row.dec fmts s ≠ .panic := by
  show Total _
  unfold Row.dec
  refine total_sequence _ ?_
  intro p hp
  obtain ⟨f, hf, rfl⟩ := List.mem_map.mp hp
  rcases h f hf with h1 | h1 | h1
  · exact dataField_total_txt_blob f (Or.inl h1)
  · exact dataField_total_txt_blob f (Or.inr h1)
  · exact dataField_total f h1

/-- **ROW / PARAMS**: for every list of formats, no byte string makes the row decoder panic
(`c10_govalue_total`, Props/C10/Values.lean: `GoValue` never panics) -/
theorem Row.dec_total (fmts : List Fmt) : ∀ s, Row.dec fmts s ≠ .panic :=
  Row.dec_total_of fmts (fun f _ bs => Dblib.Props.C10.Values.c10_govalue_total f.dataType bs)

end Dblib.Props.C10.Fields
