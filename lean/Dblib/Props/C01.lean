/-
C01 — Outgoing messages are well-formed TDS packet sequences.

Model: `Model/ChanTx.lean` + `Model/PacketQueue.lean` (transcriptions of the transmit side of
tds/channel.go and of tds/packetQueue.go; tied to the code by `go/cmd/harness/c01.go`, which sends
the same messages through the real `Channel` over a capturing transport).
A package is its encoding. `s` = packet size in force (9 ≤ s ≤ 65535, which contains the
negotiable range 256..65535), body size `s - 8`.
-/
import Dblib.Lemmas.ChanTx
import Dblib.Lemmas.Wire
import Dblib.Props.C12.Transmit  -- one Write per packet: concurrent channels do not tear packets (c12_tx_wire_parses)
import Dblib.Props.C03.Duplex  -- arriving packets do not touch the transmit state (c01_duplex_transmit)

namespace Dblib.Props.C01
open Dblib Dblib.PQ Dblib.Tx

/-- `QueuePackage` for each encoding in order; `none` if one of them fails -/
def queueAll : Tx → List Bytes → Option (Tx × List Packet)
  | tx, [] => some (tx, [])
  | tx, e :: es =>
    match tx.queuePackage e with
    | (tx', .sent s) =>
      match queueAll tx' es with
      | some (tx'', ss) => some (tx'', s ++ ss)
      | none => none
    | _ => none

/-- a whole message: `QueuePackage*` then `SendRemainingPackets` -/
def sendMessage (tx : Tx) (es : List Bytes) : Option (Tx × List Packet) :=
  match queueAll tx es with
  | some (tx', s1) =>
    match tx'.sendRemaining with
    | (tx'', .sent s2) => some (tx'', s1 ++ s2)
    | _ => none
  | none => none

/-- the invariant between the packages of one message: `n` full packets have been sent, carrying
the bodies `bodies`; at most one packet (the one being filled, possibly full) is held back; all
bytes written so far are the sent bodies followed by the held back bytes. -/
structure MI (tx0 tx : Tx) (bodies : List Bytes) (W : Bytes) : Prop where
  same : tx = { advance tx0 bodies.length with q := tx.q }
  fresh : ∀ p ∈ tx.q.queue, p.hdr = { length := tx0.psize }
  one : tx.q.queue.length ≤ 1
  full : ∀ b ∈ bodies, b.length = tx0.psize - 8
  held : tx.q.queue = [] → bodies = []
  inv : ∃ wq, WInv tx.q wq ∧ bodies.flatten ++ wq = W

theorem MI_init (tx0 : Tx) (hn : tx0.pktNr < 256) (hq : tx0.q.queue = [] ∧ tx0.q.ip = 0 ∧ tx0.q.id = 0) :
    MI tx0 tx0 [] [] := by
  refine ⟨?_, by simp [hq.1], by simp [hq.1], by simp, fun _ => rfl, [], ⟨by simp [hq.1], .empty hq.1 hq.2.1 hq.2.2 rfl⟩, by simp⟩
  simp [advance_zero tx0 hn]

/-- a queue in writer shape that holds no written byte has no packet -/
theorem WInv_nil_queue (q : PQ) (h : WInv q []) : q.queue = [] := by
  obtain ⟨hok, hs⟩ := h
  cases hs with
  | empty hq _ _ _ => exact hq
  | cur init last hq hip h1 h2 hw =>
    have hl := congrArg List.length hw
    simp [List.length_take] at hl
    omega

theorem pq_eta (q : PQ) : q = ⟨q.queue, q.ip, q.id, q.eom⟩ := by cases q; rfl

/-- one `QueuePackage` inside a message -/
theorem queuePackage_step (tx0 tx : Tx) (bodies : List Bytes) (W enc : Bytes)
    (hs : 9 ≤ tx0.psize) (hs2 : tx0.psize ≤ 65535) (h : MI tx0 tx bodies W) :
    ∃ tx' newBodies, tx.queuePackage enc = (tx', .sent (stampAll tx0 tx0.psize bodies.length newBodies))
      ∧ MI tx0 tx' (bodies ++ newBodies) (W ++ enc) := by
  obtain ⟨hsame, hfresh, hone, hfull, hheld, wq, hinv, hW⟩ := h
  have hps : tx.psize = tx0.psize := by rw [hsame]; simp
  obtain ⟨q1, j, hw, hinv1, hh1, he1⟩ := writeBytes_spec tx.q enc wq tx0.psize hinv hs hs2
  have hw' : tx.q.writeBytes enc tx.psize = (.ok, q1) := by rw [hps]; exact hw
  have hfresh1 : ∀ p ∈ q1.queue, p.hdr = { length := tx0.psize } := by
    intro p hp
    have : p.hdr ∈ hdrs q1 := List.mem_map.2 ⟨p, hp, rfl⟩
    rw [hh1, List.mem_append] at this
    rcases this with h | h
    · obtain ⟨p0, hp0, he⟩ := List.mem_map.1 h
      rw [← he]; exact hfresh p0 hp0
    · exact (List.mem_replicate.1 h).2
  unfold queuePackage
  simp only [hw']
  obtain ⟨hok1, hshape1⟩ := hinv1
  cases hshape1 with
  | empty hq hip hid hwe =>
    have hq1 : q1 = ⟨[], 0, 0, q1.eom⟩ := by rw [pq_eta q1, hq, hip, hid]
    rw [sendPackets_onlyFull_empty _ q1.eom (by simpa using hq1)]
    have hnil : wq = [] ∧ enc = [] := by simpa using hwe
    refine ⟨{ tx with q := q1 }, [], by simp [stampAll], ?_, ?_, ?_, ?_, ?_, ?_⟩
    · simp only [List.append_nil]
      rw [hsame]
    · exact hfresh1
    · simp [hq]
    · simpa using hfull
    · intro _
      simp only [List.append_nil]
      exact hheld (WInv_nil_queue tx.q (hnil.1 ▸ hinv))
    · exact ⟨[], ⟨hok1, .empty hq hip hid rfl⟩, by simp [← hW, hnil.1, hnil.2]⟩
  | cur init last hq hip hid1 hid2 hwe =>
    have hq1 : q1 = ⟨init ++ [last], init.length, q1.id, q1.eom⟩ := by rw [pq_eta q1, hq, hip]
    rw [sendPackets_onlyFull _ init last q1.id q1.eom (by simpa using hq1)]
    have hinit : ∀ p ∈ init, p.hdr = { length := tx0.psize } ∧ p.data.length = tx0.psize - 8 := by
      intro p hp
      have hm : p ∈ q1.queue := by rw [hq]; simp [hp]
      have h1 := hfresh1 p hm
      have h2 := (hok1 p hm).1
      rw [h1] at h2
      simp only at h2
      exact ⟨h1, by omega⟩
    have hsm : sendMany ({ tx with q := q1 } : Tx) init
        = ({ advance tx0 (bodies.length + init.length) with q := q1 },
            stampAll tx0 tx0.psize bodies.length (init.map (·.data))) := by
      have : ({ tx with q := q1 } : Tx) = { advance tx0 bodies.length with q := q1 } := by rw [hsame]
      rw [this, sendMany_q, sendMany_full tx0 tx0.psize init bodies.length (by simpa using hinit)]
    rw [hsm]
    refine ⟨_, init.map (·.data), rfl, ?_, ?_, ?_, ?_, ?_, ?_⟩
    · simp
    · intro p hp
      simp only [List.mem_cons, List.not_mem_nil, or_false] at hp
      subst hp
      exact hfresh1 p (by rw [hq]; simp)
    · simp
    · intro b hb
      rcases List.mem_append.1 hb with hb | hb
      · exact hfull b hb
      · obtain ⟨p, hp, rfl⟩ := List.mem_map.1 hb
        exact (hinit p hp).2
    · intro hcontra; simp at hcontra
    · refine ⟨last.data.take q1.id, ⟨?_, .cur [] last rfl rfl hid1 hid2 (by simp)⟩, ?_⟩
      · intro p hp
        simp only [List.mem_cons, List.not_mem_nil, or_false] at hp
        subst hp
        exact hok1 p (by rw [hq]; simp)
      · rw [← hW, List.append_assoc, hwe]
        simp [flat, List.append_assoc]

/-- all the packages of a message -/
theorem queueAll_spec (tx0 : Tx) (hs : 9 ≤ tx0.psize) (hs2 : tx0.psize ≤ 65535) (es : List Bytes) :
    ∀ (tx : Tx) (bodies : List Bytes) (W : Bytes), MI tx0 tx bodies W →
    ∃ tx' newBodies, queueAll tx es = some (tx', stampAll tx0 tx0.psize bodies.length newBodies)
      ∧ MI tx0 tx' (bodies ++ newBodies) (W ++ es.flatten) := by
  induction es with
  | nil => intro tx bodies W h; exact ⟨tx, [], by simp [queueAll, stampAll], by simpa using h⟩
  | cons e es ih =>
    intro tx bodies W h
    obtain ⟨tx1, nb1, hq1, h1⟩ := queuePackage_step tx0 tx bodies W e hs hs2 h
    obtain ⟨tx2, nb2, hq2, h2⟩ := ih tx1 (bodies ++ nb1) (W ++ e) h1
    refine ⟨tx2, nb1 ++ nb2, ?_, by simpa [List.append_assoc] using h2⟩
    simp only [queueAll, hq1, hq2]
    rw [stampAll_append]
    simp

/-- the flush at the end of a message -/
theorem sendRemaining_spec (tx0 tx : Tx) (bodies : List Bytes) (W : Bytes)
    (hs2 : tx0.psize ≤ 65535) (h : MI tx0 tx bodies W) :
    (W = [] ∧ bodies = [] ∧ tx.sendRemaining = (tx.reset, .sent [])) ∨
    (∃ lastBody, bodies.flatten ++ lastBody = W ∧ 1 ≤ lastBody.length ∧ lastBody.length ≤ tx0.psize - 8
      ∧ tx.sendRemaining =
          (({ advance tx0 (bodies.length + 1) with q := ⟨[], 0, 0, tx.q.eom⟩ } : Tx).reset,
            .sent [⟨stamp tx0 bodies.length (8 + lastBody.length) true, lastBody⟩])) := by
  obtain ⟨hsame, hfresh, hone, hfull, hheld, wq, ⟨hok, hshape⟩, hW⟩ := h
  cases hshape with
  | empty hq hip hid hwe =>
    left
    subst hwe
    have hq1 : tx.q = ⟨[], 0, 0, tx.q.eom⟩ := by rw [pq_eta tx.q, hq, hip, hid]
    have hb := hheld hq
    subst hb
    unfold sendRemaining
    rw [sendPackets_flush_empty tx tx.q.eom hq1]
    simp at hW
    exact ⟨hW, rfl, rfl⟩
  | cur init last hq hip hid1 hid2 hwe =>
    right
    have hinit : init = [] := by
      have : (init ++ [last]).length ≤ 1 := hq ▸ hone
      simp at this
      exact this
    subst hinit
    have hq1 : tx.q = ⟨[] ++ [last], ([] : List Packet).length, tx.q.id, tx.q.eom⟩ := by
      rw [pq_eta tx.q, hq, hip]
    have hlast : last.hdr = { length := tx0.psize } := hfresh last (by rw [hq]; simp)
    have hcap : last.data.length + 8 = tx0.psize := by
      have := (hok last (by rw [hq]; simp)).1
      rw [hlast] at this; simp only at this; omega
    refine ⟨last.data.take tx.q.id, by rw [← hW, hwe]; simp [flat], ?_, ?_, ?_⟩
    · simp [List.length_take]; omega
    · simp [List.length_take]; omega
    · unfold sendRemaining
      rw [sendPackets_flush tx [] last tx.q.id tx.q.eom hq1 hid2]
      simp only [sendMany, List.nil_append]
      have htx : tx = { advance tx0 bodies.length with q := tx.q } := hsame
      have hlen : (last.data.take tx.q.id).length = tx.q.id := by simp [List.length_take]; omega
      have hmod : (8 + tx.q.id) % 65536 = 8 + tx.q.id := Nat.mod_eq_of_lt (by omega)
      have htrim : (trimLast last tx.q.id).hdr = { length := 8 + tx.q.id, status := 1 } := by
        simp [trimLast, hlast, setEOM, hmod]
      have hsp : tx.sendPacket (trimLast last tx.q.id)
          = ({ advance tx0 (bodies.length + 1) with q := tx.q },
              ⟨stamp tx0 bodies.length (8 + tx.q.id) true, (trimLast last tx.q.id).data⟩) := by
        rw [htx, sendPacket_q, sendPacket_last tx0 bodies.length (8 + tx.q.id) _ htrim]
      rw [hsp]
      simp [trimLast, hlen]

/-! ## The property theorems -/

/-- a queue with nothing left behind -/
def EmptyQ (tx : Tx) : Prop := tx.q.queue = [] ∧ tx.q.ip = 0 ∧ tx.q.id = 0

/-- What the packets of one message must look like (`tx0` = channel state at the start of the
message, `es` = the encodings queued, `ps` = the packets written to the transport):
bodies concatenate to the encodings; every packet but the last has a full body and no EOM; the last
has 1..body-size bytes and EOM; header length = 8 + body length; all carry the message type, the
channel id and consecutive packet numbers (`stamp`). An empty message writes nothing. -/
def WellFormed (tx0 : Tx) (es : List Bytes) (ps : List Packet) : Prop :=
  (es.flatten = [] ∧ ps = []) ∨
  ∃ bodies lastBody,
    ps = stampAll tx0 tx0.psize 0 bodies ++ [⟨stamp tx0 bodies.length (8 + lastBody.length) true, lastBody⟩]
    ∧ bodies.flatten ++ lastBody = es.flatten
    ∧ (∀ b ∈ bodies, b.length = tx0.psize - 8)
    ∧ 1 ≤ lastBody.length ∧ lastBody.length ≤ tx0.psize - 8

/-- the channel state after a message of `n` packets: queue empty, type back to NORMAL, packet
counter advanced, everything else unchanged -/
def afterMessage (tx0 : Tx) (n : Nat) : Tx :=
  { advance tx0 n with q := {}, hdrType := bufNormal }

/-- **C01, one message.** For every packet size 9..65535, header type, channel id and start
number, every list of package encodings and hence every split over QueuePackage calls, starting
with nothing left behind: the packets reaching the transport are well-formed (see `WellFormed`),
and afterwards nothing is left behind and the type is back to NORMAL. -/
theorem c01_message_wellformed (tx0 : Tx) (es : List Bytes)
    (hs : 9 ≤ tx0.psize) (hs2 : tx0.psize ≤ 65535) (hn : tx0.pktNr < 256) (hq : EmptyQ tx0) :
    ∃ ps, sendMessage tx0 es = some (afterMessage tx0 ps.length, ps) ∧ WellFormed tx0 es ps := by
  obtain ⟨tx1, bodies, hqa, hmi⟩ := queueAll_spec tx0 hs hs2 es tx0 [] [] (MI_init tx0 hn hq)
  simp only [List.nil_append, List.length_nil] at hqa hmi
  rcases sendRemaining_spec tx0 tx1 bodies es.flatten hs2 hmi with ⟨hW, hb, hsr⟩ | ⟨lastBody, hW, h1, h2, hsr⟩
  · subst hb
    refine ⟨[], ?_, Or.inl ⟨hW, rfl⟩⟩
    simp only [sendMessage, hqa, hsr, stampAll, List.append_nil, List.length_nil]
    have h1 : tx1 = { advance tx0 0 with q := tx1.q } := by simpa using hmi.same
    rw [h1]
    simp [Tx.reset, afterMessage, PQ.reset]
  · refine ⟨_, ?_, Or.inr ⟨bodies, lastBody, rfl, hW, hmi.full, h1, h2⟩⟩
    simp only [sendMessage, hqa, hsr]
    have hl : (stampAll tx0 tx0.psize 0 bodies).length = bodies.length := by
      have := congrArg List.length (stampAll_data tx0 tx0.psize bodies 0); simpa using this
    simp [Tx.reset, afterMessage, PQ.reset, hl]

/-- `SendPackage` is `QueuePackage` followed by `SendRemainingPackets`, so a message whose last
package is sent with `SendPackage` is covered by the same theorem. -/
theorem c01_sendPackage_is_queue_flush (tx : Tx) (e : Bytes) (tx' : Tx) (ps : List Packet) :
    sendMessage tx [e] = some (tx', ps) → tx.sendPackage e = (tx', .sent ps) := by
  simp only [sendMessage, queueAll, sendPackage]
  cases hq : tx.queuePackage e with
  | mk tx1 o =>
    cases o with
    | sent s1 =>
      simp only [List.append_nil]
      cases hr : tx1.sendRemaining with
      | mk tx2 o2 =>
        cases o2 with
        | sent s2 => simp
        | panic => simp
        | unsupported => simp
    | panic => simp
    | unsupported => simp

/-- **With nothing queued a flush writes nothing.** -/
theorem c01_empty_flush (tx0 : Tx) (hq : EmptyQ tx0) :
    tx0.sendRemaining = (tx0.reset, .sent []) := by
  unfold sendRemaining
  have : tx0.q = ⟨[], 0, 0, tx0.q.eom⟩ := by rw [pq_eta tx0.q, hq.1, hq.2.1, hq.2.2]
  rw [sendPackets_flush_empty tx0 tx0.q.eom this]

/-! ### reading `WellFormed`: the header clauses spelled out -/

theorem stampAll_mem (tx : Tx) (L : Nat) (bs : List Bytes) : ∀ k p, p ∈ stampAll tx L k bs →
    p.hdr.status = 0 ∧ p.hdr.msgType = tx.hdrType ∧ p.hdr.length = L
      ∧ p.hdr.channel = (if tx.chanId > 0 then tx.chanId % 65536 else 0) ∧ p.data ∈ bs := by
  induction bs with
  | nil => intro k p h; simp [stampAll] at h
  | cons b bs ih =>
    intro k p h
    simp only [stampAll, List.mem_cons] at h
    rcases h with h | h
    · subst h; simp [stamp]
    · obtain ⟨h1, h2, h3, h4, h5⟩ := ih (k + 1) p h
      exact ⟨h1, h2, h3, h4, by simp [h5]⟩

theorem stampAll_mem_bounds (tx : Tx) (L : Nat) (bs : List Bytes) : ∀ k p, p ∈ stampAll tx L k bs →
    p.hdr.packetNr < 256 ∧ p.hdr.window < 256 := by
  induction bs with
  | nil => intro k p h; simp [stampAll] at h
  | cons b bs ih =>
    intro k p h
    simp only [stampAll, List.mem_cons] at h
    rcases h with h | h
    · subst h; simp only [stamp]; constructor <;> (split <;> omega)
    · exact ih (k + 1) p h

/-- the `i`-th packet of a run carries packet number `start + i` (mod 256) on a logical channel -/
theorem stampAll_getElem (tx : Tx) (L : Nat) (bs : List Bytes) : ∀ k i (h : i < (stampAll tx L k bs).length),
    ((stampAll tx L k bs)[i]).hdr.packetNr = (if tx.chanId > 0 then (tx.pktNr + (k + i)) % 256 else 0) := by
  induction bs with
  | nil => intro k i h; simp [stampAll] at h
  | cons b bs ih =>
    intro k i h
    cases i with
    | zero => simp [stampAll, stamp]
    | succ i =>
      simp only [stampAll, List.getElem_cons_succ]
      rw [ih (k + 1) i (by simpa [stampAll] using h)]
      simp [Nat.add_assoc, Nat.add_comm 1 i]

/-- In a well-formed non-empty message: EOM is set on the last packet and on no other; every
header length is 8 + body length and at most the packet size; every packet but the last is full. -/
theorem c01_wellformed_reading (tx0 : Tx) (es : List Bytes) (ps : List Packet) (hs : 9 ≤ tx0.psize)
    (h : WellFormed tx0 es ps) (hne : es.flatten ≠ []) :
    ∃ front last, ps = front ++ [last]
      ∧ ((front ++ [last]).map (·.data)).flatten = es.flatten
      ∧ (∀ p ∈ front, p.hdr.status = 0 ∧ p.data.length = tx0.psize - 8)
      ∧ last.hdr.status = 1 ∧ 1 ≤ last.data.length
      ∧ (∀ p ∈ ps, p.hdr.length = 8 + p.data.length ∧ p.hdr.length ≤ tx0.psize
            ∧ p.hdr.msgType = tx0.hdrType
            ∧ p.hdr.channel = (if tx0.chanId > 0 then tx0.chanId % 65536 else 0)) := by
  rcases h with ⟨he, _⟩ | ⟨bodies, lastBody, hps, hflat, hfull, h1, h2⟩
  · exact absurd he hne
  · refine ⟨stampAll tx0 tx0.psize 0 bodies, _, hps, ?_, ?_, rfl, h1, ?_⟩
    · simp [stampAll_data, hflat]
    · intro p hp
      obtain ⟨a, _, _, _, hd⟩ := stampAll_mem tx0 tx0.psize bodies 0 p hp
      exact ⟨a, hfull _ hd⟩
    · intro p hp
      rw [hps] at hp
      rcases List.mem_append.1 hp with hp | hp
      · obtain ⟨_, b, c, d, hd⟩ := stampAll_mem tx0 tx0.psize bodies 0 p hp
        have := hfull _ hd
        exact ⟨by omega, by omega, b, d⟩
      · simp only [List.mem_cons, List.not_mem_nil, or_false] at hp
        subst hp
        simp [stamp]; omega

/-- **The bytes reaching the transport parse as consecutive TDS packets** — the independent wire
reader recovers exactly the packets of a well-formed message (type below 256 as it is a byte). -/
theorem c01_wire_parses (tx0 : Tx) (es : List Bytes) (ps : List Packet) (hs : 9 ≤ tx0.psize)
    (hs2 : tx0.psize ≤ 65535) (ht : tx0.hdrType < 256) (h : WellFormed tx0 es ps) :
    parsePackets (wireOf ps).length (wireOf ps) = some ps := by
  apply parse_wire ps _ (Nat.le_refl _)
  rcases h with ⟨_, rfl⟩ | ⟨bodies, lastBody, hps, _, hfull, h1, h2⟩
  · simp
  · intro p hp
    rw [hps] at hp
    rcases List.mem_append.1 hp with hp | hp
    · obtain ⟨a, b, c, d, hd⟩ := stampAll_mem tx0 tx0.psize bodies 0 p hp
      have hl := hfull _ hd
      have hnr := stampAll_mem_bounds tx0 tx0.psize bodies 0 p hp
      exact ⟨by omega, by omega, by omega, by omega, by rw [d]; split <;> omega, hnr.1, hnr.2⟩
    · simp only [List.mem_cons, List.not_mem_nil, or_false] at hp
      subst hp
      simp only [HdrOK, stamp]
      refine ⟨ht, by simp, by simp, by omega, ?_, ?_, ?_⟩ <;> (split <;> omega)

/-! ### successive messages -/

structure Msg where
  hdrType : Nat
  psize : Nat
  es : List Bytes

/-- several messages on one channel; type and packet size are set before each message -/
def sendMessages : Tx → List Msg → Option (Tx × List (List Packet))
  | tx, [] => some (tx, [])
  | tx, m :: ms =>
    match sendMessage { tx with hdrType := m.hdrType, psize := m.psize } m.es with
    | some (tx', ps) =>
      match sendMessages tx' ms with
      | some (tx'', pss) => some (tx'', ps :: pss)
      | none => none
    | none => none

/-- each message is well-formed relative to the state its predecessor left -/
def MsgsOK : Tx → List Msg → List (List Packet) → Prop
  | _, [], [] => True
  | tx, m :: ms, ps :: pss =>
    let tx0 : Tx := { tx with hdrType := m.hdrType, psize := m.psize }
    WellFormed tx0 m.es ps ∧ MsgsOK (afterMessage tx0 ps.length) ms pss
  | _, _, _ => False

theorem afterMessage_ok (tx0 : Tx) (n : Nat) (hn : tx0.pktNr < 256) :
    EmptyQ (afterMessage tx0 n) ∧ (afterMessage tx0 n).pktNr < 256 := by
  refine ⟨⟨rfl, rfl, rfl⟩, ?_⟩
  simp only [afterMessage, advance]
  split
  · simp; omega
  · simpa using hn

/-- **C01, successive messages** (with a packet size or type change between them): the wire is
the concatenation of well-formed messages and nothing is carried over from one to the next. -/
theorem c01_successive_messages (ms : List Msg) :
    ∀ (tx : Tx), EmptyQ tx → tx.pktNr < 256 → (∀ m ∈ ms, 9 ≤ m.psize ∧ m.psize ≤ 65535) →
    ∃ tx' pss, sendMessages tx ms = some (tx', pss) ∧ MsgsOK tx ms pss ∧ EmptyQ tx' := by
  induction ms with
  | nil => intro tx hq _ _; exact ⟨tx, [], rfl, trivial, hq⟩
  | cons m ms ih =>
    intro tx hq hn hms
    have hm := hms m (by simp)
    let tx0 : Tx := { tx with hdrType := m.hdrType, psize := m.psize }
    obtain ⟨ps, hsend, hwf⟩ := c01_message_wellformed tx0 m.es hm.1 hm.2 hn hq
    obtain ⟨hq', hn'⟩ := afterMessage_ok tx0 ps.length hn
    obtain ⟨tx', pss, hrest, hok, hq''⟩ := ih (afterMessage tx0 ps.length) hq' hn' (fun x hx => hms x (by simp [hx]))
    refine ⟨tx', ps :: pss, ?_, ⟨hwf, hok⟩, hq''⟩
    simp only [sendMessages]
    rw [show ({ tx with hdrType := m.hdrType, psize := m.psize } : Tx) = tx0 from rfl, hsend]
    simp only [hrest]

/-- **An abandoned message leaves nothing behind.** Whatever was queued — any queue contents, any read /
write position — after `Reset` (`Channel.Reset`, which every flush ends in, successful or failed, and
which a caller may use to drop a half-built message) the next message is well-formed and consists of its
own packages only: `Reset` establishes exactly the "nothing left behind" precondition of
`c01_message_wellformed`. -/
theorem c01_message_after_reset (tx : Tx) (es : List Bytes)
    (hs : 9 ≤ tx.psize) (hs2 : tx.psize ≤ 65535) (hn : tx.pktNr < 256) :
    EmptyQ tx.reset ∧
    ∃ ps, sendMessage tx.reset es = some (afterMessage tx.reset ps.length, ps) ∧ WellFormed tx.reset es ps := by
  have hq : EmptyQ tx.reset := ⟨rfl, rfl, rfl⟩
  exact ⟨hq, c01_message_wellformed tx.reset es (by simpa [Tx.reset] using hs) (by simpa [Tx.reset] using hs2)
    (by simpa [Tx.reset] using hn) hq⟩

/-- non-vacuity: packet size 16 (body 8), a message of exactly 16 bytes in two packages — the
exact-multiple case: two full packets, EOM on the second only. -/
example :
    (sendMessage { psize := 16, chanId := 3, pktNr := 255 } [[1,2,3,4,5], [6,7,8,9,10,11,12,13,14,15,16]]).map
        (fun r => r.2.map (fun p => (p.hdr.status, p.hdr.length, p.hdr.packetNr, p.data.length)))
      = some [(0, 16, 255, 8), (1, 16, 0, 8)] := by decide

end Dblib.Props.C01
