/-
C10 — package codecs. The theorems live in one file per codec group under `Props/C10/`
(Basic: DONE*, EED, ERROR, LOGINACK, MSG, ENVCHANGE, CAPABILITY, LANGUAGE, RETURNSTATUS, LOGOUT;
Cursor: DYNAMIC/2, CURDECLARE/3, CURINFO/3, CUROPEN, CURFETCH, CURUPDATE, CURDELETE); this file
collects them. The models (`Model/Codec/*.lean`) are transcriptions of the Go ReadFrom/WriteTo
pairs, tied to the code by the registry harness (go/cmd/harness/c06.go, codec_*.go).
-/
import Dblib.Props.C10.Basic
import Dblib.Props.C10.Cursor
import Dblib.Props.C10.Values
import Dblib.Props.C10.Fields
import Dblib.Props.C10.Channel
