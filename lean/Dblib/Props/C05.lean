/-
C05 — Data type wire encodings match the TDS 5.0 layouts.

The model (`Dblib/Model/Value.lean`: `bytes` = `DataType.Bytes`, `goValue` = `DataType.GoValue`;
`Dblib/Model/AseTime.lean`: the `asetime` calendar helpers) is compared with the independently written
reference codec `Dblib/Model/ValueSpec.lean` (`Spec.*`: positional little-endian formulas, money as high word
then low word, numeric as sign byte + big-endian magnitude, dates as days since 1900-01-01 from the textbook
`rataDie`, ticks of 1/300 s, UTF-16LE).  Both directions, per type family, for the whole value domain:

  `c05_encode_matches_spec_<family>`   `bytes T v = Spec.<layout> v`
  `c05_decode_matches_spec_<family>`   `goValue T (Spec.<layout> v) = v`   (the layouts are onto: `c05_layout_onto`)

Calendar: `c05_jdn_is_gregorian` (the Doggett formula of the Go code is `rataDie + 1721425` — for EVERY year ≥ 1,
proved by arithmetic, not by enumerating a cycle), `c05_civil_inverse`, `c05_micro_inverse`, `c05_duration_is_micros`,
`c05_epochs`, `c05_no_overflow`.

RESULT (code after the repairs c404295, 20c1efa, 8cf068f, 7a20ae8): every family matches the reference layout in both
directions on its whole domain — datetime also before 1900-01-01, unitext as UTF-16LE for all Unicode scalar values
(decode: strings not ending in U+0000, `GoValue` trims trailing NULs).  Nothing is partial.
-/
import Dblib.Model.Value
import Dblib.Model.ValueSpec
import Dblib.Lemmas.ValueSpec
import Dblib.Lemmas.ValueText
import Dblib.Props.C04
import Dblib.Props.C05.ClockReading

namespace Dblib.Props.C05
open Dblib Dblib.Value Dblib.AseTime Dblib.Gen
open Dblib.Lemmas.ValueBytes Dblib.Lemmas.ValueArms Dblib.Lemmas.ValueCal Dblib.Lemmas.ValueTemporal
open Dblib.Lemmas.ValueSpec Dblib.Lemmas.ValueText Dblib.Props.C04

/-! ## integers and floats: little-endian two's complement / IEEE bit pattern -/

/-- reference layout of a fixed-size value -/
def specFixed : Val → Bytes
  | .u8 n => Spec.uintLE 1 n
  | .i16 n => Spec.intLE 2 n
  | .i32 n => Spec.intLE 4 n
  | .i64 n => Spec.intLE 8 n
  | .u16 n => Spec.uintLE 2 n
  | .u32 n => Spec.uintLE 4 n
  | .u64 n => Spec.uintLE 8 n
  | .f32 b => Spec.uintLE 4 b
  | .f64 b => Spec.uintLE 8 b
  | _ => []

theorem c05_encode_matches_spec_int (t : Nat) (v : Val) (l : Int) (h : IntVal t v) :
    bytes t v l = .ok (specFixed v) := by
  cases h with
  | int1 n h =>
    rw [bytes_INT1, enc_generic _ _ 1 n (by simp) rfl (Or.inr rfl), leEncode_eq_uintLE]; rfl
  | int2 n h =>
    rw [bytes_INT2, enc_generic _ _ 2 _ (by simp) rfl (Or.inr rfl), leEncode2_eq_intLE]; rfl
  | int4 n h =>
    rw [bytes_INT4, enc_generic _ _ 4 _ (by simp) rfl (Or.inr rfl), leEncode4_eq_intLE]; rfl
  | int8 n h =>
    rw [bytes_INT8, enc_generic _ _ 8 _ (by simp) rfl (Or.inr rfl), leEncode8_eq_intLE]; rfl
  | uint2 n h =>
    rw [bytes_UINT2, enc_generic _ _ 2 n (by simp) rfl (Or.inr rfl), leEncode_eq_uintLE]; rfl
  | uint4 n h =>
    rw [bytes_UINT4, enc_generic _ _ 4 n (by simp) rfl (Or.inr rfl), leEncode_eq_uintLE]; rfl
  | uint8 n h =>
    rw [bytes_UINT8, enc_generic _ _ 8 n (by simp) rfl (Or.inr rfl), leEncode_eq_uintLE]; rfl
  | intn1 n h =>
    rw [bytes_INTN, enc_generic _ _ 1 n (by simp) rfl (Or.inl rfl), leEncode_eq_uintLE]; rfl
  | intn2 n h =>
    rw [bytes_INTN, enc_generic _ _ 2 _ (by simp) rfl (Or.inl rfl), leEncode2_eq_intLE]; rfl
  | intn4 n h =>
    rw [bytes_INTN, enc_generic _ _ 4 _ (by simp) rfl (Or.inl rfl), leEncode4_eq_intLE]; rfl
  | intn8 n h =>
    rw [bytes_INTN, enc_generic _ _ 8 _ (by simp) rfl (Or.inl rfl), leEncode8_eq_intLE]; rfl
  | uintn1 n h =>
    rw [bytes_UINTN, enc_generic _ _ 1 n (by simp) rfl (Or.inl rfl), leEncode_eq_uintLE]; rfl
  | uintn2 n h =>
    rw [bytes_UINTN, enc_generic _ _ 2 n (by simp) rfl (Or.inl rfl), leEncode_eq_uintLE]; rfl
  | uintn4 n h =>
    rw [bytes_UINTN, enc_generic _ _ 4 n (by simp) rfl (Or.inl rfl), leEncode_eq_uintLE]; rfl
  | uintn8 n h =>
    rw [bytes_UINTN, enc_generic _ _ 8 n (by simp) rfl (Or.inl rfl), leEncode_eq_uintLE]; rfl

theorem c05_decode_matches_spec_int (t : Nat) (v : Val) (h : IntVal t v) : goValue t (specFixed v) = .ok v := by
  cases h with
  | int1 n h =>
    show goValue Types.INT1 (Spec.uintLE 1 n) = _
    rw [← leEncode_eq_uintLE, dec_INT1, Nat.mod_eq_of_lt (by omega)]
  | int2 n h =>
    show goValue Types.INT2 (Spec.intLE 2 n) = _
    rw [← leEncode2_eq_intLE, dec_INT2, toSigned2_toU n h]
  | int4 n h =>
    show goValue Types.INT4 (Spec.intLE 4 n) = _
    rw [← leEncode4_eq_intLE, dec_INT4, toSigned4_toU n h]
  | int8 n h =>
    show goValue Types.INT8 (Spec.intLE 8 n) = _
    rw [← leEncode8_eq_intLE, dec_INT8, toSigned8_toU n h]
  | uint2 n h =>
    show goValue Types.UINT2 (Spec.uintLE 2 n) = _
    rw [← leEncode_eq_uintLE, dec_UINT2, Nat.mod_eq_of_lt (by omega)]
  | uint4 n h =>
    show goValue Types.UINT4 (Spec.uintLE 4 n) = _
    rw [← leEncode_eq_uintLE, dec_UINT4, Nat.mod_eq_of_lt (by omega)]
  | uint8 n h =>
    show goValue Types.UINT8 (Spec.uintLE 8 n) = _
    rw [← leEncode_eq_uintLE, dec_UINT8, Nat.mod_eq_of_lt (by omega)]
  | intn1 n h =>
    show goValue Types.INTN (Spec.uintLE 1 n) = _
    rw [← leEncode_eq_uintLE, dec_INTN_1, Nat.mod_eq_of_lt (by omega)]
  | intn2 n h =>
    show goValue Types.INTN (Spec.intLE 2 n) = _
    rw [← leEncode2_eq_intLE, dec_INTN_2, toSigned2_toU n h]
  | intn4 n h =>
    show goValue Types.INTN (Spec.intLE 4 n) = _
    rw [← leEncode4_eq_intLE, dec_INTN_4, toSigned4_toU n h]
  | intn8 n h =>
    show goValue Types.INTN (Spec.intLE 8 n) = _
    rw [← leEncode8_eq_intLE, dec_INTN_8, toSigned8_toU n h]
  | uintn1 n h =>
    show goValue Types.UINTN (Spec.uintLE 1 n) = _
    rw [← leEncode_eq_uintLE, dec_UINTN_1, Nat.mod_eq_of_lt (by omega)]
  | uintn2 n h =>
    show goValue Types.UINTN (Spec.uintLE 2 n) = _
    rw [← leEncode_eq_uintLE, dec_UINTN_2, Nat.mod_eq_of_lt (by omega)]
  | uintn4 n h =>
    show goValue Types.UINTN (Spec.uintLE 4 n) = _
    rw [← leEncode_eq_uintLE, dec_UINTN_4, Nat.mod_eq_of_lt (by omega)]
  | uintn8 n h =>
    show goValue Types.UINTN (Spec.uintLE 8 n) = _
    rw [← leEncode_eq_uintLE, dec_UINTN_8, Nat.mod_eq_of_lt (by omega)]

theorem c05_encode_matches_spec_float (t : Nat) (v : Val) (l : Int) (h : FloatVal t v) :
    bytes t v l = .ok (specFixed v) := by
  cases h with
  | flt4 n h =>
    rw [bytes_FLT4, enc_generic _ _ 4 n (by simp) rfl (Or.inr rfl), leEncode_eq_uintLE]; rfl
  | flt8 n h =>
    rw [bytes_FLT8, enc_generic _ _ 8 n (by simp) rfl (Or.inr rfl), leEncode_eq_uintLE]; rfl
  | fltn4 n h =>
    rw [bytes_FLTN, enc_generic _ _ 4 n (by simp) rfl (Or.inl rfl), leEncode_eq_uintLE]; rfl
  | fltn8 n h =>
    rw [bytes_FLTN, enc_generic _ _ 8 n (by simp) rfl (Or.inl rfl), leEncode_eq_uintLE]; rfl

theorem c05_decode_matches_spec_float (t : Nat) (v : Val) (h : FloatVal t v) : goValue t (specFixed v) = .ok v := by
  cases h with
  | flt4 n h =>
    show goValue Types.FLT4 (Spec.uintLE 4 n) = _
    rw [← leEncode_eq_uintLE, dec_FLT4, Nat.mod_eq_of_lt (by omega)]
  | flt8 n h =>
    show goValue Types.FLT8 (Spec.uintLE 8 n) = _
    rw [← leEncode_eq_uintLE, dec_FLT8, Nat.mod_eq_of_lt (by omega)]
  | fltn4 n h =>
    show goValue Types.FLTN (Spec.uintLE 4 n) = _
    rw [← leEncode_eq_uintLE, dec_FLTN_4, Nat.mod_eq_of_lt (by omega)]
  | fltn8 n h =>
    show goValue Types.FLTN (Spec.uintLE 8 n) = _
    rw [← leEncode_eq_uintLE, dec_FLTN_8, Nat.mod_eq_of_lt (by omega)]

/-- the little-endian layouts are onto: every byte string of length `w` is the layout of its value -/
theorem c05_layout_onto (bs : Bytes) : bs = Spec.uintLE bs.length (leDecode bs) := bytes_eq_uintLE bs

example : IntVal Types.INT4 (.i32 (-2)) ∧ specFixed (.i32 (-2)) = [0xfe, 0xff, 0xff, 0xff] := ⟨.int4 _ (by decide), by decide⟩

/-! ## money and numeric -/

/-- **money = high word then low word of the 1/10000 count**, every `int64` count; smallmoney one word -/
theorem c05_encode_matches_spec_money (c : Int) (p s : Nat)
    (h : -9223372036854775808 ≤ c ∧ c ≤ 9223372036854775807) :
    bytes Types.MONEY (.dec c p s) 8 = .ok (Spec.money c) ∧ bytes Types.MONEYN (.dec c p s) 8 = .ok (Spec.money c) := by
  have hw := wrap64_id c (by omega)
  have e : leEncode 4 (toU 32 c) = Spec.intLE 4 (c % 4294967296) := by
    rw [← leEncode4_eq_intLE]; congr 1; simp only [toU, Nat.reducePow]; omega
  constructor
  · rw [bytes_MONEY, enc_money8, hw, leEncode4_eq_intLE, e]; rfl
  · rw [bytes_MONEYN, enc_money8, hw, leEncode4_eq_intLE, e]; rfl

theorem c05_decode_matches_spec_money (c : Int) (h : -9223372036854775808 ≤ c ∧ c ≤ 9223372036854775807) :
    goValue Types.MONEY (Spec.money c) = .ok (.dec c Types.aseMoneyPrecision Types.aseMoneyScale) ∧
    goValue Types.MONEYN (Spec.money c) = .ok (.dec c Types.aseMoneyPrecision Types.aseMoneyScale) := by
  have e : Spec.money c = leEncode 4 (toU 32 (c / 4294967296)) ++ leEncode 4 (toU 32 (c % 4294967296)) := by
    rw [leEncode4_eq_intLE, leEncode4_eq_intLE]; rfl
  have key : wrap64 (((toU 32 (c / 4294967296) % 4294967296 : Nat) : Int) * 4294967296 +
      ((toU 32 (c % 4294967296) % 4294967296 : Nat) : Int)) = c := by
    simp only [wrap64, toU, Nat.reducePow]; omega
  have hlen : (leEncode 4 (toU 32 (c / 4294967296)) ++ leEncode 4 (toU 32 (c % 4294967296))).length = 8 := by
    simp [leEncode_length]
  constructor
  · rw [e, goValue_MONEY, hlen, dec_money8, key]; rfl
  · rw [e, goValue_MONEYN, dec_money8, key]

theorem c05_encode_matches_spec_smallmoney (c : Int) (p s : Nat) (h : -2147483648 ≤ c ∧ c ≤ 2147483647) :
    bytes Types.SHORTMONEY (.dec c p s) 4 = .ok (Spec.smallMoney c) ∧
    bytes Types.MONEYN (.dec c p s) 4 = .ok (Spec.smallMoney c) := by
  have hw := wrap64_id c (by omega)
  constructor
  · rw [bytes_SHORTMONEY, enc_money4, hw, leEncode4_eq_intLE]; rfl
  · rw [bytes_MONEYN, enc_money4, hw, leEncode4_eq_intLE]; rfl

theorem c05_decode_matches_spec_smallmoney (c : Int) (h : -2147483648 ≤ c ∧ c ≤ 2147483647) :
    goValue Types.SHORTMONEY (Spec.smallMoney c)
      = .ok (.dec c Types.aseShortMoneyPrecision Types.aseShortMoneyScale) ∧
    goValue Types.MONEYN (Spec.smallMoney c)
      = .ok (.dec c Types.aseShortMoneyPrecision Types.aseShortMoneyScale) := by
  have e : Spec.smallMoney c = leEncode 4 (toU 32 c) := by rw [leEncode4_eq_intLE]; rfl
  constructor
  · rw [e, goValue_SHORTMONEY, leEncode_length, dec_money4, toI32_toU c h]; rfl
  · rw [e, goValue_MONEYN, dec_money4, toI32_toU c h]

-- 1.0000 as money: high word 0, low word 10000
example : Spec.money 10000 = [0, 0, 0, 0, 0x10, 0x27, 0, 0] := by decide

/-- **numeric = sign byte + big-endian magnitude without leading zeros**, every integer -/
theorem c05_encode_matches_spec_numeric (i : Int) (p s : Nat) (l : Int) :
    ∃ bs, bytes Types.DECN (.dec i p s) l = .ok bs ∧ bytes Types.NUMN (.dec i p s) l = .ok bs ∧ Spec.IsNumeric i bs :=
  ⟨_, bytes_DECN i p s l, bytes_NUMN i p s l, natBytesBE_isNumeric i⟩

theorem c05_decode_matches_spec_numeric (i : Int) (bs : Bytes) (h : Spec.IsNumeric i bs) :
    goValue Types.DECN bs = .ok (.dec i Types.aseDecimalDefaultPrecision Types.aseDecimalDefaultScale) ∧
    goValue Types.NUMN bs = .ok (.dec i Types.aseDecimalDefaultPrecision Types.aseDecimalDefaultScale) := by
  obtain ⟨mag, rfl, hv, _⟩ := h
  rw [beValue_eq_beNat] at hv
  have key : decArm ((if i < 0 then 1 else 0) :: mag)
      = .ok (.dec i Types.aseDecimalDefaultPrecision Types.aseDecimalDefaultScale) := by
    simp only [decArm, hv]
    by_cases h : i < 0
    · simp only [h, if_true]
      have : ((1 : UInt8) == 1) = true := by decide
      simp only [this, if_true, VOut.ok.injEq, Val.dec.injEq, and_true]; omega
    · simp only [h, if_false]
      have : ((0 : UInt8) == 1) = false := by decide
      simp only [this, Bool.false_eq_true, if_false, VOut.ok.injEq, Val.dec.injEq, and_true]; omega
  exact ⟨by rw [goValue_DECN, key], by rw [goValue_NUMN, key]⟩

example : Spec.IsNumeric (-256) [1, 1, 0] := ⟨[1, 0], by decide, by decide, by decide⟩

/-! ## calendar -/

/-- **The Julian-day formula of the Go code is the proleptic Gregorian calendar**: for every valid date of every
year ≥ 1 (no upper bound) `goJdn` (Doggett's formula with Go's truncating divisions, used by
`DurationFromDateTime` and `TimeToMicroseconds`) equals the textbook day number + 1721425. -/
theorem c05_jdn_is_gregorian (y m d : Nat) (hv : Spec.validDate y m d) :
    goJdn y m d = Spec.rataDie y m d + 1721425 := by
  obtain ⟨hy, hv'⟩ := (validDate_iff y m d).1 hv
  rw [goJdn_eq (y : Int) m d (by omega) ⟨hv'.1, hv'.2.1⟩, rataDie_eq y m d hy ⟨hv'.1, hv'.2.1⟩]; omega

example : Spec.validDate 2024 2 29 ∧ goJdn 2024 2 29 = 2460370 := by decide +kernel

/-- **`civilFromDays` / `daysFromCivil` (the model of Go's `time` dates) are inverse to each other**, for every
day number and every valid date of every (also negative) year, and agree with the textbook day number. -/
theorem c05_civil_inverse :
    (∀ n : Int, daysFromCivil (civilFromDays n).1 (civilFromDays n).2.1 (civilFromDays n).2.2 = n ∧
      ValidDate (civilFromDays n).1 (civilFromDays n).2.1 (civilFromDays n).2.2) ∧
    (∀ (y : Int) (m d : Nat), ValidDate y m d → civilFromDays (daysFromCivil y m d) = (y, m, d)) ∧
    (∀ y m d : Nat, Spec.validDate y m d → Spec.rataDie y m d = daysFromCivil y m d + 1) :=
  ⟨civil_days, days_civil, fun y m d hv => by
    obtain ⟨hy, hv'⟩ := (validDate_iff y m d).1 hv
    exact rataDie_eq y m d hy ⟨hv'.1, hv'.2.1⟩⟩

/-- the time value with calendar date `y-m-d` and `ns` nanoseconds after midnight -/
def civilTime (y m d ns : Nat) : Time := ⟨daysFromCivil y m d, ns⟩

theorem civilTime_fields (y m d ns : Nat) (hv : Spec.validDate y m d) :
    (civilTime y m d ns).year = y ∧ (civilTime y m d ns).month = m ∧ (civilTime y m d ns).dayOfMonth = d := by
  obtain ⟨_, hv'⟩ := (validDate_iff y m d).1 hv
  simp only [civilTime, Time.year, Time.month, Time.dayOfMonth, days_civil _ _ _ hv', and_self]

theorem civilTime_range (y m d ns : Nat) (hv : Spec.validDate y m d) (hy : y ≤ 9999) (hns : ns < nsPerDay) :
    InRange (civilTime y m d ns) := by
  obtain ⟨hy1, hv'⟩ := (validDate_iff y m d).1 hv
  obtain ⟨h1, h2, h3, h4⟩ := hv'
  have hd31 := daysInMonth_le m (isLeap (y : Int))
  obtain ⟨_, t2⟩ := month_doy_tab (isLeap (y : Int)) m (by omega) d (by omega) h1 h3 h4
  refine ⟨?_, ?_, hns⟩
  · show (0 : Int) ≤ daysFromCivil y m d
    simp only [daysFromCivil, yearStart]; omega
  · show daysFromCivil y m d < 3652059
    simp only [daysFromCivil, yearStart]
    rcases t2 with h | ⟨h, hl⟩
    · omega
    · have := (isLeap_iff (y : Int)).1 hl; omega

/-- **`DurationFromDateTime` counts microseconds since 0000-01-01** (year 0 has 366 days): for every valid date of
the years 1 … 9999 and every time of day it is `(rataDie + 365) days + µs of the day`. -/
theorem c05_duration_is_micros (y m d ns : Nat) (hv : Spec.validDate y m d) (hns : ns < nsPerDay) :
    durationFromDateTime (civilTime y m d ns) = (Spec.rataDie y m d + 365) * 86400000000 + ((ns / 1000 : Nat) : Int) := by
  obtain ⟨hy1, hv'⟩ := (validDate_iff y m d).1 hv
  have hf := civilTime_fields y m d ns hv
  rw [durationFromDateTime_eq _ hns (by rw [hf.1]; omega), rataDie_eq y m d hy1 ⟨hv'.1, hv'.2.1⟩]
  simp only [civilTime]; omega

/-- **`MicrosecondsToTime` inverts `TimeToMicroseconds`** for every day of the years 1 … 9999 and every time of the
day (to the microsecond, which is all `TimeToMicroseconds` keeps). -/
theorem c05_micro_inverse (t : Time) (h : InRange t) :
    microsecondsToTime (timeToMicroseconds t) = ⟨t.day, t.ns / 1000 * 1000⟩ :=
  micro_inverse t h.2.2 h.1 (by have := h.2.1; omega)

theorem c05_micro_inverse_exact (t : Time) (h : InRange t) (hus : t.ns % 1000 = 0) :
    microsecondsToTime (timeToMicroseconds t) = t := by
  rw [c05_micro_inverse t h, time_eta t t.day (t.ns / 1000 * 1000) rfl (by omega)]

/-- **epochs and documentation vectors** -/
theorem c05_epochs :
    -- the three epoch functions
    epochRataDie = civilTime 1 1 1 0 ∧ epoch1900 = civilTime 1900 1 1 0 ∧
    epoch1753 = civilTime 1753 1 1 (9 * 3600000000000 + 9 * 60000000000 + 9 * 1000000000 + 9) ∧
    -- 1900-01-01 ↦ 0, 1753-01-01 ↦ −53690 days, 0001-01-01 ↦ −693595 days, 9999-12-31 ↦ 2958463 days
    Spec.daysSince1900 1900 1 1 = 0 ∧ Spec.daysSince1900 1753 1 1 = -53690 ∧
    Spec.daysSince1900 1 1 1 = -693595 ∧ Spec.daysSince1900 9999 12 31 = 2958463 ∧
    bytes Types.DATE (.time (civilTime 1900 1 1 0)) 4 = .ok [0, 0, 0, 0] ∧
    bytes Types.DATE (.time (civilTime 1753 1 1 0)) 4 = .ok [0x46, 0x2e, 0xff, 0xff] ∧
    bytes Types.DATETIME (.time (civilTime 1753 1 1 0)) 8 = .ok [0x46, 0x2e, 0xff, 0xff, 0, 0, 0, 0] ∧
    -- 0001-01-01 is 366 days of microseconds after 0000-01-01
    durationFromDateTime (civilTime 1 1 1 0) = 366 * 86400000000 ∧
    timeToMicroseconds (civilTime 1 1 1 0) = 366 * 86400000000 ∧
    -- type maxima: smalldatetime 2079-06-06 23:59, datetime 9999-12-31 23:59:59.996 (tick 25919999)
    bytes Types.SHORTDATE (.time (civilTime 2079 6 6 (1439 * 60000000000))) 4 = .ok [0xff, 0xff, 0x9f, 0x05] ∧
    bytes Types.DATETIME (.time (civilTime 9999 12 31 (tickNs 25919999))) 8
      = .ok [0x7f, 0x24, 0x2d, 0x00, 0xff, 0x81, 0x8b, 0x01] := by
  decide +kernel

/-! ## temporal layouts -/

theorem days1900_eq (y m d : Nat) (hv : Spec.validDate y m d) :
    Spec.daysSince1900 y m d = (civilTime y m d 0).day - 693595 := by
  obtain ⟨hy1, hv'⟩ := (validDate_iff y m d).1 hv
  rw [Spec.daysSince1900, rataDie_eq y m d hy1 ⟨hv'.1, hv'.2.1⟩, rataDie_1900]
  simp only [civilTime]; omega

/-- **date = int32 days since 1900-01-01**, every day 0001-01-01 … 9999-12-31 -/
theorem c05_encode_matches_spec_date (y m d : Nat) (hv : Spec.validDate y m d) (hy : y ≤ 9999) :
    bytes Types.DATE (.time (civilTime y m d 0)) 4 = .ok (Spec.date y m d) ∧
    bytes Types.DATEN (.time (civilTime y m d 0)) 4 = .ok (Spec.date y m d) := by
  have hr := civilTime_range y m d 0 hv hy (by decide)
  have henc := enc_date (civilTime y m d 0) hr.2.2 (year_ok _ hr)
  rw [leEncode4_eq_intLE, ← days1900_eq y m d hv] at henc
  exact ⟨by rw [bytes_DATE, henc]; rfl, by rw [bytes_DATEN, henc]; rfl⟩

theorem c05_decode_matches_spec_date (y m d : Nat) (hv : Spec.validDate y m d) (hy : y ≤ 9999) :
    goValue Types.DATE (Spec.date y m d) = .ok (.time (civilTime y m d 0)) ∧
    goValue Types.DATEN (Spec.date y m d) = .ok (.time (civilTime y m d 0)) := by
  have hr := civilTime_range y m d 0 hv hy (by decide)
  have e : Spec.date y m d = leEncode 4 (toU 32 ((civilTime y m d 0).day - 693595)) := by
    rw [leEncode4_eq_intLE, ← days1900_eq y m d hv]; rfl
  have hdec := dec_date ((civilTime y m d 0).day - 693595) (by have := hr.1; have := hr.2.1; omega)
  rw [show 693595 + ((civilTime y m d 0).day - 693595) = (civilTime y m d 0).day by omega] at hdec
  exact ⟨by rw [e, goValue_DATE, leEncode_length, hdec]; rfl, by rw [e, goValue_DATEN, hdec]; rfl⟩

theorem tick_spec (ns : Nat) : ((Spec.tickOf (ns / 1000) : Nat) : Int) = (3 * ((ns / 1000 : Nat) : Int) + 5000) / 10000 := by
  rw [tickOf_eq]; omega

theorem tickOf_nearest (ns : Nat) : Spec.tickOf (ns / 1000) = nearestTick ns := by
  rw [tickOf_eq]; rfl

/-- **time = int32 ticks of 1/300 s since midnight** (nearest tick of the microsecond value) -/
theorem c05_encode_matches_spec_time (t : Time) (h : t.ns < nsPerDay) :
    bytes Types.TIME (.time t) 4 = .ok (Spec.time (t.ns / 1000)) ∧
    bytes Types.TIMEN (.time t) 4 = .ok (Spec.time (t.ns / 1000)) := by
  have henc := enc_time t h
  rw [leEncode4_eq_intLE, ← tick_spec] at henc
  exact ⟨by rw [bytes_TIME, henc]; rfl, by rw [bytes_TIMEN, henc]; rfl⟩

/-- a tick decodes to a time of day whose nearest tick it is (`k/300 s` truncated to the millisecond) -/
theorem c05_decode_matches_spec_time (k : Nat) (hk : k < 25920000) :
    goValue Types.TIME (Spec.intLE 4 k) = .ok (.time ⟨0, tickNs k⟩) ∧
    goValue Types.TIMEN (Spec.intLE 4 k) = .ok (.time ⟨0, tickNs k⟩) ∧
    Spec.tickOf (tickNs k / 1000) = k := by
  have e : Spec.intLE 4 (k : Int) = leEncode 4 k := by
    rw [← leEncode4_eq_intLE, toU32_nat k (by omega)]
  have hlt := tickNs_lt k hk
  have hdec := dec_time k (by omega)
  rw [show 10 * k / 3 * 1000000 = tickNs k from rfl, Nat.div_eq_of_lt hlt, Nat.mod_eq_of_lt hlt] at hdec
  refine ⟨by rw [e, goValue_TIME, leEncode_length, hdec]; rfl, by rw [e, goValue_TIMEN, hdec]; rfl, ?_⟩
  rw [tickOf_nearest, nearestTick_tickNs]

/-- **datetime = int32 days since 1900-01-01, uint32 ticks of 1/300 s since midnight** — every day 0001-01-01 …
9999-12-31 (negative day counts before 1900) × every time of day -/
theorem c05_encode_matches_spec_datetime (y m d ns : Nat) (hv : Spec.validDate y m d) (hy : y ≤ 9999)
    (hns : ns < nsPerDay) :
    bytes Types.DATETIME (.time (civilTime y m d ns)) 8 = .ok (Spec.dateTime y m d (ns / 1000)) ∧
    bytes Types.DATETIMEN (.time (civilTime y m d ns)) 8 = .ok (Spec.dateTime y m d (ns / 1000)) := by
  have hr := civilTime_range y m d ns hv hy hns
  have henc := enc_datetime (civilTime y m d ns) hns (year_ok _ hr)
  have hk := nearestTick_le ns hns
  rw [leEncode4_eq_intLE, show (civilTime y m d ns).day = (civilTime y m d 0).day from rfl, ← days1900_eq y m d hv,
    show (civilTime y m d ns).ns = ns from rfl, ← tick_spec,
    toU32_nat _ (by rw [tickOf_nearest]; omega), leEncode_eq_uintLE] at henc
  exact ⟨by rw [bytes_DATETIME, henc]; rfl, by rw [bytes_DATETIMEN, henc]; rfl⟩

-- the former counterexample: 1899-12-31 12:00:00 is day −1, tick 12 960 000
example : Spec.validDate 1899 12 31 ∧
    Spec.dateTime 1899 12 31 43200000000 = [0xff, 0xff, 0xff, 0xff, 0x00, 0xc1, 0xc5, 0x00] := by decide +kernel

/-- a server's datetime (any day 0001 … 9999, tick `k`) decodes to that day at `k/300 s` truncated to the
millisecond, whose nearest tick is `k` -/
theorem c05_decode_matches_spec_datetime (y m d k : Nat) (hv : Spec.validDate y m d) (hy : y ≤ 9999)
    (hk : k < 25920000) :
    goValue Types.DATETIME (Spec.intLE 4 (Spec.daysSince1900 y m d) ++ Spec.uintLE 4 k)
      = .ok (.time (civilTime y m d (tickNs k))) ∧
    goValue Types.DATETIMEN (Spec.intLE 4 (Spec.daysSince1900 y m d) ++ Spec.uintLE 4 k)
      = .ok (.time (civilTime y m d (tickNs k))) ∧
    Spec.tickOf (tickNs k / 1000) = k := by
  have hr := civilTime_range y m d 0 hv hy (by decide)
  have e : Spec.intLE 4 (Spec.daysSince1900 y m d) ++ Spec.uintLE 4 k
      = leEncode 4 (toU 32 ((civilTime y m d 0).day - 693595)) ++ leEncode 4 k := by
    rw [leEncode4_eq_intLE, ← days1900_eq y m d hv, leEncode_eq_uintLE]
  have hlt := tickNs_lt k hk
  have hdec := dec_datetime ((civilTime y m d 0).day - 693595) k (by have := hr.1; have := hr.2.1; omega) (by omega)
  rw [show 693595 + ((civilTime y m d 0).day - 693595) = (civilTime y m d 0).day by omega,
    show 10 * k / 3 * 1000000 = tickNs k from rfl,
    add_small _ 0 _ (by omega) (by simp only [nsPerDay] at hlt; omega),
    show ((0 : Nat) : Int) + ((tickNs k : Nat) : Int) = ((tickNs k : Nat) : Int) by omega, Int.toNat_natCast] at hdec
  have hlen : (leEncode 4 (toU 32 ((civilTime y m d 0).day - 693595)) ++ leEncode 4 k).length = 8 := by
    simp [leEncode_length]
  refine ⟨by rw [e, goValue_DATETIME, hlen, hdec]; rfl, by rw [e, goValue_DATETIMEN, hdec]; rfl, ?_⟩
  rw [tickOf_nearest, nearestTick_tickNs]

/-- **smalldatetime = uint16 days since 1900-01-01, uint16 minutes since midnight** (1900-01-01 … 2079-06-06) -/
theorem c05_encode_matches_spec_smalldatetime (y m d ns : Nat) (hv : Spec.validDate y m d)
    (hd : 693595 ≤ daysFromCivil y m d ∧ daysFromCivil y m d < 693595 + 65536) (hns : ns < nsPerDay) :
    bytes Types.SHORTDATE (.time (civilTime y m d ns)) 4 = .ok (Spec.smallDateTime y m d (ns / 1000)) ∧
    bytes Types.DATETIMEN (.time (civilTime y m d ns)) 4 = .ok (Spec.smallDateTime y m d (ns / 1000)) := by
  have hy := year_ok (civilTime y m d ns) ⟨by show (0 : Int) ≤ daysFromCivil y m d; omega,
    by show daysFromCivil y m d < 3652059; omega, hns⟩
  have henc := enc_shortdate (civilTime y m d ns) hns hy
  have e1 : toU 16 ((civilTime y m d ns).day - 693595) = (Spec.daysSince1900 y m d).toNat := by
    rw [days1900_eq y m d hv]
    show toU 16 (daysFromCivil y m d - 693595) = (daysFromCivil y m d - 693595).toNat
    simp only [toU, Nat.reducePow]; omega
  have e2 : toU 16 (((civilTime y m d ns).ns / 60000000000 : Nat) : Int) = ns / 1000 / 60000000 := by
    show toU 16 ((ns / 60000000000 : Nat) : Int) = _
    simp only [toU, Nat.reducePow, nsPerDay] at *; omega
  rw [e1, e2, leEncode_eq_uintLE, leEncode_eq_uintLE] at henc
  exact ⟨by rw [bytes_SHORTDATE, henc]; rfl, by rw [bytes_DATETIMEN, henc]; rfl⟩

theorem c05_decode_matches_spec_smalldatetime (y m d mins : Nat) (hv : Spec.validDate y m d)
    (hd : 693595 ≤ daysFromCivil y m d ∧ daysFromCivil y m d < 693595 + 65536) (hm : mins < 1440) :
    goValue Types.SHORTDATE (Spec.smallDateTime y m d (mins * 60000000))
      = .ok (.time (civilTime y m d (mins * 60000000000))) ∧
    goValue Types.DATETIMEN (Spec.smallDateTime y m d (mins * 60000000))
      = .ok (.time (civilTime y m d (mins * 60000000000))) := by
  have e : Spec.smallDateTime y m d (mins * 60000000)
      = leEncode 2 (daysFromCivil y m d - 693595).toNat ++ leEncode 2 mins := by
    rw [leEncode_eq_uintLE, leEncode_eq_uintLE, Spec.smallDateTime, days1900_eq y m d hv,
      Nat.mul_div_cancel _ (by decide)]; rfl
  have hdec := dec_shortdate (daysFromCivil y m d - 693595).toNat mins (by omega) (by omega)
  rw [show 693595 + (((daysFromCivil y m d - 693595).toNat : Nat) : Int) = daysFromCivil y m d by omega,
    add_small _ 0 _ (by omega) (by omega)] at hdec
  have e3 : (((0 : Nat) : Int) + (mins : Int) * 60000000000).toNat = mins * 60000000000 := by omega
  rw [e3] at hdec
  have hlen : (leEncode 2 (daysFromCivil y m d - 693595).toNat ++ leEncode 2 mins).length = 4 := by
    simp [leEncode_length]
  exact ⟨by rw [e, goValue_SHORTDATE, hlen, hdec]; rfl, by rw [e, goValue_DATETIMEN, hdec]; rfl⟩

example : Spec.validDate 2079 6 6 ∧ (693595 : Int) ≤ daysFromCivil 2079 6 6 ∧ daysFromCivil 2079 6 6 < 693595 + 65536 := by
  decide +kernel

/-- **bigdatetime = uint64 microseconds since 0000-01-01**, every day 0001 … 9999 × every microsecond -/
theorem c05_encode_matches_spec_bigdatetime (y m d ns : Nat) (hv : Spec.validDate y m d) (hy : y ≤ 9999)
    (hns : ns < nsPerDay) :
    bytes Types.BIGDATETIMEN (.time (civilTime y m d ns)) 8 = .ok (Spec.bigDateTime y m d (ns / 1000)) := by
  obtain ⟨hy1, hv'⟩ := (validDate_iff y m d).1 hv
  have hr := civilTime_range y m d ns hv hy hns
  rw [enc_bigdatetime _ hns hr.1 (by have := hr.2.1; omega), leEncode_eq_uintLE, Spec.bigDateTime,
    rataDie_eq y m d hy1 ⟨hv'.1, hv'.2.1⟩]
  simp only [civilTime]
  congr 3
  omega

theorem c05_decode_matches_spec_bigdatetime (y m d us : Nat) (hv : Spec.validDate y m d) (hy : y ≤ 9999)
    (hus : us < 86400000000) :
    goValue Types.BIGDATETIMEN (Spec.bigDateTime y m d us) = .ok (.time (civilTime y m d (us * 1000))) := by
  obtain ⟨hy1, hv'⟩ := (validDate_iff y m d).1 hv
  have hr := civilTime_range y m d 0 hv hy (by decide)
  have e : Spec.bigDateTime y m d us
      = leEncode 8 (((daysFromCivil y m d + 366) * 86400000000 + (us : Int)).toNat) := by
    rw [leEncode_eq_uintLE, Spec.bigDateTime, rataDie_eq y m d hy1 ⟨hv'.1, hv'.2.1⟩]
    congr 2
    omega
  rw [e, dec_bigdatetime _ us ⟨by have := hr.1; simp only [civilTime] at this; omega,
    by have := hr.2.1; simp only [civilTime] at this; omega⟩ hus]
  rfl

/-- **bigtime = uint64 microseconds since midnight** -/
theorem c05_encode_matches_spec_bigtime (t : Time) (h : t.ns < nsPerDay) :
    bytes Types.BIGTIMEN (.time t) 8 = .ok (Spec.bigTime (t.ns / 1000)) := by
  rw [enc_bigtime t h, leEncode_eq_uintLE]; rfl

theorem c05_decode_matches_spec_bigtime (us : Nat) (hus : us < 86400000000) :
    goValue Types.BIGTIMEN (Spec.bigTime us) = .ok (.time ⟨0, us * 1000⟩) := by
  rw [Spec.bigTime, ← leEncode_eq_uintLE, goValue_BIGTIMEN, dec_bigtime us hus]

/-! ## unitext -/

/-- **unitext = UTF-16LE**: every string of Unicode scalar values (all planes) is laid out as the little-endian
UTF-16 code units -/
theorem c05_encode_matches_spec_unitext (cps : List Nat) (l : Int) (h : ∀ c ∈ cps, IsScalar c) :
    bytes Types.UNITEXT (.str (utf8EncAll cps)) l = .ok (Spec.unitext cps) := by
  rw [bytes_UNITEXT, utf8Dec_encAll cps h, unitextWrite_zeros, unitext_eq cps h]

/-- the UTF-16LE bytes of a non-empty string that does not end in U+0000 decode to that string -/
theorem c05_decode_matches_spec_unitext (cps : List Nat) (hne : cps ≠ []) (h : ∀ c ∈ cps, IsScalar c)
    (hlast : cps.getLast? ≠ some 0) :
    goValue Types.UNITEXT (Spec.unitext cps) = .ok (.str (utf8EncAll cps)) := by
  have hlen : 0 < cps.length := List.length_pos_iff.2 hne
  have hul : 0 < (utf16EncAll cps).length := by
    have := congrArg List.length (utf16Dec_encAll cps h)
    cases hu : utf16EncAll cps with
    | nil => rw [hu] at this; simp [utf16Dec] at this; omega
    | cons a r => simp
  rw [unitext_eq cps h, goValue_UNITEXT, unitsLE_length, if_neg (by omega), if_neg (by omega),
    unitsOfLE_unitsLE _ (utf16EncAll_lt cps), utf16Dec_encAll cps h,
    trimRightNul_id _ (utf8EncAll_last cps h hlast)]

-- "AB" → 41 00 42 00; U+1F600 → D83D DE00 → 3d d8 00 de
example : Spec.unitext [0x41, 0x42] = [0x41, 0x00, 0x42, 0x00] ∧ Spec.unitext [0x1F600] = [0x3d, 0xd8, 0x00, 0xde] := by
  decide +kernel

/-! ## no overflow -/

/-- **Every intermediate value of `DurationFromDateTime` fits `int64`** on the property's domain (years 1 … 9999),
so the unbounded `Int` arithmetic of the model is the `int64` arithmetic of the Go code there.
(`TimeToMicroseconds` computes the same values in `int`/`uint64`; they are non-negative on the domain.) -/
theorem c05_no_overflow (t : Time) (h : InRange t) :
    ∀ x ∈ durationFromDateTimeIntermediates t, -9223372036854775808 ≤ x ∧ x < 9223372036854775808 := by
  obtain ⟨h0, h1, h2⟩ := h
  have hy1 : 1 ≤ t.year := year_pos_of_day_nonneg t.day h0
  have hy2 : t.year ≤ 9999 := year_le_of_day_lt t.day h1
  obtain ⟨hc, hm1, hm2, hd1, hd2⟩ := time_civil t
  have hd31 := daysInMonth_le t.month (isLeap t.year)
  obtain ⟨b1, b2, b3, b4, b5⟩ := hms_bounds t h2
  have hjd := goJdn_time t (by omega)
  have hdft := durationFromTime_bounds t h2
  have hdfd := durationFromDateTime_eq t h2 (by omega)
  have ha : Int.tdiv ((t.month : Int) - 14) 12 = -1 ∨ Int.tdiv ((t.month : Int) - 14) 12 = 0 := by
    rw [tdiv_pos]; rw [if_neg (by omega)]; omega
  have hus := us_lt t h2
  intro x hx
  simp only [durationFromDateTimeIntermediates, List.mem_cons, List.mem_nil_iff, or_false] at hx
  rw [hjd, hdfd] at hx
  rcases ha with ha | ha <;> rw [ha] at hx <;>
    rcases hx with rfl | rfl | rfl | rfl | rfl | rfl | rfl | rfl | rfl | rfl | rfl | rfl | rfl | rfl <;>
    first | omega | (rw [tdiv_pos, if_pos (by omega)]; omega)

example : InRange ⟨3652058, 86399999999999⟩ := by decide

end Dblib.Props.C05
