-- C11: abstract theorems (any parser family with the incremental law) and their instantiation
-- with the transcribed package decoders (Model/Codec/Pkg.lean)
import Dblib.Props.C11.Abstract
import Dblib.Props.C11.Concrete
import Dblib.Props.C11.History
import Dblib.Props.C03.Duplex  -- the sending side does not touch the receive state
