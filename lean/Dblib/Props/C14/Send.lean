/-
C14 — failures during a request write: `sendPackets` stops at the first packet write that fails.

The shape of the loop is regenerated from the source (`Gen/Shape.lean`: `sendPacketsReturnsFirstError` —
the error branch of every packet write in `sendPackets` ends in a return of an error); the model is
parameterised by that fact. The `wf … once` lines of the C14 harness run the real `SendPackage` over a
transport whose k-th write fails and whose later writes would succeed.
-/
import Dblib.Gen.Shape

namespace Dblib.Props.C14

/-- `sendPackets` over `total` packets when the k-th transport write fails and every other write would
succeed: (an error is reported, packets written completely). Without the return in the error branch the
loop goes on: the rest is written and the error is lost with the next iteration. -/
def sendFailOnce (returnsFirst : Bool) (total k : Nat) : Bool × Nat :=
  if 1 ≤ k ∧ k ≤ total then (if returnsFirst then (true, k - 1) else (false, total - 1))
  else (false, total)

/-- **a failing request write is reported and nothing is written after it**, also when the transport
would take the later packets; a request whose writes all succeed is sent completely and reports nothing -/
theorem c14_send_stops_at_first_failure (total k : Nat) :
    (1 ≤ k ∧ k ≤ total → sendFailOnce Gen.Shape.sendPacketsReturnsFirstError total k = (true, k - 1)) ∧
    (¬ (1 ≤ k ∧ k ≤ total) → sendFailOnce Gen.Shape.sendPacketsReturnsFirstError total k = (false, total)) := by
  unfold sendFailOnce
  constructor <;> intro h <;> simp [h, Gen.Shape.sendPacketsReturnsFirstError]

/-- what is written before the failure is a strict prefix: never the whole request -/
theorem c14_failed_send_is_partial (total k : Nat) (h : 1 ≤ k ∧ k ≤ total) :
    (sendFailOnce Gen.Shape.sendPacketsReturnsFirstError total k).2 < total := by
  rw [(c14_send_stops_at_first_failure total k).1 h]; show k - 1 < total; omega

/-- the statement is about the fact: a loop that does not return writes the rest and reports success -/
example : sendFailOnce false 3 1 = (false, 2) := by decide

end Dblib.Props.C14
