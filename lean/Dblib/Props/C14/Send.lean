/-
C14 — failures during a request write: `sendPackets` stops at the first packet write that fails.

The shape of the loop is regenerated from the source (`Gen/Shape.lean`: `sendPacketsReturnsFirstError` —
the error branch of every packet write in `sendPackets` ends in a return of an error); the model is
parameterised by that fact. The `wf … once` lines of the C14 harness run the real `SendPackage` over a
transport whose k-th write fails and whose later writes would succeed.
-/
import Dblib.Gen.Shape

namespace Dblib.Props.C14

/-- `sendPackets` over `total` packets when the k-th transport write fails and every other write would
succeed: (an error is reported, packets written completely). Without the return in the error branch the
loop goes on: the rest is written and the error is lost with the next iteration. -/
def sendFailOnce (returnsFirst : Bool) (total k : Nat) : Bool × Nat :=
  if 1 ≤ k ∧ k ≤ total then (if returnsFirst then (true, k - 1) else (false, total - 1))
  else (false, total)

/-- **a failing request write is reported and nothing is written after it**, also when the transport
would take the later packets; a request whose writes all succeed is sent completely and reports nothing -/
theorem c14_send_stops_at_first_failure (total k : Nat) :
    (1 ≤ k ∧ k ≤ total → sendFailOnce Gen.Shape.sendPacketsReturnsFirstError total k = (true, k - 1)) ∧
    (¬ (1 ≤ k ∧ k ≤ total) → sendFailOnce Gen.Shape.sendPacketsReturnsFirstError total k = (false, total)) := by
  unfold sendFailOnce
  constructor <;> intro h <;> simp [h, Gen.Shape.sendPacketsReturnsFirstError]

/-- what is written before the failure is a strict prefix: never the whole request -/
theorem c14_failed_send_is_partial (total k : Nat) (h : 1 ≤ k ∧ k ≤ total) :
    (sendFailOnce Gen.Shape.sendPacketsReturnsFirstError total k).2 < total := by
  rw [(c14_send_stops_at_first_failure total k).1 h]; show k - 1 < total; omega

/-- the statement is about the fact: a loop that does not return writes the rest and reports success -/
example : sendFailOnce false 3 1 = (false, 2) := by decide


/-! ### the cleanup after a failed callback ends with the transport

`NextPackageUntil`, after the consumer's callback failed on a package that is not the final DONE, consumes
the rest of the response so that nothing is left over for the next one. What `NextPackage` hands that loop,
one result per call: a package, the final DONE, or an error (of the channel, the connection — a dead
transport reports one on every call, `c14_dead_transport_keeps_failing` — or a context). -/

inductive NpEv where
  | pkg | final | err
deriving Repr, DecidableEq

/-- the cleanup loop over the results of its `NextPackage` calls: `some k` = it ends with the k-th call,
`none` = it is still running when the results are used up (it waits for the next one). Without the
regenerated fact an error does not end it. -/
def cleanup (endsAtError : Bool) : List NpEv → Nat → Option Nat
  | [], _ => none
  | .final :: _, k => some (k + 1)
  | .err :: rest, k => if endsAtError then some (k + 1) else cleanup endsAtError rest (k + 1)
  | .pkg :: rest, k => cleanup endsAtError rest (k + 1)

/-- **the consumer whose callback failed gets its error back when the transport ends**: if an error is
among the results, the cleanup ends — with the call that returns the first error or final DONE, at the
latest -/
theorem c14_cleanup_ends_with_transport (evs : List NpEv) (k : Nat) (h : NpEv.err ∈ evs) :
    ∃ n, cleanup Gen.Shape.untilCleanupEndsAtFirstError evs k = some n ∧ n ≤ k + evs.length := by
  induction evs generalizing k with
  | nil => simp at h
  | cons e rest ih =>
    cases e with
    | final => exact ⟨k + 1, by simp [cleanup], by simp⟩
    | err => exact ⟨k + 1, by simp [cleanup, Gen.Shape.untilCleanupEndsAtFirstError], by simp⟩
    | pkg =>
      have h' : NpEv.err ∈ rest := by simpa using h
      obtain ⟨n, hn, hle⟩ := ih (k + 1) h'
      exact ⟨n, by simpa [cleanup] using hn, by simp only [List.length_cons]; omega⟩

/-- the statement is about the fact: a loop that goes on after errors never ends on a dead transport -/
example : cleanup false [.pkg, .err, .err, .err] 0 = none := by decide

end Dblib.Props.C14
