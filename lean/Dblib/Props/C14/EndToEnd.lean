/-
C14 through both layers: a response whose bytes arrive only in part. Whatever non-final packets of
the response reach the channel (the reader hands on exactly the packets that arrived completely,
`c14_packets_clean_prefix`), the channel emits exactly the events of the first `j` packages of the
response for some `j` — nothing assembled from incomplete data, no final DONE supplied.
-/
import Dblib.Props.C14.Abstract

namespace Dblib.Props.C14
open Dblib Dblib.Rx Dblib.Props.C02
variable {Pkg : Type}

/-- feeding packets without the end-of-message flag whose bodies continue the response after its
first `k` bytes: the channel is in the state, and has emitted the events, of having parsed the
longer prefix -/
theorem feed_prefix (ops : Ops Pkg)
    (hI : ∀ tok last p, ops.select tok last = .parser p → Incr p)
    (rx : Rx Pkg) (last : Option Pkg) (T : Bytes) (hW : Whole ops last T) (hc : rx.closed = false) :
    ∀ (cs : List Bytes) (k : Nat), (T.drop k).take cs.flatten.length = cs.flatten →
      ∃ evs, feed ops (run ops (withBuf rx last (T.take k) false)).1 (cs.map (fun c => (c, false)))
          = some ((run ops (withBuf rx last (T.take (k + cs.flatten.length)) false)).1, evs)
        ∧ (run ops (withBuf rx last (T.take k) false)).2.1 ++ evs
            = (run ops (withBuf rx last (T.take (k + cs.flatten.length)) false)).2.1 := by
  intro cs
  induction cs with
  | nil => intro k _; exact ⟨[], by simp [feed], by simp⟩
  | cons c cs ih =>
    intro k hT
    have hlen : (c :: cs).flatten.length = c.length + cs.flatten.length := by simp
    have hc1 : (T.drop k).take c.length = c := by
      have := congrArg (List.take c.length) hT
      rw [List.take_take] at this
      simpa [Nat.min_eq_left (show c.length ≤ (c :: cs).flatten.length by rw [hlen]; omega)] using this
    have hT2 : (T.drop (k + c.length)).take cs.flatten.length = cs.flatten := by
      have := congrArg (List.drop c.length) hT
      rw [List.drop_take, List.drop_drop] at this
      simpa [hlen] using this
    have h := run_split ops hI last T hW rx k c.length false
    rw [hc1] at h
    have hfl := run_flag ops hI last T hW rx (k + c.length) false
    have hfl2 : (run ops (withBuf rx (run ops (withBuf rx last (T.take k) false)).1.last
        ((run ops (withBuf rx last (T.take k) false)).1.buf ++ c) false)).2.2 = true := by
      rw [h] at hfl; exact hfl
    obtain ⟨evs', ih1, ih2⟩ := ih (k + c.length) hT2
    have hstate : (run ops (withBuf rx (run ops (withBuf rx last (T.take k) false)).1.last
        ((run ops (withBuf rx last (T.take k) false)).1.buf ++ c) false)).1
          = (run ops (withBuf rx last (T.take (k + c.length)) false)).1 := by rw [h]
    have hev : (run ops (withBuf rx last (T.take (k + c.length)) false)).2.1
        = (run ops (withBuf rx last (T.take k) false)).2.1 ++
          (run ops (withBuf rx (run ops (withBuf rx last (T.take k) false)).1.last
            ((run ops (withBuf rx last (T.take k) false)).1.buf ++ c) false)).2.1 := by rw [h]
    rw [run_withBuf_eq ops rx last (T.take k)]
    refine ⟨(run ops (withBuf rx (run ops (withBuf rx last (T.take k) false)).1.last
            ((run ops (withBuf rx last (T.take k) false)).1.buf ++ c) false)).2.1 ++ evs', ?_, ?_⟩
    · simp only [List.map_cons, feed]
      rw [writeBody_eq ops rx _ _ c false hfl2 hc]
      simp only
      rw [hstate, ih1, hlen, Nat.add_assoc]
      simp
    · rw [← List.append_assoc, ← hev, ih2, hlen, Nat.add_assoc]

/-- **Partial response, both layers.** A channel at the start of a response receives any number of
packets without the end-of-message flag whose bodies form a prefix of the response: it emits exactly
the events of the first `j` packages of the response, for some `j` — every package emitted is one
the server sent, with its value, in order; no package from incomplete data; no final DONE. -/
theorem c14_partial_response (ops : Ops Pkg)
    (hI : ∀ tok last p, ops.select tok last = .parser p → Incr p)
    (rx : Rx Pkg) (T : Bytes) (pkgs : List Pkg)
    (hbuf : rx.buf = []) (heom : rx.eom = false) (hc : rx.closed = false)
    (hW : WholeP ops rx.last T pkgs)
    (cs : List Bytes) (rest : Bytes) (hpre : T = cs.flatten ++ rest) :
    ∃ rx' ev j, feed ops rx (cs.map (fun c => (c, false))) = some (rx', ev) ∧ j ≤ pkgs.length
      ∧ ev = (pkgs.take j).flatMap (acceptEv ops rx.nEed rx.nEnv) := by
  have hT : (T.drop 0).take cs.flatten.length = cs.flatten := by rw [hpre]; simp
  obtain ⟨evs, h1, h2⟩ := feed_prefix ops hI rx rx.last T hW.whole hc cs 0 hT
  have hrx : rx = withBuf rx rx.last [] false := by cases rx; simp_all [withBuf]
  have h0 : run ops (withBuf rx rx.last (T.take 0) false) = (withBuf rx rx.last [] false, [], true) := by
    rw [List.take_zero, run_nil ops _ rfl]; simp [withBuf]
  rw [h0] at h1 h2
  simp only [List.nil_append, Nat.zero_add] at h1 h2
  obtain ⟨j, hj, hjev⟩ := c14_channel_clean_prefix ops hI rx.last T pkgs hW rx cs.flatten.length
  refine ⟨(run ops (withBuf rx rx.last (T.take cs.flatten.length) false)).1, evs, j, ?_, hj, ?_⟩
  · rw [← hrx] at h1; exact h1
  · rw [h2, hjev]

/-- the packets complete within `k` bytes are an initial segment of the packets sent -/
theorem completeWithin_take (ps : List Packet) : ∀ k, ∃ m, completeWithin ps k = ps.take m := by
  induction ps with
  | nil => intro k; exact ⟨0, rfl⟩
  | cons p ps ih =>
    intro k
    simp only [completeWithin]
    split
    · obtain ⟨m, hm⟩ := ih (k - (8 + p.data.length))
      exact ⟨m + 1, by simp [hm]⟩
    · exact ⟨0, rfl⟩

end Dblib.Props.C14
