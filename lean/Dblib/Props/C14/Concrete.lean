/-
C14 instantiated with the transcribed package decoders (`Codec.ops`, Model/Codec/Pkg.lean).
-/
import Dblib.Props.C14.Abstract
import Dblib.Props.C14.EndToEnd
import Dblib.Props.C02.Concrete
import Dblib.Model.PacketReaderDriver

namespace Dblib.Props.C14
open Dblib Dblib.Rx Dblib.Codec Dblib.Props.C02

/-- from the first `k` bytes of a response of real packages the channel emits exactly the events of
the first `j` packages, those that have arrived completely: nothing from incomplete data -/
theorem c14_concrete_channel_clean_prefix (last : Option Pkg) (T : Bytes) (pkgs : List Pkg)
    (hW : WholeP Codec.ops last T pkgs) (rx : Rx Pkg) (k : Nat) :
    ∃ j, j ≤ pkgs.length ∧
      (run Codec.ops (withBuf rx last (T.take k) false)).2.1 = (pkgs.take j).flatMap (acceptEv Codec.ops rx.nEed rx.nEnv) :=
  c14_channel_clean_prefix Codec.ops select_incr last T pkgs hW rx k

/-- partial responses of real packages through the channel: exactly the events of the first `j` packages -/
theorem c14_concrete_partial_response (rx : Rx Pkg) (T : Bytes) (pkgs : List Pkg)
    (hbuf : rx.buf = []) (heom : rx.eom = false) (hc : rx.closed = false)
    (hW : WholeP Codec.ops rx.last T pkgs) (cs : List Bytes) (rest : Bytes) (hpre : T = cs.flatten ++ rest) :
    ∃ rx' ev j, feed Codec.ops rx (cs.map (fun c => (c, false))) = some (rx', ev) ∧ j ≤ pkgs.length
      ∧ ev = (pkgs.take j).flatMap (acceptEv Codec.ops rx.nEed rx.nEnv) :=
  c14_partial_response Codec.ops select_incr rx T pkgs hbuf heom hc hW cs rest hpre

/-- a request write that fails is reported as an error, with exactly the packets before it written;
a request whose writes all succeed is sent completely (the loop of `sendPackets` returns at the
first failing `sendPacket`; tied to the code by the `wf` lines of the C14 harness) -/
theorem c14_write_failure_reported (total k : Nat) :
    (1 ≤ k ∧ k ≤ total → Reader.sendWriteFail total k = (false, k - 1)) ∧
    (¬ (1 ≤ k ∧ k ≤ total) → Reader.sendWriteFail total k = (true, total)) := by
  unfold Reader.sendWriteFail
  constructor <;> intro h <;> simp [h]

/-- a dead transport keeps failing: every further iteration of the reader loop on an exhausted
transport that ended by EOF or a read error reports an error again (it is the loop of `Conn.ReadFrom`
that re-reports, so that every consumer asking later is answered; tied to the code by the repeated
calls of the `rd` harness lines) -/
theorem c14_dead_transport_keeps_failing (sched : List Nat) (fin : Reader.Fin) (h : fin ≠ .hang) :
    (Reader.readPacket ⟨[], sched, fin⟩).1 = [.connErr] := by
  unfold Reader.readPacket Reader.readExact
  cases fin <;> simp_all

/-- non-vacuity of the `WholeP` hypothesis: DONE(MORE) DONE(FINAL) parses whole into its two packages -/
example : WholeP Codec.ops none ([0xFD, 1, 0, 0, 0, 5, 0, 0, 0] ++ [0xFD, 0, 0, 0, 0, 7, 0, 0, 0])
    [.done "done" ⟨1, 0, 5⟩, .done "done" ⟨0, 0, 7⟩] := by
  refine .cons none 0xFD _ (lift Basic.Done.dec (.done "done")) (.done "done" ⟨1, 0, 5⟩) 8 _ rfl (by rfl) ?_
  refine .cons _ 0xFD _ (lift Basic.Done.dec (.done "done")) (.done "done" ⟨0, 0, 7⟩) 8 _ rfl (by rfl) ?_
  exact .nil _

end Dblib.Props.C14
