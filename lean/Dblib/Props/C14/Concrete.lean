/-
C14 instantiated with the transcribed package decoders (`Codec.ops`, Model/Codec/Pkg.lean).
-/
import Dblib.Props.C14.Abstract
import Dblib.Props.C02.Concrete

namespace Dblib.Props.C14
open Dblib Dblib.Rx Dblib.Codec Dblib.Props.C02

/-- from the first `k` bytes of a response of real packages the channel emits exactly the events of
the first `j` packages, those that have arrived completely: nothing from incomplete data -/
theorem c14_concrete_channel_clean_prefix (last : Option Pkg) (T : Bytes) (pkgs : List Pkg)
    (hW : WholeP Codec.ops last T pkgs) (rx : Rx Pkg) (k : Nat) :
    ∃ j, j ≤ pkgs.length ∧
      (run Codec.ops (withBuf rx last (T.take k) false)).2.1 = (pkgs.take j).flatMap (acceptEv Codec.ops rx.nEed rx.nEnv) :=
  c14_channel_clean_prefix Codec.ops select_incr last T pkgs hW rx k

end Dblib.Props.C14
