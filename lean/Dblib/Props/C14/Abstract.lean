/-
C14 — Transport failure yields a clean prefix and then an error.

Packet layer (`Model/PacketReader.lean`): whatever the read schedule, a stream cut at byte `k`
yields exactly the packets completely received before `k`, then the end event (an error on the
connection's error queue for EOF / reset — for EOF inside a packet after the read timeout; a hanging
transport blocks). Channel layer (`Model/ChanRx.lean`): the packages delivered from a prefix of the
response bytes are those of the complete packages in it — never a package built from incomplete
data, never the synthetic final DONE.
-/
import Dblib.Lemmas.PacketReader
import Dblib.Props.C03.Abstract

namespace Dblib.Props.C14
open Dblib Dblib.Reader

/-- the packets of `ps` lying completely within the first `k` bytes of their serialisation -/
def completeWithin : List Packet → Nat → List Packet
  | [], _ => []
  | p :: ps, k => if 8 + p.data.length ≤ k then p :: completeWithin ps (k - (8 + p.data.length)) else []

theorem wireOf_cons (p : Packet) (ps : List Packet) (hp : HdrOK p) :
    wireOf (p :: ps) = hdrBytes p.hdr ++ (p.data ++ wireOf ps) := by
  simp [wireOf, packetBytes_ok p hp]

/-- **Packet layer: clean prefix.** For every list of well-formed packets, every byte offset `k`
at which the stream ends, every read schedule and every way the transport ends: the reader
produces exactly the packets complete within `k` bytes, followed by the end event. -/
theorem c14_packets_clean_prefix (ps : List Packet) : ∀ (k : Nat) (sched : List Nat) (fin : Fin) (fuel : Nat),
    (∀ p ∈ ps, HdrOK p) → ps.length < fuel →
    readLoop fuel ⟨(wireOf ps).take k, sched, fin⟩
      = (completeWithin ps k).map Ev.packet ++ [endEv fin] := by
  induction ps with
  | nil =>
    intro k sched fin fuel _ hf
    cases fuel with
    | zero => simp at hf
    | succ fuel =>
      simp only [wireOf, List.map_nil, List.flatten_nil, List.take_nil, completeWithin, List.nil_append]
      rw [readLoop, readPacket_end sched fin [] (by simp)]
  | cons p ps ih =>
    intro k sched fin fuel hok hf
    have hp := hok p (by simp)
    have hl : (hdrBytes p.hdr).length = 8 := by simp [hdrBytes]
    cases fuel with
    | zero => simp at hf
    | succ fuel =>
      rw [wireOf_cons p ps hp, readLoop]
      by_cases hk : 8 + p.data.length ≤ k
      · have hsplit : (hdrBytes p.hdr ++ (p.data ++ wireOf ps)).take k
            = hdrBytes p.hdr ++ (p.data ++ (wireOf ps).take (k - (8 + p.data.length))) := by
          rw [List.take_append, List.take_of_length_le (by omega), List.take_append,
            List.take_of_length_le (by omega), hl]
          congr 3; omega
        rw [hsplit]
        obtain ⟨s', hr⟩ := readPacket_ok p hp ((wireOf ps).take (k - (8 + p.data.length))) sched fin
        rw [hr]
        simp only [completeWithin, hk, if_true, List.map_cons, List.cons_append, List.singleton_append]
        rw [ih _ s' fin fuel (fun q hq => hok q (by simp [hq])) (by simpa using hf)]
        simp
      · have hsplit : (hdrBytes p.hdr ++ (p.data ++ wireOf ps)).take k = (hdrBytes p.hdr ++ p.data).take k := by
          rw [← List.append_assoc, List.take_append_of_le_length (by simp [hl]; omega)]
        rw [hsplit, readPacket_cut p hp k sched fin (by omega)]
        simp [completeWithin, hk]

/-- **Packet layer: reads of any size (C02).** The complete stream of well-formed packets is
read as exactly these packets, whatever the read schedule — including schedules that split a
header or a body. -/
theorem c02_chunking_irrelevant (ps : List Packet) (sched : List Nat) (fin : Fin) (fuel : Nat)
    (hok : ∀ p ∈ ps, HdrOK p) (hf : ps.length < fuel) :
    readLoop fuel ⟨wireOf ps, sched, fin⟩ = ps.map Ev.packet ++ [endEv fin] := by
  have h := c14_packets_clean_prefix ps (wireOf ps).length sched fin fuel hok hf
  rw [List.take_length] at h
  rw [h]
  congr 2
  clear h hf
  induction ps with
  | nil => rfl
  | cons p ps ih =>
    have hp := hok p (by simp)
    have hl : (hdrBytes p.hdr).length = 8 := by simp [hdrBytes]
    rw [wireOf_cons p ps hp]
    have : 8 + p.data.length ≤ (hdrBytes p.hdr ++ (p.data ++ wireOf ps)).length := by simp [hl]
    simp only [completeWithin, this, if_true]
    congr 1
    have : (hdrBytes p.hdr ++ (p.data ++ wireOf ps)).length - (8 + p.data.length) = (wireOf ps).length := by
      simp [hl]; omega
    rw [this]
    exact ih (fun q hq => hok q (by simp [hq]))

/-! ## channel layer -/

open Dblib.Rx Dblib.Props.C02 in
/-- **Channel layer: no package from incomplete data, no spurious final DONE.** From the first `k`
bytes of a response (end of message not yet received) the channel emits exactly the events of the
first `j` packages, for some `j` — those whose bytes have arrived completely. -/
theorem c14_channel_clean_prefix {Pkg : Type} (ops : Ops Pkg)
    (hI : ∀ tok last p, ops.select tok last = .parser p → Incr p)
    (last : Option Pkg) (T : Bytes) (pkgs : List Pkg) (hW : WholeP ops last T pkgs) :
    ∀ (rx : Rx Pkg) (k : Nat), ∃ j, j ≤ pkgs.length ∧
      (run ops (withBuf rx last (T.take k) false)).2.1 = (pkgs.take j).flatMap (acceptEv ops rx.nEed rx.nEnv) := by
  induction hW with
  | nil last =>
    intro rx k
    refine ⟨0, Nat.le_refl _, ?_⟩
    simp only [List.take_nil]
    rw [run_nil ops _ rfl]
    simp [withBuf]
  | cons last tok rest p pkg n pkgs hs hp hW ih =>
    intro rx k
    obtain ⟨hn, hstab, hshort⟩ := hI tok last p hs rest pkg n hp
    cases k with
    | zero =>
      refine ⟨0, Nat.zero_le _, ?_⟩
      simp only [List.take_zero]
      rw [run_nil ops _ rfl]
      simp [withBuf]
    | succ k =>
      rw [take_succ_cons]
      by_cases hk : k < n
      · refine ⟨0, Nat.zero_le _, ?_⟩
        rw [run_cons_short ops _ tok (rest.take k) p rfl hs (hshort k hk)]
        simp [withBuf]
      · have hsplit : rest.take k = rest.take n ++ (rest.drop n).take (k - n) := by
          have : k = n + (k - n) := by omega
          conv => lhs; rw [this, List.take_add]
        have h1 : p (rest.take k) = .ok pkg n := by rw [hsplit]; exact hstab _
        have hdrop : (rest.take k).drop n = (rest.drop n).take (k - n) := by
          rw [hsplit, List.drop_append_of_le_length (by simp [List.length_take]; omega),
            List.drop_of_length_le (by simp [List.length_take]; omega)]
          simp
        obtain ⟨j, hj, hev⟩ := ih rx (k - n)
        refine ⟨j + 1, by simp; omega, ?_⟩
        rw [run_cons_ok ops _ tok _ p pkg n rfl hs h1]
        simp only [withBuf] at hev ⊢
        rw [hdrop, hev]
        simp [List.flatMap_cons]

end Dblib.Props.C14
