-- C03: abstract theorems (any parser family with the incremental law) and their instantiation
-- with the transcribed package decoders (Model/Codec/Pkg.lean)
import Dblib.Props.C03.Abstract
import Dblib.Props.C03.History
import Dblib.Props.C03.Concrete
import Dblib.Props.C03.Duplex
