-- C14: abstract theorems (any parser family with the incremental law) and their instantiation
-- with the transcribed package decoders (Model/Codec/Pkg.lean)
import Dblib.Props.C14.Abstract
import Dblib.Props.C14.EndToEnd
import Dblib.Props.C14.Concrete
import Dblib.Props.C14.Send
