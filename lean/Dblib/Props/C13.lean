/-
C13 — Cancelled or closed channels never block and never deliver.

Partial by nature: wall-clock promptness, the Go scheduler and the runtime's `select`/`RWMutex`
are outside a theorem. What is proved is the logic: which results `NextPackage` can give at once,
that a cancelled send writes nothing, and that `Close` always gets its lock within a number of steps
bounded by what is pending — all stated at the structural facts regenerated from the source
(`Gen/Shape.lean`), so removing a context case, a guard or the queue draining breaks a theorem.
The scenario harness (go/cmd/harness/c13.go) runs the real calls under a watchdog.
-/
import Dblib.Model.Life
import Dblib.Props.C13.ConnClose

namespace Dblib.Props.C13
open Dblib.Life Dblib.Gen.Shape

/-- the case function of the select (as in `Life.nextPackage`) -/
def selCase (s : NpState) (c : String) : Option NpResult :=
  if c == "<-ctx.Done()" then (if s.ctxDone then some .ctx else none)
  else if c == "<-tdsChan.tdsConn.ctx.Done()" then (if s.connDone then some .connCtx else none)
  else if c == "<-tdsChan.tdsConn.errCh" then (if s.connErrs > 0 then some .connErr else none)
  else if c == "<-tdsChan.errCh" then (if s.chanErrs > 0 then some .chanErr else none)
  else if c == "<-tdsChan.packageCh" then (if s.queued > 0 then some .pkg else none)
  else if c == "<-ch" then (if s.wait then none else some .noPackage)
  else none

theorem nextPackage_eq (sel : List String) (cf : Bool) (s : NpState) :
    nextPackage sel cf s =
      if cf && s.closed then [.closed] else if s.queued > 0 then [.pkg] else sel.filterMap (selCase s) := by
  -- the first look at the package queue is the regenerated fact `nextPackageLooksAtQueueFirst`
  simp only [nextPackage, nextPackageLooksAtQueueFirst, Bool.true_and, decide_eq_true_eq]
  rfl

/-- the select of `NextPackage` watches both contexts (regenerated fact) -/
theorem select_watches_contexts :
    "<-ctx.Done()" ∈ nextPackageSelect ∧ "<-tdsChan.tdsConn.ctx.Done()" ∈ nextPackageSelect := by decide

/-- **A receive with a cancelled context never blocks**: with the caller's or the connection's
context done, `NextPackage` has a result at once in every state … -/
theorem c13_cancel_returns (s : NpState) (h : s.ctxDone = true ∨ s.connDone = true) :
    nextPackage nextPackageSelect nextPackageChecksClosedFirst s ≠ [] := by
  rw [nextPackage_eq]
  split
  · simp
  · split
    · simp
    · intro hnil
      rcases h with h | h
      · have : NpResult.ctx ∈ nextPackageSelect.filterMap (selCase s) :=
          List.mem_filterMap.2 ⟨_, select_watches_contexts.1, by simp [selCase, h]⟩
        rw [hnil] at this; simp at this
      · have : NpResult.connCtx ∈ nextPackageSelect.filterMap (selCase s) :=
          List.mem_filterMap.2 ⟨_, select_watches_contexts.2, by simp [selCase, h]⟩
        rw [hnil] at this; simp at this

theorem selCase_sound (s : NpState) (c : String) (r : NpResult) (h : selCase s c = some r) :
    (r = .pkg ∧ s.queued > 0) ∨ (r = .ctx ∧ s.ctxDone = true)
      ∨ (r = .connCtx ∧ s.connDone = true) ∨ (r = .chanErr ∧ s.chanErrs > 0)
      ∨ (r = .connErr ∧ s.connErrs > 0) ∨ (r = .noPackage ∧ s.wait = false) := by
  unfold selCase at h
  repeat' split at h
  all_goals simp_all

/-- … and that result is the closed condition, an already queued package, an already queued
error, or the context's error — never something that arrives later, never a wait. (For ANY list of
select cases: this clause does not depend on the regenerated list.) -/
theorem c13_cancel_results (s : NpState) (r : NpResult)
    (hr : r ∈ nextPackage nextPackageSelect nextPackageChecksClosedFirst s) :
    (r = .closed ∧ s.closed = true) ∨ (r = .pkg ∧ s.queued > 0) ∨ (r = .ctx ∧ s.ctxDone = true)
      ∨ (r = .connCtx ∧ s.connDone = true) ∨ (r = .chanErr ∧ s.chanErrs > 0)
      ∨ (r = .connErr ∧ s.connErrs > 0) ∨ (r = .noPackage ∧ s.wait = false) := by
  rw [nextPackage_eq] at hr
  split at hr
  · rename_i hc
    simp only [List.mem_cons, List.not_mem_nil, or_false] at hr
    simp only [Bool.and_eq_true] at hc
    exact Or.inl ⟨hr, hc.2⟩
  · split at hr
    · rename_i hq
      simp only [List.mem_cons, List.not_mem_nil, or_false] at hr
      exact Or.inr (Or.inl ⟨hr, hq⟩)
    · obtain ⟨c, _, hc⟩ := List.mem_filterMap.1 hr
      exact Or.inr (selCase_sound s c r hc)

/-- **what was received is handed out before any error queued behind it**: with a package in the queue (and
the channel open) `NextPackage` returns that package — not an error of the channel or of the connection,
not the end of a context — whatever else is ready. (The non-blocking first look at the package queue is a
regenerated fact; the `eof` scripts of the C08 harness — the peer goes away right behind its acceptance —
tie it to the code.) -/
theorem c13_received_before_errors (s : NpState) (hq : s.queued > 0) (hc : s.closed = false) :
    nextPackage nextPackageSelect nextPackageChecksClosedFirst s = [.pkg] := by
  rw [nextPackage_eq]
  simp [hc, hq]

/-- after Close every receive reports the closed condition, whatever is queued -/
theorem c13_closed_reports (s : NpState) (h : s.closed = true) :
    nextPackage nextPackageSelect nextPackageChecksClosedFirst s = [.closed] := by
  simp [nextPackage, nextPackageChecksClosedFirst, h]

/-- **A send with a cancelled context writes nothing**: the context is checked before every packet
write, so a context that is done before the first packet lets none through (and one cancelled
before packet `k` lets at most `k` through). -/
theorem c13_cancelled_send_writes_nothing (n : Nat) : sendCtx sendChecksCtxPerPacket n 0 = 0 := by
  simp [sendCtx, sendChecksCtxPerPacket]

theorem c13_send_stops_at_cancel (n k : Nat) : sendCtx sendChecksCtxPerPacket n k ≤ k := by
  simp [sendCtx, sendChecksCtxPerPacket]; omega

/-- a second Close reports the closed condition before sending or closing anything; the reader's
error sends watch the connection context (it ends with the connection) -/
theorem c13_close_guards : closeChecksClosedFirst = true ∧ readerErrSendsGuarded = true := by decide

/-- a receiver waiting in `NextPackage` keeps `Close` out until it has returned: the read lock is held
for the whole call, so the queues are never closed under a waiting receiver (which would hand it a nil
package without an error) -/
theorem c13_receiver_excludes_close : nextPackageHoldsRLock = true := by decide

/-! ### Close gets its lock -/

/-- every step strictly decreases the measure … -/
theorem step_decreases (drains : Bool) (s s' : Sys) (t : Step) (h : step drains s t = some s') :
    Life.measure s' < Life.measure s := by
  cases t <;> simp only [step] at h <;> split at h <;> simp at h <;> subst h
  all_goals (rename_i hc; simp only [Life.measure]; simp_all; try omega)

/-- … and while the closer waits, some step is enabled: **no deadlock**, whatever the fill level
of the queue (even full, even unbuffered) and however many packages are pending. -/
theorem c13_no_deadlock (s : Sys) (hw : s.c = .waiting) (hf : s.fill ≤ s.cap) :
    enabled closeDrainsWhileLocking s ≠ [] := by
  have hd : closeDrainsWhileLocking = true := by decide
  rw [hd]
  unfold enabled allSteps
  cases hr : s.r with
  | released =>
    have : (step true s .lock).isSome = true := by simp [step, hw, hr]
    intro h
    have hm : Step.lock ∈ List.filter (fun t => (step true s t).isSome) [.deliver, .handoff, .release, .drain, .lock] := by
      simp [List.mem_filter, this]
    rw [h] at hm; simp at hm
  | holding =>
    by_cases hp : s.pending = 0
    · have : (step true s .release).isSome = true := by simp [step, hr, hp]
      intro h
      have hm : Step.release ∈ List.filter (fun t => (step true s t).isSome) [.deliver, .handoff, .release, .drain, .lock] := by
        simp [List.mem_filter, this]
      rw [h] at hm; simp at hm
    · by_cases hfull : s.fill < s.cap
      · have : (step true s .deliver).isSome = true := by simp [step, hr, hfull]; omega
        intro h
        have hm : Step.deliver ∈ List.filter (fun t => (step true s t).isSome) [.deliver, .handoff, .release, .drain, .lock] := by
          simp [List.mem_filter, this]
        rw [h] at hm; simp at hm
      · by_cases hz : s.fill = 0
        · have : (step true s .handoff).isSome = true := by simp [step, hr, hw, hz]; omega
          intro h
          have hm : Step.handoff ∈ List.filter (fun t => (step true s t).isSome) [.deliver, .handoff, .release, .drain, .lock] := by
            simp [List.mem_filter, this]
          rw [h] at hm; simp at hm
        · have : (step true s .drain).isSome = true := by simp [step, hw]; omega
          intro h
          have hm : Step.drain ∈ List.filter (fun t => (step true s t).isSome) [.deliver, .handoff, .release, .drain, .lock] := by
            simp [List.mem_filter, this]
          rw [h] at hm; simp at hm

/-- a run: a list of steps, each enabled in turn -/
def runSteps (drains : Bool) : Sys → List Step → Option Sys
  | s, [] => some s
  | s, t :: ts => match step drains s t with
    | some s' => runSteps drains s' ts
    | none => none

/-- **Close returns in bounded time**: every run (any schedule of reader and closer steps) has at
most `Life.measure s` steps — 2·pending + fill + 2 — so, with no deadlock, the lock is acquired after
at most that many steps. -/
theorem c13_close_bounded (drains : Bool) (ts : List Step) : ∀ (s s' : Sys),
    runSteps drains s ts = some s' → ts.length + Life.measure s' ≤ Life.measure s := by
  induction ts with
  | nil => intro s s' h; simp [runSteps] at h; subst h; simp
  | cons t ts ih =>
    intro s s' h
    simp only [runSteps] at h
    cases hs : step drains s t with
    | none => simp [hs] at h
    | some s1 =>
      rw [hs] at h
      have := ih s1 s' h
      have hd := step_decreases drains s s1 t hs
      simp only [List.length_cons]; omega

/-- the invariant `fill ≤ cap` is preserved -/
theorem step_fill_le (drains : Bool) (s s' : Sys) (t : Step) (h : step drains s t = some s')
    (hf : s.fill ≤ s.cap) : s'.fill ≤ s'.cap ∧ s'.cap = s.cap := by
  cases t <;> simp only [step] at h <;> split at h <;> simp at h <;> subst h
  all_goals (rename_i hc; simp_all; try omega)

/-- what the repair was needed for: WITHOUT the draining, a reader blocked on the full queue while
holding the read lock and a closer waiting for the write lock is a deadlock (the state a response
abandoned with more packages than the queue holds leads to). -/
theorem c13_deadlock_without_draining :
    enabled false { cap := 2, fill := 2, pending := 1, r := .holding, c := .waiting } = [] := by decide

/-- non-vacuity: the same state with the draining makes progress and reaches the lock -/
example : runSteps true { cap := 2, fill := 2, pending := 1, r := .holding, c := .waiting }
    [.drain, .deliver, .release, .lock] = some { cap := 2, fill := 2, pending := 0, r := .released, c := .locked } := by
  decide

end Dblib.Props.C13
