/- Line-protocol driver: one case per input line, one canonical answer line per case. -/
import Dblib.Model.PacketQueueDriver
import Dblib.Model.Isolation
import Dblib.Model.ChanRxDriver
import Dblib.Model.UseDriver
import Dblib.Model.Value
import Dblib.Model.PacketReaderDriver
import Dblib.Model.Mux
import Dblib.Model.Life
import Dblib.Model.LoginRecord
import Dblib.Model.LoginDriver
import Dblib.Model.Codec.All
import Dblib.Model.ChanTxDriver
import Dblib.Model.Decimal
import Dblib.Model.Dsn
import Dblib.Model.NamePool
import Dblib.Model.Capability

open Dblib

def handle (line : String) : String :=
  match words line with
  | "pq" :: args => PQ.run args
  | "iso" :: args => Isolation.run args
  | "rx" :: args => Codec.runRx args
  -- `cfail<j>` in the callback script: the consumer's context ends before its callback returns the error; the
  -- rest of the response, already received, is consumed all the same: the same round as `fail<j>`
  | "use" :: a :: b :: spec :: rest => Codec.runUse (a :: b :: spec.replace "cfail" "fail" :: rest)
  | "use" :: args => Codec.runUse args
  -- the same packets brought to the channel by the connection's reader goroutine: the same events
  | "rxr" :: args => Codec.runRx args
  | "user" :: a :: b :: spec :: rest => Codec.runUse (a :: b :: spec.replace "cfail" "fail" :: rest)
  | "user" :: args => Codec.runUse args
  | "val" :: args => Value.run args
  | "cal" :: args => Value.runCal args
  | "rd" :: args => Reader.run args
  | "rdraw" :: args => Reader.runRaw args
  | "wf" :: args => Reader.runWf args
  | "mux" :: args => Mux.run args
  | "life" :: args => Life.run args
  | "lr" :: args => LoginRecord.run args
  | "login" :: args => Login.run args
  | "pkg" :: args => Codec.run args
  | "tx" :: args => Tx.run args
  | "dec" :: args => Decimal.run args
  | "dsn" :: args => Dsn.run args
  | "pool" :: args => NamePool.run args
  | "cap" :: args => Capability.run args
  | _ => "bad-model"

partial def loop (h : IO.FS.Stream) (out : IO.FS.Stream) : IO Unit := do
  let line ← h.getLine
  if line.isEmpty then return ()
  out.putStrLn (handle ((line.dropEndWhile (· == (Char.ofNat 10))).toString))
  loop h out

def main : IO Unit := do
  let out ← IO.getStdout
  loop (← IO.getStdin) out
  out.flush
