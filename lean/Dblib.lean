-- Root of the library: models (core-only) and property theorems.
import Dblib.Util
import Dblib.Model.PacketQueue
import Dblib.Model.PacketQueueDriver
import Dblib.Model.Isolation
import Dblib.Model.Decimal
import Dblib.Model.Dsn
import Dblib.Model.NamePool
import Dblib.Model.Capability
import Dblib.Model.ChanTx
import Dblib.Model.ChanTxDriver
import Dblib.Model.Wire
import Dblib.Props.C01
import Dblib.Props.C15
import Dblib.Props.C16
import Dblib.Props.C18
import Dblib.Props.C19
import Dblib.Props.C20
