import Dblib.Util
import Dblib.Model.PacketQueue
import Dblib.Model.PacketQueueDriver
