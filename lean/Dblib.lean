-- Root of the library: models (core-only) and property theorems.
import Dblib.Util
import Dblib.Model.PacketQueue
import Dblib.Model.PacketQueueDriver
import Dblib.Model.Isolation
import Dblib.Model.Decimal
import Dblib.Model.Dsn
import Dblib.Model.NamePool
import Dblib.Model.Capability
import Dblib.Props.C15
import Dblib.Props.C20
