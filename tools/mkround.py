#!/usr/bin/env python3
"""tools/mkround.py <ID> <suffix> [extra]: mutation prompt for another round, listing the sites of all earlier seeded changes of that property"""
import json, sys, glob, subprocess
pid, suf = sys.argv[1], sys.argv[2]
extra = sys.argv[3] if len(sys.argv) > 3 else ""
sites = []
for m in sorted(glob.glob(f'/verif/seeded/{pid}-*/meta.json')):
    try: d = json.load(open(m))
    except Exception: continue
    s = d.get('summary', '').replace('\n', ' ')
    sites.append(s[:160])
hint = "- Other engineers already produced changes for this property at these sites: " + " || ".join(sites) + ". Choose a DIFFERENT function and a different mechanism from all of them." if sites else ""
subprocess.run(['python3', '/verif/tools/mkmutprompt.py', pid, suf, (hint + " " + extra).strip()])
