#!/bin/bash
# tools/seedtest.sh <property-id> <patch-file> [tier]   — apply a seeded change to /repo, run the check, undo.
set -u
ID=$1; PATCH=$2; TIER=${3:-quick}
cd /repo || exit 2
if ! git diff --quiet; then echo "repo has uncommitted changes"; exit 2; fi
git apply "$PATCH" || { echo "patch does not apply"; exit 2; }
cp /verif/evidence/$ID.json /verif/.work/evidence_$ID.saved 2>/dev/null
cd /verif && ./check "$ID" "$TIER" 2>&1 | grep -E "VIOLATION|KNOWN-FINDING|cases," | cut -c1-300
RC=${PIPESTATUS[0]}
git -C /repo checkout -- . 
# the evidence file describes the unchanged tree: put it back
cp /verif/.work/evidence_$ID.saved /verif/evidence/$ID.json 2>/dev/null
echo "check exit: $RC"
