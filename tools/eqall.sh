#!/bin/bash
# tools/eqall.sh [names…] — the harmless rewrites (harmless/<ID>-eq<n>.diff: behaviour-preserving refactorings written by
# independent sub-agents): apply each to /repo, run the quick check of its property, undo. Every line must say exit=0.
# (Do not run while anything else is checking against /repo.)
cd /verif
NAMES=${@:-$(ls harmless | grep '\.diff$' | sed 's/\.diff$//')}
for n in $NAMES; do
  P=${n%%-*}
  OUT=$(tools/seedtest.sh $P /verif/harmless/$n.diff quick 2>&1)
  RC=$(echo "$OUT" | grep -o "check exit: [0-9]*" | grep -o "[0-9]*$")
  SUM=$(echo "$OUT" | grep "quick:" | sed 's/.*quick: //' | cut -c1-110)
  echo "$n exit=$RC | $SUM"
done
