#!/bin/bash
# tools/seedverify.sh <ID> [name]  — confirm a seeded change in /tmp/mut_<ID>: suite passes with it, demo fails with it and passes
# without it; then store it under /verif/seeded/<name>/ and remove the worktree.
set -u
ID=$1; NAME=${2:-$ID}; W=/tmp/mut_$ID
export GOFLAGS=-mod=mod GOPROXY=off GOSUMDB=off GOTOOLCHAIN=local
cd $W || exit 2
DEMO=$(git status --porcelain | grep '^??' | awk '{print $2}' | grep -E 'demo.*\.go$|demo/' | head -1)
echo "demo file: $DEMO"
[ -z "$DEMO" ] && { echo "no demo found"; exit 2; }
mkdir -p /tmp/seed_aside && mv "$DEMO" /tmp/seed_aside/demo_saved
go build ./... || { echo "BUILD FAILS"; exit 1; }
if go test -vet=off -count=1 ./... >/tmp/seed_suite.log 2>&1; then echo "suite with change: PASS"; else echo "suite with change: FAIL"; tail -5 /tmp/seed_suite.log; fi
mv /tmp/seed_aside/demo_saved "$DEMO"
PKG=./$(dirname "$DEMO")
if go test -vet=off -count=1 -run 'Demo' $PKG >/tmp/seed_demo1.log 2>&1; then echo "demo with change: PASS (unexpected)"; else echo "demo with change: FAIL (expected)"; fi
git diff > /tmp/seed_change.diff
git apply -R /tmp/seed_change.diff
if go test -vet=off -count=1 -run 'Demo' $PKG >/tmp/seed_demo2.log 2>&1; then echo "demo without change: PASS (expected)"; else echo "demo without change: FAIL (unexpected)"; tail -5 /tmp/seed_demo2.log; fi
git apply /tmp/seed_change.diff
D=/verif/seeded/$NAME; mkdir -p $D
git diff > $D/patch.diff
cp "$DEMO" $D/
cp meta.json $D/meta.json 2>/dev/null
echo "stored in $D"
