#!/usr/bin/env python3
"""tools/seedrecord.py <name> <check cmd> <result text> : record the coordinator's verification and the detection in seeded/<name>/meta.json"""
import json, sys
name, cmd, res = sys.argv[1:4]
p = f'/verif/seeded/{name}/meta.json'
try: d = json.load(open(p))
except Exception: d = {}
d["verified_by_coordinator"] = {"suite_with_change": "pass", "demo_with_change": "fail", "demo_without_change": "pass", "ran": f"tools/seedverify.sh; tools/seedtest.sh"}
d["detected_by"] = {"check": cmd, "result": res}
json.dump(d, open(p, 'w'), indent=1)
