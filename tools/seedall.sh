#!/bin/bash
# tools/seedall.sh [names…] — regression over the seeded changes: apply each to /repo, run the quick check of the
# property it was seeded for, undo; prints one line per change: name, exit code, kind of the first replay.
# (Do not run while anything else is checking against /repo.)
cd /verif
NAMES=${@:-$(ls seeded)}
for n in $NAMES; do
  P=${n%%-*}
  [ -f seeded/$n/patch.diff ] || continue
  rm -f replays/$P-*.json
  OUT=$(tools/seedtest.sh $P /verif/seeded/$n/patch.diff quick 2>&1)
  RC=$(echo "$OUT" | grep -o "check exit: [0-9]*" | grep -o "[0-9]*$")
  V=$(echo "$OUT" | grep -c "^VIOLATION")
  NF=$(echo "$OUT" | grep "^VIOLATION" | grep -c "no-failing-input-found")
  SUM=$(echo "$OUT" | grep "quick:" | sed 's/.*quick: //' | cut -c1-110)
  KIND="failing-input"; [ "$V" -gt 0 ] && [ "$V" -eq "$NF" ] && KIND="NO-FAILING-INPUT"; [ "$V" -eq 0 ] && KIND="MISSED"
  echo "$n exit=$RC $KIND | $SUM"
done
