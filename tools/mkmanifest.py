#!/usr/bin/env python3
"""Regenerates /verif/MANIFEST.json from the table below (kept valid against the schema)."""
import json, os, subprocess
V = os.path.dirname(os.path.dirname(os.path.abspath(__file__)))

HOOK_COMMITS = ["189fd6a", "97bf5b6", "790267e"]

# id -> (technique, level text, level note, design ref)
CLAIMED = {
 "C02": ("Lean 4 proof that the transcribed receive path (WritePacket / tryParsePackage parse-or-rollback loop; packet reader header-then-body loop) yields the same events for every packetisation and read partition, for any parser family with the incremental law, instantiated with the transcribed package decoders + correspondence with the real Channel.WritePacket and the real reader goroutine",
         "Proof: for every response that parses whole, every cut of it into packet bodies (any number, any sizes incl. 1-byte bodies) produces exactly the events of the single-packet delivery — same packages, hook calls, errors, same order, each once — because every parser the channel can select satisfies the incremental law (C07, per decoder; instantiated in Props/C02/Concrete for the decoders of the Basic and Cursor groups; ROW/PARAMS/formats follow with the fields group); the packet reader delivers the same packets for every partition of the byte stream into reads incl. reads that split the 8-byte header (Props/C14 c02_chunking_irrelevant). Tied to the code by feeding the real Channel.WritePacket every single cut, all pairs of cuts, random cut sets, all 2^(n-1) cut sets of short responses and header-only packets (oracle: same as the whole-response run of the real code) and by driving the real reader goroutine over an in-memory transport with read schedules.",
         "Trusted: Lean kernel; hand transcription of channel.go's receive loop and of packet.go/packetHeader.go tied by the harness; PacketQueue as byte FIFO (C15); responses built from the package kinds the codec model covers so far; net.Conn read semantics.",
         "DESIGN.md §7 C02"),
 "C03": ("Lean 4 theorems over the transcribed receive loop (end-of-message handling, synthetic DONE) and the transcribed NextPackageUntil, incl. an induction over histories of responses + correspondence with the real WritePacket/NextPackageUntil on random histories",
         "Proof: for every history of responses, each parsing whole and each cut into packets in any way, the packages delivered are the concatenation of what each response delivers on its own: its pass-through packages in order then one final DONE supplied by the library unless the response's own last recorded package is a DONE with final status (c03_responses_isolated; false before the repair 58e2a2c, where the decision leaked from the previous response); draining with a nil callback or after a callback error consumes exactly up to and including that final DONE and leaves the next response untouched (c03_drain_exact, c03_rounds_isolated); instantiated with the transcribed decoders. Tied to the code by random histories of 1..4 responses read round by round with the real NextPackageUntil and succeeding, nil, failing and early-stopping callbacks.",
         "Trusted: Lean kernel; hand transcriptions of the receive loop and of NextPackageUntil tied by the harness; a DONE with final status is the last package of its response; waiting for packets is the model outcome `blocked` (wall-clock: C13/C14); the tx-side Reset after a message is C01's.",
         "DESIGN.md §7 C03"),
 "C11": ("Lean 4 theorems over the transcribed handleSpecialPackage / hook dispatch inside the receive loop and the EED collection of NextPackageUntil + correspondence with the real code (hooks registered before and between responses)",
         "Proof: for every packetisation the events of a response are those of its packages in order (c11_events_of_any_cut: a retry after a fragmented package calls no hook twice, because special handling happens after a successful parse only); a non-informational EED calls every registered hook exactly once in registration order and is then delivered; an informational EED calls nothing and is not delivered; an ENVCHANGE applies PACKSIZE and calls every hook once per member with type/old/new in member order and is not delivered; when the callback fails the error carries the EED packages seen so far in order (c11_error_carries_messages); instantiated with the transcribed EED/ENVCHANGE decoders. Tied to the code by random histories with 0..2 initial hooks of each kind, hooks added between responses and between packets, and callbacks that succeed, are nil or fail.",
         "Trusted: Lean kernel; hand transcriptions tied by the harness; the hook lists' mutex and calls from other goroutines are not modelled (hooks are registered from the consumer's goroutine between packets); errors.Is on the returned error is checked on the real code only.",
         "DESIGN.md §7 C11"),
 "C14": ("Lean 4 theorems over the transcribed packet reader (header loop, body loop, EOF/timeout handling) and the receive loop: clean prefix for every truncation point + the real reader goroutine over an in-memory transport that ends at every byte offset",
         "Proof: for every list of packets, every byte offset k at which the stream ends, every read schedule and every kind of end (EOF, error, hang) the reader delivers exactly the packets that lie completely within the first k bytes, in order, and then reports the failure (or waits, for a hanging transport, bounded by the read timeout which is a parameter); the channel emits from the first k bytes of a response exactly the events of the packages that have arrived completely and no synthetic final DONE before the EOM packet is complete (c14_channel_clean_prefix, instantiated with the transcribed decoders). Tied to the code by running the real reader goroutine on streams of 1..3 packets cut at every offset with reset / hang / EOF. Partial: the wall-clock bound (read timeout) is observed, not proved; failures during a request write are C13's scenarios.",
         "Trusted: Lean kernel; hand transcription of packet.go/packetHeader.go/conn.go's read loop tied by the harness; net.Conn read semantics; PacketReadTimeout = 1 s in the harness.",
         "DESIGN.md §7 C14"),
 "C06": ("Lean 4 round-trip / length-field / layout theorems over shallow parser-monad transcriptions of every package codec + registry harness (real WriteTo/ReadFrom vs model, independent TDS-layout encoders/decoders)",
         "Proof, per package kind: decoding what the encoder wrote gives back the fields (up to the documented normalisation) and consumes exactly the bytes written; every length/count field equals what follows; server-only packages decode from an independently written layout encoder, client-only ones are recovered by an independent decoder; capability n is bit n%8 of byte len-1-n/8 for every mask length and subset; the login record clauses are in Props/C09 (regenerated layout). The models are tied to the code by the registry harness over every kind's generator. Defects found and repaired: EED length, ERROR reader, RETURNSTATUS token, CURUPDATE optional statement.",
         "Trusted: Lean kernel; hand transcriptions of ReadFrom/WriteTo tied by the harness; the TDS layouts written from knowledge of the protocol (no server available offline); PacketQueue as byte FIFO (C15).",
         "DESIGN.md §7 C06"),
 "C07": ("Lean 4 proof of the incremental-parsing law for every transcribed decoder by closure lemmas of the parser monad + exhaustive prefix runs of the real parsers",
         "Proof: every decoder satisfies Incr (a successful parse consumes a prefix, is unaffected by what follows, and every shorter input is not-enough-bytes: never ok, never another error, never a panic), proved compositionally along the decoder's syntax from closure lemmas (bind, take, typed reads, loops); hence every proper prefix of every valid encoding is not-enough-bytes and the complete bytes parse as if the truncated attempt had not happened. Tied to the code by decoding every proper prefix of every generated encoding with the real ReadFrom on a bounded queue.",
         "Trusted: Lean kernel; transcription of each read site's error mapping (ErrNotEnoughBytes returned or %w-wrapped) tied by the prefix correspondence; a fresh package per attempt.",
         "DESIGN.md §7 C07"),
 "C10": ("Lean 4 totality theorems (no decoder returns panic on any byte string) over the transcribed decoders with explicit panic outcomes + mutation / arbitrary-byte runs of the real parsers under recover",
         "Proof: for every transcribed package decoder and every byte string the result is a value, not-enough-bytes or an error, never a panic (the models have an explicit panic outcome where Go indexes, slices or allocates with a computed length, so the statement can be false — it was for LANGUAGE length 0); the packet reader rejects header lengths below 8; PacketQueue.Bytes checks availability before allocating (allocation bounded by the received bytes). Tied to the code by boundary and random mutations of valid encodings and arbitrary bytes after each of the 256 tokens, real ReadFrom under recover vs model.",
         "Trusted: Lean kernel; transcriptions tied by the harness; peak heap is argued from the availability check, not measured per case.",
         "DESIGN.md §7 C10"),
 "C12": ("Lean 4 theorems over an interleaving model of channel id allocation and a model of the reader's routing loop, parameterised by structural facts regenerated from conn.go/channel.go + concurrent runs of the real Conn against a multiplexing peer",
         "Partial by nature (data-race freedom and the scheduler are runtime behaviour). Proved: for every number of threads and every schedule of their shared-memory accesses the ids handed out by the atomic fetch-and-add allocation are pairwise distinct (with the non-atomic load/add of the old code a 4-step schedule hands out a duplicate); after routing any interleaving of packets the state of channel c is that of processing exactly the sub-sequence with header channel c, in order; packets for unregistered ids yield one connection error each and change nothing; the facts the model rests on (one atomic RMW for the id, every access of the channel map under its lock, header-only packets delivered with the type NewChannel asserts) are regenerated from the source on every run. Outgoing ids/packet numbers are C01's theorems. The harness runs concurrent NewChannel/receive/send against a multiplexing peer and checks ids, per-channel sequences, error counts and headers; the thorough tier runs the harness built with the race detector (GORACE=halt_on_error=1; every case in its own process), so a reported data race is a violation with the case as failing input — supporting evidence for race freedom, not a proof. Defects found and repaired: PROTACK type mismatch (231f70d), non-atomic id allocation and unlocked map access (ab106bf).",
         "Trusted: Lean kernel; the extractor's structural facts; Go's sync/atomic and RWMutex; the schedules explored on the real code are whatever the scheduler produces; data-race freedom itself is not a theorem.",
         "DESIGN.md §7 C12"),
 "C13": ("Lean 4 theorems over small state machines of the select of NextPackage, the per-packet context check and the close/lock protocol, parameterised by structural facts regenerated from channel.go/conn.go (go/ast) + scenario scripts on the real code under a watchdog",
         "Partial by nature (wall-clock promptness, the Go scheduler, select and RWMutex are runtime behaviour no theorem exhibits). Proved, at the structural facts regenerated from the source on every run: with the caller's or the connection's context done NextPackage has a result at once in every state and it is the closed condition, an already queued package/error or the context error; after Close every receive reports closed; a send whose context is done before the first packet writes nothing; while Close waits for the write lock some step is always enabled (no deadlock, for any fill level incl. full and unbuffered queues) and every schedule reaches the lock within 2*pending+fill+2 steps; without the draining (the code before fix 96477eb) the deadlock state is exhibited. The scenario harness runs the real calls (cancel/close/abandoned responses of capacity-2..capacity+8 packages, reader exit) under a watchdog and compares with the model's allowed answers. Defects found and repaired: Close deadlock (96477eb), double Close panic (0a9ad6c), reader outliving Conn.Close (94554e5).",
         "Trusted: Lean kernel; the extractor's structural facts (read lock held across sends to the package queue, draining goroutine before Lock, context cases of the selects); Go runtime semantics of select (any ready case), RWMutex (a waiting writer excludes new readers), channels; 1.5 s watchdog as the observation of 'bounded'.",
         "DESIGN.md §7 C13"),
 "C09": ("Lean 4 theorems over the regenerated login-record layout (go/ast translation of LoginConfig.pack) + wire-level oracle with the peer's private key",
         "Proof: for the layout regenerated from LoginConfig.pack on every run and every encrypted mode, the login record is identical for any two passwords (so it cannot contain the password in any encoding), its password slot is 31 zero bytes, lseclogin announces the extended-plus protocol; in the plain flow the password is in its slot (control); the record has its fixed size, oversized fields are rejected and fitting ones accepted. Partial by nature for the rest: that RSA-OAEP hides its input and that crypto/rand is fresh are cryptographic assumptions; the ciphertext messages are not modelled in Lean but checked on the real code by decrypting every ciphertext with the peer's private key (nonce || secret, 32-byte session key), searching all written bytes and error texts for every secret, and comparing two logins for freshness.",
         "Trusted: Lean kernel; the extractor's translation of pack() (unrecognised statements are an error = broken tie); writeString/writeBasedOnEndian semantics transcribed by hand and tied by the `lr` correspondence; crypto/rsa, crypto/rand.",
         "DESIGN.md §7 C09"),
 "C08": ("Lean 4 proof that the transcribed Login accepts exactly the regular acceptance language (both flows) + correspondence with Channel.Login against a scripted peer (all single-edit mutants of the valid scripts)",
         "Proof: for every configuration and every sequence of delivered packages, the model of Channel.Login reports success iff the sequence is a valid acceptance (plain: LOGINACK(SUCCEED), DONE(FINAL); encrypted: LOGINACK(NEGOTIATE), MSG(ENCRYPT4), PARAMFMT(3), PARAMS(INT4=1, key, nonce) with a usable key, DONE, then after any non-acknowledgement packages LOGINACK(SUCCEED), CAPABILITY not all-zero, DONE(FINAL)); every other sequence is an error or a wait bounded by the context, never a crash. The model is tied to login.go by running the real Login against a scripted in-memory peer on the valid scripts, all single-edit mutants and random multi-edit scripts; the oracle also checks Caps and PacketSize after success. The vacuous final-DONE check was found and repaired (fc85caa).",
         "Trusted: Lean kernel; hand transcription of login.go tied by the harness; RSA/PEM handling is a parameter (keyOK) exercised with a real 1024-bit key; replies are sequences of well-formed packages (byte-level malformation is C10); wall-clock bound of the wait = the caller's context (partial: modelled as the outcome `blocked`).",
         "DESIGN.md §7 C08"),
 "C17": ("Lean 4 totality and round-trip proofs over the byte-level transcription of dsn.ParseSimple/FormatSimple/tagToField + correspondence incl. invalid UTF-8; URI form by oracle on the real code",
         "Proof (simple form): for all struct shapes, states and byte strings parseSimple never panics (every Go index/slice is an explicit bounds check in the model); parse(format(m)) = m for all string values free of quotes, backslashes, control bytes that %q leaves unchanged, all bools, all int64; a later key or alias overrides an earlier one; a key matching no field (including the empty key) is rejected. The URI form (net/url) is not modelled: it is covered by the property oracle on the real FormatURI/ParseURI only (stated as partial). Four panics, the KEY-substring defect and the empty-key alias were found and repaired.",
         "Trusted: Lean kernel; %q of non-ASCII runes, strconv.ParseBool/ParseInt, sort.Strings, reflection (embedded structs flattened, json names distinct), net/url for the URI leg; model tied to the code by the harness. Known finding: non-printable non-control runes do not round-trip in the simple form.",
         "DESIGN.md §7 C17"),
 "C16": ("Lean 4 digit-list arithmetic proofs over the transcribed Decimal.String/SetString/sanity + correspondence with asetypes.Decimal and a math/big.Rat oracle",
         "Proof: for every precision, every scale 0..precision and every integer with at most precision digits, SetString(String(d)) gives back the value; the text has the exact shape sign/integer digits without leading zeros/point/fraction without trailing zeros and denotes exactly i/10^scale; a numeral parses to exactly its value x 10^scale iff it is representable (digits beyond the scale all zero, at most precision digits), everything else (second point, garbage, non-zero digit beyond the scale, too many digits) is an error; exactly the pairs 0 <= scale <= precision <= 38 pass construction. The defects found (silent value change, negative scale) were repaired (fix commits 39e6d79, 5e05441).",
         "Trusted: Lean kernel; hand-restated Go stdlib behaviour (strings.TrimSpace/Split/Trim*, big.Int.SetString(_,10) syntax, %0Ns padding of big.Int text) tied to the real code only by the correspondence harness; text must be valid UTF-8.",
         "DESIGN.md §7 C16"),
 "C18": ("Lean 4 invariant proof over all operation sequences and all resolutions of the nondeterminism of an abstract pool model + validation of recorded concurrent histories of the real pool by the proved-sound Lean validator and an independent Go oracle",
         "Proof: for every sequence of acquire/release/double release/release nil/gc and every nondeterministic choice (which pooled id is popped, mint, what GC drops) pooled and held ids are pairwise distinct, ids are >= 1, texts are the format applied to the id and injective in the id; release clears and is idempotent; the history validator is sound (accepted history => no two live names share id or text) and complete for model histories. Real concurrent histories (1..64 goroutines, forced GC, -race child in the thorough tier) are recorded and validated.",
         "Trusted: Lean kernel; linearizability of sync.Pool and atomic.AddUint64 (what lets a concurrent history be read as a sequence); logged live intervals lie inside the real ones; a Name is not copied by value; uint64 wrap-around not modelled. Concurrency itself (the Go memory model, the scheduler) is outside the theorem: partial by nature, the race detector run is supporting evidence.",
         "DESIGN.md §7 C18"),
 "C01": ("Lean 4 invariant proof over the transcribed transmit path (QueuePackage/sendPackets/sendPacket/SendRemainingPackets on the PacketQueue model) + packet-level correspondence with the real Channel over a capturing transport",
         "Proof: for every packet size 9..65535 (containing the negotiable 256..65535), header type, channel id, start number, every list of package encodings and therefore every split over QueuePackage/SendPackage calls, the packets written are exactly: full bodies without EOM followed by one last packet of 1..body-size bytes with EOM, bodies concatenating to the encodings, header length = 8 + body, type/channel/consecutive numbers stamped; the independent wire reader parses the serialised bytes back to these packets; after the flush nothing is left behind; by induction the same for any sequence of messages with packet size changes between them. The exact-multiple defect was found by this check and repaired (fix commit 95c215f).",
         "Trusted: Lean kernel; hand transcription of channel.go's transmit path tied to the code by the harness (hdr/length/digest of every packet on the wire and queue state compared); packages modelled by their encoding; contexts, LastPkg acceptors and transport write errors not modelled.",
         "DESIGN.md §7 C01"),
 "C19": ("Lean 4 theorems over the transcribed capability/range evaluation with the version comparer as an abstract parameter + correspondence with capability.Target (integer comparer and table-shipped results of the default comparer)",
         "Proof: for all capability lists, ranges and versions, with the comparer abstract: Has is true exactly when some range contains the version (lower inclusive, upper exclusive, missing bound unbounded), capabilities without ranges are never reported, evaluated inverted/zero-width/unparsable ranges surface as errors, and for well-formed input the result is invariant under permutation of ranges and capabilities (given a total preorder). Known finding: the default comparer (hashicorp/go-version) is not a total preorder on dotted pre-release identifiers.",
         "Trusted: Lean kernel; hashicorp/go-version is a parameter (its results travel in the case line); the oracle's own semver precedence; hand transcription tied to the code by the harness.",
         "DESIGN.md §7 C19"),
 "C15": ("Lean 4 refinement proof (induction over operation sequences) of the transcribed PacketQueue model against a flat byte FIFO + step-by-step correspondence of the model with the real tds.PacketQueue",
         "Proof: for every operation sequence of the reader discipline (any length, any packets) the queue's answers equal the flat byte FIFO's (same bytes across packet boundaries, not-enough-bytes exactly when too few bytes are available, rollback restores all unread bytes, discard drops no unread byte, no panic); for every sequence of writes at packet sizes 9..65535 (changing between writes) the written bytes lie in packets of the size in force, each full before the next is opened. The model is a hand transcription of packetQueue.go; the tie is the correspondence harness (random + exhaustive-short op sequences incl. undisciplined ones and panics, state compared after every op).",
         "Trusted: Lean kernel; the correspondence harness as the tie between the hand-written model and packetQueue.go; indices modelled as Nat (no negative SetPosition), packet sizes 9..65535; the queue's mutex (no concurrent use of one queue) is not modelled.",
         "DESIGN.md §7 C15"),
 "C20": ("Lean 4 theorems over the regenerated sql2ase/ToGo tables (go/ast extractor) + correspondence of the set-valued model with repeated evaluations of the real functions",
         "Proof: for all integers, forward translation equals the specification, ToGo has exactly one possible answer, there-and-back is the identity on supported levels; the tables and the shape of ToGo (map range vs. map index) are regenerated from isolationlevels.go on every run, so the kernel re-checks the theorems against the current source.",
         "Trusted: Lean kernel; the extractor's recognition of the two ToGo shapes (anything else is `unknown` and breaks the proof); Go map iteration order modelled as 'any entry first'; sql.IsolationLevel.String is not modelled.",
         "DESIGN.md §7 C20"),
}

NOT_YET = {}

def main():
    props = [json.loads(l) for l in open(os.path.join(V, "properties.jsonl"))]
    checks, na = [], []
    for p in props:
        pid = p["id"]
        if pid in CLAIMED:
            tech, text, note, ref = CLAIMED[pid]
            checks.append({
                "property_id": pid,
                "quick_cmd": f"./check {pid} quick",
                "thorough_cmd": f"./check {pid} thorough",
                "evidence_file": f"/verif/evidence/{pid}.json",
                "replay_cmd_template": "./check replay {path}",
                "engine": "lean-proof+correspondence",
                "level_claimed": {"category": "proof", "text": text, "design_ref": ref},
                "level_note": note,
                "technique": tech,
            })
        else:
            na.append({"property_id": pid, "reason": NOT_YET.get(pid, "check not built yet in this revision of /verif (work in progress, see DESIGN.md §10); no technique other than Lean proof is substituted")})
    m = {
        "version": 1,
        "setup_cmd": "./check setup",
        "hooks": {
            "guard": "verif",
            "enable": "go build -tags verif (the harness module in /verif/go replaces github.com/SAP/go-dblib by /repo)",
            "baseline_off_cmd": "cd /repo && go test -mod=mod -json -vet=off -count=1 -timeout 25m ./...",
            "source_commits": HOOK_COMMITS,
            "add_only": True,
        },
        "engines": [
            {"name": "lean-proof+correspondence", "path": "/verif/check",
             "serves_properties": sorted(CLAIMED),
             "kind_free_text": "Lean 4 models and theorems (lean/), Gen/*.lean regenerated from /repo by go/cmd/extract on every run, Go correspondence harness + property oracles (go/cmd/harness, built with -tags verif against /repo)"},
        ],
        "checks": checks,
        "not_applicable": na,
        "notes": "Every check = extract (regenerate Lean from source) -> lake build of the property's theorems + #print axioms audit -> correspondence of the Lean model driver with the real code + property oracle on the real code. See DESIGN.md.",
    }
    json.dump(m, open(os.path.join(V, "MANIFEST.json"), "w"), indent=1)
    print("claimed:", sorted(CLAIMED), "not claimed:", len(na))

if __name__ == "__main__":
    main()
