#!/usr/bin/env python3
"""tools/mkmutprompt.py <ID> [suffix] -> /tmp/mutprompts/<ID><suffix>.txt : the brief of a seeded-change agent
(only the property text and its own scratch worktree; nothing from /verif)."""
import json, sys
pid = sys.argv[1]; suf = sys.argv[2] if len(sys.argv) > 2 else ""
tag = pid + suf
for l in open('/verif/properties.jsonl'):
    d = json.loads(l)
    if d['id'] == pid: break
else: sys.exit("unknown property")
a = d['anchors']
mech = "; ".join(f"{m['name']} ({m['where']})" for m in a.get('mechanism', []))
extra = sys.argv[3] if len(sys.argv) > 3 else ""
txt = f"""You are helping to evaluate how well a set of checks guards a Go library. Your job: produce ONE realistic change to the library that BREAKS the property below while still compiling and passing the library's existing test suite.

Rules
- Work ONLY in your own scratch git worktree: create it with `git -C /repo worktree add --detach /tmp/mut_{tag}` and work inside /tmp/mut_{tag}. Never modify /repo itself. Do not read or use anything under /verif.
- Every shell call needs: export GOFLAGS=-mod=mod GOPROXY=off GOSUMDB=off GOTOOLCHAIN=local  (no network).
- The change must (a) compile (`go build ./...`), (b) pass the existing tests unchanged (`go test -vet=off -count=1 ./...` in /tmp/mut_{tag}), (c) break the property, and (d) need something specific to manifest — a particular length or value, a multi-step sequence of operations, an unusual input, a particular interleaving, or two cooperating sites that each look fine alone — NOT something ordinary use would expose at once. Make it look like a plausible maintainer slip (refactoring error, off-by-one, wrong comparison, missed branch, reordered statements), a few lines, in the non-test Go sources (not in files with the build tag `verif`, not in tests).
- Deliver in /tmp/mut_{tag}: the change applied in the working tree (uncommitted), `patch.diff` (output of `git diff` for the library change only), a demonstration `demo_test.go` (a Go test placed in the package directory it tests, test names starting with TestDemo) that FAILS with the change and PASSES without it (verify both; do NOT use `git stash` — it is shared between all worktrees of /repo and other engineers work in parallel — use `git diff > patch.diff; git apply -R patch.diff; …; git apply patch.diff`), and `meta.json` with fields: property ("{pid}"), summary (what was changed), needs (what is needed for the breakage to manifest), commands (what you ran and what you observed). Keep demo_test.go out of patch.diff.
- Finish with a short report: the diff, why it breaks the property, what it needs to manifest, confirmation that the existing suite passes with it and that the demo fails with / passes without it. Leave the worktree in place.
{extra}
Property {pid}: {d['title']}
Statement: {d['statement']}
Quantifier: {d['quantifier']['text']}
Code anchors (files): {', '.join(a.get('files', []))}
Mechanisms: {mech}
"""
open(f'/tmp/mutprompts/{tag}.txt', 'w').write(txt)
print(f'/tmp/mutprompts/{tag}.txt')
