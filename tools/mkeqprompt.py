#!/usr/bin/env python3
"""tools/mkeqprompt.py <ID> -> /tmp/mutprompts/<ID>eq.txt : the brief of a harmless-rewrite agent (a refactoring
that keeps the property; used to see where the checks alarm on code in which the property still holds)."""
import json, sys
pid = sys.argv[1]; tag = pid + "eq"
for l in open('/verif/properties.jsonl'):
    d = json.loads(l)
    if d['id'] == pid: break
else: sys.exit("unknown property")
a = d['anchors']
mech = "; ".join(f"{m['name']} ({m['where']})" for m in a.get('mechanism', []))
txt = f"""You are helping to evaluate a set of checks that guards a Go library. Your job: produce THREE independent, realistic, behaviour-preserving rewrites (refactorings) of the code that implements the property below. The property must hold exactly as before after each of them, and every observable behaviour of the exported API (return values, errors returned or not and what they wrap, bytes written, panics) must stay the same — only the way the code is written changes.

Rules
- Work ONLY in your own scratch git worktree: create it with `git -C /repo worktree add --detach /tmp/mut_{tag}` and work inside /tmp/mut_{tag}. Never modify /repo itself. Do not read or use anything under /verif.
- Every shell call needs: export GOFLAGS=-mod=mod GOPROXY=off GOSUMDB=off GOTOOLCHAIN=local  (no network).
- Each rewrite is the kind of thing a maintainer does in a clean-up: turn a switch into an if/else chain or a table (or back), extract a helper function or inline one, rename local variables or unexported identifiers, reorder statements that do not depend on each other, replace a loop by an equivalent one, hoist a constant, change a comment, split a function in two, use a different but equivalent standard-library call. A few lines to a few dozen lines each, in the non-test Go sources that the anchors below name (not in files with the build tag `verif`, not in tests). The three rewrites should differ in kind and touch different functions where possible. Do NOT change exported names or signatures, error message texts, or anything a caller could observe.
- Each must compile (`go build ./...`) and pass the existing tests unchanged (`go test -vet=off -count=1 ./...`).
- Deliver in /tmp/mut_{tag}: `eq1.diff`, `eq2.diff`, `eq3.diff` — each the output of `git diff` for that one rewrite alone against the unmodified tree (apply one, save the diff, revert with `git apply -R`, then do the next; do NOT use `git stash`), and `meta.json` with fields: property ("{pid}"), rewrites (a list of three objects: file, function, kind, why_equivalent). Leave the working tree unmodified at the end (all three reverted) and leave the worktree in place.
- Finish with a short report listing the three rewrites and why each preserves behaviour.

Property {pid}: {d['title']}
Statement: {d['statement']}
Code anchors (files): {', '.join(a.get('files', []))}
Mechanisms: {mech}
"""
open(f'/tmp/mutprompts/{tag}.txt', 'w').write(txt)
print(f'/tmp/mutprompts/{tag}.txt')
